//! Tree-capable mock `BlockSource` with a scripted best tip, full / header-only / mixed block
//! modes, a "pruned stale branches" mode and fault injection at the k-th request.
use crate::tree::{make_block, mine, Tree, BITS_HEAVY, BITS_LIGHT};
use bitcoin::block::Header;
use bitcoin::hashes::Hash;
use bitcoin::pow::Work;
use bitcoin::{Block, BlockHash};
use lightning_block_sync::{BlockData, BlockHeaderData, BlockSource, BlockSourceError, BlockSourceResult};
use std::future::Future;
use std::sync::{Arc, Mutex};

#[derive(Clone, Copy, Debug, PartialEq, Eq, PartialOrd, Ord)]
pub enum SrcMode {
	Full,
	HeaderOnly,
	/// Odd-numbered nodes are served header-only (a BIP 157 style source).
	Mixed,
}

impl SrcMode {
	pub fn name(&self) -> &'static str {
		match self {
			SrcMode::Full => "full",
			SrcMode::HeaderOnly => "header_only",
			SrcMode::Mixed => "mixed",
		}
	}
	pub fn parse(s: &str) -> Option<Self> {
		[SrcMode::Full, SrcMode::HeaderOnly, SrcMode::Mixed].into_iter().find(|m| m.name() == s)
	}
	pub fn serves_full(&self, node: usize) -> bool {
		match self {
			SrcMode::Full => true,
			SrcMode::HeaderOnly => false,
			SrcMode::Mixed => node % 2 == 0,
		}
	}
}

pub const REQ_BEST: u8 = 0;
pub const REQ_HEADER: u8 = 1;
pub const REQ_BLOCK: u8 = 2;

#[derive(Clone, Copy, Debug, PartialEq, Eq, PartialOrd, Ord, Hash)]
pub enum FaultClass {
	ErrTransient,
	ErrPersistent,
	/// This and every later request of the same poll / start-up sync fail (transient kind).
	Outage,
	/// `get_best_block` names a block nobody can serve.
	BestUnknown,
	/// `get_best_block` names a fabricated child of the real best block whose proof of work fails.
	BestBadPow,
	/// `get_best_block` names a fabricated valid-PoW block whose parent is unknown (claims more work).
	BestOrphan,
	/// `get_best_block` names a fabricated valid-PoW child of the real best block with different
	/// `bits` (an impossible difficulty change on mainnet rules).
	BestBadBits,
	/// `get_header` answers with the header of a different block.
	HdrWrongHash,
	/// `get_header` answers with the requested header re-mined on a different `prev_blockhash`.
	HdrWrongPrev,
	/// `get_header` answers with the requested header but a nonce failing proof of work.
	HdrBadPow,
	/// `get_header` answers with the right header but claims height + 1 / - 1 (does not connect).
	HdrHeightPlus,
	HdrHeightMinus,
	/// `get_header` answers with the right header but claims more / less accumulated work.
	HdrWorkPlus,
	HdrWorkMinus,
	/// `get_block` answers with a different block of the tree.
	BlkWrong,
	/// `get_block` answers with the right block but a header nonce changed.
	BlkHeaderTampered,
	/// `get_block` answers with the right header and an extra transaction (merkle root mismatch).
	BlkBadMerkle,
}

pub const ALL_CLASSES: [FaultClass; 17] = [
	FaultClass::ErrTransient,
	FaultClass::ErrPersistent,
	FaultClass::Outage,
	FaultClass::BestUnknown,
	FaultClass::BestBadPow,
	FaultClass::BestOrphan,
	FaultClass::BestBadBits,
	FaultClass::HdrWrongHash,
	FaultClass::HdrWrongPrev,
	FaultClass::HdrBadPow,
	FaultClass::HdrHeightPlus,
	FaultClass::HdrHeightMinus,
	FaultClass::HdrWorkPlus,
	FaultClass::HdrWorkMinus,
	FaultClass::BlkWrong,
	FaultClass::BlkHeaderTampered,
	FaultClass::BlkBadMerkle,
];

impl FaultClass {
	pub fn name(&self) -> &'static str {
		match self {
			FaultClass::ErrTransient => "err_transient",
			FaultClass::ErrPersistent => "err_persistent",
			FaultClass::Outage => "outage",
			FaultClass::BestUnknown => "best_unknown",
			FaultClass::BestBadPow => "best_bad_pow",
			FaultClass::BestOrphan => "best_orphan",
			FaultClass::BestBadBits => "best_bad_bits",
			FaultClass::HdrWrongHash => "hdr_wrong_hash",
			FaultClass::HdrWrongPrev => "hdr_wrong_prev",
			FaultClass::HdrBadPow => "hdr_bad_pow",
			FaultClass::HdrHeightPlus => "hdr_height_plus",
			FaultClass::HdrHeightMinus => "hdr_height_minus",
			FaultClass::HdrWorkPlus => "hdr_work_plus",
			FaultClass::HdrWorkMinus => "hdr_work_minus",
			FaultClass::BlkWrong => "blk_wrong",
			FaultClass::BlkHeaderTampered => "blk_header_tampered",
			FaultClass::BlkBadMerkle => "blk_bad_merkle",
		}
	}
	pub fn parse(s: &str) -> Option<Self> {
		ALL_CLASSES.iter().copied().find(|c| c.name() == s)
	}
	pub fn index(&self) -> usize {
		ALL_CLASSES.iter().position(|c| c == self).unwrap()
	}
	/// The header itself is the right one (hashes, connects, proof of work), only the source's
	/// accompanying height / chainwork claim is false.
	pub fn is_metadata_lie(&self) -> bool {
		matches!(
			self,
			FaultClass::HdrHeightPlus | FaultClass::HdrHeightMinus | FaultClass::HdrWorkPlus | FaultClass::HdrWorkMinus
		)
	}
	/// Applicability to a request of `kind` about tree node `node` (-1: not a tree block).
	pub fn applies(&self, kind: u8, node: i64, tree: &Tree, mode: SrcMode, mainnet_rules: bool) -> bool {
		use FaultClass::*;
		match self {
			ErrTransient | ErrPersistent | Outage => true,
			BestUnknown | BestBadPow | BestOrphan => kind == REQ_BEST,
			BestBadBits => kind == REQ_BEST && mainnet_rules,
			HdrWrongHash => kind == REQ_HEADER && node >= 0 && tree.n > 1,
			HdrWrongPrev | HdrBadPow | HdrHeightPlus | HdrWorkPlus => kind == REQ_HEADER && node >= 0,
			HdrHeightMinus | HdrWorkMinus => kind == REQ_HEADER && node > 0,
			BlkWrong => kind == REQ_BLOCK && node >= 0 && tree.n > 1,
			BlkHeaderTampered => kind == REQ_BLOCK && node >= 0,
			BlkBadMerkle => kind == REQ_BLOCK && node >= 0 && mode.serves_full(node as usize),
		}
	}
}

#[derive(Clone, Copy, Debug, PartialEq, Eq, PartialOrd, Ord)]
pub struct Fault {
	/// Index of the request (counted over the scripted steps of a run) at which the fault fires.
	pub at: usize,
	pub class: FaultClass,
}

#[derive(Clone, Copy, Debug)]
pub struct Req {
	pub step: u32,
	pub kind: u8,
	/// Tree node the request is about, -1 if it names no (valid) tree block.
	pub node: i64,
}

struct Extra {
	hash: BlockHash,
	block: Block,
	height: u32,
	chainwork: Work,
}

struct State {
	best: usize,
	step: u32,
	faults_enabled: bool,
	faults: Vec<Fault>,
	outage: bool,
	forget_stale: bool,
	/// Requests of the scripted steps (faults refer to indices into this list).
	log: Vec<Req>,
	/// Requests made while faults are disabled (recovery polls).
	quiet_requests: u64,
	fired: Vec<(Fault, u32)>,
	extras: Vec<Extra>,
	/// Every header the source made up, with the fault class that made it up.
	fabricated: Vec<(BlockHash, FaultClass)>,
}

pub struct MockSource {
	pub tree: Arc<Tree>,
	pub mode: SrcMode,
	/// The poller under test applies mainnet difficulty rules (`Network::Bitcoin`).
	pub mainnet_rules: bool,
	st: Mutex<State>,
}

fn not_found() -> BlockSourceError {
	BlockSourceError::persistent("header not found")
}

impl MockSource {
	pub fn new(tree: Arc<Tree>, mode: SrcMode, mainnet_rules: bool, faults: Vec<Fault>, forget_stale: bool) -> Self {
		MockSource {
			tree,
			mode,
			mainnet_rules,
			st: Mutex::new(State {
				best: 0,
				step: 0,
				faults_enabled: true,
				faults,
				outage: false,
				forget_stale,
				log: Vec::new(),
				quiet_requests: 0,
				fired: Vec::new(),
				extras: Vec::new(),
				fabricated: Vec::new(),
			}),
		}
	}
	/// Starts a new step (poll or start-up sync) with the given best tip.
	pub fn begin_step(&self, best: usize, faults_enabled: bool) {
		let mut s = self.st.lock().unwrap();
		s.best = best;
		s.step += 1;
		s.outage = false;
		s.faults_enabled = faults_enabled;
	}
	pub fn best(&self) -> usize {
		self.st.lock().unwrap().best
	}
	pub fn step(&self) -> u32 {
		self.st.lock().unwrap().step
	}
	pub fn log(&self) -> Vec<Req> {
		self.st.lock().unwrap().log.clone()
	}
	pub fn quiet_requests(&self) -> u64 {
		self.st.lock().unwrap().quiet_requests
	}
	/// (fault, step in which it fired)
	pub fn fired(&self) -> Vec<(Fault, u32)> {
		self.st.lock().unwrap().fired.clone()
	}
	pub fn fabricated_by(&self, h: &BlockHash) -> Option<FaultClass> {
		self.st.lock().unwrap().fabricated.iter().find(|(x, _)| x == h).map(|(_, c)| *c)
	}
	pub fn knows(&self, node: usize) -> bool {
		let s = self.st.lock().unwrap();
		!s.forget_stale || self.tree.is_ancestor_or_self(node, s.best)
	}

	/// Registers the request; returns the fault to apply, if any (Err = fail right away).
	fn enter(&self, s: &mut State, kind: u8, node: i64) -> Result<Option<FaultClass>, BlockSourceError> {
		if !s.faults_enabled {
			s.quiet_requests += 1;
			return Ok(None);
		}
		let k = s.log.len();
		s.log.push(Req { step: s.step, kind, node });
		if s.outage {
			return Err(BlockSourceError::transient("source down"));
		}
		let f = match s.faults.iter().find(|f| f.at == k) {
			Some(f) => *f,
			None => return Ok(None),
		};
		if !f.class.applies(kind, node, &self.tree, self.mode, self.mainnet_rules) {
			return Ok(None);
		}
		let step = s.step;
		s.fired.push((f, step));
		match f.class {
			FaultClass::ErrTransient => Err(BlockSourceError::transient("injected transient error")),
			FaultClass::ErrPersistent => Err(BlockSourceError::persistent("injected persistent error")),
			FaultClass::Outage => {
				s.outage = true;
				Err(BlockSourceError::transient("source down"))
			},
			c => Ok(Some(c)),
		}
	}

	fn header_data(&self, node: usize) -> BlockHeaderData {
		BlockHeaderData {
			header: self.tree.blocks[node].header,
			height: self.tree.height[node],
			chainwork: self.tree.work[node],
		}
	}

	fn do_best(&self) -> BlockSourceResult<(BlockHash, Option<u32>)> {
		let t = &self.tree;
		let mut s = self.st.lock().unwrap();
		let best = s.best;
		let fault = self.enter(&mut s, REQ_BEST, best as i64)?;
		let tag = 0x1000_0000 + s.extras.len() as u32;
		let time = t.blocks[best].header.time + 600;
		match fault {
			None => Ok((t.hash[best], Some(t.height[best]))),
			Some(FaultClass::BestUnknown) => {
				Ok((BlockHash::from_byte_array([0x5a; 32]), Some(t.height[best] + 1)))
			},
			Some(c) => {
				let (prev, bits) = match c {
					FaultClass::BestOrphan => (BlockHash::from_byte_array([0x42; 32]), BITS_LIGHT),
					FaultClass::BestBadBits => {
						let cur = t.blocks[best].header.bits.to_consensus();
						(t.hash[best], if cur == BITS_HEAVY { BITS_LIGHT } else { BITS_HEAVY })
					},
					_ => (t.hash[best], t.blocks[best].header.bits.to_consensus()),
				};
				let mut block = make_block(prev, tag, time, bits, false);
				if c == FaultClass::BestBadPow {
					block.header = mine(block.header, false);
				}
				let hash = block.block_hash();
				let height = t.height[best] + 1;
				let chainwork = t.work[best] + block.header.work();
				s.fabricated.push((hash, c));
				s.extras.push(Extra { hash, block, height, chainwork });
				Ok((hash, Some(height)))
			},
		}
	}

	fn do_header(&self, hash: &BlockHash) -> BlockSourceResult<BlockHeaderData> {
		let t = &self.tree;
		let mut s = self.st.lock().unwrap();
		let node = t.node_of(hash);
		let fault = self.enter(&mut s, REQ_HEADER, node.map(|n| n as i64).unwrap_or(-1))?;
		let node = match node {
			Some(n) => n,
			None => {
				return match s.extras.iter().find(|e| e.hash == *hash) {
					Some(e) => Ok(BlockHeaderData { header: e.block.header, height: e.height, chainwork: e.chainwork }),
					None => Err(not_found()),
				};
			},
		};
		if s.forget_stale && !t.is_ancestor_or_self(node, s.best) {
			return Err(not_found());
		}
		let mut d = self.header_data(node);
		let unit = t.light_work();
		match fault {
			None => {},
			Some(FaultClass::HdrWrongHash) => {
				let other = if node > 0 { t.parent[node] } else { t.children[0][0] };
				d = self.header_data(other);
			},
			Some(FaultClass::HdrWrongPrev) => {
				let mut h: Header = d.header;
				h.prev_blockhash = if node > 0 && t.parent[node] > 0 {
					t.hash[t.parent[t.parent[node]]]
				} else {
					BlockHash::from_byte_array([0x17; 32])
				};
				h.nonce = 0;
				d.header = mine(h, true);
				s.fabricated.push((d.header.block_hash(), FaultClass::HdrWrongPrev));
			},
			Some(FaultClass::HdrBadPow) => {
				let mut h: Header = d.header;
				h.nonce = h.nonce.wrapping_add(1);
				d.header = mine(h, false);
				s.fabricated.push((d.header.block_hash(), FaultClass::HdrBadPow));
			},
			Some(FaultClass::HdrHeightPlus) => d.height += 1,
			Some(FaultClass::HdrHeightMinus) => d.height -= 1,
			Some(FaultClass::HdrWorkPlus) => d.chainwork = d.chainwork + unit + unit + unit + unit,
			Some(FaultClass::HdrWorkMinus) => d.chainwork = d.chainwork - unit,
			Some(_) => {},
		}
		Ok(d)
	}

	fn do_block(&self, hash: &BlockHash) -> BlockSourceResult<BlockData> {
		let t = &self.tree;
		let mut s = self.st.lock().unwrap();
		let node = t.node_of(hash);
		let fault = self.enter(&mut s, REQ_BLOCK, node.map(|n| n as i64).unwrap_or(-1))?;
		let node = match node {
			Some(n) => n,
			None => {
				return match s.extras.iter().find(|e| e.hash == *hash) {
					Some(e) => Ok(BlockData::FullBlock(e.block.clone())),
					None => Err(not_found()),
				};
			},
		};
		if s.forget_stale && !t.is_ancestor_or_self(node, s.best) {
			return Err(not_found());
		}
		let mut block = t.blocks[node].clone();
		match fault {
			None => {},
			Some(FaultClass::BlkWrong) => {
				let other = if node > 0 { t.parent[node] } else { t.children[0][0] };
				block = t.blocks[other].clone();
			},
			Some(FaultClass::BlkHeaderTampered) => {
				let mut h = block.header;
				h.nonce = h.nonce.wrapping_add(1);
				block.header = mine(h, true);
				s.fabricated.push((block.header.block_hash(), FaultClass::BlkHeaderTampered));
			},
			Some(FaultClass::BlkBadMerkle) => {
				let extra = block.txdata[0].clone();
				block.txdata.push(extra);
			},
			Some(_) => {},
		}
		if self.mode.serves_full(node) {
			Ok(BlockData::FullBlock(block))
		} else {
			Ok(BlockData::HeaderOnly(block.header))
		}
	}
}

impl BlockSource for MockSource {
	fn get_header<'a>(
		&'a self, header_hash: &'a BlockHash, _height_hint: Option<u32>,
	) -> impl Future<Output = BlockSourceResult<BlockHeaderData>> + Send + 'a {
		async move { self.do_header(header_hash) }
	}
	fn get_block<'a>(
		&'a self, header_hash: &'a BlockHash,
	) -> impl Future<Output = BlockSourceResult<BlockData>> + Send + 'a {
		async move { self.do_block(header_hash) }
	}
	fn get_best_block<'a>(&'a self) -> impl Future<Output = BlockSourceResult<(BlockHash, Option<u32>)>> + Send + 'a {
		async move { self.do_best() }
	}
}
