//! C20 - the chain-sync client keeps listeners on one consistent chain at the best tip.
//!
//! Bounded exhaustive enumeration against the real `lightning_block_sync::{SpvClient,
//! poll::ChainPoller, init::synchronize_listeners}` (no tokio: the mock source returns ready
//! futures, driven by a hand-written `block_on`):
//!
//! * **trees**   every rooted block tree with <= N non-genesis blocks (regtest-difficulty headers
//!               mined by the harness; equal-height branches = equal-work ties), x every sequence
//!               of <= T successive best tips (any node), x every listener start node, x source
//!               mode (full blocks / header-only / mixed), x {fresh `HeaderCache`, cache+tip handed
//!               over by `synchronize_listeners`}; for `synchronize_listeners` two listeners on
//!               every ordered pair of nodes x every best tip x `BlockLocator` with / without
//!               `previous_blocks` x source with / without pruned stale branches.
//! * **faults**  for every run, one fault at every source request (every applicable class, see
//!               `source::FaultClass`); fault pairs on the smallest trees.
//! * **weights** trees whose blocks have different difficulty, so work and height disagree
//!               (shorter-but-heavier chains win; reorgs to a lower height).
//! * **evict**   fork depth = HEADER_CACHE_LIMIT - 1, =, + 1 (+3) on a 1014-block chain.
//! * **batch**   start-up sync over chains just below / above the 36-block fetch batches.
//!
//! Oracle (`run.rs`): a recording `chain::Listen` is replayed against the tree. Every
//! `blocks_disconnected(fork)` must name a proper ancestor of the listener's tip (right height),
//! every connected block must be a valid tree block whose parent is the listener's tip, at its true
//! height, with the data the source serves; no disconnect after a connect within a call. An
//! error-free poll must report Common / Better / Worse exactly as the true accumulated work says,
//! leave the listener at the reported better tip via the fork point (the LCA), or untouched. A
//! poll during which a fault fired may do anything consistent; two error-free recovery polls must
//! then reach the best tip without a skipped or repeated block. `synchronize_listeners` is judged
//! on the notifications alone when it fails and on "all listeners at the common tip" when it
//! succeeds. Invalid (fabricated) blocks must never reach a listener. A panic is a violation.
//!
//! `--opt lies=1` additionally injects false height / chainwork claims next to a correct header.
//! They are outside the property's fault list (the header itself hashes, connects and carries
//! valid work) and are off by default.
mod run;
mod source;
mod tree;

use mc_common::cli::{self, Tier};
use mc_common::evidence::{Evidence, Level};
use mc_common::findings::{self, Violation};
use mc_common::{json, par, Value};
use run::{execute, Flags, Kind, RunOut, Scenario};
use source::{Fault, FaultClass, Req, SrcMode, ALL_CLASSES, REQ_BLOCK, REQ_HEADER};
use std::collections::{BTreeMap, HashSet};
use std::sync::Arc;
use std::time::{Duration, Instant};
use tree::{rooted_trees, Tree, TreeSpec};

const PROP: &str = "C20";
const LIMIT: usize = lightning_block_sync::HEADER_CACHE_LIMIT as usize;

#[derive(Clone, Copy, PartialEq, Eq, Debug)]
enum Positions {
	/// A fault at every request of the scripted steps.
	All,
	/// Long parametric runs: requests near step/phase boundaries and every request that reveals a
	/// header-cache miss.
	Sparse,
	/// `Sparse` plus every request of the last scripted step (the deep reorg).
	LastStep,
}

#[derive(Clone, Debug)]
enum Gen {
	/// All tip sequences of length 1..=t for one (tree, mode, via_init, start).
	SpvTips { t_lo: usize, t_hi: usize },
	/// Fixed tip list.
	SpvFixed { tips: Vec<usize> },
	/// Start-up sync: second listener and best tip range over all nodes.
	InitAll,
	/// Start-up sync on fixed candidates: second listener over `others`, best tip fixed.
	InitFixed { others: Vec<usize>, best: usize },
}

#[derive(Clone, Debug)]
struct Item {
	phase: usize,
	family: &'static str,
	tree: TreeSpec,
	kind: Kind,
	mainnet: bool,
	mode: SrcMode,
	via_init: bool,
	start: usize,
	locator_prev: bool,
	forget_stale: bool,
	gen: Gen,
	faults: bool,
	pairs: bool,
	/// Also inject height / chainwork lies (outside the property's fault list; `--opt lies=1`).
	lies: bool,
	positions: Positions,
}

#[derive(Default)]
struct Acc {
	runs: u64,
	base_runs: u64,
	fault_runs: u64,
	pair_runs: u64,
	steps: u64,
	notifications: u64,
	requests: u64,
	fired: [u64; 17],
	refused: [u64; 17],
	flags: BTreeMap<&'static str, u64>,
	states: HashSet<u128>,
	per_family: BTreeMap<String, u64>,
	groups: BTreeMap<String, ((usize, usize, usize, String), Scenario, run::Failure, u64)>,
	violating_runs: u64,
	evict: BTreeMap<usize, (u64, u64)>, // fork depth -> (base runs, main-chain header requests in the reorg poll)
	batch_multi: u64,
	incomplete_items: u64,
	incomplete_by_phase: BTreeMap<usize, u64>,
	samples: Vec<Value>,
}

impl Acc {
	fn flag(&mut self, k: &'static str, v: bool) {
		if v {
			*self.flags.entry(k).or_insert(0) += 1;
		}
	}
	fn absorb_flags(&mut self, f: &Flags) {
		self.flag("reorg", f.reorg);
		self.flag("tie", f.tie);
		self.flag("worse", f.worse);
		self.flag("extend", f.extend);
		self.flag("common", f.common);
		self.flag("lower_height_reorg", f.lower_height_reorg);
		self.flag("ok_but_short", f.ok_but_short);
		self.flag("faulted_poll_err", f.faulted_poll_err);
		self.flag("left_at_fork_point", f.left_at_fork_point);
		self.flag("init_ok", f.init_ok);
		self.flag("init_disconnect", f.init_disconnect);
		self.flag("init_fallback", f.init_fallback);
		self.flag("init_unresolvable", f.init_unresolvable);
		self.flag("init_distinct_forks", f.init_distinct_forks);
		self.flag("init_down_sync", f.init_down_sync);
		self.flag("fault_harmless", f.fault_harmless);
	}
	fn merge(&mut self, o: Acc) {
		self.runs += o.runs;
		self.base_runs += o.base_runs;
		self.fault_runs += o.fault_runs;
		self.pair_runs += o.pair_runs;
		self.steps += o.steps;
		self.notifications += o.notifications;
		self.requests += o.requests;
		for i in 0..17 {
			self.fired[i] += o.fired[i];
			self.refused[i] += o.refused[i];
		}
		for (k, v) in o.flags {
			*self.flags.entry(k).or_insert(0) += v;
		}
		self.states.extend(o.states);
		for (k, v) in o.per_family {
			*self.per_family.entry(k).or_insert(0) += v;
		}
		for (k, v) in o.groups {
			self.add_group(k, v);
		}
		self.violating_runs += o.violating_runs;
		for (k, v) in o.evict {
			let e = self.evict.entry(k).or_insert((0, 0));
			e.0 += v.0;
			e.1 += v.1;
		}
		self.batch_multi += o.batch_multi;
		self.incomplete_items += o.incomplete_items;
		for (k, v) in o.incomplete_by_phase {
			*self.incomplete_by_phase.entry(k).or_insert(0) += v;
		}
		for s in o.samples {
			if self.samples.len() < 12 {
				self.samples.push(s);
			}
		}
	}
	fn add_group(&mut self, k: String, v: ((usize, usize, usize, String), Scenario, run::Failure, u64)) {
		match self.groups.get_mut(&k) {
			None => {
				self.groups.insert(k, v);
			},
			Some(cur) => {
				cur.3 += v.3;
				if v.0 < cur.0 {
					cur.0 = v.0;
					cur.1 = v.1;
					cur.2 = v.2;
				}
			},
		}
	}
}

fn guarded_execute(scn: &Scenario, tree: &Arc<Tree>, verbose: bool) -> Result<RunOut, String> {
	par::guarded(|| execute(scn, tree, verbose))
}

/// Group key and `stage|oracle` of a failing execution.
#[derive(Clone)]
struct FailSig {
	key: String,
	what: String,
}

/// Runs one scenario, accounts for it, returns the request log (None if it panicked) and the
/// failure signature. A failure that the same scenario with one fault fewer (`parent`) already
/// shows is attributed to that smaller scenario's group: the extra fault is not part of the cause.
fn run_one(
	acc: &mut Acc, scn: &Scenario, tree: &Arc<Tree>, parent: Option<&FailSig>, alt: Option<&Scenario>,
) -> (Option<Vec<Req>>, Option<FailSig>) {
	acc.runs += 1;
	*acc.per_family.entry(format!("{}/{}", scn.family, if scn.kind == Kind::Spv { "spv" } else { "init" })).or_insert(0) += 1;
	match scn.faults.len() {
		0 => acc.base_runs += 1,
		1 => acc.fault_runs += 1,
		_ => acc.pair_runs += 1,
	}
	let failure: Option<run::Failure>;
	let mut in_init = scn.kind == Kind::Init;
	let mut culprit: Option<FaultClass> = None;
	let log;
	match guarded_execute(scn, tree, false) {
		Ok(out) => {
			acc.steps += out.steps;
			acc.notifications += out.notifications;
			acc.requests += out.log.len() as u64 + out.quiet_requests;
			for (f, _) in &out.fired {
				acc.fired[f.class.index()] += 1;
			}
			for c in &out.refused {
				acc.refused[c.index()] += 1;
			}
			acc.absorb_flags(&out.flags);
			acc.states.extend(out.states.iter().copied());
			if scn.faults.is_empty() && scn.family == "evict" && scn.kind == Kind::Spv {
				if let TreeSpec::Fork { main, at, .. } = &scn.tree {
					let last = out.log.iter().map(|r| r.step).max().unwrap_or(0);
					let n = out
						.log
						.iter()
						.filter(|r| r.step == last && r.kind == REQ_HEADER && r.node >= 0 && (r.node as usize) <= *main)
						.count() as u64;
					let e = acc.evict.entry(main - at).or_insert((0, 0));
					e.0 += 1;
					e.1 += n;
				}
			}
			if scn.faults.is_empty() && scn.family == "batch" {
				if out.log.iter().filter(|r| r.kind == REQ_BLOCK).count() > 36 {
					acc.batch_multi += 1;
				}
			}
			if out.failure.is_some() {
				in_init = out.failure_in_init;
				culprit = out.culprit;
			}
			failure = out.failure;
			log = Some(out.log);
		},
		Err(p) => {
			failure = Some(("no-panic".to_string(), format!("panic inside the code under test: {}", p)));
			log = None;
		},
	}
	let mut sig = None;
	if let Some(f) = failure {
		acc.violating_runs += 1;
		let what = format!("{}|{}", if in_init { "startup-sync" } else { "poll" }, f.0);
		match parent {
			Some(p) if p.what == what => {
				if let Some(g) = acc.groups.get_mut(&p.key) {
					g.3 += 1;
				}
				sig = Some(p.clone());
			},
			_ => {
				// A two-fault failure that the second fault alone reproduces belongs to that fault.
				let mut scn = scn;
				let mut f = f;
				if let Some(a) = alt {
					let (af, a_init) = match guarded_execute(a, tree, false) {
						Ok(o) => (o.failure, o.failure_in_init),
						Err(p) => (Some(("no-panic".to_string(), format!("panic inside the code under test: {}", p))), a.kind == Kind::Init),
					};
					if let Some(af) = af {
						if format!("{}|{}", if a_init { "startup-sync" } else { "poll" }, af.0) == what {
							scn = a;
							f = af;
						}
					}
				}
				// If an invalid block reached the listener, the fault that fabricated it is the cause; other
				// faults of the run merely steered the execution there.
				let mut classes: Vec<&str> = match culprit {
					Some(c) if alt.is_none() || scn.faults.iter().any(|f| f.class == c) => vec![c.name()],
					_ => scn.faults.iter().map(|f| f.class.name()).collect(),
				};
				classes.sort();
				let key = format!("{}|{}", what, if classes.is_empty() { "no-fault".to_string() } else { classes.join("+") });
				acc.add_group(key.clone(), (scn.order_key(), scn.clone(), f, 1));
				sig = Some(FailSig { key, what });
			},
		}
	}
	(log, sig)
}

fn fault_positions(log: &[Req], positions: Positions, main: Option<usize>) -> Vec<usize> {
	match positions {
		Positions::All => (0..log.len()).collect(),
		Positions::Sparse | Positions::LastStep => {
			let last_step = log.iter().map(|r| r.step).max().unwrap_or(0);
			let mut keep = vec![false; log.len()];
			for i in 0..log.len() {
				let boundary = |j: usize| j >= log.len() || log[j].step != log[i].step || log[j].kind != log[i].kind;
				// within 3 requests of a step / request-kind boundary
				let near = (1..=3).any(|d| (i >= d && boundary(i - d)) || boundary(i + d)) || i < 3;
				let miss = match main {
					// header requests for main-chain blocks after the first poll = cache misses on the old chain
					Some(m) => log[i].kind == REQ_HEADER && log[i].step > 1 && log[i].node >= 0 && (log[i].node as usize) <= m,
					None => false,
				};
				keep[i] = near || miss || (positions == Positions::LastStep && log[i].step == last_step);
			}
			(0..log.len()).filter(|i| keep[*i]).collect()
		},
	}
}

fn classes_for(req: &Req, tree: &Tree, scn: &Scenario, lies: bool) -> Vec<FaultClass> {
	ALL_CLASSES
		.iter()
		.copied()
		.filter(|c| (lies || !c.is_metadata_lie()) && c.applies(req.kind, req.node, tree, scn.mode, scn.mainnet))
		.collect()
}

/// Base run plus a fault at every (selected) request, plus fault pairs if asked.
fn run_with_faults(acc: &mut Acc, base: &Scenario, tree: &Arc<Tree>, item: &Item) {
	let (log, sig0) = run_one(acc, base, tree, None, None);
	let log = match log {
		Some(l) => l,
		None => return,
	};
	if acc.samples.len() < 2 && acc.runs % 97 == 1 {
		if let Ok(out) = guarded_execute(base, tree, true) {
			acc.samples.push(json!({"scenario": base.to_json(), "trace": out.trace}));
		}
	}
	if !item.faults {
		return;
	}
	let main = match &base.tree {
		TreeSpec::Fork { main, .. } => Some(*main),
		_ => None,
	};
	for k in fault_positions(&log, item.positions, main) {
		for c in classes_for(&log[k], tree, base, item.lies) {
			let mut s1 = base.clone();
			s1.faults = vec![Fault { at: k, class: c }];
			let (log1, sig1) = run_one(acc, &s1, tree, sig0.as_ref(), None);
			if acc.samples.len() < 4 && acc.runs % 89 == 1 {
				if let Ok(out) = guarded_execute(&s1, tree, true) {
					acc.samples.push(json!({"scenario": s1.to_json(), "trace": out.trace}));
				}
			}
			if !item.pairs {
				continue;
			}
			let log1 = match log1 {
				Some(l) => l,
				None => continue,
			};
			for k2 in (k + 1)..log1.len() {
				for c2 in classes_for(&log1[k2], tree, base, item.lies) {
					let mut s2 = base.clone();
					s2.family = "pairs".to_string();
					s2.faults = vec![Fault { at: k, class: c }, Fault { at: k2, class: c2 }];
					let mut alt = base.clone();
					alt.faults = vec![Fault { at: k2, class: c2 }];
					run_one(acc, &s2, tree, sig1.as_ref(), Some(&alt));
				}
			}
		}
	}
}

fn process_item(item: &Item, deadline: Instant) -> Acc {
	let mut acc = Acc::default();
	let spec = item.tree.clone();
	let tree = Arc::new(Tree::build(&spec));
	let n = tree.n;
	let mk = |starts: Vec<usize>, tips: Vec<usize>| Scenario {
		family: item.family.to_string(),
		kind: item.kind,
		tree: spec.clone(),
		mainnet: item.mainnet,
		mode: item.mode,
		via_init: item.via_init,
		starts,
		locator_prev: item.locator_prev,
		forget_stale: item.forget_stale,
		tips,
		faults: Vec::new(),
	};
	let mut bases: Vec<Scenario> = Vec::new();
	match &item.gen {
		Gen::SpvTips { t_lo, t_hi } => {
			let mut seqs: Vec<Vec<usize>> = vec![vec![]];
			for len in 1..=*t_hi {
				let mut next = Vec::new();
				for s in &seqs {
					for x in 0..n {
						let mut s2 = s.clone();
						s2.push(x);
						next.push(s2);
					}
				}
				if len >= *t_lo {
					for s in &next {
						bases.push(mk(vec![item.start], s.clone()));
					}
				}
				seqs = next;
			}
		},
		Gen::SpvFixed { tips } => bases.push(mk(vec![item.start], tips.clone())),
		Gen::InitAll => {
			for s2 in 0..n {
				for b in 0..n {
					bases.push(mk(vec![item.start, s2], vec![b]));
				}
			}
		},
		Gen::InitFixed { others, best } => {
			for s2 in others {
				bases.push(mk(vec![item.start, *s2], vec![*best]));
			}
		},
	}
	for (i, b) in bases.iter().enumerate() {
		if Instant::now() >= deadline {
			acc.incomplete_items += 1;
			*acc.incomplete_by_phase.entry(item.phase).or_insert(0) += 1;
			let _ = i;
			break;
		}
		run_with_faults(&mut acc, b, &tree, item);
	}
	acc
}

fn tree_specs(min_blocks: usize, max_blocks: usize) -> Vec<TreeSpec> {
	let mut v = Vec::new();
	for nodes in (min_blocks + 1)..=(max_blocks + 1) {
		for p in rooted_trees(nodes) {
			let h = vec![false; p.len()];
			v.push(TreeSpec::Explicit { parents: p, heavy: h });
		}
	}
	v
}

fn weighted_specs(min_blocks: usize, max_blocks: usize) -> Vec<TreeSpec> {
	let mut v = Vec::new();
	for nodes in (min_blocks.max(1) + 1)..=(max_blocks + 1) {
		for p in rooted_trees(nodes) {
			let k = p.len();
			for mask in 1u32..(1 << k) {
				let h: Vec<bool> = (0..k).map(|i| mask & (1 << i) != 0).collect();
				v.push(TreeSpec::Explicit { parents: p.clone(), heavy: h });
			}
		}
	}
	v
}

/// One phase of the enumeration. Phases run in order, so a wall-clock cap leaves the earlier
/// (smaller) phases complete.
#[derive(Clone, Debug, Default)]
struct Phase {
	name: &'static str,
	/// (blocks_lo, blocks_hi, tips_lo, tips_hi): all rooted trees with that many non-genesis blocks,
	/// all tip sequences with that many tips. The start-up sync enumeration of a tree goes with
	/// the range that has tips_lo == 1.
	trees: Vec<(usize, usize, usize, usize)>,
	/// Fault pairs: (blocks_hi, tips_hi).
	pairs: Option<(usize, usize)>,
	/// Weighted trees: (blocks_lo, blocks_hi, tips_hi).
	weights: Option<(usize, usize, usize)>,
	evict_depths: Vec<usize>,
	evict_modes: Vec<SrcMode>,
	evict_all_positions: bool,
	batch_lens: Vec<usize>,
}

const MODES: [SrcMode; 3] = [SrcMode::Full, SrcMode::HeaderOnly, SrcMode::Mixed];

fn quick_phase() -> Phase {
	Phase {
		name: "quick-bounds",
		trees: vec![(0, 5, 1, 2)],
		pairs: Some((1, 2)),
		weights: Some((1, 3, 2)),
		evict_depths: vec![LIMIT - 1, LIMIT, LIMIT + 1],
		evict_modes: vec![SrcMode::Full],
		evict_all_positions: false,
		batch_lens: vec![36, 37],
	}
}

fn thorough_phases() -> Vec<Phase> {
	vec![
		quick_phase(),
		Phase {
			name: "families",
			pairs: Some((3, 2)),
			weights: Some((4, 5, 2)),
			evict_depths: vec![LIMIT - 1, LIMIT, LIMIT + 1, LIMIT + 3],
			evict_modes: vec![SrcMode::Full, SrcMode::HeaderOnly],
			evict_all_positions: true,
			batch_lens: vec![35, 72, 73],
			..Phase::default()
		},
		Phase { name: "trees<=6,tips<=3", trees: vec![(0, 5, 3, 3), (6, 6, 1, 3)], ..Phase::default() },
		Phase { name: "trees=7,tips<=3", trees: vec![(7, 7, 1, 3)], ..Phase::default() },
	]
}

fn build_items(ph: &Phase, phase: usize, lies: bool) -> Vec<Item> {
	let mut items = Vec::new();
	let proto = Item {
		phase,
		family: "trees",
		tree: TreeSpec::Explicit { parents: vec![], heavy: vec![] },
		kind: Kind::Spv,
		mainnet: true,
		mode: SrcMode::Full,
		via_init: false,
		start: 0,
		locator_prev: true,
		forget_stale: false,
		gen: Gen::InitAll,
		faults: true,
		pairs: false,
		lies,
		positions: Positions::All,
	};
	// Family "trees": every rooted tree shape.
	for &(n_lo, n_hi, t_lo, t_hi) in &ph.trees {
		for spec in tree_specs(n_lo, n_hi) {
			let nodes = spec.blocks() + 1;
			for &mode in &MODES {
				for start in 0..nodes {
					for via_init in [false, true] {
						items.push(Item {
							tree: spec.clone(),
							mode,
							via_init,
							start,
							gen: Gen::SpvTips { t_lo, t_hi },
							..proto.clone()
						});
					}
					if t_lo > 1 {
						continue;
					}
					for locator_prev in [true, false] {
						for forget_stale in [false, true] {
							items.push(Item {
								tree: spec.clone(),
								kind: Kind::Init,
								mode,
								start,
								locator_prev,
								forget_stale,
								gen: Gen::InitAll,
								..proto.clone()
							});
						}
					}
				}
			}
			// Regtest rules (no difficulty checks): error-free runs only, the fault handling is the same code.
			for start in 0..nodes {
				for via_init in [false, true] {
					items.push(Item {
						tree: spec.clone(),
						mainnet: false,
						via_init,
						start,
						gen: Gen::SpvTips { t_lo, t_hi },
						faults: false,
						..proto.clone()
					});
				}
				if t_lo == 1 {
					items.push(Item { tree: spec.clone(), kind: Kind::Init, mainnet: false, start, faults: false, ..proto.clone() });
				}
			}
		}
	}
	// Fault pairs on the small end of the space.
	if let Some((n_hi, t_hi)) = ph.pairs {
		for spec in tree_specs(0, n_hi) {
			let nodes = spec.blocks() + 1;
			for start in 0..nodes {
				for via_init in [false, true] {
					items.push(Item {
						tree: spec.clone(),
						via_init,
						start,
						gen: Gen::SpvTips { t_lo: 1, t_hi },
						pairs: true,
						..proto.clone()
					});
				}
				items.push(Item { tree: spec.clone(), kind: Kind::Init, start, pairs: true, ..proto.clone() });
			}
		}
	}
	// Family "weights": blocks of different difficulty, so work and height disagree (regtest rules).
	if let Some((n_lo, n_hi, t_hi)) = ph.weights {
		for spec in weighted_specs(n_lo, n_hi) {
			let nodes = spec.blocks() + 1;
			for start in 0..nodes {
				for via_init in [false, true] {
					items.push(Item {
						family: "weights",
						tree: spec.clone(),
						mainnet: false,
						via_init,
						start,
						gen: Gen::SpvTips { t_lo: 1, t_hi },
						..proto.clone()
					});
				}
				items.push(Item { family: "weights", tree: spec.clone(), kind: Kind::Init, mainnet: false, start, ..proto.clone() });
			}
		}
	}
	// Family "evict": fork depth around HEADER_CACHE_LIMIT.
	let main = LIMIT + 6;
	for &d in &ph.evict_depths {
		let spec = TreeSpec::Fork { main, at: main - d, len: d + 1 };
		let fork_tip = main + d + 1;
		for &mode in &ph.evict_modes {
			for via_init in [false, true] {
				items.push(Item {
					family: "evict",
					tree: spec.clone(),
					mode,
					via_init,
					start: 0,
					gen: Gen::SpvFixed { tips: vec![main, fork_tip] },
					positions: if ph.evict_all_positions && (d == LIMIT || d == LIMIT + 1) { Positions::LastStep } else { Positions::Sparse },
					..proto.clone()
				});
			}
		}
		// start-up sync of listeners on both sides of the eviction horizon
		items.push(Item {
			family: "evict",
			tree: spec.clone(),
			kind: Kind::Init,
			start: main,
			gen: Gen::InitFixed { others: vec![0, main - d, main - d + 1, main], best: fork_tip },
			positions: Positions::Sparse,
			..proto.clone()
		});
	}
	// Family "batch": start-up sync across the 36-block fetch batches.
	for &l in &ph.batch_lens {
		let spec = TreeSpec::Fork { main: l, at: 1, len: 2 };
		let cands = vec![0usize, 2, l + 2, l - 1];
		for &s1 in &cands {
			items.push(Item {
				family: "batch",
				tree: spec.clone(),
				kind: Kind::Init,
				start: s1,
				gen: Gen::InitFixed { others: cands.clone(), best: l },
				..proto.clone()
			});
		}
	}
	// Largest work first inside a phase so the tail of the parallel run is short.
	let weight = |it: &Item| -> u64 {
		let n = it.tree.blocks() as u64 + 1;
		let base = match &it.gen {
			Gen::SpvTips { t_lo, t_hi } => (*t_lo as u32..=*t_hi as u32).map(|k| n.pow(k)).sum::<u64>(),
			Gen::SpvFixed { .. } => 40,
			Gen::InitAll => n * n,
			Gen::InitFixed { others, .. } => others.len() as u64 * 4,
		};
		base * n * if it.faults { 60 } else { 1 } * if it.pairs { 60 } else { 1 }
	};
	items.sort_by_key(|it| std::cmp::Reverse(weight(it)));
	items
}

fn replay(path: &std::path::Path) -> ! {
	let text = std::fs::read_to_string(path).unwrap_or_else(|e| cli::die(&format!("cannot read {}: {}", path.display(), e)));
	let v: Value = mc_common::serde_json::from_str(&text).unwrap_or_else(|e| cli::die(&format!("replay file does not parse: {}", e)));
	let r = v.get("replay").unwrap_or(&v);
	let scn = Scenario::from_json(r).unwrap_or_else(|| cli::die("replay JSON is not a C20 scenario"));
	let tree = Arc::new(Tree::build(&scn.tree));
	println!("replaying {}", scn.short());
	par::set_quiet(false);
	match guarded_execute(&scn, &tree, true) {
		Ok(out) => {
			for l in &out.trace {
				println!("  {}", l);
			}
			match out.failure {
				Some((o, d)) => {
					println!("VIOLATION property={} oracle={} : {}", PROP, o, d);
					std::process::exit(1)
				},
				None => {
					println!("no violation");
					std::process::exit(0)
				},
			}
		},
		Err(p) => {
			println!("VIOLATION property={} oracle=no-panic : {}", PROP, p);
			std::process::exit(1)
		},
	}
}

fn main() {
	let args = cli::parse();
	if let Some(p) = &args.replay {
		replay(p);
	}
	if args.property != PROP {
		cli::die(&format!("mc-spv implements {} only", PROP));
	}
	par::install_quiet_panic_hook();
	let thorough = args.tier == Tier::Thorough;
	let lies = args.opt_u64("lies").unwrap_or(0) != 0;
	let mut phases = if thorough { thorough_phases() } else { vec![quick_phase()] };
	if let Some(n) = args.opt_u64("n") {
		// Ad-hoc bound for experiments: a single phase with trees <= n blocks.
		let t = args.opt_u64("t").unwrap_or(2) as usize;
		phases = vec![Phase { name: "custom", trees: vec![(0, n as usize, 1, t)], ..Phase::default() }];
	}
	let cap_s = if args.wall_cap_s > 0 {
		args.wall_cap_s
	} else if thorough {
		2400
	} else {
		55
	};
	let started = Instant::now();
	let deadline = started + Duration::from_secs(cap_s);

	let mut items: Vec<Item> = Vec::new();
	for (i, ph) in phases.iter().enumerate() {
		items.extend(build_items(ph, i, lies));
	}
	let n_items = items.len();
	let results = par::map(&items, args.threads, |_, it| process_item(it, deadline));

	let mut acc = Acc::default();
	let mut violations: Vec<Violation> = Vec::new();
	for (i, r) in results.into_iter().enumerate() {
		match r {
			Ok(a) => acc.merge(a),
			Err(p) => violations.push(Violation {
				property: PROP.into(),
				oracle: "harness-panic".into(),
				identity: format!("harness-panic|{:?}", items[i]),
				detail: format!("panic outside a guarded execution: {}", p),
				replay: json!({"item": format!("{:?}", items[i])}),
			}),
		}
	}
	let capped = acc.incomplete_items > 0;
	let wall = started.elapsed().as_secs_f64();

	// A two-fault group whose oracle also fires with one of the two fault classes alone is the same
	// defect reached through a longer path: fold it into the single-fault group (counts are kept).
	let pair_keys: Vec<String> = acc.groups.keys().filter(|k| k.rsplit('|').next().map_or(false, |c| c.contains('+'))).cloned().collect();
	for k in pair_keys {
		let (what, classes) = k.rsplit_once('|').unwrap();
		let target = classes.split('+').map(|c| format!("{}|{}", what, c)).find(|t| acc.groups.contains_key(t));
		if let Some(t) = target {
			let g = acc.groups.remove(&k).unwrap();
			acc.groups.get_mut(&t).unwrap().3 += g.3;
		}
	}

	// Every reported violation must reproduce, twice, on a plain sequential run.
	for (key, (_, scn, f, count)) in &acc.groups {
		eprintln!("violation group {} x{}", key, count);
		let tree = Arc::new(Tree::build(&scn.tree));
		let mut same = 0;
		for _ in 0..2 {
			let again = match guarded_execute(scn, &tree, false) {
				Ok(o) => o.failure,
				Err(p) => Some(("no-panic".to_string(), format!("panic inside the code under test: {}", p))),
			};
			if again.as_ref().map(|a| &a.0) == Some(&f.0) {
				same += 1;
			}
		}
		if same != 2 {
			cli::die(&format!("violation {} did not reproduce deterministically ({}): {}", key, same, scn.short()));
		}
		violations.push(Violation {
			property: PROP.into(),
			oracle: f.0.clone(),
			identity: format!("{}|{}", f.0, scn.short()),
			detail: format!("{} [{} violating executions in group {}; minimal: {}]", f.1, count, key, scn.short()),
			replay: scn.to_json(),
		});
	}

	let mut ev = Evidence::new(PROP, args.tier, args.seed, Level::ModelChecking);
	ev.set("states", acc.states.len() as u64);
	ev.set("transitions", acc.steps + acc.notifications);
	ev.set("traces_validated_against_impl", acc.runs);
	ev.set("executions", acc.runs);
	ev.set("executions_error_free", acc.base_runs);
	ev.set("executions_one_fault", acc.fault_runs);
	ev.set("executions_two_faults", acc.pair_runs);
	ev.set("polls_and_syncs", acc.steps);
	ev.set("listener_notifications", acc.notifications);
	ev.set("source_requests", acc.requests);
	ev.set("work_items", n_items as u64);
	ev.set("capped", capped);
	ev.set("cap_s", cap_s);
	ev.set("incomplete_work_items", acc.incomplete_items);
	ev.set("violating_executions", acc.violating_runs);
	ev.set("engine_wall_s", (wall * 100.0).round() / 100.0);
	let n_max = phases.iter().flat_map(|p| p.trees.iter().map(|t| t.1)).max().unwrap_or(0);
	let phase_json: Vec<Value> = phases
		.iter()
		.enumerate()
		.map(|(i, p)| {
			let n_items = items.iter().filter(|it| it.phase == i).count();
			let inc = acc.incomplete_by_phase.get(&i).copied().unwrap_or(0);
			json!({
				"phase": p.name,
				"tree_ranges_blocks_lo_hi_tips_lo_hi": p.trees.iter().map(|t| vec![t.0, t.1, t.2, t.3]).collect::<Vec<_>>(),
				"fault_pairs_blocks_hi_tips_hi": p.pairs.map(|x| vec![x.0, x.1]),
				"weighted_trees_blocks_lo_hi_tips_hi": p.weights.map(|x| vec![x.0, x.1, x.2]),
				"evict_fork_depths": p.evict_depths,
				"evict_modes": p.evict_modes.iter().map(|m| m.name()).collect::<Vec<_>>(),
				"evict_fault_positions": if p.evict_all_positions { "depth = limit, limit+1: every request of the reorg poll; otherwise boundaries + cache misses" } else { "requests near step/phase boundaries and every cache-miss request" },
				"batch_chain_lengths": p.batch_lens,
				"work_items": n_items,
				"work_items_cut_by_cap": inc,
				"complete": inc == 0,
			})
		})
		.collect();
	ev.set(
		"bounds",
		json!({
			"tree_blocks_max": n_max,
			"rooted_tree_shapes_up_to_max": tree_specs(0, n_max).len(),
			"source_modes": MODES.iter().map(|m| m.name()).collect::<Vec<_>>(),
			"networks": "Network::Bitcoin (difficulty rules on) for everything; Network::Regtest for all error-free runs and the weighted trees",
			"spv_entry": "fresh HeaderCache at every start node; cache+tip handed over by synchronize_listeners",
			"listener_start": "every node; start-up sync: every ordered pair of nodes x every best tip x locator with/without previous_blocks x source with/without pruned stale branches",
			"faults": "one fault at every source request of every scripted step, every applicable class",
			"metadata_lie_classes_enabled": lies,
			"header_cache_limit": LIMIT,
			"phases": phase_json,
		}),
	);
	ev.set("executions_per_family", json!(acc.per_family));
	ev.set("witnesses", json!(acc.flags));
	let mut fc = serde_map();
	for c in ALL_CLASSES {
		fc.insert(c.name().to_string(), json!({"fired": acc.fired[c.index()], "refused": acc.refused[c.index()]}));
	}
	ev.set("fault_classes", Value::Object(fc));
	ev.set(
		"evict_family",
		json!(acc
			.evict
			.iter()
			.map(|(d, (runs, reqs))| json!({"fork_depth": d, "error_free_runs": runs, "old_chain_headers_fetched_from_source_in_reorg_poll": reqs}))
			.collect::<Vec<_>>()),
	);
	ev.set("batch_runs_with_more_than_one_fetch_batch", acc.batch_multi);
	for s in acc.samples.drain(..) {
		ev.sample(s, 8);
	}
	ev.assume("SHA-256d / proof-of-work arithmetic of the bitcoin crate is correct (the harness mines with the same code the poller validates with)");
	ev.assume("block sources answer synchronously (ready futures); concurrency between listeners and polls is not explored");
	ev.assume("rooted trees are enumerated up to isomorphism (unordered children); block hashes are whatever the deterministic miner produces");
	ev.assume("the `cache` component of a counted state is the harness's model of HeaderCache (the real cache is private); it is never an oracle input");
	ev.assume("a metadata lie (height/chainwork) is judged only through its effect on the notifications; lies that change nothing are counted as harmless");

	// Vacuity guards (only meaningful on a complete run of the default plan).
	let mut guard_failures: Vec<String> = Vec::new();
	let quick_phase_complete = acc.incomplete_by_phase.get(&0).copied().unwrap_or(0) == 0;
	if (!capped || (thorough && quick_phase_complete)) && args.opts.iter().all(|(k, _)| k == "lies") {
		let need = [
			"reorg",
			"tie",
			"worse",
			"extend",
			"common",
			"lower_height_reorg",
			"ok_but_short",
			"faulted_poll_err",
			"left_at_fork_point",
			"init_ok",
			"init_disconnect",
			"init_fallback",
			"init_unresolvable",
			"init_distinct_forks",
			"init_down_sync",
		];
		for k in need {
			if acc.flags.get(k).copied().unwrap_or(0) == 0 {
				guard_failures.push(format!("vacuity guard: witness `{}` never observed", k));
			}
		}
		for c in ALL_CLASSES {
			if c.is_metadata_lie() && !lies {
				continue;
			}
			if acc.fired[c.index()] == 0 {
				guard_failures.push(format!("vacuity guard: fault class {} never fired", c.name()));
			}
			if acc.refused[c.index()] == 0 {
				guard_failures.push(format!("vacuity guard: fault class {} never observed to be refused", c.name()));
			}
		}
		let mut depths: Vec<usize> = phases.iter().flat_map(|p| p.evict_depths.iter().copied()).collect();
		depths.sort();
		depths.dedup();
		for d in &depths {
			let (runs, reqs) = acc.evict.get(d).copied().unwrap_or((0, 0));
			if runs == 0 {
				guard_failures.push(format!("vacuity guard: eviction family depth {} not run", d));
			}
			if *d <= LIMIT && reqs != 0 {
				guard_failures.push(format!("vacuity guard: fork depth {} <= cache limit but {} old-chain headers were fetched from the source", d, reqs));
			}
			if *d > LIMIT && reqs == 0 {
				guard_failures.push(format!("vacuity guard: fork depth {} > cache limit but no old-chain header was fetched from the source (eviction not exercised)", d));
			}
		}
		if acc.batch_multi == 0 {
			guard_failures.push("vacuity guard: no start-up sync spanned more than one fetch batch".to_string());
		}
	}
	eprintln!(
		"C20 {}: {} executions ({} error-free, {} one-fault, {} two-fault), {} states, {} transitions, {} violating, capped={}, {:.1}s",
		args.tier.name(),
		acc.runs,
		acc.base_runs,
		acc.fault_runs,
		acc.pair_runs,
		acc.states.len(),
		acc.steps + acc.notifications,
		acc.violating_runs,
		capped,
		wall
	);
	// A vacuity guard that fails on a run without violations is a machinery error. When violations
	// exist they take precedence (a broken subject can also starve the witnesses); the guard
	// failures are then recorded and still fatal if every violation turns out to be a known finding.
	if !guard_failures.is_empty() {
		if violations.is_empty() {
			cli::die(&guard_failures.join("; "));
		}
		ev.set("vacuity_guard_failures", json!(guard_failures));
		for g in &guard_failures {
			eprintln!("warning: {}", g);
		}
	}
	let code = findings::conclude(PROP, &violations, &mut ev);
	if code == 0 && !guard_failures.is_empty() {
		cli::die(&guard_failures.join("; "));
	}
	std::process::exit(code);
}

fn serde_map() -> mc_common::serde_json::Map<String, Value> {
	mc_common::serde_json::Map::new()
}
