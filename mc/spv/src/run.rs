//! One execution of the real `SpvClient` / `init::synchronize_listeners` against a mock source,
//! with the recording listener and the chain-consistency oracle.
use crate::source::{Fault, FaultClass, MockSource, Req, SrcMode};
use crate::tree::{Tree, TreeSpec};
use bitcoin::block::{Block, Header};
use bitcoin::network::Network;
use bitcoin::BlockHash;
use lightning::chain::transaction::TransactionData;
use lightning::chain::{BlockLocator, Listen};
use lightning_block_sync::init::synchronize_listeners;
use lightning_block_sync::poll::{ChainPoller, ChainTip, Validate, ValidatedBlockHeader};
use lightning_block_sync::{BlockHeaderData, HeaderCache, SpvClient, HEADER_CACHE_LIMIT};
use mc_common::{json, Value};
use std::collections::BTreeSet;
use std::future::Future;
use std::sync::{Arc, Mutex};
use std::task::{Context, Poll, Wake, Waker};

// ------------------------------------------------------------------------------------------------
// block_on

struct NoopWake;
impl Wake for NoopWake {
	fn wake(self: Arc<Self>) {}
}

/// Drives a future whose leaf futures are always ready.
pub fn block_on<F: Future>(f: F) -> F::Output {
	let waker = Waker::from(Arc::new(NoopWake));
	let mut cx = Context::from_waker(&waker);
	let mut f = std::pin::pin!(f);
	for _ in 0..64 {
		if let Poll::Ready(v) = f.as_mut().poll(&mut cx) {
			return v;
		}
	}
	panic!("harness: future did not complete although the mock source never pends");
}

// ------------------------------------------------------------------------------------------------
// scenario

#[derive(Clone, Copy, Debug, PartialEq, Eq, PartialOrd, Ord)]
pub enum Kind {
	/// `SpvClient::poll_best_tip` sequence, one listener.
	Spv,
	/// `init::synchronize_listeners`, several listeners.
	Init,
}

#[derive(Clone, Debug)]
pub struct Scenario {
	/// Reporting family: "trees", "weights", "evict", "batch".
	pub family: String,
	pub kind: Kind,
	pub tree: TreeSpec,
	/// `Network::Bitcoin` (difficulty rules checked) vs `Network::Regtest`.
	pub mainnet: bool,
	pub mode: SrcMode,
	/// Spv: obtain the start cache/tip from `synchronize_listeners` (first tip) instead of a fresh cache.
	pub via_init: bool,
	pub starts: Vec<usize>,
	/// Listener `BlockLocator`s carry their `previous_blocks`.
	pub locator_prev: bool,
	/// The source has pruned everything that is not on its best chain.
	pub forget_stale: bool,
	pub tips: Vec<usize>,
	pub faults: Vec<Fault>,
}

impl Scenario {
	pub fn to_json(&self) -> Value {
		json!({
			"family": self.family,
			"kind": match self.kind { Kind::Spv => "spv", Kind::Init => "init" },
			"tree": self.tree.to_json(),
			"network": if self.mainnet { "bitcoin" } else { "regtest" },
			"mode": self.mode.name(),
			"via_init": self.via_init,
			"starts": self.starts,
			"locator_prev": self.locator_prev,
			"forget_stale": self.forget_stale,
			"tips": self.tips,
			"faults": self.faults.iter().map(|f| json!({"at": f.at, "class": f.class.name()})).collect::<Vec<_>>(),
		})
	}
	pub fn from_json(v: &Value) -> Option<Scenario> {
		let us = |x: &Value| -> Option<Vec<usize>> {
			x.as_array()?.iter().map(|y| y.as_u64().map(|z| z as usize)).collect()
		};
		let mut faults = Vec::new();
		for f in v.get("faults")?.as_array()? {
			faults.push(Fault {
				at: f.get("at")?.as_u64()? as usize,
				class: FaultClass::parse(f.get("class")?.as_str()?)?,
			});
		}
		Some(Scenario {
			family: v.get("family")?.as_str()?.to_string(),
			kind: match v.get("kind")?.as_str()? {
				"spv" => Kind::Spv,
				"init" => Kind::Init,
				_ => return None,
			},
			tree: TreeSpec::from_json(v.get("tree")?)?,
			mainnet: v.get("network")?.as_str()? == "bitcoin",
			mode: SrcMode::parse(v.get("mode")?.as_str()?)?,
			via_init: v.get("via_init")?.as_bool()?,
			starts: us(v.get("starts")?)?,
			locator_prev: v.get("locator_prev")?.as_bool()?,
			forget_stale: v.get("forget_stale")?.as_bool()?,
			tips: us(v.get("tips")?)?,
			faults,
		})
	}
	/// Compact canonical text (used in violation identities).
	pub fn short(&self) -> String {
		let f: Vec<String> = self.faults.iter().map(|f| format!("{}@{}", f.class.name(), f.at)).collect();
		format!(
			"{}/{} tree={} net={} mode={} via_init={} starts={:?} locprev={} forget={} tips={:?} faults=[{}]",
			self.family,
			match self.kind {
				Kind::Spv => "spv",
				Kind::Init => "init",
			},
			self.tree.short(),
			if self.mainnet { "bitcoin" } else { "regtest" },
			self.mode.name(),
			self.via_init as u8,
			self.starts,
			self.locator_prev as u8,
			self.forget_stale as u8,
			self.tips,
			f.join(",")
		)
	}
	/// Canonical "smaller first" ordering key.
	pub fn order_key(&self) -> (usize, usize, usize, String) {
		(self.tree.blocks(), self.tips.len(), self.faults.len(), self.short())
	}
}

// ------------------------------------------------------------------------------------------------
// recording listener

#[derive(Clone, Debug)]
pub enum Ev {
	Disc { hash: BlockHash, height: u32 },
	Conn { hash: BlockHash, height: u32, full: bool, content_ok: bool, ntx: usize },
}

pub struct Recorder {
	tree: Arc<Tree>,
	evs: Mutex<Vec<Ev>>,
}

impl Recorder {
	pub fn new(tree: Arc<Tree>) -> Self {
		Recorder { tree, evs: Mutex::new(Vec::new()) }
	}
	pub fn take(&self) -> Vec<Ev> {
		std::mem::take(&mut *self.evs.lock().unwrap())
	}
}

impl Listen for Recorder {
	fn filtered_block_connected(&self, header: &Header, txdata: &TransactionData, height: u32) {
		let hash = header.block_hash();
		let content_ok = match self.tree.node_of(&hash) {
			Some(n) => self.tree.blocks[n].header == *header,
			None => false,
		};
		self.evs.lock().unwrap().push(Ev::Conn { hash, height, full: false, content_ok, ntx: txdata.len() });
	}
	fn block_connected(&self, block: &Block, height: u32) {
		let hash = block.header.block_hash();
		let content_ok = match self.tree.node_of(&hash) {
			Some(n) => self.tree.blocks[n] == *block,
			None => false,
		};
		self.evs.lock().unwrap().push(Ev::Conn { hash, height, full: true, content_ok, ntx: block.txdata.len() });
	}
	fn blocks_disconnected(&self, fork_point: BlockLocator) {
		self.evs.lock().unwrap().push(Ev::Disc { hash: fork_point.block_hash, height: fork_point.height });
	}
}

// ------------------------------------------------------------------------------------------------
// oracle

pub type Failure = (String, String);

fn fail<T>(oracle: &str, detail: String) -> Result<T, Failure> {
	Err((oracle.to_string(), detail))
}

/// Replays one listener's notifications against the tree.
struct Tracker {
	pos: usize,
	/// Harness model of the header cache (state identity only; never an oracle input).
	cache: BTreeSet<usize>,
}

struct StepEvents {
	disc: Vec<usize>,
	conn: Vec<usize>,
}

impl Tracker {
	fn replay(
		&mut self, tree: &Tree, mode: SrcMode, who: &str, evs: &[Ev], bad: &mut Option<BlockHash>,
	) -> Result<StepEvents, Failure> {
		let mut out = StepEvents { disc: Vec::new(), conn: Vec::new() };
		for ev in evs {
			match ev {
				Ev::Disc { hash, height } => {
					let f = match tree.node_of(hash) {
						Some(f) => f,
						None => {
							return fail(
								"disconnect-unknown-block",
								format!("{}: blocks_disconnected names {} which is not a block of the tree", who, hash),
							)
						},
					};
					if !out.conn.is_empty() {
						return fail(
							"disconnect-after-connect",
							format!("{}: blocks_disconnected(node {}) after blocks were connected in the same call", who, f),
						);
					}
					if f == self.pos || !tree.is_ancestor_or_self(f, self.pos) {
						return fail(
							"disconnect-not-ancestor",
							format!(
								"{}: blocks_disconnected(fork point node {} h={}) but the listener is at node {} h={}, of which it is not a proper ancestor",
								who, f, tree.height[f], self.pos, tree.height[self.pos]
							),
						);
					}
					if *height != tree.height[f] {
						return fail(
							"disconnect-wrong-height",
							format!("{}: fork point node {} reported at height {} (true {})", who, f, height, tree.height[f]),
						);
					}
					self.pos = f;
					let fh = tree.height[f];
					self.cache.retain(|n| tree.height[*n] <= fh);
					out.disc.push(f);
				},
				Ev::Conn { hash, height, full, content_ok, ntx } => {
					let n = match tree.node_of(hash) {
						Some(n) => n,
						None => {
							*bad = Some(*hash);
							return fail(
								"invalid-block-connected",
								format!("{}: connected block {} (height {}) is not a valid block of the source's tree", who, hash, height),
							)
						},
					};
					if n == 0 || tree.parent[n] != self.pos {
						return fail(
							"connect-not-on-tip",
							format!(
								"{}: connected node {} (h={}, parent node {}) while the listener's tip is node {} (h={}): the notifications skip, repeat or mix chains",
								who,
								n,
								tree.height[n],
								if n == 0 { -1 } else { tree.parent[n] as i64 },
								self.pos,
								tree.height[self.pos]
							),
						);
					}
					if *height != tree.height[n] {
						return fail(
							"connect-wrong-height",
							format!("{}: node {} connected at height {} but its true height is {}", who, n, height, tree.height[n]),
						);
					}
					let want_full = mode.serves_full(n);
					if *full != want_full || !*content_ok || (!*full && *ntx != 0) {
						return fail(
							"connect-wrong-data",
							format!(
								"{}: node {} delivered as full={} content_ok={} ntx={} (source serves full={})",
								who, n, full, content_ok, ntx, want_full
							),
						);
					}
					self.pos = n;
					self.cache.insert(n);
					let cutoff = tree.height[n].saturating_sub(HEADER_CACHE_LIMIT);
					if cutoff > 0 {
						self.cache.retain(|m| tree.height[*m] >= cutoff);
					}
					out.conn.push(n);
				},
			}
		}
		Ok(out)
	}
}

#[derive(Clone, Debug, Default)]
pub struct Flags {
	pub reorg: bool,
	pub tie: bool,
	pub worse: bool,
	pub extend: bool,
	pub common: bool,
	pub lower_height_reorg: bool,
	pub ok_but_short: bool,
	pub faulted_poll_err: bool,
	pub left_at_fork_point: bool,
	pub init_ok: bool,
	pub init_disconnect: bool,
	pub init_fallback: bool,
	pub init_unresolvable: bool,
	pub init_distinct_forks: bool,
	pub init_down_sync: bool,
	pub fault_harmless: bool,
}

pub struct RunOut {
	pub failure: Option<Failure>,
	/// The failing oracle fired while judging a `synchronize_listeners` step.
	pub failure_in_init: bool,
	/// Hash of the invalid block that reached a listener, and the fault class that fabricated it.
	pub bad_hash: Option<BlockHash>,
	pub culprit: Option<FaultClass>,
	pub log: Vec<Req>,
	pub fired: Vec<(Fault, u32)>,
	pub refused: Vec<FaultClass>,
	pub steps: u64,
	pub notifications: u64,
	pub quiet_requests: u64,
	pub states: Vec<u128>,
	pub flags: Flags,
	pub trace: Vec<String>,
}

fn validated(tree: &Tree, n: usize) -> ValidatedBlockHeader {
	BlockHeaderData { header: tree.blocks[n].header, height: tree.height[n], chainwork: tree.work[n] }
		.validate(tree.hash[n])
		.expect("harness: tree block must validate")
}

fn locator(tree: &Tree, n: usize, with_prev: bool) -> BlockLocator {
	let mut l = BlockLocator::new(tree.hash[n], tree.height[n]);
	if with_prev {
		let mut a = n;
		for i in 0..l.previous_blocks.len() {
			if a == 0 {
				break;
			}
			a = tree.parent[a];
			l.previous_blocks[i] = Some(tree.hash[a]);
		}
	}
	l
}

fn ev_str(tree: &Tree, evs: &[Ev]) -> String {
	let mut v = Vec::new();
	for e in evs {
		match e {
			Ev::Disc { hash, height } => v.push(format!(
				"disconnected(fork={} h={})",
				tree.node_of(hash).map(|n| format!("n{}", n)).unwrap_or_else(|| hash.to_string()),
				height
			)),
			Ev::Conn { hash, height, full, .. } => v.push(format!(
				"connected({} h={}{})",
				tree.node_of(hash).map(|n| format!("n{}", n)).unwrap_or_else(|| hash.to_string()),
				height,
				if *full { "" } else { " filtered" }
			)),
		}
	}
	if v.len() > 12 {
		let tail = v.split_off(v.len() - 4);
		v.truncate(6);
		v.push("...".into());
		v.extend(tail);
	}
	v.join(" ")
}

struct Ctx<'a> {
	scn: &'a Scenario,
	tree: &'a Tree,
	src: &'a MockSource,
	out: RunOut,
	verbose: bool,
}

impl<'a> Ctx<'a> {
	fn state(&mut self, best: usize, pos: &[usize], cache: Option<&BTreeSet<usize>>) {
		let mut b: Vec<u8> = Vec::with_capacity(64);
		b.extend_from_slice(&self.tree.id.to_le_bytes());
		b.push(self.scn.kind as u8);
		b.push(self.scn.mode as u8);
		b.push(self.scn.mainnet as u8 | (self.scn.via_init as u8) << 1 | (self.scn.forget_stale as u8) << 2 | (self.scn.locator_prev as u8) << 3);
		b.extend_from_slice(&(best as u32).to_le_bytes());
		for p in pos {
			b.extend_from_slice(&(*p as u32).to_le_bytes());
		}
		b.push(0xff);
		if let Some(c) = cache {
			for n in c {
				b.extend_from_slice(&(*n as u32).to_le_bytes());
			}
		}
		self.out.states.push(mc_common::digest128(&b));
	}

	/// Fault classes that fired during the step just executed.
	fn fired_in_step(&self) -> Vec<FaultClass> {
		let step = self.src.step();
		self.src.fired().iter().filter(|(_, s)| *s == step).map(|(f, _)| f.class).collect()
	}

	/// One `poll_best_tip` with its oracle. `best` is the source's true best tip for this poll.
	fn poll<'b>(
		&mut self, client: &mut SpvClient<ChainPoller<&'b MockSource, MockSource>, &'b Recorder>, rec: &Recorder,
		tr: &mut Tracker, best: usize, scripted: bool,
	) -> Result<(), Failure> {
		let tree = self.tree;
		self.src.begin_step(best, scripted);
		let pos0 = tr.pos;
		let res = block_on(client.poll_best_tip());
		let evs = rec.take();
		self.out.steps += 1;
		self.out.notifications += evs.len() as u64;
		let fired = if scripted { self.fired_in_step() } else { Vec::new() };
		let strict = fired.is_empty();
		if self.verbose {
			let r = match &res {
				Ok((ChainTip::Common, c)) => format!("Ok(Common, {})", c),
				Ok((ChainTip::Better(h), c)) => format!(
					"Ok(Better({}), {})",
					tree.node_of(&h.to_block_locator().block_hash).map(|n| format!("n{}", n)).unwrap_or("?".into()),
					c
				),
				Ok((ChainTip::Worse(h), c)) => format!(
					"Ok(Worse({}), {})",
					tree.node_of(&h.to_block_locator().block_hash).map(|n| format!("n{}", n)).unwrap_or("?".into()),
					c
				),
				Err(e) => format!("Err({:?})", e.kind()),
			};
			self.out.trace.push(format!(
				"poll{} best=n{} listener@n{} faults_fired={:?} -> {} | {}",
				if scripted { "" } else { "(recovery)" },
				best,
				pos0,
				fired.iter().map(|c| c.name()).collect::<Vec<_>>(),
				r,
				ev_str(tree, &evs)
			));
		}
		let who = "listener";
		let se = tr.replay(tree, self.scn.mode, who, &evs, &mut self.out.bad_hash)?;
		let pos = tr.pos;
		self.state(best, &[pos], Some(&tr.cache));

		let moved = !evs.is_empty();
		match &res {
			Err(e) => {
				if strict {
					return fail(
						"poll-failed-without-fault",
						format!("error-free poll (best n{}, listener n{}) returned Err({:?}: {})", best, pos0, e.kind(), e_to_string(e)),
					);
				}
				self.out.flags.faulted_poll_err = true;
			},
			Ok((tip, changed)) => {
				if *changed != moved {
					return fail(
						"changed-flag",
						format!("poll returned blocks_connected={} but the listener received {} notifications", changed, evs.len()),
					);
				}
				let reported: Option<Option<usize>> = match tip {
					ChainTip::Common => None,
					ChainTip::Better(h) | ChainTip::Worse(h) => Some(tree.node_of(&h.to_block_locator().block_hash)),
				};
				if let ChainTip::Better(_) = tip {
					if let Some(Some(r)) = reported {
						if moved && pos == r && !(tree.work[pos] > tree.work[pos0]) {
							return fail(
								"moved-without-more-work",
								format!(
									"listener was moved from n{} to the reported tip n{} which does not have strictly more accumulated work",
									pos0, pos
								),
							);
						}
						if !strict && pos != r {
							self.out.flags.ok_but_short = true;
							if moved && tree.work[pos] < tree.work[pos0] {
								self.out.flags.left_at_fork_point = true;
							}
						}
					}
				}
				if strict {
					if best == pos0 {
						if !matches!(tip, ChainTip::Common) || moved {
							return fail(
								"same-tip-not-common",
								format!("source's best block n{} equals the listener's tip, yet the poll reported {:?} / {} notifications", best, tip_name(tip), evs.len()),
							);
						}
						self.out.flags.common = true;
					} else if tree.work[best] > tree.work[pos0] {
						if !matches!(tip, ChainTip::Better(_)) || reported != Some(Some(best)) {
							return fail(
								"better-tip-not-reported",
								format!("best n{} has more work than the listener's n{}, poll reported {} ({:?})", best, pos0, tip_name(tip), reported),
							);
						}
						if pos != best {
							return fail(
								"not-at-reported-tip",
								format!("error-free poll reported Better(n{}) but the listener ended at n{} (was n{})", best, pos, pos0),
							);
						}
						let lca = tree.lca(pos0, best);
						let want_disc: Vec<usize> = if lca != pos0 { vec![lca] } else { vec![] };
						if se.disc != want_disc {
							return fail(
								"fork-point-not-lca",
								format!("listener n{} -> n{}: disconnect notifications {:?}, expected {:?} (the fork point)", pos0, best, se.disc, want_disc),
							);
						}
						if lca != pos0 {
							self.out.flags.reorg = true;
							if tree.height[best] < tree.height[pos0] {
								self.out.flags.lower_height_reorg = true;
							}
						} else {
							self.out.flags.extend = true;
						}
					} else {
						if !matches!(tip, ChainTip::Worse(_)) || reported != Some(Some(best)) || moved {
							return fail(
								"worse-tip-moved-listener",
								format!(
									"best n{} has no more work than the listener's n{}, poll reported {} ({:?}) with {} notifications",
									best, pos0, tip_name(tip), reported, evs.len()
								),
							);
						}
						if tree.work[best] == tree.work[pos0] {
							self.out.flags.tie = true;
						} else {
							self.out.flags.worse = true;
						}
					}
				}
			},
		}
		if !strict {
			let refused = res.is_err() || pos != best;
			for c in fired {
				if refused {
					self.out.refused.push(c);
				} else {
					self.out.flags.fault_harmless = true;
				}
			}
		}
		Ok(())
	}

	/// `synchronize_listeners` with its oracle. Returns the cache/tip on success.
	fn init(
		&mut self, recs: &[&Recorder], trs: &mut [Tracker], best: usize,
	) -> Result<Option<(HeaderCache, ValidatedBlockHeader)>, Failure> {
		let tree = self.tree;
		let scn = self.scn;
		self.src.begin_step(best, true);
		let pos0: Vec<usize> = trs.iter().map(|t| t.pos).collect();
		let listeners: Vec<(BlockLocator, &Recorder)> =
			pos0.iter().zip(recs.iter()).map(|(p, r)| (locator(tree, *p, scn.locator_prev), *r)).collect();
		let network = if scn.mainnet { Network::Bitcoin } else { Network::Regtest };
		let res = block_on(synchronize_listeners(self.src, network, listeners));
		self.out.steps += 1;
		let fired = self.fired_in_step();
		let strict = fired.is_empty();
		let mut step_evs = Vec::new();
		let mut all_evs = Vec::new();
		for (i, r) in recs.iter().enumerate() {
			let evs = r.take();
			self.out.notifications += evs.len() as u64;
			if self.verbose {
				self.out.trace.push(format!("  listener{} @n{}: {}", i, pos0[i], ev_str(tree, &evs)));
			}
			all_evs.push(evs);
		}
		if self.verbose {
			let r = match &res {
				Ok((_, h)) => format!(
					"Ok(tip={})",
					tree.node_of(&h.to_block_locator().block_hash).map(|n| format!("n{}", n)).unwrap_or("?".into())
				),
				Err(e) => format!("Err({:?}: {})", e.kind(), e_to_string(e)),
			};
			let at = self.out.trace.len() - recs.len();
			self.out.trace.insert(
				at,
				format!("synchronize_listeners best=n{} faults_fired={:?} -> {}", best, fired.iter().map(|c| c.name()).collect::<Vec<_>>(), r),
			);
		}
		for (i, evs) in all_evs.iter().enumerate() {
			let who = format!("listener{}", i);
			step_evs.push(trs[i].replay(tree, scn.mode, &who, evs, &mut self.out.bad_hash)?);
		}
		let pos: Vec<usize> = trs.iter().map(|t| t.pos).collect();
		self.state(best, &pos, None);

		// What an error-free run must do: resolve each listener's block (or a remembered ancestor).
		let mut resolvable = true;
		for p in &pos0 {
			let mut cands = vec![*p];
			if scn.locator_prev {
				let mut a = *p;
				for _ in 0..12 {
					if a == 0 {
						break;
					}
					a = tree.parent[a];
					cands.push(a);
				}
			}
			match cands.iter().find(|c| self.src.knows(**c)) {
				Some(c) => {
					if c != p {
						self.out.flags.init_fallback = true;
					}
				},
				None => resolvable = false,
			}
		}
		match res {
			Err(e) => {
				if strict && resolvable {
					return fail(
						"init-failed-without-fault",
						format!("error-free synchronize_listeners (best n{}, listeners {:?}) returned Err({:?}: {})", best, pos0, e.kind(), e_to_string(&e)),
					);
				}
				if strict {
					self.out.flags.init_unresolvable = true;
				}
				for c in fired {
					self.out.refused.push(c);
				}
				Ok(None)
			},
			Ok((cache, tip)) => {
				let r = tree.node_of(&tip.to_block_locator().block_hash);
				let r = match r {
					Some(r) => r,
					None => {
						return fail(
							"init-invalid-tip",
							format!("synchronize_listeners returned a tip {} that is not a block of the tree", tip.to_block_locator().block_hash),
						)
					},
				};
				for (i, p) in pos.iter().enumerate() {
					if *p != r {
						return fail(
							"init-not-at-common-tip",
							format!("synchronize_listeners returned tip n{} but listener{} (started at n{}) is at n{}", r, i, pos0[i], p),
						);
					}
				}
				if strict {
					if r != best {
						return fail("init-wrong-tip", format!("returned tip n{} is not the source's best block n{}", r, best));
					}
					let mut forks = BTreeSet::new();
					for (i, se) in step_evs.iter().enumerate() {
						let lca = tree.lca(pos0[i], best);
						let want: Vec<usize> = if lca != pos0[i] { vec![lca] } else { vec![] };
						if se.disc != want {
							return fail(
								"fork-point-not-lca",
								format!("listener{} n{} -> n{}: disconnect notifications {:?}, expected {:?}", i, pos0[i], best, se.disc, want),
							);
						}
						if !want.is_empty() {
							self.out.flags.init_disconnect = true;
							if tree.work[best] < tree.work[pos0[i]] {
								self.out.flags.init_down_sync = true;
							}
						}
						forks.insert(lca);
					}
					if forks.len() > 1 {
						self.out.flags.init_distinct_forks = true;
					}
					self.out.flags.init_ok = true;
				} else {
					for c in fired {
						if r != best {
							self.out.refused.push(c);
						} else {
							self.out.flags.fault_harmless = true;
						}
					}
				}
				Ok(Some((cache, tip)))
			},
		}
	}
}

fn tip_name(t: &ChainTip) -> &'static str {
	match t {
		ChainTip::Common => "Common",
		ChainTip::Better(_) => "Better",
		ChainTip::Worse(_) => "Worse",
	}
}

fn e_to_string(e: &lightning_block_sync::BlockSourceError) -> String {
	// `into_inner` consumes; Debug shows the boxed error.
	let s = format!("{:?}", e);
	s.chars().take(160).collect()
}

/// Executes one scenario on the real code. Panics of the subject propagate (the caller isolates them).
pub fn execute(scn: &Scenario, tree: &Arc<Tree>, verbose: bool) -> RunOut {
	let src = MockSource::new(tree.clone(), scn.mode, scn.mainnet, scn.faults.clone(), scn.forget_stale);
	let out = RunOut {
		failure: None,
		failure_in_init: false,
		bad_hash: None,
		culprit: None,
		log: Vec::new(),
		fired: Vec::new(),
		refused: Vec::new(),
		steps: 0,
		notifications: 0,
		quiet_requests: 0,
		states: Vec::new(),
		flags: Flags::default(),
		trace: Vec::new(),
	};
	let mut cx = Ctx { scn, tree: &**tree, src: &src, out, verbose };
	let r = match scn.kind {
		Kind::Spv => run_spv(&mut cx, tree),
		Kind::Init => run_init(&mut cx, tree),
	};
	let mut out = cx.out;
	if let Err(f) = r {
		out.failure = Some(f);
	}
	if let Some(h) = out.bad_hash {
		out.culprit = src.fabricated_by(&h);
	}
	out.log = src.log();
	out.fired = src.fired();
	out.quiet_requests = src.quiet_requests();
	out
}

fn run_spv(cx: &mut Ctx, tree: &Arc<Tree>) -> Result<(), Failure> {
	let scn = cx.scn;
	let src = cx.src;
	let rec = Recorder::new(tree.clone());
	let start = scn.starts[0];
	let mut tr = Tracker { pos: start, cache: BTreeSet::new() };
	let network = if scn.mainnet { Network::Bitcoin } else { Network::Regtest };
	cx.state(start, &[start], Some(&tr.cache));
	let mut tips = scn.tips.iter().copied();
	let mut client = if scn.via_init {
		let t0 = tips.next().expect("via_init needs a tip");
		let recs = [&rec];
		let mut trs = [Tracker { pos: start, cache: BTreeSet::new() }];
		let r = match cx.init(&recs, &mut trs, t0) {
			Ok(r) => r,
			Err(f) => {
				cx.out.failure_in_init = true;
				return Err(f);
			},
		};
		let [t] = trs;
		tr = t;
		match r {
			None => return Ok(()),
			Some((cache, tip)) => {
				// Cache model after start-up: the resolved start block and everything connected.
				tr.cache.insert(start);
				SpvClient::new(tip, ChainPoller::new(src, network), cache, &rec)
			},
		}
	} else {
		SpvClient::new(validated(tree, start), ChainPoller::new(src, network), HeaderCache::new(), &rec)
	};
	let mut last = src.best();
	for t in tips {
		cx.poll(&mut client, &rec, &mut tr, t, true)?;
		last = t;
	}
	if scn.tips.is_empty() {
		last = start;
	}
	// Recovery: error-free polls must bring the listener to the best tip without gaps or repeats.
	cx.poll(&mut client, &rec, &mut tr, last, false)?;
	let top = tree.max_work_node();
	cx.poll(&mut client, &rec, &mut tr, top, false)?;
	Ok(())
}

fn run_init(cx: &mut Ctx, tree: &Arc<Tree>) -> Result<(), Failure> {
	let scn = cx.scn;
	let recs_own: Vec<Recorder> = scn.starts.iter().map(|_| Recorder::new(tree.clone())).collect();
	let recs: Vec<&Recorder> = recs_own.iter().collect();
	let mut trs: Vec<Tracker> = scn.starts.iter().map(|s| Tracker { pos: *s, cache: BTreeSet::new() }).collect();
	let best = scn.tips[0];
	cx.state(best, &scn.starts, None);
	if let Err(f) = cx.init(&recs, &mut trs, best) {
		cx.out.failure_in_init = true;
		return Err(f);
	}
	Ok(())
}
