//! Block trees: enumeration of all rooted (unordered) shapes, regtest-difficulty mining, fabricated
//! (invalid) blocks used by the fault classes.
use bitcoin::block::{Block, Header, Version};
use bitcoin::hashes::Hash;
use bitcoin::locktime::absolute::LockTime;
use bitcoin::pow::{CompactTarget, Work};
use bitcoin::{transaction, BlockHash, Transaction, TxMerkleNode};
use mc_common::{json, Value};
use std::collections::{BTreeSet, HashMap};

/// Regtest proof-of-work limit: every second nonce passes.
pub const BITS_LIGHT: u32 = 0x207fffff;
/// A 128x harder target (top byte of the hash must be zero); still mined in ~256 tries.
pub const BITS_HEAVY: u32 = 0x2000ffff;

#[derive(Clone, Debug, PartialEq, Eq, PartialOrd, Ord)]
pub enum TreeSpec {
	/// `parents[i-1]` is the parent of node `i` (node 0 is the genesis root), `parents[i-1] < i`.
	/// `heavy[i-1]` selects `BITS_HEAVY` for node `i`.
	Explicit { parents: Vec<usize>, heavy: Vec<bool> },
	/// Main chain of `main` blocks on top of genesis (node i at height i), plus a branch of `len`
	/// blocks forking off the main-chain block at height `at` (nodes main+1 ..= main+len).
	Fork { main: usize, at: usize, len: usize },
}

impl TreeSpec {
	pub fn to_json(&self) -> Value {
		match self {
			TreeSpec::Explicit { parents, heavy } => {
				json!({"parents": parents, "heavy": heavy.iter().map(|h| *h as u8).collect::<Vec<_>>()})
			},
			TreeSpec::Fork { main, at, len } => json!({"fork": {"main": main, "at": at, "len": len}}),
		}
	}
	pub fn from_json(v: &Value) -> Option<TreeSpec> {
		if let Some(f) = v.get("fork") {
			return Some(TreeSpec::Fork {
				main: f.get("main")?.as_u64()? as usize,
				at: f.get("at")?.as_u64()? as usize,
				len: f.get("len")?.as_u64()? as usize,
			});
		}
		let parents: Vec<usize> =
			v.get("parents")?.as_array()?.iter().map(|x| x.as_u64().map(|y| y as usize)).collect::<Option<_>>()?;
		let heavy: Vec<bool> = match v.get("heavy").and_then(|h| h.as_array()) {
			Some(a) => a.iter().map(|x| x.as_u64().unwrap_or(0) != 0).collect(),
			None => vec![false; parents.len()],
		};
		if heavy.len() != parents.len() || parents.iter().enumerate().any(|(i, p)| *p > i) {
			return None;
		}
		Some(TreeSpec::Explicit { parents, heavy })
	}
	pub fn parents_and_weights(&self) -> (Vec<usize>, Vec<bool>) {
		match self {
			TreeSpec::Explicit { parents, heavy } => (parents.clone(), heavy.clone()),
			TreeSpec::Fork { main, at, len } => {
				let mut p: Vec<usize> = (0..*main).collect();
				for j in 0..*len {
					p.push(if j == 0 { *at } else { main + j });
				}
				let n = p.len();
				(p, vec![false; n])
			},
		}
	}
	pub fn blocks(&self) -> usize {
		match self {
			TreeSpec::Explicit { parents, .. } => parents.len(),
			TreeSpec::Fork { main, len, .. } => main + len,
		}
	}
	pub fn short(&self) -> String {
		match self {
			TreeSpec::Explicit { parents, heavy } => {
				let p: Vec<String> = parents.iter().map(|x| x.to_string()).collect();
				if heavy.iter().any(|h| *h) {
					let h: String = heavy.iter().map(|h| if *h { 'H' } else { 'l' }).collect();
					format!("[{}]{}", p.join(","), h)
				} else {
					format!("[{}]", p.join(","))
				}
			},
			TreeSpec::Fork { main, at, len } => format!("fork(main={},at={},len={})", main, at, len),
		}
	}
}

pub struct Tree {
	#[allow(dead_code)]
	pub spec: TreeSpec,
	pub n: usize,
	pub parent: Vec<usize>,
	pub children: Vec<Vec<usize>>,
	pub height: Vec<u32>,
	/// Cumulative chain work, genesis included.
	pub work: Vec<Work>,
	pub blocks: Vec<Block>,
	pub hash: Vec<BlockHash>,
	by_hash: HashMap<BlockHash, usize>,
	pub id: u64,
}

fn coinbase(tag: u32) -> Transaction {
	Transaction {
		version: transaction::Version(2),
		lock_time: LockTime::from_consensus(tag),
		input: vec![],
		output: vec![],
	}
}

/// Finds the first nonce (from the header's current one upwards) for which the proof of work is
/// valid (`want_valid`) or invalid (`!want_valid`).
pub fn mine(mut h: Header, want_valid: bool) -> Header {
	loop {
		let ok = h.validate_pow(h.target()).is_ok();
		if ok == want_valid {
			return h;
		}
		h.nonce = h.nonce.wrapping_add(1);
	}
}

pub fn make_block(prev: BlockHash, tag: u32, time: u32, bits: u32, extra_tx: bool) -> Block {
	let mut txdata = vec![coinbase(tag)];
	if extra_tx {
		txdata.push(coinbase(tag ^ 0x4000_0000));
	}
	let mut b = Block {
		header: Header {
			version: Version::NO_SOFT_FORK_SIGNALLING,
			prev_blockhash: prev,
			merkle_root: TxMerkleNode::all_zeros(),
			time,
			bits: CompactTarget::from_consensus(bits),
			nonce: 0,
		},
		txdata,
	};
	b.header.merkle_root = b.compute_merkle_root().expect("non-empty block");
	b.header = mine(b.header, true);
	b
}

impl Tree {
	pub fn build(spec: &TreeSpec) -> Tree {
		let (parents, heavy) = spec.parents_and_weights();
		let n = parents.len() + 1;
		let mut parent = vec![usize::MAX; n];
		let mut children = vec![Vec::new(); n];
		let mut height = vec![0u32; n];
		for i in 1..n {
			let p = parents[i - 1];
			assert!(p < i);
			parent[i] = p;
			children[p].push(i);
			height[i] = height[p] + 1;
		}
		let mut blocks: Vec<Block> = Vec::with_capacity(n);
		let mut hash: Vec<BlockHash> = Vec::with_capacity(n);
		let mut work: Vec<Work> = Vec::with_capacity(n);
		let g = make_block(BlockHash::all_zeros(), 1, 1_600_000_000, BITS_LIGHT, false);
		hash.push(g.block_hash());
		work.push(g.header.work());
		blocks.push(g);
		for i in 1..n {
			let p = parent[i];
			let bits = if heavy[i - 1] { BITS_HEAVY } else { BITS_LIGHT };
			let b = make_block(hash[p], i as u32 + 1, 1_600_000_000 + 600 * height[i], bits, false);
			hash.push(b.block_hash());
			work.push(work[p] + b.header.work());
			blocks.push(b);
		}
		let mut by_hash = HashMap::new();
		for (i, h) in hash.iter().enumerate() {
			let dup = by_hash.insert(*h, i);
			assert!(dup.is_none(), "duplicate block hash in tree");
		}
		let id = mc_common::fnv64(spec.short().as_bytes());
		Tree { spec: spec.clone(), n, parent, children, height, work, blocks, hash, by_hash, id }
	}

	pub fn node_of(&self, h: &BlockHash) -> Option<usize> {
		self.by_hash.get(h).copied()
	}

	/// `a` is an ancestor of `b` or `a == b`.
	pub fn is_ancestor_or_self(&self, a: usize, mut b: usize) -> bool {
		while self.height[b] > self.height[a] {
			b = self.parent[b];
		}
		a == b
	}

	pub fn lca(&self, mut a: usize, mut b: usize) -> usize {
		while self.height[a] > self.height[b] {
			a = self.parent[a];
		}
		while self.height[b] > self.height[a] {
			b = self.parent[b];
		}
		while a != b {
			a = self.parent[a];
			b = self.parent[b];
		}
		a
	}

	/// First node (lowest index) with maximal accumulated work.
	pub fn max_work_node(&self) -> usize {
		let mut best = 0;
		for i in 1..self.n {
			if self.work[i] > self.work[best] {
				best = i;
			}
		}
		best
	}

	pub fn light_work(&self) -> Work {
		self.blocks[0].header.work()
	}
}

/// All rooted unordered trees with exactly `n` nodes, each as a parent vector in DFS pre-order
/// (children ordered by descending canonical encoding). Counts: 1, 1, 2, 4, 9, 20, 48, 115 for
/// n = 1..8 (OEIS A000081).
pub fn rooted_trees(n: usize) -> Vec<Vec<usize>> {
	fn canon(children: &Vec<Vec<usize>>, v: usize) -> String {
		let mut cs: Vec<String> = children[v].iter().map(|c| canon(children, *c)).collect();
		cs.sort();
		cs.reverse();
		format!("({})", cs.concat())
	}
	fn rec(n: usize, cur: &mut Vec<usize>, out: &mut BTreeSet<String>) {
		if cur.len() + 1 == n {
			let mut ch = vec![Vec::new(); n];
			for (i, p) in cur.iter().enumerate() {
				ch[*p].push(i + 1);
			}
			out.insert(canon(&ch, 0));
			return;
		}
		let i = cur.len() + 1;
		for p in 0..i {
			cur.push(p);
			rec(n, cur, out);
			cur.pop();
		}
	}
	let mut set = BTreeSet::new();
	rec(n, &mut Vec::new(), &mut set);
	// Canonical string -> parent vector in pre-order.
	let mut res = Vec::new();
	for s in set {
		let mut parents: Vec<usize> = Vec::new();
		let mut stack: Vec<usize> = Vec::new();
		let mut next = 0usize;
		for c in s.chars() {
			if c == '(' {
				let id = next;
				next += 1;
				if let Some(p) = stack.last() {
					parents.push(*p);
				}
				debug_assert!(id == 0 || parents.len() == id);
				stack.push(id);
			} else {
				stack.pop();
			}
		}
		res.push(parents);
	}
	// Deterministic order: lexicographic on the parent vector.
	res.sort();
	res
}
