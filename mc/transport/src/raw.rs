//! One real `PeerManager` talking to a raw peer that is driven by the independent BOLT-8 reference.
use crate::bolt8::{Cipher, Decoder, Initiator, Responder};
use crate::nodes::*;
use bitcoin::secp256k1::SecretKey;
use mc_common::{json, Value};
use std::sync::{Arc, Mutex};

#[derive(Clone, Copy, Debug, PartialEq, Eq)]
pub enum Role {
	/// The raw peer connects to a real inbound `PeerManager`.
	RawInitiator,
	/// A real outbound `PeerManager` connects to the raw peer.
	RawResponder,
}

#[derive(Clone, Debug, PartialEq, Eq)]
pub enum Step {
	/// Bytes handed to the node verbatim in one `read_event`.
	Bytes(Vec<u8>),
	/// The raw peer's next handshake act, computed by the reference from what the node sent so far,
	/// with `xor` applied to its leading bytes and cut to `keep` bytes (usize::MAX = whole act).
	Act { xor: Vec<u8>, keep: usize },
	/// A correct `init` (no features, no TLVs).
	Init,
	/// An encrypted record carrying `ty || payload`.
	Msg { ty: u16, payload: Vec<u8> },
	/// An encrypted record whose plaintext is `body` verbatim and whose length field says `claimed`.
	Record { claimed: u16, body: Vec<u8> },
	/// The raw peer closes the socket.
	Close,
}

impl Step {
	pub fn to_json(&self) -> Value {
		match self {
			Step::Bytes(b) => json!({"k": "bytes", "hex": mc_common::hex(b)}),
			Step::Act { xor, keep } => json!({"k": "act", "xor": mc_common::hex(xor), "keep": if *keep == usize::MAX { -1i64 } else { *keep as i64 }}),
			Step::Init => json!({"k": "init"}),
			Step::Msg { ty, payload } => json!({"k": "msg", "ty": ty, "hex": mc_common::hex(payload)}),
			Step::Record { claimed, body } => json!({"k": "record", "claimed": claimed, "hex": mc_common::hex(body)}),
			Step::Close => json!({"k": "close"}),
		}
	}
	pub fn from_json(v: &Value) -> Option<Step> {
		let h = |k: &str| v.get(k).and_then(|x| x.as_str()).and_then(mc_common::unhex);
		Some(match v.get("k")?.as_str()? {
			"bytes" => Step::Bytes(h("hex")?),
			"act" => {
				let k = v.get("keep")?.as_i64()?;
				Step::Act { xor: h("xor")?, keep: if k < 0 { usize::MAX } else { k as usize } }
			},
			"init" => Step::Init,
			"msg" => Step::Msg { ty: v.get("ty")?.as_u64()? as u16, payload: h("hex")? },
			"record" => Step::Record { claimed: v.get("claimed")?.as_u64()? as u16, body: h("hex")? },
			"close" => Step::Close,
			_ => return None,
		})
	}
}

pub struct RawTrace {
	/// Handler observations on the real node.
	pub events: Vec<Ev>,
	/// Per step: did `read_event` return Err (None = no read happened in that step).
	pub step_err: Vec<Option<bool>>,
	pub ldk_closed: bool,
	pub any_err: bool,
	/// The reference completed the handshake with the node (both derived transport keys).
	pub handshake_done: bool,
	/// Messages (type || payload) the node sent us, decrypted by the reference.
	pub node_msgs: Vec<Vec<u8>>,
	/// The node's output could not be authenticated by the reference.
	pub node_stream_bad: Option<String>,
	pub node_bytes: usize,
	pub api_calls: u64,
}

pub const INIT_PLAINTEXT: [u8; 6] = [0, 16, 0, 0, 0, 0];

enum RawState {
	IniStart(Initiator),
	IniWaitAct2(Initiator),
	RespWaitAct1(Responder),
	RespWaitAct3(Responder),
	Done,
	Dead,
}

/// Runs `script` against a fresh real node. The node's own queued messages (`node_script`) are sent
/// by it once it has processed the raw peer's Init.
pub fn run(role: Role, script: &[Step], node_script: &[Msg]) -> RawTrace {
	let obs = Arc::new(Mutex::new(Obs::default()));
	let wire = Arc::new(Mutex::new(Wire::default()));
	// the real node plays side 1 (B, inbound) against a raw initiator, side 0 (A, outbound) otherwise
	let side = if role == Role::RawInitiator { 1 } else { 0 };
	let raw_side = 1 - side;
	let node = Node::new(side as u8, node_pubkey(side), obs.clone(), node_script.to_vec());
	let pm = make_pm(side, &node);
	let mut sock = Sock { side: side as u8, wire: wire.clone() };
	let raw_static = node_secret(raw_side);
	let raw_eph = SecretKey::from_slice(&[0x3c + raw_side as u8; 32]).unwrap();
	let mut api_calls = 1u64;
	let mut state;
	let mut consumed = 0usize; // bytes of the node's output already interpreted by the raw peer
	match role {
		Role::RawInitiator => {
			pm.new_inbound_connection(sock.clone(), None).expect("inbound");
			state = RawState::IniStart(Initiator::new(raw_static, raw_eph, node_pubkey(side)));
		},
		Role::RawResponder => {
			let act1 = pm.new_outbound_connection(node_pubkey(raw_side), sock.clone(), None).expect("outbound");
			wire.lock().unwrap().tx[side].stream.extend_from_slice(&act1);
			state = RawState::RespWaitAct1(Responder::new(raw_static, raw_eph));
		},
	}
	let mut cipher: Option<Cipher> = None;
	let mut dec = Decoder::new();
	let mut node_msgs = Vec::new();
	let mut node_stream_bad = None;
	let mut step_err = Vec::new();
	let mut closed = false;
	let mut any_err = false;

	let mangle = |act: &[u8], xor: &[u8], keep: usize| -> Vec<u8> {
		let mut v = act.to_vec();
		for (i, x) in xor.iter().enumerate() {
			if i < v.len() {
				v[i] ^= x;
			}
		}
		v.truncate(keep.min(v.len()));
		v
	};

	for st in script {
		let out: Vec<u8> = wire.lock().unwrap().tx[side].stream.clone();
		// let the raw peer digest what the node has sent so far
		if let (Some(c), None) = (cipher.as_mut(), node_stream_bad.as_ref()) {
			match dec.feed(c, &out[consumed..]) {
				Ok(ms) => node_msgs.extend(ms),
				Err(e) => node_stream_bad = Some(e.to_string()),
			}
			consumed = out.len();
		}
		let mut to_send: Option<Vec<u8>> = None;
		match st {
			Step::Bytes(b) => to_send = Some(b.clone()),
			Step::Act { xor, keep } => {
				let cur = std::mem::replace(&mut state, RawState::Dead);
				match cur {
					RawState::IniStart(mut i) => {
						let a = i.act_one();
						to_send = Some(mangle(&a, xor, *keep));
						state = RawState::IniWaitAct2(i);
					},
					RawState::IniWaitAct2(i) => {
						if out.len() >= consumed + 50 {
							match i.recv_act_two(&out[consumed..consumed + 50]) {
								Ok((a3, c)) => {
									consumed += 50;
									to_send = Some(mangle(&a3, xor, *keep));
									cipher = Some(c);
									state = RawState::Done;
								},
								Err(e) => node_stream_bad = Some(format!("act two: {}", e)),
							}
						} else {
							node_stream_bad = Some("node did not answer act one".into());
						}
					},
					RawState::RespWaitAct1(mut r) => {
						if out.len() >= consumed + 50 {
							match r.recv_act_one(&out[consumed..consumed + 50]) {
								Ok(a2) => {
									consumed += 50;
									to_send = Some(mangle(&a2, xor, *keep));
									state = RawState::RespWaitAct3(r);
								},
								Err(e) => node_stream_bad = Some(format!("act one: {}", e)),
							}
						}
					},
					other => state = other,
				}
			},
			Step::Init => {
				if let Some(c) = cipher.as_mut() {
					to_send = Some(c.encrypt(&INIT_PLAINTEXT));
				}
			},
			Step::Msg { ty, payload } => {
				if let Some(c) = cipher.as_mut() {
					let mut m = ty.to_be_bytes().to_vec();
					m.extend_from_slice(payload);
					to_send = Some(c.encrypt(&m));
				}
			},
			Step::Record { claimed, body } => {
				if let Some(c) = cipher.as_mut() {
					to_send = Some(c.encrypt_with_len(*claimed, body));
				}
			},
			Step::Close => {
				if !closed {
					closed = true;
					api_calls += 1;
					pm.socket_disconnected(&sock);
				}
				step_err.push(None);
				continue;
			},
		}
		match to_send {
			Some(bytes) if !closed && !bytes.is_empty() => {
				api_calls += 2;
				let r = pm.read_event(&mut sock, &bytes);
				if r.is_err() {
					closed = true;
					any_err = true;
				}
				step_err.push(Some(r.is_err()));
				pm.process_events();
				if wire.lock().unwrap().tx[side].closed_by_ldk {
					closed = true;
				}
			},
			_ => step_err.push(None),
		}
		// a raw responder finishes the handshake when the node's act three arrives
		if let RawState::RespWaitAct3(_) = state {
			let out: Vec<u8> = wire.lock().unwrap().tx[side].stream.clone();
			if out.len() >= consumed + 66 {
				if let RawState::RespWaitAct3(r) = std::mem::replace(&mut state, RawState::Dead) {
					match r.recv_act_three(&out[consumed..consumed + 66]) {
						Ok((their, c)) => {
							consumed += 66;
							if their != node_pubkey(side) {
								node_stream_bad = Some("act three carries a different identity".into());
							}
							cipher = Some(c);
							state = RawState::Done;
						},
						Err(e) => node_stream_bad = Some(format!("act three: {}", e)),
					}
				}
			}
		}
	}
	pm.process_events();
	api_calls += 1;
	let out: Vec<u8> = wire.lock().unwrap().tx[side].stream.clone();
	if let (Some(c), None) = (cipher.as_mut(), node_stream_bad.as_ref()) {
		match dec.feed(c, &out[consumed..]) {
			Ok(ms) => node_msgs.extend(ms),
			Err(e) => node_stream_bad = Some(e.to_string()),
		}
	}
	let events = obs.lock().unwrap().events.iter().map(|(_, e)| e.clone()).collect();
	let ldk_closed = wire.lock().unwrap().tx[side].closed_by_ldk;
	RawTrace {
		events,
		step_err,
		ldk_closed,
		any_err,
		handshake_done: matches!(state, RawState::Done),
		node_msgs,
		node_stream_bad,
		node_bytes: out.len(),
		api_calls,
	}
}

/// The usual opening of a well-behaved raw peer up to (not including) its Init.
pub fn handshake_steps(role: Role) -> Vec<Step> {
	let act = Step::Act { xor: vec![], keep: usize::MAX };
	match role {
		Role::RawInitiator => vec![act.clone(), act],
		Role::RawResponder => vec![act],
	}
}
