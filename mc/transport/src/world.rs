//! Two real `PeerManager`s joined by the harness socket; the driver owns every environment answer.
use crate::nodes::*;
use mc_common::explore::Failure;
use mc_common::{json, Value};
use std::sync::{Arc, Mutex};

pub const A: usize = 0;
pub const B: usize = 1;

/// A deviation from the default environment answers, or an in-flight manipulation of the stream.
/// `dir` is the *sending* side of the affected direction (0 = A->B, 1 = B->A). Offsets of `Cut` and
/// `Trunc` refer to the byte stream as presented to the receiver, those of `Short`, `Flip` and
/// `Splice` to the byte stream as produced by the sender.
#[derive(Clone, Debug, PartialEq, Eq)]
pub enum Dev {
	/// One `read_event` ends exactly at this offset (the stream is cut there).
	Cut { dir: usize, off: usize },
	/// The sender's socket buffer is full at this offset: `send_data` accepts only up to it and
	/// returns 0 until `write_buffer_space_avail` has been called.
	Short { dir: usize, off: usize },
	/// The `nth` `write_buffer_space_avail` owed to `dir`'s sender comes `rounds` rounds late.
	DelayW { dir: usize, nth: usize, rounds: usize },
	/// The `nth` `process_events` call on `side` is skipped (the next one does its work).
	SkipProc { side: usize, nth: usize },
	/// Bit `bit` (absolute, LSB-first within each byte) of the sender's stream is inverted in flight.
	Flip { dir: usize, bit: usize },
	/// Exactly `off` bytes of this direction are delivered, then both sockets are closed.
	Trunc { dir: usize, off: usize },
	/// Before byte `at` of the sender's stream, `ins` is inserted and the next `del` bytes are dropped.
	Splice { dir: usize, at: usize, del: usize, ins: Vec<u8> },
}

impl Dev {
	pub fn is_tamper(&self) -> bool {
		matches!(self, Dev::Flip { .. } | Dev::Trunc { .. } | Dev::Splice { .. })
	}
	pub fn to_json(&self) -> Value {
		match self {
			Dev::Cut { dir, off } => json!({"k": "cut", "dir": dir, "off": off}),
			Dev::Short { dir, off } => json!({"k": "short", "dir": dir, "off": off}),
			Dev::DelayW { dir, nth, rounds } => json!({"k": "delayw", "dir": dir, "nth": nth, "rounds": rounds}),
			Dev::SkipProc { side, nth } => json!({"k": "skipproc", "side": side, "nth": nth}),
			Dev::Flip { dir, bit } => json!({"k": "flip", "dir": dir, "bit": bit}),
			Dev::Trunc { dir, off } => json!({"k": "trunc", "dir": dir, "off": off}),
			Dev::Splice { dir, at, del, ins } => json!({"k": "splice", "dir": dir, "at": at, "del": del, "ins": mc_common::hex(ins)}),
		}
	}
	pub fn from_json(v: &Value) -> Option<Dev> {
		let u = |k: &str| v.get(k).and_then(|x| x.as_u64()).map(|x| x as usize);
		Some(match v.get("k")?.as_str()? {
			"cut" => Dev::Cut { dir: u("dir")?, off: u("off")? },
			"short" => Dev::Short { dir: u("dir")?, off: u("off")? },
			"delayw" => Dev::DelayW { dir: u("dir")?, nth: u("nth")?, rounds: u("rounds")? },
			"skipproc" => Dev::SkipProc { side: u("side")?, nth: u("nth")? },
			"flip" => Dev::Flip { dir: u("dir")?, bit: u("bit")? },
			"trunc" => Dev::Trunc { dir: u("dir")?, off: u("off")? },
			"splice" => Dev::Splice { dir: u("dir")?, at: u("at")?, del: u("del")?, ins: mc_common::unhex(v.get("ins")?.as_str()?)? },
			_ => return None,
		})
	}
	pub fn short_str(&self) -> String {
		match self {
			Dev::Cut { dir, off } => format!("cut{}@{}", dir, off),
			Dev::Short { dir, off } => format!("short{}@{}", dir, off),
			Dev::DelayW { dir, nth, rounds } => format!("delayw{}#{}+{}", dir, nth, rounds),
			Dev::SkipProc { side, nth } => format!("skipproc{}#{}", side, nth),
			Dev::Flip { dir, bit } => format!("flip{}@{}.{}", dir, bit / 8, bit % 8),
			Dev::Trunc { dir, off } => format!("trunc{}@{}", dir, off),
			Dev::Splice { dir, at, del, ins } => format!("splice{}@{}-{}+{}:{:08x}", dir, at, del, ins.len(), mc_common::fnv64(ins) as u32),
		}
	}
}

#[derive(Clone, Debug, PartialEq)]
pub struct Scenario {
	pub name: String,
	/// What each side queues for the other once it has processed the other's Init.
	pub send: [Vec<Msg>; 2],
	/// Default maximum size of one `read_event` (0 = everything in flight).
	pub chunk: usize,
	/// Side s queues its messages only after having handled this many messages from the peer
	/// (0 = as soon as the peer's Init was processed).
	pub release_after: [usize; 2],
}

impl Scenario {
	pub fn to_json(&self) -> Value {
		json!({
			"name": self.name,
			"chunk": self.chunk,
			"release_after": [self.release_after[0], self.release_after[1]],
			"send_a": self.send[0].iter().map(|m| m.to_json()).collect::<Vec<_>>(),
			"send_b": self.send[1].iter().map(|m| m.to_json()).collect::<Vec<_>>(),
		})
	}
	pub fn from_json(v: &Value) -> Option<Scenario> {
		let q = |k: &str| -> Option<Vec<Msg>> { v.get(k)?.as_array()?.iter().map(Msg::from_json).collect() };
		let ra = |i: usize| v.get("release_after").and_then(|r| r.get(i)).and_then(|x| x.as_u64()).unwrap_or(0) as usize;
		Some(Scenario { name: v.get("name")?.as_str()?.to_string(), chunk: v.get("chunk")?.as_u64()? as usize, send: [q("send_a")?, q("send_b")?], release_after: [ra(0), ra(1)] })
	}
}

/// What is known about the tampering of a run, for the oracle.
#[derive(Clone, Debug, Default)]
pub struct Counters {
	pub api_calls: u64,
	pub rounds: u64,
	pub reads: u64,
	pub cuts_applied: u64,
	pub shorts_applied: u64,
	pub zero_accepts: u64,
	pub delays_applied: u64,
	pub skips_applied: u64,
	pub deferred_reads: u64,
	pub pause_signals: u64,
	pub records: [u64; 2],
	pub delivered_msgs: u64,
	pub read_errs: u64,
	pub ldk_disconnects: u64,
}

pub struct Trace {
	pub streams: [Vec<u8>; 2],
	pub rec_ends: [Vec<usize>; 2],
	pub rx_len: [usize; 2],
	pub events: Vec<(u8, Ev)>,
	pub read_err: [bool; 2],
	pub ldk_closed: [bool; 2],
	pub closed: [bool; 2],
	pub undelivered: [usize; 2],
	pub paused_at_end: [bool; 2],
	pub unsent: [usize; 2],
	pub proc_calls: [usize; 2],
	pub counters: Counters,
	/// Digests of the abstract harness state after every driver step (for distinct-state counting).
	pub state_digests: Vec<u64>,
}

const HORIZON: u64 = 20_000;

struct Driver<'a> {
	pm: [PM; 2],
	sock: [Sock; 2],
	wire: Arc<Mutex<Wire>>,
	nodes: [Arc<Node>; 2],
	obs: Arc<Mutex<Obs>>,
	devs: &'a [Dev],
	chunk: usize,
	// mitm / receiver view, indexed by direction (= sending side)
	mitm_pos: [usize; 2],
	mitm_skip: [usize; 2],
	splice_done: Vec<bool>,
	rx_pending: [Vec<u8>; 2],
	rx_delivered: [usize; 2],
	tampered_dir: [bool; 2],
	closed: [bool; 2],
	read_err: [bool; 2],
	proc_calls: [usize; 2],
	delay_left: [Option<usize>; 2],
	c: Counters,
	digests: Vec<u64>,
	collect_states: bool,
}

impl<'a> Driver<'a> {
	fn process_events(&mut self, s: usize) {
		let nth = self.proc_calls[s];
		self.proc_calls[s] += 1;
		if self.devs.iter().any(|d| matches!(d, Dev::SkipProc { side, nth: n } if *side == s && *n == nth)) {
			self.c.skips_applied += 1;
			return;
		}
		self.c.api_calls += 1;
		self.pm[s].process_events();
		self.snapshot();
	}

	fn snapshot(&mut self) {
		if !self.collect_states {
			return;
		}
		let w = self.wire.lock().unwrap();
		let n = self.obs.lock().unwrap().events.len();
		let mut b = [0u8; 80];
		let mut put = |i: usize, v: u64| b[i * 8..i * 8 + 8].copy_from_slice(&v.to_le_bytes());
		put(0, w.tx[0].stream.len() as u64);
		put(1, w.tx[1].stream.len() as u64);
		put(2, self.rx_delivered[0] as u64);
		put(3, self.rx_delivered[1] as u64);
		put(4, n as u64);
		put(5, (w.tx[0].blocked as u64) | (w.tx[1].blocked as u64) << 1 | (w.tx[0].read_paused as u64) << 2 | (w.tx[1].read_paused as u64) << 3 | (self.closed[0] as u64) << 4 | (self.closed[1] as u64) << 5 | (self.read_err[0] as u64) << 6 | (self.read_err[1] as u64) << 7);
		put(6, self.rx_pending[0].len() as u64);
		put(7, self.rx_pending[1].len() as u64);
		put(8, w.tx[0].rec_ends.len() as u64);
		put(9, w.tx[1].rec_ends.len() as u64);
		self.digests.push(mc_common::fnv64(&b));
	}

	/// Moves newly sent bytes of direction `d` through the man-in-the-middle into the receiver's queue.
	fn filter(&mut self, d: usize) {
		let w = self.wire.lock().unwrap();
		let tx = &w.tx[d].stream;
		if !self.tampered_dir[d] {
			self.rx_pending[d].extend_from_slice(&tx[self.mitm_pos[d]..]);
			self.mitm_pos[d] = tx.len();
			return;
		}
		loop {
			let pos = self.mitm_pos[d];
			for (i, dv) in self.devs.iter().enumerate() {
				if let Dev::Splice { dir, at, del, ins } = dv {
					if *dir == d && *at == pos && !self.splice_done[i] {
						self.splice_done[i] = true;
						self.rx_pending[d].extend_from_slice(ins);
						self.mitm_skip[d] += *del;
					}
				}
			}
			if pos >= tx.len() {
				break;
			}
			let mut b = tx[pos];
			self.mitm_pos[d] += 1;
			if self.mitm_skip[d] > 0 {
				self.mitm_skip[d] -= 1;
				continue;
			}
			for dv in self.devs {
				if let Dev::Flip { dir, bit } = dv {
					if *dir == d && bit / 8 == pos {
						b ^= 1 << (bit % 8);
					}
				}
			}
			self.rx_pending[d].push(b);
		}
	}

	/// The connection of `s` is over (error returned to us, LDK asked us to close, or we cut it): no
	/// further per-descriptor calls for `s`; the other end sees EOF.
	fn close(&mut self, s: usize, notify_self: bool) {
		if !self.closed[s] {
			self.closed[s] = true;
			self.wire.lock().unwrap().tx[s].closed = true;
			if notify_self {
				self.c.api_calls += 1;
				self.pm[s].socket_disconnected(&self.sock[s]);
			}
		}
		let o = 1 - s;
		if !self.closed[o] {
			self.closed[o] = true;
			self.wire.lock().unwrap().tx[o].closed = true;
			self.c.api_calls += 1;
			self.pm[o].socket_disconnected(&self.sock[o]);
		}
		self.snapshot();
	}

	fn check_ldk_close(&mut self) {
		for s in 0..2 {
			let by_ldk = self.wire.lock().unwrap().tx[s].closed_by_ldk;
			if by_ldk && !self.closed[s] {
				self.c.ldk_disconnects += 1;
				self.close(s, false);
			}
		}
	}

	fn run(&mut self) -> Result<(), Failure> {
		loop {
			self.c.rounds += 1;
			if self.c.rounds > HORIZON {
				return Err(Failure::new("horizon", format!("no quiescence after {} rounds", HORIZON)));
			}
			let mut progress = false;
			// 1. writable notifications owed to blocked senders
			for s in 0..2 {
				if self.closed[s] {
					continue;
				}
				let (blocked, nth) = {
					let w = self.wire.lock().unwrap();
					(w.tx[s].blocked, w.tx[s].blocked_events.saturating_sub(1))
				};
				if !blocked {
					continue;
				}
				progress = true;
				if self.delay_left[s].is_none() {
					let extra: usize = self.devs.iter().map(|d| match d { Dev::DelayW { dir, nth: n, rounds } if *dir == s && *n == nth => *rounds, _ => 0 }).sum();
					if extra > 0 {
						self.c.delays_applied += 1;
					}
					self.delay_left[s] = Some(extra);
				}
				let left = self.delay_left[s].unwrap();
				if left > 0 {
					self.delay_left[s] = Some(left - 1);
					continue;
				}
				self.delay_left[s] = None;
				self.wire.lock().unwrap().tx[s].blocked = false;
				self.c.api_calls += 1;
				let r = self.pm[s].write_buffer_space_avail(&mut self.sock[s]);
				self.snapshot();
				if r.is_err() {
					self.read_err[s] = true;
					self.close(s, false);
				}
				self.check_ldk_close();
			}
			// 2. reads
			for s in 0..2 {
				let d = 1 - s;
				self.filter(d);
				if self.closed[s] {
					continue;
				}
				// a truncation point at the current position closes before anything else is read
				if self.devs.iter().any(|dv| matches!(dv, Dev::Trunc { dir, off } if *dir == d && *off == self.rx_delivered[d])) {
					self.close(s, true);
					progress = true;
					continue;
				}
				if self.rx_pending[d].is_empty() {
					continue;
				}
				if self.wire.lock().unwrap().tx[s].read_paused {
					self.c.deferred_reads += 1;
					continue;
				}
				let at = self.rx_delivered[d];
				let mut n = self.rx_pending[d].len();
				if self.chunk > 0 {
					n = n.min(self.chunk);
				}
				let mut cut = false;
				let mut trunc = false;
				for dv in self.devs {
					match dv {
						Dev::Cut { dir, off } if *dir == d && *off > at && *off < at + n => {
							n = off - at;
							cut = true;
							trunc = false;
						},
						Dev::Trunc { dir, off } if *dir == d && *off > at && *off <= at + n => {
							n = off - at;
							trunc = true;
						},
						_ => {},
					}
				}
				if cut && !trunc {
					self.c.cuts_applied += 1;
				}
				let data: Vec<u8> = self.rx_pending[d].drain(..n).collect();
				self.rx_delivered[d] += n;
				self.c.api_calls += 1;
				self.c.reads += 1;
				let r = self.pm[s].read_event(&mut self.sock[s], &data);
				progress = true;
				self.snapshot();
				if r.is_err() {
					self.read_err[s] = true;
					self.c.read_errs += 1;
					self.close(s, false);
				} else if trunc {
					self.close(s, true);
				}
				self.process_events(s);
				self.check_ldk_close();
			}
			// 3. background process_events on both sides
			for s in 0..2 {
				let before = { let w = self.wire.lock().unwrap(); (w.tx[0].stream.len(), w.tx[1].stream.len(), w.tx[0].send_calls + w.tx[1].send_calls) };
				self.process_events(s);
				self.check_ldk_close();
				let after = { let w = self.wire.lock().unwrap(); (w.tx[0].stream.len(), w.tx[1].stream.len(), w.tx[0].send_calls + w.tx[1].send_calls) };
				if before.0 != after.0 || before.1 != after.1 {
					progress = true;
				}
			}
			if !progress {
				// one more look at the mitm queues (a splice at the very end of a stream)
				self.filter(0);
				self.filter(1);
				let more = (0..2).any(|d| !self.rx_pending[d].is_empty() && !self.closed[1 - d] && !self.wire.lock().unwrap().tx[1 - d].read_paused);
				if !more {
					return Ok(());
				}
			}
		}
	}
}

/// Runs one connection between two real PeerManagers under the given environment answers.
pub fn run(scn: &Scenario, devs: &[Dev], collect_states: bool) -> Result<Trace, Failure> {
	let obs = Arc::new(Mutex::new(Obs::default()));
	let wire = Arc::new(Mutex::new(Wire::default()));
	let nodes = [
		Node::new_released_after(0, node_pubkey(0), obs.clone(), scn.send[0].clone(), scn.release_after[0]),
		Node::new_released_after(1, node_pubkey(1), obs.clone(), scn.send[1].clone(), scn.release_after[1]),
	];
	let pm = [make_pm(0, &nodes[0]), make_pm(1, &nodes[1])];
	let sock = [Sock { side: 0, wire: wire.clone() }, Sock { side: 1, wire: wire.clone() }];
	{
		let mut w = wire.lock().unwrap();
		for dv in devs {
			if let Dev::Short { dir, off } = dv {
				w.tx[*dir].shorts.push(*off);
			}
		}
		w.tx[0].shorts.sort();
		w.tx[1].shorts.sort();
	}
	let mut tampered_dir = [false; 2];
	for dv in devs {
		match dv {
			Dev::Flip { dir, .. } | Dev::Splice { dir, .. } => tampered_dir[*dir] = true,
			_ => {},
		}
	}
	let mut drv = Driver {
		pm,
		sock,
		wire: wire.clone(),
		nodes,
		obs: obs.clone(),
		devs,
		chunk: scn.chunk,
		mitm_pos: [0; 2],
		mitm_skip: [0; 2],
		splice_done: vec![false; devs.len()],
		rx_pending: [Vec::new(), Vec::new()],
		rx_delivered: [0; 2],
		tampered_dir,
		closed: [false; 2],
		read_err: [false; 2],
		proc_calls: [0; 2],
		delay_left: [None; 2],
		c: Counters::default(),
		digests: Vec::new(),
		collect_states,
	};
	// connection set-up: the driver itself writes act one (LDK returns it instead of calling send_data)
	let act1 = drv.pm[A]
		.new_outbound_connection(node_pubkey(B), drv.sock[A].clone(), None)
		.map_err(|_| Failure::new("setup", "new_outbound_connection failed"))?;
	{
		let mut w = wire.lock().unwrap();
		w.tx[A].stream.extend_from_slice(&act1);
		let e = w.tx[A].stream.len();
		w.tx[A].rec_ends.push(e);
	}
	drv.pm[B].new_inbound_connection(drv.sock[B].clone(), None).map_err(|_| Failure::new("setup", "new_inbound_connection failed"))?;
	drv.c.api_calls += 2;
	drv.snapshot();
	drv.run()?;

	let w = wire.lock().unwrap();
	let mut c = drv.c.clone();
	for s in 0..2 {
		c.shorts_applied += w.tx[s].short_answers;
		c.zero_accepts += w.tx[s].zero_answers;
		c.pause_signals += w.tx[s].pause_signals;
		c.records[s] = w.tx[s].rec_ends.len() as u64;
	}
	if let Some(m) = w.tx[0].resend_mismatch.clone().or(w.tx[1].resend_mismatch.clone()) {
		return Err(Failure::new("resend-consistency", m));
	}
	let events = std::mem::take(&mut obs.lock().unwrap().events);
	c.delivered_msgs = events.iter().filter(|(_, e)| matches!(e, Ev::Msg { .. })).count() as u64;
	Ok(Trace {
		streams: [w.tx[0].stream.clone(), w.tx[1].stream.clone()],
		rec_ends: [w.tx[0].rec_ends.clone(), w.tx[1].rec_ends.clone()],
		rx_len: drv.rx_delivered,
		events,
		read_err: drv.read_err,
		ldk_closed: [w.tx[0].closed_by_ldk, w.tx[1].closed_by_ldk],
		closed: drv.closed,
		undelivered: [drv.rx_pending[0].len(), drv.rx_pending[1].len()],
		paused_at_end: [w.tx[0].read_paused, w.tx[1].read_paused],
		unsent: [drv.nodes[0].unsent(), drv.nodes[1].unsent()],
		proc_calls: drv.proc_calls,
		counters: c,
		state_digests: std::mem::take(&mut drv.digests),
	})
}

/// Expected receiver-side observations of what `sender` queued, grouped by ordering domain.
pub fn expected_items(scn: &Scenario, sender: usize) -> Vec<(u8, Ev)> {
	let mut v = Vec::new();
	for m in &scn.send[sender] {
		for e in m.expected() {
			v.push((m.queue(), e));
		}
	}
	v
}

/// The order in which LDK's `process_events` puts one batch of directly sent messages on the wire:
/// channel-handler events, routing-handler events, then custom messages (gossip broadcasts excluded).
pub fn wire_order(scn: &Scenario, sender: usize) -> Vec<Msg> {
	let mut v = Vec::new();
	for q in [Q_CHAN, Q_ROUTE, Q_CUSTOM] {
		v.extend(scn.send[sender].iter().filter(|m| m.queue() == q).cloned());
	}
	v
}

/// Checks one receiver's log against what the other side queued.
/// * `limit`: None = everything must have arrived; Some(k) = exactly the first `k` observations (in
///   wire order, single-queue scenarios) may and must have arrived; `at_most` relaxes "must".
pub fn check_delivery(scn: &Scenario, tr: &Trace, receiver: usize, limit: Option<usize>, at_most: bool) -> Result<usize, Failure> {
	let sender = 1 - receiver;
	let exp = expected_items(scn, sender);
	let mut next: [usize; 4] = [0; 4];
	let per_q: Vec<Vec<&Ev>> = (0..4u8).map(|q| exp.iter().filter(|(qq, _)| *qq == q).map(|(_, e)| e).collect()).collect();
	let mut seen = 0usize;
	for (side, ev) in &tr.events {
		if *side as usize != receiver {
			continue;
		}
		if let Ev::Msg { h, ty, bytes } = ev {
			seen += 1;
			// which queue does it continue?
			let mut matched = false;
			for q in 0..4 {
				if next[q] < per_q[q].len() && per_q[q][next[q]] == ev {
					next[q] += 1;
					matched = true;
					break;
				}
			}
			if !matched {
				let known = exp.iter().position(|(_, e)| e == ev);
				let what = match known {
					Some(i) => {
						let q = exp[i].0 as usize;
						let idx = per_q[q].iter().position(|e| *e == ev).unwrap();
						if idx < next[q] {
							format!("delivered twice (queue {} item {})", q, idx)
						} else {
							format!("delivered out of order (queue {} item {} while item {} was due)", q, idx, next[q])
						}
					},
					None => format!("a message nobody queued reached handler {} (type {}, {} bytes, digest {:016x})", h, ty, bytes.len(), mc_common::fnv64(bytes)),
				};
				return Err(Failure::new("exact-sequence", format!("side {}: observation #{}: {}", receiver, seen, what)));
			}
		}
	}
	let total: usize = per_q.iter().map(|v| v.len()).sum();
	match limit {
		None => {
			if seen != total {
				return Err(Failure::new("exact-sequence", format!("side {}: {} of {} queued observations arrived (connection open, nothing in flight)", receiver, seen, total)));
			}
		},
		Some(k) => {
			if seen > k {
				return Err(Failure::new("tamper-not-processed", format!("side {}: {} observations arrived but only the first {} precede the manipulated/undelivered bytes", receiver, seen, k)));
			}
			if seen < k && !at_most {
				return Err(Failure::new("prefix-delivered", format!("side {}: only {} of the {} observations fully received before the manipulation arrived", receiver, seen, k)));
			}
		},
	}
	Ok(seen)
}

/// Init-ordering oracle over the global log: a handler sees a message only after all three of its own
/// `peer_connected` calls (the peer's Init was processed here) and after the peer processed ours.
pub fn check_init_order(tr: &Trace) -> Result<(), Failure> {
	let mut conn = [[false; 3]; 2];
	let mut ever = [[false; 3]; 2];
	for (i, (side, ev)) in tr.events.iter().enumerate() {
		let s = *side as usize;
		match ev {
			Ev::Connected(h) => {
				if conn[s][*h as usize] {
					return Err(Failure::new("init-order", format!("side {} handler {} connected twice (event {})", s, h, i)));
				}
				conn[s][*h as usize] = true;
				ever[s][*h as usize] = true;
			},
			Ev::Disconnected(h) => conn[s][*h as usize] = false,
			Ev::Msg { h, ty, .. } => {
				if !(conn[s][0] && conn[s][1] && conn[s][2]) {
					return Err(Failure::new("init-order", format!("side {}: handler {} got message type {} before this side had processed the peer's Init (event {})", s, h, ty, i)));
				}
				let o = 1 - s;
				if !(ever[o][0] && ever[o][1] && ever[o][2]) {
					return Err(Failure::new("init-order", format!("side {}: handler {} got message type {} before the peer had processed our Init (event {})", s, h, ty, i)));
				}
			},
		}
	}
	Ok(())
}

/// Full oracle for a run without tampering.
pub fn check_clean(scn: &Scenario, tr: &Trace) -> Result<String, Failure> {
	check_init_order(tr)?;
	for s in 0..2 {
		if tr.read_err[s] {
			return Err(Failure::new("no-spurious-disconnect", format!("side {}: read_event/write_buffer_space_avail returned Err on an untampered stream", s)));
		}
		if tr.ldk_closed[s] {
			return Err(Failure::new("no-spurious-disconnect", format!("side {}: disconnect_socket was called on an untampered stream", s)));
		}
		if tr.undelivered[1 - s] > 0 {
			return Err(Failure::new("stalled", format!("side {} left {} received bytes unread at quiescence (reads paused: {})", s, tr.undelivered[1 - s], tr.paused_at_end[s])));
		}
		if tr.unsent[s] > 0 {
			return Err(Failure::new("exact-sequence", format!("side {}: {} queued messages were never taken (peer Init never processed)", s, tr.unsent[s])));
		}
	}
	let a = check_delivery(scn, tr, A, None, false)?;
	let b = check_delivery(scn, tr, B, None, false)?;
	// every handler connected exactly once, never disconnected
	for s in 0..2u8 {
		let n = tr.events.iter().filter(|(ss, e)| *ss == s && matches!(e, Ev::Connected(_))).count();
		let d = tr.events.iter().filter(|(ss, e)| *ss == s && matches!(e, Ev::Disconnected(_))).count();
		if n != 3 || d != 0 {
			return Err(Failure::new("exact-sequence", format!("side {}: {} peer_connected / {} peer_disconnected calls on an untampered connection", s, n, d)));
		}
	}
	Ok(format!("delivered a={} b={}", a, b))
}


/// Facts about the untampered default-schedule run of a scenario (the byte streams are
/// deterministic, so offsets found here address the same bytes in every other run of the scenario
/// as long as a single message batch per side is sent, which `verify_wire_order` establishes).
pub struct Base {
	pub streams: [Vec<u8>; 2],
	pub rec_ends: [Vec<usize>; 2],
	pub proc_calls: [usize; 2],
	pub counters: Counters,
}

impl Base {
	pub fn of(scn: &Scenario) -> Result<Base, Failure> {
		let tr = run(scn, &[], false)?;
		check_clean(scn, &tr)?;
		Ok(Base { streams: tr.streams, rec_ends: tr.rec_ends, proc_calls: tr.proc_calls, counters: tr.counters })
	}
	pub fn len(&self, d: usize) -> usize {
		self.streams[d].len()
	}
	pub fn unit_start(&self, d: usize, u: usize) -> usize {
		if u == 0 {
			0
		} else {
			self.rec_ends[d][u - 1]
		}
	}
	/// Index of the unit (handshake act or encrypted record) containing stream offset `off`.
	pub fn unit_of(&self, d: usize, off: usize) -> usize {
		self.rec_ends[d].iter().position(|e| *e > off).unwrap_or(self.rec_ends[d].len())
	}
	pub fn units(&self, d: usize) -> usize {
		self.rec_ends[d].len()
	}
}

/// Number of handshake acts in direction `d` (A sends acts one and three, B act two).
pub fn hs_units(d: usize) -> usize {
	if d == A {
		2
	} else {
		1
	}
}

/// Checks that direction `d` of the base run is exactly: acts, Init, then the queued messages in
/// `wire_order`, one record each (no pings, no gossip) - the precondition of the tamper oracles.
pub fn verify_wire_order(scn: &Scenario, base: &Base) -> Result<(), String> {
	for d in 0..2 {
		if scn.send[d].iter().any(|m| m.queue() == Q_GOSSIP) {
			return Err("tamper scenarios must not use gossip broadcasts".into());
		}
		let wo = wire_order(scn, d);
		let hs = hs_units(d);
		if base.units(d) != hs + 1 + wo.len() {
			return Err(format!("direction {}: {} units on the wire, expected {}", d, base.units(d), hs + 1 + wo.len()));
		}
		for (k, m) in wo.iter().enumerate() {
			let u = hs + 1 + k;
			let l = base.rec_ends[d][u] - base.unit_start(d, u);
			if l != m.record_len() {
				return Err(format!("direction {}: record {} is {} bytes, message {:?} needs {}", d, u, l, m, m.record_len()));
			}
		}
	}
	Ok(())
}

/// Observations the receiver of direction `d` must have made once exactly the units `< u` were
/// authentic and complete: (was the sender's Init among them, number of message observations).
pub fn obs_before_unit(scn: &Scenario, d: usize, u: usize) -> (bool, usize) {
	let hs = hs_units(d);
	if u <= hs {
		return (false, 0);
	}
	let wo = wire_order(scn, d);
	let n: usize = wo.iter().take(u - hs - 1).map(|m| m.expected().len()).sum();
	(true, n)
}

pub fn stage_name(base: &Base, d: usize, off: usize) -> &'static str {
	let u = base.unit_of(d, off);
	let hs = hs_units(d);
	if u < hs {
		return match (d, u) {
			(A, 0) => "act1",
			(A, _) => "act3",
			_ => "act2",
		};
	}
	if u >= base.units(d) {
		return "beyond";
	}
	let rel = off - base.unit_start(d, u);
	let len = base.rec_ends[d][u] - base.unit_start(d, u);
	let init = u == hs;
	if rel < 2 {
		if init { "init-len" } else { "len" }
	} else if rel < 18 {
		if init { "init-len-mac" } else { "len-mac" }
	} else if rel < len - 16 {
		if init { "init-body" } else { "body" }
	} else if init {
		"init-body-mac"
	} else {
		"body-mac"
	}
}

/// Oracle for a run with exactly one manipulation `dev` (plus any number of schedule deviations).
pub fn check_tampered(scn: &Scenario, base: &Base, dev: &Dev, tr: &Trace) -> Result<String, Failure> {
	check_init_order(tr)?;
	let (d, u, need_drop, exact) = match dev {
		Dev::Flip { dir, bit } => (*dir, base.unit_of(*dir, bit / 8), true, true),
		Dev::Trunc { dir, off } => {
			// units that end at or before `off` were received in full
			let u = base.rec_ends[*dir].iter().filter(|e| **e <= *off).count();
			(*dir, u, false, true)
		},
		Dev::Splice { dir, at, del, ins } => {
			let u = base.unit_of(*dir, *at);
			if base.unit_start(*dir, u) != *at && *at != base.len(*dir) {
				return Err(Failure::new("setup", "splice offsets must be unit boundaries"));
			}
			// A drop can only be demanded once the receiver holds enough bytes beyond the splice
			// point to complete the unit it is waiting for there (an act or an 18-byte header).
			let awaited = match (*dir, u) {
				(A, 0) => 50,
				(A, 1) => 66,
				(B, 0) => 50,
				_ => 18,
			};
			let _ = del;
			let got_after = tr.rx_len[*dir].saturating_sub(*at);
			(*dir, u, got_after >= awaited || (!ins.is_empty() && ins.len() >= awaited), true)
		},
		_ => return Err(Failure::new("setup", "not a manipulation")),
	};
	let r = 1 - d;
	let (init_ok, n_obs) = obs_before_unit(scn, d, u);
	let connected_r = tr.events.iter().filter(|(s, e)| *s as usize == r && matches!(e, Ev::Connected(_))).count();
	if !init_ok && connected_r > 0 {
		return Err(Failure::new("tamper-not-processed", format!("side {}: peer_connected was called although the peer's handshake/Init bytes were manipulated ({})", r, dev.short_str())));
	}
	if init_ok && connected_r != 3 {
		return Err(Failure::new("prefix-delivered", format!("side {}: the authentic Init preceding the manipulation was not processed ({} peer_connected calls)", r, connected_r)));
	}
	let hs = hs_units(d);
	if u < hs {
		// a manipulated handshake act: nobody may ever consider the connection established
		let any = tr.events.iter().filter(|(_, e)| matches!(e, Ev::Connected(_) | Ev::Msg { .. })).count();
		if any > 0 {
			return Err(Failure::new("tamper-not-processed", format!("handlers were called although a handshake act was manipulated ({})", dev.short_str())));
		}
	}
	let got = check_delivery(scn, tr, r, Some(n_obs), !exact)?;
	// the untouched direction may be cut short by the disconnect but must stay a clean prefix
	let total_other: usize = expected_items(scn, r).len();
	check_delivery(scn, tr, d, Some(total_other), true)?;
	if need_drop && !(tr.read_err[r] || tr.ldk_closed[r]) {
		return Err(Failure::new("tamper-detected", format!("side {}: neither read_event returned Err nor disconnect_socket was called after {}", r, dev.short_str())));
	}
	Ok(format!("rejected delivered={} unit={}", got, u))
}
