//! Recording message handlers, the harness `SocketDescriptor` and `PeerManager` construction.
use bitcoin::constants::ChainHash;
use bitcoin::secp256k1::ecdsa::Signature;
use bitcoin::secp256k1::{PublicKey, Secp256k1, SecretKey};
use bitcoin::{Network, ScriptBuf};
use lightning::io;
use lightning::ln::msgs::{self, BaseMessageHandler, ChannelMessageHandler, DecodeError, ErrorAction, Init, LightningError, MessageSendEvent, RoutingMessageHandler};
use lightning::ln::peer_handler::{CustomMessageHandler, IgnoringMessageHandler, MessageHandler, PeerManager, SocketDescriptor};
use lightning::ln::types::ChannelId;
use lightning::ln::wire::{CustomMessageReader, Type};
use lightning::routing::gossip::NodeId;
use lightning::types::features::{InitFeatures, NodeFeatures};
use lightning::util::logger::{Logger, Record};
use lightning::util::ser::{LengthLimitedRead, Writeable, Writer};
use lightning::util::test_utils::TestNodeSigner;
use std::sync::{Arc, Mutex};

pub const H_CHAN: u8 = 0;
pub const H_ROUTE: u8 = 1;
pub const H_CUSTOM: u8 = 2;

// BOLT message type numbers (spec constants, written out here rather than taken from LDK).
pub const T_WARNING: u16 = 1;
pub const T_STFU: u16 = 2;
pub const T_PEER_STORAGE: u16 = 7;
pub const T_PEER_STORAGE_RETRIEVAL: u16 = 9;
pub const T_INIT: u16 = 16;
pub const T_ERROR: u16 = 17;
pub const T_PING: u16 = 18;
pub const T_PONG: u16 = 19;
pub const T_OPEN_CHANNEL: u16 = 32;
pub const T_ACCEPT_CHANNEL: u16 = 33;
pub const T_FUNDING_CREATED: u16 = 34;
pub const T_FUNDING_SIGNED: u16 = 35;
pub const T_CHANNEL_READY: u16 = 36;
pub const T_SHUTDOWN: u16 = 38;
pub const T_CLOSING_SIGNED: u16 = 39;
pub const T_OPEN_CHANNEL2: u16 = 64;
pub const T_ACCEPT_CHANNEL2: u16 = 65;
pub const T_TX_ADD_INPUT: u16 = 66;
pub const T_TX_ADD_OUTPUT: u16 = 67;
pub const T_TX_REMOVE_INPUT: u16 = 68;
pub const T_TX_REMOVE_OUTPUT: u16 = 69;
pub const T_TX_COMPLETE: u16 = 70;
pub const T_TX_SIGNATURES: u16 = 71;
pub const T_TX_INIT_RBF: u16 = 72;
pub const T_TX_ACK_RBF: u16 = 73;
pub const T_TX_ABORT: u16 = 74;
pub const T_SPLICE_LOCKED: u16 = 77;
pub const T_SPLICE_INIT: u16 = 80;
pub const T_SPLICE_ACK: u16 = 81;
pub const T_UPDATE_ADD_HTLC: u16 = 128;
pub const T_UPDATE_FULFILL_HTLC: u16 = 130;
pub const T_UPDATE_FAIL_HTLC: u16 = 131;
pub const T_COMMITMENT_SIGNED: u16 = 132;
pub const T_REVOKE_AND_ACK: u16 = 133;
pub const T_UPDATE_FEE: u16 = 134;
pub const T_UPDATE_FAIL_MALFORMED: u16 = 135;
pub const T_CHANNEL_REESTABLISH: u16 = 136;
pub const T_CHANNEL_ANNOUNCEMENT: u16 = 256;
pub const T_NODE_ANNOUNCEMENT: u16 = 257;
pub const T_CHANNEL_UPDATE: u16 = 258;
pub const T_ANNOUNCEMENT_SIGNATURES: u16 = 259;
pub const T_QUERY_SHORT_CHANNEL_IDS: u16 = 261;
pub const T_REPLY_SHORT_CHANNEL_IDS_END: u16 = 262;
pub const T_QUERY_CHANNEL_RANGE: u16 = 263;
pub const T_REPLY_CHANNEL_RANGE: u16 = 264;
pub const T_GOSSIP_TIMESTAMP_FILTER: u16 = 265;
/// Custom (experimental range, odd) type used for size-controlled payloads.
pub const T_CUSTOM: u16 = 40001;

#[derive(Clone, Debug, PartialEq, Eq)]
pub enum Ev {
	Connected(u8),
	Disconnected(u8),
	/// A message reached handler `h`: its type and the re-encoding of what the handler was given.
	Msg { h: u8, ty: u16, bytes: Vec<u8> },
}

/// Global (both sides) observation log in real order.
#[derive(Default)]
pub struct Obs {
	pub events: Vec<(u8, Ev)>,
}

/// What a side queues for its peer once the peer's Init has been processed.
#[derive(Clone, Debug, PartialEq, Eq)]
pub enum Msg {
	Custom { len: usize, tag: u32 },
	Shutdown { len: usize, tag: u32 },
	TxAbort { len: usize, tag: u32 },
	ChannelReady { tag: u32 },
	Stfu { tag: u32 },
	Error { len: usize, tag: u32 },
	QueryRange { tag: u32 },
	/// `channel_update` sent directly (`SendChannelUpdate`).
	SendUpdate { excess: usize, tag: u32 },
	/// `channel_update` through the gossip broadcast buffer (`BroadcastChannelUpdate`, encrypt_buffer path).
	BcastUpdate { excess: usize, tag: u32 },
}

pub const Q_CHAN: u8 = 0;
pub const Q_ROUTE: u8 = 1;
pub const Q_CUSTOM: u8 = 2;
pub const Q_GOSSIP: u8 = 3;

pub fn pattern(len: usize, tag: u32) -> Vec<u8> {
	(0..len).map(|i| (tag as usize).wrapping_mul(31).wrapping_add(i * 7).wrapping_add(i >> 8) as u8).collect()
}

fn chan_id(tag: u32) -> ChannelId {
	let mut b = [0x5au8; 32];
	b[..4].copy_from_slice(&tag.to_be_bytes());
	ChannelId::from_bytes(b)
}

pub fn fixed_pubkey() -> PublicKey {
	PublicKey::from_secret_key(&Secp256k1::signing_only(), &SecretKey::from_slice(&[0x77; 32]).unwrap())
}

fn chan_update(excess: usize, tag: u32) -> msgs::ChannelUpdate {
	msgs::ChannelUpdate {
		signature: Signature::from_compact(&[1u8; 64]).unwrap(),
		contents: msgs::UnsignedChannelUpdate {
			chain_hash: ChainHash::using_genesis_block(Network::Testnet),
			short_channel_id: 0x0001_0000_0000_0000 + tag as u64,
			timestamp: 1000 + tag,
			message_flags: 1,
			channel_flags: 0,
			cltv_expiry_delta: 40,
			htlc_minimum_msat: 1,
			htlc_maximum_msat: 1_000_000,
			fee_base_msat: 2,
			fee_proportional_millionths: 3,
			excess_data: pattern(excess, tag),
		},
	}
}

impl Msg {
	pub fn queue(&self) -> u8 {
		match self {
			Msg::Custom { .. } => Q_CUSTOM,
			Msg::QueryRange { .. } => Q_ROUTE,
			Msg::BcastUpdate { .. } => Q_GOSSIP,
			_ => Q_CHAN,
		}
	}
	/// Wire encoding without the type prefix (type, payload).
	pub fn wire(&self) -> (u16, Vec<u8>) {
		match self {
			Msg::Custom { len, tag } => (T_CUSTOM, pattern(*len, *tag)),
			Msg::Shutdown { len, tag } => (T_SHUTDOWN, msgs::Shutdown { channel_id: chan_id(*tag), scriptpubkey: ScriptBuf::from_bytes(pattern(*len, *tag)) }.encode()),
			Msg::TxAbort { len, tag } => (T_TX_ABORT, msgs::TxAbort { channel_id: chan_id(*tag), data: pattern(*len, *tag) }.encode()),
			Msg::ChannelReady { tag } => (T_CHANNEL_READY, msgs::ChannelReady { channel_id: chan_id(*tag), next_per_commitment_point: fixed_pubkey(), short_channel_id_alias: Some(*tag as u64) }.encode()),
			Msg::Stfu { tag } => (T_STFU, msgs::Stfu { channel_id: chan_id(*tag), initiator: tag & 1 == 1 }.encode()),
			Msg::Error { len, tag } => (T_ERROR, msgs::ErrorMessage { channel_id: chan_id(*tag), data: ascii(*len, *tag) }.encode()),
			Msg::QueryRange { tag } => (T_QUERY_CHANNEL_RANGE, msgs::QueryChannelRange { chain_hash: ChainHash::using_genesis_block(Network::Testnet), first_blocknum: *tag, number_of_blocks: 7 }.encode()),
			Msg::SendUpdate { excess, tag } | Msg::BcastUpdate { excess, tag } => (T_CHANNEL_UPDATE, chan_update(*excess, *tag).encode()),
		}
	}
	/// Handler observations this message must produce at the receiver, in order.
	pub fn expected(&self) -> Vec<Ev> {
		let (ty, bytes) = self.wire();
		match self {
			Msg::Custom { .. } => vec![Ev::Msg { h: H_CUSTOM, ty, bytes }],
			Msg::QueryRange { .. } => vec![Ev::Msg { h: H_ROUTE, ty, bytes }],
			Msg::SendUpdate { .. } | Msg::BcastUpdate { .. } => {
				vec![Ev::Msg { h: H_CHAN, ty, bytes: bytes.clone() }, Ev::Msg { h: H_ROUTE, ty, bytes }]
			},
			_ => vec![Ev::Msg { h: H_CHAN, ty, bytes }],
		}
	}
	/// Length of the encrypted record carrying this message.
	pub fn record_len(&self) -> usize {
		18 + 2 + self.wire().1.len() + 16
	}
	pub fn to_json(&self) -> mc_common::Value {
		use mc_common::json;
		match self {
			Msg::Custom { len, tag } => json!(["custom", len, tag]),
			Msg::Shutdown { len, tag } => json!(["shutdown", len, tag]),
			Msg::TxAbort { len, tag } => json!(["tx_abort", len, tag]),
			Msg::ChannelReady { tag } => json!(["channel_ready", 0, tag]),
			Msg::Stfu { tag } => json!(["stfu", 0, tag]),
			Msg::Error { len, tag } => json!(["error", len, tag]),
			Msg::QueryRange { tag } => json!(["query_range", 0, tag]),
			Msg::SendUpdate { excess, tag } => json!(["send_update", excess, tag]),
			Msg::BcastUpdate { excess, tag } => json!(["bcast_update", excess, tag]),
		}
	}
	pub fn from_json(v: &mc_common::Value) -> Option<Msg> {
		let k = v.get(0)?.as_str()?;
		let len = v.get(1)?.as_u64()? as usize;
		let tag = v.get(2)?.as_u64()? as u32;
		Some(match k {
			"custom" => Msg::Custom { len, tag },
			"shutdown" => Msg::Shutdown { len, tag },
			"tx_abort" => Msg::TxAbort { len, tag },
			"channel_ready" => Msg::ChannelReady { tag },
			"stfu" => Msg::Stfu { tag },
			"error" => Msg::Error { len, tag },
			"query_range" => Msg::QueryRange { tag },
			"send_update" => Msg::SendUpdate { excess: len, tag },
			"bcast_update" => Msg::BcastUpdate { excess: len, tag },
			_ => return None,
		})
	}
}

fn ascii(len: usize, tag: u32) -> String {
	pattern(len, tag).iter().map(|b| (b'a' + b % 26) as char).collect()
}

#[derive(Default)]
struct NodeSt {
	peer: Option<PublicKey>,
	connected: [bool; 3],
	script: Vec<Msg>,
	released: bool,
	/// Messages observed so far / needed before the script is released.
	seen: usize,
	release_after: usize,
}

/// Shared state of the three recording handlers of one side.
pub struct Node {
	pub side: u8,
	pub node_id: PublicKey,
	obs: Arc<Mutex<Obs>>,
	st: Mutex<NodeSt>,
}

impl Node {
	pub fn new(side: u8, node_id: PublicKey, obs: Arc<Mutex<Obs>>, script: Vec<Msg>) -> Arc<Node> {
		Self::new_released_after(side, node_id, obs, script, 0)
	}
	/// `release_after` > 0: the script is queued only once that many messages from the peer were
	/// handled (a node that answers instead of speaking first).
	pub fn new_released_after(side: u8, node_id: PublicKey, obs: Arc<Mutex<Obs>>, script: Vec<Msg>, release_after: usize) -> Arc<Node> {
		Arc::new(Node { side, node_id, obs, st: Mutex::new(NodeSt { script, release_after, ..Default::default() }) })
	}
	fn log(&self, ev: Ev) {
		self.obs.lock().unwrap().events.push((self.side, ev));
	}
	fn msg(&self, h: u8, ty: u16, bytes: Vec<u8>) {
		self.st.lock().unwrap().seen += 1;
		self.log(Ev::Msg { h, ty, bytes });
	}
	fn connected(&self, h: u8, peer: PublicKey) {
		{
			let mut st = self.st.lock().unwrap();
			st.connected[h as usize] = true;
			st.peer = Some(peer);
		}
		self.log(Ev::Connected(h));
	}
	fn disconnected(&self, h: u8) {
		self.st.lock().unwrap().connected[h as usize] = false;
		self.log(Ev::Disconnected(h));
	}
	/// The script becomes pending once every handler has seen `peer_connected` (i.e. the peer's Init
	/// was processed), the way a ChannelManager generates `channel_reestablish` on connection.
	fn take(&self, queue: u8) -> Vec<(PublicKey, Msg)> {
		let mut st = self.st.lock().unwrap();
		if !(st.connected[0] && st.connected[1] && st.connected[2]) || st.seen < st.release_after {
			return Vec::new();
		}
		st.released = true;
		let peer = st.peer.unwrap();
		let mut out = Vec::new();
		let mut rest = Vec::new();
		for m in st.script.drain(..) {
			let q = m.queue();
			// gossip broadcasts originate from the channel handler's event queue
			if q == queue || (queue == Q_CHAN && q == Q_GOSSIP) {
				out.push((peer, m));
			} else {
				rest.push(m);
			}
		}
		st.script = rest;
		out
	}
	pub fn unsent(&self) -> usize {
		self.st.lock().unwrap().script.len()
	}
}

fn to_event(node: &Node, peer: PublicKey, m: &Msg) -> MessageSendEvent {
	let node_id = peer;
	match m {
		Msg::Shutdown { len, tag } => MessageSendEvent::SendShutdown { node_id, msg: msgs::Shutdown { channel_id: chan_id(*tag), scriptpubkey: ScriptBuf::from_bytes(pattern(*len, *tag)) } },
		Msg::TxAbort { len, tag } => MessageSendEvent::SendTxAbort { node_id, msg: msgs::TxAbort { channel_id: chan_id(*tag), data: pattern(*len, *tag) } },
		Msg::ChannelReady { tag } => MessageSendEvent::SendChannelReady { node_id, msg: msgs::ChannelReady { channel_id: chan_id(*tag), next_per_commitment_point: fixed_pubkey(), short_channel_id_alias: Some(*tag as u64) } },
		Msg::Stfu { tag } => MessageSendEvent::SendStfu { node_id, msg: msgs::Stfu { channel_id: chan_id(*tag), initiator: tag & 1 == 1 } },
		Msg::Error { len, tag } => MessageSendEvent::HandleError { node_id, action: ErrorAction::SendErrorMessage { msg: msgs::ErrorMessage { channel_id: chan_id(*tag), data: ascii(*len, *tag) } } },
		Msg::QueryRange { tag } => MessageSendEvent::SendChannelRangeQuery { node_id, msg: msgs::QueryChannelRange { chain_hash: ChainHash::using_genesis_block(Network::Testnet), first_blocknum: *tag, number_of_blocks: 7 } },
		Msg::SendUpdate { excess, tag } => MessageSendEvent::SendChannelUpdate { node_id, msg: chan_update(*excess, *tag) },
		Msg::BcastUpdate { excess, tag } => MessageSendEvent::BroadcastChannelUpdate {
			msg: chan_update(*excess, *tag),
			// "our channel": forwarded to every connected peer regardless of its gossip sync state
			node_id_1: NodeId::from_pubkey(&node.node_id),
			node_id_2: NodeId::from_pubkey(&fixed_pubkey()),
		},
		Msg::Custom { .. } => unreachable!(),
	}
}

pub struct ChanH(pub Arc<Node>);
pub struct RouteH(pub Arc<Node>);
pub struct CustomH(pub Arc<Node>);

impl BaseMessageHandler for ChanH {
	fn get_and_clear_pending_msg_events(&self) -> Vec<MessageSendEvent> {
		self.0.take(Q_CHAN).iter().map(|(p, m)| to_event(&self.0, *p, m)).collect()
	}
	fn peer_disconnected(&self, _their_node_id: PublicKey) {
		self.0.disconnected(H_CHAN)
	}
	fn provided_node_features(&self) -> NodeFeatures {
		NodeFeatures::empty()
	}
	fn provided_init_features(&self, _their_node_id: PublicKey) -> InitFeatures {
		InitFeatures::empty()
	}
	fn peer_connected(&self, their_node_id: PublicKey, _msg: &Init, _inbound: bool) -> Result<(), ()> {
		self.0.connected(H_CHAN, their_node_id);
		Ok(())
	}
}

macro_rules! chan_fns {
	($( $name:ident : $t:ty => $ty:expr ),* $(,)?) => {
		$( fn $name(&self, _their_node_id: PublicKey, msg: &$t) { self.0.msg(H_CHAN, $ty, msg.encode()); } )*
	};
}
macro_rules! chan_fns_owned {
	($( $name:ident : $t:ty => $ty:expr ),* $(,)?) => {
		$( fn $name(&self, _their_node_id: PublicKey, msg: $t) { self.0.msg(H_CHAN, $ty, msg.encode()); } )*
	};
}

impl ChannelMessageHandler for ChanH {
	chan_fns! {
		handle_open_channel: msgs::OpenChannel => T_OPEN_CHANNEL,
		handle_open_channel_v2: msgs::OpenChannelV2 => T_OPEN_CHANNEL2,
		handle_accept_channel: msgs::AcceptChannel => T_ACCEPT_CHANNEL,
		handle_accept_channel_v2: msgs::AcceptChannelV2 => T_ACCEPT_CHANNEL2,
		handle_funding_created: msgs::FundingCreated => T_FUNDING_CREATED,
		handle_funding_signed: msgs::FundingSigned => T_FUNDING_SIGNED,
		handle_channel_ready: msgs::ChannelReady => T_CHANNEL_READY,
		handle_shutdown: msgs::Shutdown => T_SHUTDOWN,
		handle_closing_signed: msgs::ClosingSigned => T_CLOSING_SIGNED,
		handle_stfu: msgs::Stfu => T_STFU,
		handle_splice_init: msgs::SpliceInit => T_SPLICE_INIT,
		handle_splice_ack: msgs::SpliceAck => T_SPLICE_ACK,
		handle_splice_locked: msgs::SpliceLocked => T_SPLICE_LOCKED,
		handle_tx_add_input: msgs::TxAddInput => T_TX_ADD_INPUT,
		handle_tx_add_output: msgs::TxAddOutput => T_TX_ADD_OUTPUT,
		handle_tx_remove_input: msgs::TxRemoveInput => T_TX_REMOVE_INPUT,
		handle_tx_remove_output: msgs::TxRemoveOutput => T_TX_REMOVE_OUTPUT,
		handle_tx_complete: msgs::TxComplete => T_TX_COMPLETE,
		handle_tx_signatures: msgs::TxSignatures => T_TX_SIGNATURES,
		handle_tx_init_rbf: msgs::TxInitRbf => T_TX_INIT_RBF,
		handle_tx_ack_rbf: msgs::TxAckRbf => T_TX_ACK_RBF,
		handle_tx_abort: msgs::TxAbort => T_TX_ABORT,
		handle_update_add_htlc: msgs::UpdateAddHTLC => T_UPDATE_ADD_HTLC,
		handle_update_fail_htlc: msgs::UpdateFailHTLC => T_UPDATE_FAIL_HTLC,
		handle_update_fail_malformed_htlc: msgs::UpdateFailMalformedHTLC => T_UPDATE_FAIL_MALFORMED,
		handle_commitment_signed: msgs::CommitmentSigned => T_COMMITMENT_SIGNED,
		handle_revoke_and_ack: msgs::RevokeAndACK => T_REVOKE_AND_ACK,
		handle_update_fee: msgs::UpdateFee => T_UPDATE_FEE,
		handle_announcement_signatures: msgs::AnnouncementSignatures => T_ANNOUNCEMENT_SIGNATURES,
		handle_channel_reestablish: msgs::ChannelReestablish => T_CHANNEL_REESTABLISH,
		handle_channel_update: msgs::ChannelUpdate => T_CHANNEL_UPDATE,
		handle_error: msgs::ErrorMessage => T_ERROR,
	}
	chan_fns_owned! {
		handle_peer_storage: msgs::PeerStorage => T_PEER_STORAGE,
		handle_peer_storage_retrieval: msgs::PeerStorageRetrieval => T_PEER_STORAGE_RETRIEVAL,
		handle_update_fulfill_htlc: msgs::UpdateFulfillHTLC => T_UPDATE_FULFILL_HTLC,
	}
	fn handle_commitment_signed_batch(&self, _their_node_id: PublicKey, _channel_id: ChannelId, batch: Vec<msgs::CommitmentSigned>) {
		for m in batch {
			self.0.msg(H_CHAN, T_COMMITMENT_SIGNED, m.encode());
		}
	}
	fn get_chain_hashes(&self) -> Option<Vec<ChainHash>> {
		Some(vec![ChainHash::using_genesis_block(Network::Testnet)])
	}
	fn message_received(&self) {}
}

impl BaseMessageHandler for RouteH {
	fn get_and_clear_pending_msg_events(&self) -> Vec<MessageSendEvent> {
		self.0.take(Q_ROUTE).iter().map(|(p, m)| to_event(&self.0, *p, m)).collect()
	}
	fn peer_disconnected(&self, _their_node_id: PublicKey) {
		self.0.disconnected(H_ROUTE)
	}
	fn provided_node_features(&self) -> NodeFeatures {
		NodeFeatures::empty()
	}
	fn provided_init_features(&self, _their_node_id: PublicKey) -> InitFeatures {
		InitFeatures::empty()
	}
	fn peer_connected(&self, their_node_id: PublicKey, _msg: &Init, _inbound: bool) -> Result<(), ()> {
		self.0.connected(H_ROUTE, their_node_id);
		Ok(())
	}
}

impl RoutingMessageHandler for RouteH {
	fn handle_node_announcement(&self, their_node_id: Option<PublicKey>, msg: &msgs::NodeAnnouncement) -> Result<bool, LightningError> {
		if their_node_id.is_some() {
			self.0.msg(H_ROUTE, T_NODE_ANNOUNCEMENT, msg.encode());
		}
		Ok(false)
	}
	fn handle_channel_announcement(&self, their_node_id: Option<PublicKey>, msg: &msgs::ChannelAnnouncement) -> Result<bool, LightningError> {
		if their_node_id.is_some() {
			self.0.msg(H_ROUTE, T_CHANNEL_ANNOUNCEMENT, msg.encode());
		}
		Ok(false)
	}
	fn handle_channel_update(&self, their_node_id: Option<PublicKey>, msg: &msgs::ChannelUpdate) -> Result<Option<(NodeId, NodeId)>, LightningError> {
		// `None` = our own broadcast being registered locally, not a message from the peer
		if their_node_id.is_some() {
			self.0.msg(H_ROUTE, T_CHANNEL_UPDATE, msg.encode());
		}
		Ok(None)
	}
	fn get_next_channel_announcement(&self, _starting_point: u64) -> Option<(msgs::ChannelAnnouncement, Option<msgs::ChannelUpdate>, Option<msgs::ChannelUpdate>)> {
		None
	}
	fn get_next_node_announcement(&self, _starting_point: Option<&NodeId>) -> Option<msgs::NodeAnnouncement> {
		None
	}
	fn handle_reply_channel_range(&self, _their_node_id: PublicKey, msg: msgs::ReplyChannelRange) -> Result<(), LightningError> {
		self.0.msg(H_ROUTE, T_REPLY_CHANNEL_RANGE, msg.encode());
		Ok(())
	}
	fn handle_reply_short_channel_ids_end(&self, _their_node_id: PublicKey, msg: msgs::ReplyShortChannelIdsEnd) -> Result<(), LightningError> {
		self.0.msg(H_ROUTE, T_REPLY_SHORT_CHANNEL_IDS_END, msg.encode());
		Ok(())
	}
	fn handle_query_channel_range(&self, _their_node_id: PublicKey, msg: msgs::QueryChannelRange) -> Result<(), LightningError> {
		self.0.msg(H_ROUTE, T_QUERY_CHANNEL_RANGE, msg.encode());
		Ok(())
	}
	fn handle_query_short_channel_ids(&self, _their_node_id: PublicKey, msg: msgs::QueryShortChannelIds) -> Result<(), LightningError> {
		self.0.msg(H_ROUTE, T_QUERY_SHORT_CHANNEL_IDS, msg.encode());
		Ok(())
	}
	fn processing_queue_high(&self) -> bool {
		false
	}
}

/// Opaque custom message: every type in the custom range (>= 32768) is accepted, payload kept raw.
#[derive(Clone, Debug, PartialEq, Eq)]
pub struct Raw {
	pub ty: u16,
	pub payload: Vec<u8>,
}

impl Writeable for Raw {
	fn write<W: Writer>(&self, w: &mut W) -> Result<(), io::Error> {
		w.write_all(&self.payload)
	}
}

impl Type for Raw {
	fn type_id(&self) -> u16 {
		self.ty
	}
}

impl CustomMessageReader for CustomH {
	type CustomMessage = Raw;
	fn read<R: LengthLimitedRead>(&self, message_type: u16, buffer: &mut R) -> Result<Option<Raw>, DecodeError> {
		if message_type < 32768 {
			return Ok(None);
		}
		let mut payload = Vec::new();
		let mut chunk = [0u8; 4096];
		loop {
			let n = buffer.read(&mut chunk).map_err(|_| DecodeError::ShortRead)?;
			if n == 0 {
				break;
			}
			payload.extend_from_slice(&chunk[..n]);
		}
		Ok(Some(Raw { ty: message_type, payload }))
	}
}

impl CustomMessageHandler for CustomH {
	fn handle_custom_message(&self, msg: Raw, _sender_node_id: PublicKey) -> Result<(), LightningError> {
		self.0.msg(H_CUSTOM, msg.ty, msg.payload);
		Ok(())
	}
	fn get_and_clear_pending_msg(&self) -> Vec<(PublicKey, Raw)> {
		self.0
			.take(Q_CUSTOM)
			.into_iter()
			.map(|(p, m)| match m {
				Msg::Custom { len, tag } => (p, Raw { ty: T_CUSTOM, payload: pattern(len, tag) }),
				_ => unreachable!(),
			})
			.collect()
	}
	fn peer_disconnected(&self, _their_node_id: PublicKey) {
		self.0.disconnected(H_CUSTOM)
	}
	fn peer_connected(&self, their_node_id: PublicKey, _msg: &Init, _inbound: bool) -> Result<(), ()> {
		self.0.connected(H_CUSTOM, their_node_id);
		Ok(())
	}
	fn provided_node_features(&self) -> NodeFeatures {
		NodeFeatures::empty()
	}
	fn provided_init_features(&self, _their_node_id: PublicKey) -> InitFeatures {
		InitFeatures::empty()
	}
}

pub struct NullLogger;
impl Logger for NullLogger {
	fn log(&self, _record: Record) {}
}

/// Socket-side state of one peer (the sending half of one direction plus the flags LDK sets).
#[derive(Default)]
pub struct Tx {
	/// Every byte the socket accepted from this side, in order.
	pub stream: Vec<u8>,
	/// End offsets of the buffers passed to `send_data` (= handshake acts and encrypted records).
	pub rec_ends: Vec<usize>,
	cur: Option<Vec<u8>>,
	cur_done: usize,
	/// A `send_data` returned less than it was given: LDK is owed a `write_buffer_space_avail`.
	pub blocked: bool,
	pub blocked_events: usize,
	/// Pending "socket buffer becomes full at this stream offset" answers, ascending.
	pub shorts: Vec<usize>,
	/// LDK's last `continue_read` flag was false.
	pub read_paused: bool,
	pub closed_by_ldk: bool,
	pub closed: bool,
	pub send_calls: u64,
	pub short_answers: u64,
	pub zero_answers: u64,
	pub pause_signals: u64,
	pub resend_mismatch: Option<String>,
}

#[derive(Default)]
pub struct Wire {
	pub tx: [Tx; 2],
}

impl Wire {
	fn send_data(&mut self, side: usize, data: &[u8], continue_read: bool) -> usize {
		let t = &mut self.tx[side];
		t.send_calls += 1;
		if !continue_read && !t.read_paused {
			t.pause_signals += 1;
		}
		t.read_paused = !continue_read;
		if data.is_empty() {
			return 0;
		}
		// LDK must hand us either a fresh buffer or exactly the unsent tail of the previous one.
		match &t.cur {
			None => {
				t.cur = Some(data.to_vec());
				t.cur_done = 0;
			},
			Some(full) => {
				if full[t.cur_done..] != *data && t.resend_mismatch.is_none() {
					t.resend_mismatch = Some(format!("side {} re-sent {} bytes that are not the unsent tail ({} of {} accepted)", side, data.len(), t.cur_done, full.len()));
				}
			},
		}
		if t.closed || t.blocked {
			t.zero_answers += 1;
			return 0;
		}
		let at = t.stream.len();
		let mut n = data.len();
		if let Some(pos) = t.shorts.iter().position(|o| *o >= at && *o < at + data.len()) {
			let off = t.shorts.remove(pos);
			// earlier unreachable entries are dropped too
			t.shorts.retain(|o| *o > off);
			n = off - at;
			t.blocked = true;
			t.blocked_events += 1;
			t.short_answers += 1;
			if n == 0 {
				t.zero_answers += 1;
			}
		}
		t.stream.extend_from_slice(&data[..n]);
		t.cur_done += n;
		if t.cur_done == t.cur.as_ref().unwrap().len() {
			t.cur = None;
			t.cur_done = 0;
			let e = t.stream.len();
			t.rec_ends.push(e);
		}
		n
	}
}

#[derive(Clone)]
pub struct Sock {
	pub side: u8,
	pub wire: Arc<Mutex<Wire>>,
}
impl PartialEq for Sock {
	fn eq(&self, o: &Sock) -> bool {
		self.side == o.side
	}
}
impl Eq for Sock {}
impl std::hash::Hash for Sock {
	fn hash<H: std::hash::Hasher>(&self, h: &mut H) {
		self.side.hash(h)
	}
}
impl SocketDescriptor for Sock {
	fn send_data(&mut self, data: &[u8], continue_read: bool) -> usize {
		self.wire.lock().unwrap().send_data(self.side as usize, data, continue_read)
	}
	fn disconnect_socket(&mut self) {
		self.wire.lock().unwrap().tx[self.side as usize].closed_by_ldk = true;
	}
}

pub type PM = PeerManager<Sock, Arc<ChanH>, Arc<RouteH>, IgnoringMessageHandler, Arc<NullLogger>, Arc<CustomH>, Arc<TestNodeSigner>, IgnoringMessageHandler>;

pub fn node_secret(side: usize) -> SecretKey {
	SecretKey::from_slice(&[0x11 + 0x10 * side as u8; 32]).unwrap()
}

pub fn node_pubkey(side: usize) -> PublicKey {
	PublicKey::from_secret_key(&Secp256k1::signing_only(), &node_secret(side))
}

pub fn make_pm(side: usize, node: &Arc<Node>) -> PM {
	let handler = MessageHandler {
		chan_handler: Arc::new(ChanH(node.clone())),
		route_handler: Arc::new(RouteH(node.clone())),
		onion_message_handler: IgnoringMessageHandler {},
		custom_message_handler: Arc::new(CustomH(node.clone())),
		send_only_message_handler: IgnoringMessageHandler {},
	};
	PeerManager::new(handler, 0, &[0xA0 + side as u8; 32], Arc::new(NullLogger), Arc::new(TestNodeSigner::new(node_secret(side))))
}
