//! Cipher layer in isolation: LDK's `PeerChannelEncryptor` (reached through the `_verif_hooks`
//! re-export in `lightning::ln`) against the independent reference, byte for byte.
use crate::bolt8::{Decoder, Initiator, Responder};
use bitcoin::secp256k1::{PublicKey, Secp256k1, SecretKey};
use lightning::ln::{VerifMessageBuf as MessageBuf, VerifPeerChannelEncryptor as Enc};
use lightning::util::test_utils::TestNodeSigner;
use mc_common::explore::Failure;

pub struct CipherStats {
	pub messages: u64,
	pub rotations: u32,
	pub bytes: u64,
}

fn key(b: u8) -> SecretKey {
	SecretKey::from_slice(&[b; 32]).unwrap()
}

fn fail(what: impl Into<String>) -> Failure {
	Failure::new("cipher-reference", what)
}

pub fn sizes(n: usize, with_max: bool) -> Vec<usize> {
	let alpha = [0usize, 1, 2, 17, 18, 5, 16, 15, 33, 255, 256];
	let mut v: Vec<usize> = (0..n).map(|i| alpha[i % alpha.len()]).collect();
	if with_max {
		for i in [3usize, 499, 500, 501, 999, 1000, 1001] {
			if i < n {
				v[i] = 65535;
			}
		}
		if n > 7 {
			v[7] = 65534;
		}
	}
	v
}

fn body(len: usize, i: usize) -> Vec<u8> {
	(0..len).map(|j| (i * 131 + j * 7 + (j >> 8)) as u8).collect()
}

/// `n_msgs` messages in each direction between an LDK encryptor and the reference, in both role
/// assignments, comparing every handshake act and every ciphertext with the reference's output.
pub fn differential(n_msgs: usize, with_max: bool) -> Result<CipherStats, Failure> {
	let secp = Secp256k1::signing_only();
	let mut st = CipherStats { messages: 0, rotations: 0, bytes: 0 };
	let (ls_i, e_i, ls_r, e_r) = (key(0x31), key(0x32), key(0x41), key(0x42));
	let pk_r = PublicKey::from_secret_key(&secp, &ls_r);
	let pk_i = PublicKey::from_secret_key(&secp, &ls_i);

	// --- LDK initiator <-> reference responder (and a reference initiator with the same keys as the
	//     transcript oracle)
	let mut ldk_i = Enc::new_outbound(pk_r, e_i);
	let mut ref_i = Initiator::new(ls_i, e_i, pk_r);
	let mut ref_r = Responder::new(ls_r, e_r);
	let a1 = ldk_i.get_act_one(&secp);
	if a1 != ref_i.act_one() {
		return Err(fail("act one differs from the reference"));
	}
	let a2 = ref_r.recv_act_one(&a1).map_err(|e| fail(format!("reference rejects LDK act one: {}", e)))?;
	let signer_i = TestNodeSigner::new(ls_i);
	let (a3, their) = ldk_i.process_act_two(&a2, &&signer_i).map_err(|e| fail(format!("LDK rejects reference act two: {}", e.err)))?;
	if their != pk_r {
		return Err(fail("LDK initiator reports a wrong responder identity"));
	}
	let (a3_ref, mut c_ref_i) = ref_i.recv_act_two(&a2).map_err(|e| fail(e))?;
	if a3 != a3_ref {
		return Err(fail("act three differs from the reference"));
	}
	let (id, mut c_ref_r) = ref_r.recv_act_three(&a3).map_err(|e| fail(format!("reference rejects LDK act three: {}", e)))?;
	if id != pk_i {
		return Err(fail("reference responder decrypted a wrong initiator identity"));
	}

	// --- reference initiator <-> LDK responder
	let signer_r = TestNodeSigner::new(ls_r);
	let mut ldk_r = Enc::new_inbound(&&signer_r);
	let mut ref_i2 = Initiator::new(ls_i, e_i, pk_r);
	let b1 = ref_i2.act_one();
	let b2 = ldk_r.process_act_one_with_keys(&b1, &&signer_r, e_r, &secp).map_err(|e| fail(format!("LDK rejects reference act one: {}", e.err)))?;
	if b2 != a2 {
		return Err(fail("act two differs from the reference"));
	}
	let (b3, mut c_ref_i2) = ref_i2.recv_act_two(&b2).map_err(|e| fail(e))?;
	let id2 = ldk_r.process_act_three(&b3).map_err(|e| fail(format!("LDK rejects reference act three: {}", e.err)))?;
	if id2 != pk_i {
		return Err(fail("LDK responder reports a wrong initiator identity"));
	}

	let szs = sizes(n_msgs, with_max);
	// direction 1: LDK initiator -> reference responder; ciphertext must equal reference initiator's
	let mut dec = Decoder::new();
	for (i, l) in szs.iter().enumerate() {
		let m = body(*l, i);
		let buf = MessageBuf::from_encoded(&m).map_err(|_| fail("MessageBuf::from_encoded refused a legal length"))?;
		let ct = ldk_i.encrypt_buffer(buf);
		let want = c_ref_i.encrypt(&m);
		if ct != want {
			return Err(fail(format!("LDK initiator ciphertext #{} (len {}) differs from the reference", i, l)));
		}
		let got = dec.feed(&mut c_ref_r, &ct).map_err(|e| fail(format!("reference cannot decrypt LDK message #{}: {}", i, e)))?;
		if got.len() != 1 || got[0] != m {
			return Err(fail(format!("reference decrypted message #{} differently", i)));
		}
		st.messages += 1;
		st.bytes += ct.len() as u64;
	}
	// direction 2: reference responder -> LDK initiator
	for (i, l) in szs.iter().enumerate() {
		let m = body(*l, i + 7);
		let mut ct = c_ref_r.encrypt(&m);
		let n = ldk_i.decrypt_length_header(&ct[..18]).map_err(|_| fail(format!("LDK initiator rejects reference header #{}", i)))?;
		if n as usize != m.len() {
			return Err(fail(format!("LDK initiator decrypted length {} instead of {} (#{})", n, m.len(), i)));
		}
		ldk_i.decrypt_message(&mut ct[18..]).map_err(|_| fail(format!("LDK initiator rejects reference body #{}", i)))?;
		if ct[18..18 + m.len()] != m[..] {
			return Err(fail(format!("LDK initiator decrypted body #{} differently", i)));
		}
		st.messages += 1;
	}
	// direction 3: LDK responder -> reference initiator (second session)
	let mut dec2 = Decoder::new();
	for (i, l) in szs.iter().enumerate() {
		let m = body(*l, i + 13);
		let ct = ldk_r.encrypt_buffer(MessageBuf::from_encoded(&m).map_err(|_| fail("from_encoded"))?);
		let got = dec2.feed(&mut c_ref_i2, &ct).map_err(|e| fail(format!("reference cannot decrypt LDK responder message #{}: {}", i, e)))?;
		if got.len() != 1 || got[0] != m {
			return Err(fail(format!("reference decrypted responder message #{} differently", i)));
		}
		st.messages += 1;
	}
	// direction 4: reference initiator -> LDK responder
	for (i, l) in szs.iter().enumerate() {
		let m = body(*l, i + 29);
		let mut ct = c_ref_i2.encrypt(&m);
		let n = ldk_r.decrypt_length_header(&ct[..18]).map_err(|_| fail(format!("LDK responder rejects reference header #{}", i)))?;
		if n as usize != m.len() {
			return Err(fail(format!("LDK responder decrypted length {} instead of {} (#{})", n, m.len(), i)));
		}
		ldk_r.decrypt_message(&mut ct[18..]).map_err(|_| fail(format!("LDK responder rejects reference body #{}", i)))?;
		if ct[18..18 + m.len()] != m[..] {
			return Err(fail(format!("LDK responder decrypted body #{} differently", i)));
		}
		st.messages += 1;
	}
	st.rotations = c_ref_i.send_rotations + c_ref_r.send_rotations + c_ref_i2.send_rotations + c_ref_r.recv_rotations;
	Ok(st)
}
