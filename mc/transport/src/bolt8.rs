//! Independent reference implementation of the BOLT-8 transport (Noise_XK_secp256k1_ChaChaPoly_SHA256),
//! written from the specification text, *not* from LDK's `peer_channel_encryptor.rs`. It is used
//! (a) as the raw peer that talks to a real `PeerManager`, and (b) as the differential reference for
//! LDK's `PeerChannelEncryptor` (via the `_verif_hooks` re-export).
//!
//! Trusted primitives (DESIGN §5): secp256k1 ECDH, SHA-256/HMAC and the ChaCha20-Poly1305 AEAD crate.
//! `self_check()` validates this file against the official BOLT-8 test vectors before any use.
use bitcoin::hashes::hmac::{Hmac, HmacEngine};
use bitcoin::hashes::sha256::Hash as Sha256;
use bitcoin::hashes::{Hash, HashEngine};
use bitcoin::secp256k1::ecdh::SharedSecret;
use bitcoin::secp256k1::{PublicKey, Secp256k1, SecretKey};
use chacha20_poly1305::{ChaCha20Poly1305, Key, Nonce};

fn sha2(a: &[u8], b: &[u8]) -> [u8; 32] {
	let mut e = Sha256::engine();
	e.input(a);
	e.input(b);
	Sha256::from_engine(e).to_byte_array()
}

fn hmac(key: &[u8], parts: &[&[u8]]) -> [u8; 32] {
	let mut e = HmacEngine::<Sha256>::new(key);
	for p in parts {
		e.input(p);
	}
	Hmac::from_engine(e).to_byte_array()
}

/// RFC 5869 HKDF-SHA256 with empty info, 64 bytes of output split in two.
fn hkdf2(salt: &[u8; 32], ikm: &[u8]) -> ([u8; 32], [u8; 32]) {
	let prk = hmac(salt, &[ikm]);
	let t1 = hmac(&prk, &[&[1u8]]);
	let t2 = hmac(&prk, &[&t1, &[2u8]]);
	(t1, t2)
}

fn nonce(n: u64) -> Nonce {
	let mut b = [0u8; 12];
	b[4..].copy_from_slice(&n.to_le_bytes());
	Nonce::new(b)
}

/// encryptWithAD(k, n, ad, plaintext) -> ciphertext || tag
fn enc_ad(k: &[u8; 32], n: u64, ad: &[u8], pt: &[u8]) -> Vec<u8> {
	let mut out = pt.to_vec();
	let tag = ChaCha20Poly1305::new(Key::new(*k), nonce(n)).encrypt(&mut out, Some(ad));
	out.extend_from_slice(&tag);
	out
}

/// decryptWithAD(k, n, ad, ciphertext || tag) -> plaintext
fn dec_ad(k: &[u8; 32], n: u64, ad: &[u8], ct: &[u8]) -> Result<Vec<u8>, &'static str> {
	if ct.len() < 16 {
		return Err("short ciphertext");
	}
	let (c, t) = ct.split_at(ct.len() - 16);
	let mut out = c.to_vec();
	let mut tag = [0u8; 16];
	tag.copy_from_slice(t);
	ChaCha20Poly1305::new(Key::new(*k), nonce(n)).decrypt(&mut out, tag, Some(ad)).map_err(|_| "bad MAC")?;
	Ok(out)
}

fn ecdh(pk: &PublicKey, sk: &SecretKey) -> [u8; 32] {
	// BOLT-8: SHA256 of the compressed ECDH point == libsecp256k1's default ECDH hash function.
	SharedSecret::new(pk, sk).secret_bytes()
}

fn pubkey(sk: &SecretKey) -> PublicKey {
	PublicKey::from_secret_key(&Secp256k1::signing_only(), sk)
}

struct Sym {
	ck: [u8; 32],
	h: [u8; 32],
}

impl Sym {
	fn new(responder_static: &PublicKey) -> Sym {
		let h0 = Sha256::hash(b"Noise_XK_secp256k1_ChaChaPoly_SHA256").to_byte_array();
		let ck = h0;
		let h1 = sha2(&h0, b"lightning");
		let h = sha2(&h1, &responder_static.serialize());
		Sym { ck, h }
	}
	fn mix_hash(&mut self, d: &[u8]) {
		self.h = sha2(&self.h, d);
	}
	fn mix_key(&mut self, ikm: &[u8; 32]) -> [u8; 32] {
		let (ck, k) = hkdf2(&self.ck, ikm);
		self.ck = ck;
		k
	}
}

/// Post-handshake cipher state of one peer.
#[derive(Clone)]
pub struct Cipher {
	pub sk: [u8; 32],
	pub sn: u64,
	pub sck: [u8; 32],
	pub rk: [u8; 32],
	pub rn: u64,
	pub rck: [u8; 32],
	pub send_rotations: u32,
	pub recv_rotations: u32,
}

impl Cipher {
	fn rotate(ck: &mut [u8; 32], k: &mut [u8; 32]) {
		let (nck, nk) = hkdf2(ck, k);
		*ck = nck;
		*k = nk;
	}
	/// Encrypts one Lightning message (`msg` = type || payload, at most 65535 bytes).
	pub fn encrypt(&mut self, msg: &[u8]) -> Vec<u8> {
		assert!(msg.len() <= 65535);
		self.encrypt_with_len(msg.len() as u16, msg)
	}
	/// Encrypts a record whose length prefix may lie about the body length (for malformed inputs).
	pub fn encrypt_with_len(&mut self, claimed: u16, body: &[u8]) -> Vec<u8> {
		let mut out = self.next_send(&claimed.to_be_bytes());
		out.extend_from_slice(&self.next_send(body));
		out
	}
	fn next_send(&mut self, pt: &[u8]) -> Vec<u8> {
		let c = enc_ad(&self.sk, self.sn, &[], pt);
		self.sn += 1;
		if self.sn == 1000 {
			Self::rotate(&mut self.sck, &mut self.sk);
			self.sn = 0;
			self.send_rotations += 1;
		}
		c
	}
	fn next_recv(&mut self, ct: &[u8]) -> Result<Vec<u8>, &'static str> {
		let p = dec_ad(&self.rk, self.rn, &[], ct)?;
		self.rn += 1;
		if self.rn == 1000 {
			Self::rotate(&mut self.rck, &mut self.rk);
			self.rn = 0;
			self.recv_rotations += 1;
		}
		Ok(p)
	}
	pub fn decrypt_len(&mut self, hdr: &[u8]) -> Result<u16, &'static str> {
		if hdr.len() != 18 {
			return Err("header length");
		}
		let p = self.next_recv(hdr)?;
		Ok(u16::from_be_bytes([p[0], p[1]]))
	}
	pub fn decrypt_body(&mut self, body: &[u8]) -> Result<Vec<u8>, &'static str> {
		self.next_recv(body)
	}
}

/// Incremental record decoder over a byte stream.
pub struct Decoder {
	buf: Vec<u8>,
	want_body: Option<usize>,
}

impl Decoder {
	pub fn new() -> Decoder {
		Decoder { buf: Vec::new(), want_body: None }
	}
	pub fn buffered(&self) -> usize {
		self.buf.len()
	}
	/// Feeds bytes; returns all messages completed by them.
	pub fn feed(&mut self, c: &mut Cipher, data: &[u8]) -> Result<Vec<Vec<u8>>, &'static str> {
		self.buf.extend_from_slice(data);
		let mut out = Vec::new();
		loop {
			match self.want_body {
				None => {
					if self.buf.len() < 18 {
						break;
					}
					let l = c.decrypt_len(&self.buf[..18])? as usize;
					self.buf.drain(..18);
					self.want_body = Some(l + 16);
				},
				Some(n) => {
					if self.buf.len() < n {
						break;
					}
					let m = c.decrypt_body(&self.buf[..n])?;
					self.buf.drain(..n);
					self.want_body = None;
					out.push(m);
				},
			}
		}
		Ok(out)
	}
}

pub struct Initiator {
	sym: Sym,
	ls: SecretKey,
	e: SecretKey,
	rs: PublicKey,
}

impl Initiator {
	pub fn new(ls: SecretKey, e: SecretKey, rs: PublicKey) -> Initiator {
		Initiator { sym: Sym::new(&rs), ls, e, rs }
	}
	pub fn act_one(&mut self) -> [u8; 50] {
		let epub = pubkey(&self.e).serialize();
		self.sym.mix_hash(&epub);
		let es = ecdh(&self.rs, &self.e);
		let temp_k1 = self.sym.mix_key(&es);
		let c = enc_ad(&temp_k1, 0, &self.sym.h, &[]);
		self.sym.mix_hash(&c);
		let mut out = [0u8; 50];
		out[1..34].copy_from_slice(&epub);
		out[34..].copy_from_slice(&c);
		out
	}
	pub fn recv_act_two(mut self, act: &[u8]) -> Result<([u8; 66], Cipher), &'static str> {
		if act.len() != 50 {
			return Err("act two length");
		}
		if act[0] != 0 {
			return Err("act two version");
		}
		let re = PublicKey::from_slice(&act[1..34]).map_err(|_| "act two key")?;
		self.sym.mix_hash(&re.serialize());
		let ee = ecdh(&re, &self.e);
		let temp_k2 = self.sym.mix_key(&ee);
		dec_ad(&temp_k2, 0, &self.sym.h, &act[34..])?;
		self.sym.mix_hash(&act[34..]);
		// act three
		let c = enc_ad(&temp_k2, 1, &self.sym.h, &pubkey(&self.ls).serialize());
		self.sym.mix_hash(&c);
		let se = ecdh(&re, &self.ls);
		let temp_k3 = self.sym.mix_key(&se);
		let t = enc_ad(&temp_k3, 0, &self.sym.h, &[]);
		let (sk, rk) = hkdf2(&self.sym.ck, &[]);
		let mut out = [0u8; 66];
		out[1..50].copy_from_slice(&c);
		out[50..].copy_from_slice(&t);
		let ck = self.sym.ck;
		Ok((out, Cipher { sk, sn: 0, sck: ck, rk, rn: 0, rck: ck, send_rotations: 0, recv_rotations: 0 }))
	}
}

pub struct Responder {
	sym: Sym,
	ls: SecretKey,
	e: SecretKey,
	temp_k2: [u8; 32],
}

impl Responder {
	pub fn new(ls: SecretKey, e: SecretKey) -> Responder {
		let sym = Sym::new(&pubkey(&ls));
		Responder { sym, ls, e, temp_k2: [0; 32] }
	}
	pub fn recv_act_one(&mut self, act: &[u8]) -> Result<[u8; 50], &'static str> {
		if act.len() != 50 {
			return Err("act one length");
		}
		if act[0] != 0 {
			return Err("act one version");
		}
		let re = PublicKey::from_slice(&act[1..34]).map_err(|_| "act one key")?;
		self.sym.mix_hash(&re.serialize());
		let es = ecdh(&re, &self.ls);
		let temp_k1 = self.sym.mix_key(&es);
		dec_ad(&temp_k1, 0, &self.sym.h, &act[34..])?;
		self.sym.mix_hash(&act[34..]);
		// act two
		let epub = pubkey(&self.e).serialize();
		self.sym.mix_hash(&epub);
		let ee = ecdh(&re, &self.e);
		self.temp_k2 = self.sym.mix_key(&ee);
		let c = enc_ad(&self.temp_k2, 0, &self.sym.h, &[]);
		self.sym.mix_hash(&c);
		let mut out = [0u8; 50];
		out[1..34].copy_from_slice(&epub);
		out[34..].copy_from_slice(&c);
		Ok(out)
	}
	pub fn recv_act_three(mut self, act: &[u8]) -> Result<(PublicKey, Cipher), &'static str> {
		if act.len() != 66 {
			return Err("act three length");
		}
		if act[0] != 0 {
			return Err("act three version");
		}
		let rs_bytes = dec_ad(&self.temp_k2, 1, &self.sym.h, &act[1..50])?;
		let rs = PublicKey::from_slice(&rs_bytes).map_err(|_| "act three key")?;
		self.sym.mix_hash(&act[1..50]);
		let se = ecdh(&rs, &self.e);
		let temp_k3 = self.sym.mix_key(&se);
		dec_ad(&temp_k3, 0, &self.sym.h, &act[50..])?;
		let (rk, sk) = hkdf2(&self.sym.ck, &[]);
		let ck = self.sym.ck;
		Ok((rs, Cipher { sk, sn: 0, sck: ck, rk, rn: 0, rck: ck, send_rotations: 0, recv_rotations: 0 }))
	}
}

fn hx(s: &str) -> Vec<u8> {
	mc_common::unhex(s).expect("hex")
}

fn key(b: u8) -> SecretKey {
	SecretKey::from_slice(&[b; 32]).unwrap()
}

/// Validates this implementation against the BOLT-8 appendix test vectors (handshake transcript,
/// derived keys and the encrypted "hello" messages 0, 1, 500, 501, 1000, 1001 that straddle two key
/// rotations). Returns a description of the first mismatch.
pub fn self_check() -> Result<(), String> {
	let rs_pub = PublicKey::from_slice(&hx("028d7500dd4c12685d1f568b4c2b5048e8534b873319f3a8daa612b469132ec7f7")).unwrap();
	if pubkey(&key(0x21)) != rs_pub {
		return Err("responder static key".into());
	}
	let mut ini = Initiator::new(key(0x11), key(0x12), rs_pub);
	let a1 = ini.act_one();
	if a1[..] != hx("00036360e856310ce5d294e8be33fc807077dc56ac80d95d9cd4ddbd21325eff73f70df6086551151f58b8afe6c195782c6a")[..] {
		return Err("act one".into());
	}
	let mut resp = Responder::new(key(0x21), key(0x22));
	let a2 = resp.recv_act_one(&a1).map_err(|e| e.to_string())?;
	if a2[..] != hx("0002466d7fcae563e5cb09a0d1870bb580344804617879a14949cf22285f1bae3f276e2470b93aac583c9ef6eafca3f730ae")[..] {
		return Err("act two".into());
	}
	let (a3, mut ci) = ini.recv_act_two(&a2).map_err(|e| e.to_string())?;
	if a3[..] != hx("00b9e3a702e93e3a9948c2ed6e5fd7590a6e1c3a0344cfc9d5b57357049aa22355361aa02e55a8fc28fef5bd6d71ad0c38228dc68b1c466263b47fdf31e560e139ba")[..] {
		return Err("act three".into());
	}
	let (their, mut cr) = resp.recv_act_three(&a3).map_err(|e| e.to_string())?;
	if their.serialize()[..] != hx("034f355bdcb7cc0af728ef3cceb9615d90684bb5b2ca5f859ab0f0b704075871aa")[..] {
		return Err("initiator identity".into());
	}
	if ci.sk[..] != hx("969ab31b4d288cedf6218839b27a3e2140827047f2c0f01bf5c04435d43511a9")[..]
		|| ci.rk[..] != hx("bb9020b8965f4df047e07f955f3c4b88418984aadc5cdb35096b9ea8fa5c3442")[..]
		|| ci.sck[..] != hx("919219dbb2920afa8db80f9a51787a840bcf111ed8d588caf9ab4be716e42b01")[..]
		|| cr.rk != ci.sk
		|| cr.sk != ci.rk
	{
		return Err("transport keys".into());
	}
	let want = [
		(0usize, "cf2b30ddf0cf3f80e7c35a6e6730b59fe802473180f396d88a8fb0db8cbcf25d2f214cf9ea1d95"),
		(1, "72887022101f0b6753e0c7de21657d35a4cb2a1f5cde2650528bbc8f837d0f0d7ad833b1a256a1"),
		(500, "178cb9d7387190fa34db9c2d50027d21793c9bc2d40b1e14dcf30ebeeeb220f48364f7a4c68bf8"),
		(501, "1b186c57d44eb6de4c057c49940d79bb838a145cb528d6e8fd26dbe50a60ca2c104b56b60e45bd"),
		(1000, "4a2f3cc3b5e78ddb83dcb426d9863d9d9a723b0337c89dd0b005d89f8d3c05c52b76b29b740f09"),
		(1001, "2ecd8c8a5629d0d02ab457a0fdd0f7b90a192cd46be5ecb6ca570bfc5e268338b1a16cf4ef2d36"),
	];
	let mut dec = Decoder::new();
	for i in 0..1002usize {
		let c = ci.encrypt(b"hello");
		if let Some((_, h)) = want.iter().find(|(n, _)| *n == i) {
			if c != hx(h) {
				return Err(format!("message vector {}", i));
			}
		}
		let m = dec.feed(&mut cr, &c).map_err(|e| format!("decrypt {}: {}", i, e))?;
		if m.len() != 1 || m[0] != b"hello" {
			return Err(format!("roundtrip {}", i));
		}
	}
	if ci.send_rotations != 2 || cr.recv_rotations != 2 {
		return Err("rotation count".into());
	}
	Ok(())
}
