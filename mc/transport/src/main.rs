//! C15 - the encrypted transport delivers the exact message sequence or disconnects.
//!
//! Environment-answer enumeration on two real `PeerManager`s joined by a harness socket (module
//! `world`), in-flight manipulation of the byte streams with an exact "rejected and not processed"
//! oracle, a raw peer driven by an independent BOLT-8 reference (`bolt8`, `raw`) and a byte-for-byte
//! differential check of LDK's cipher state machine against that reference (`cipher`).
mod bolt8;
mod cipher;
mod nodes;
mod raw;
mod world;

use mc_common::cli::{self, Tier};
use mc_common::evidence::{Evidence, Level};
use mc_common::explore::Failure;
use mc_common::findings::{self, Violation};
use mc_common::{json, par, Value};
use nodes::*;
use raw::{Role, Step};
use std::collections::{BTreeMap, HashSet};
use std::sync::atomic::{AtomicBool, Ordering};
use std::sync::Arc;
use std::time::{Duration, Instant};
use world::*;

const ID: &str = "C15";

// ---------------------------------------------------------------------------------------------
// scenarios

fn customs(sizes: &[usize], tag0: u32) -> Vec<Msg> {
	sizes.iter().enumerate().map(|(i, l)| Msg::Custom { len: *l, tag: tag0 + i as u32 }).collect()
}

const ALPHABET: [usize; 5] = [0, 1, 2, 17, 18];
/// Largest payload of a custom message: 65535 minus the two type bytes.
const MAX_PAYLOAD: usize = 65533;

fn cyc(n: usize, tag0: u32) -> Vec<Msg> {
	(0..n).map(|i| Msg::Custom { len: ALPHABET[i % 5], tag: tag0 + i as u32 }).collect()
}

fn scenario(name: &str) -> Scenario {
	let mk = |a: Vec<Msg>, b: Vec<Msg>, chunk: usize| Scenario { name: name.to_string(), send: [a, b], chunk, release_after: [0, 0] };
	let parts: Vec<&str> = name.split(':').collect();
	match parts[0] {
		"hs" => mk(vec![], vec![], 0),
		"seq" => mk(customs(&ALPHABET, 100), vec![Msg::Stfu { tag: 201 }, Msg::Custom { len: 2, tag: 202 }], 0),
		"seqchan" => mk(
			vec![Msg::Shutdown { len: 0, tag: 301 }, Msg::TxAbort { len: 17, tag: 302 }, Msg::ChannelReady { tag: 303 }, Msg::QueryRange { tag: 304 }, Msg::Custom { len: 1, tag: 305 }],
			vec![Msg::Error { len: 18, tag: 311 }, Msg::SendUpdate { excess: 2, tag: 312 }],
			0,
		),
		"mixed" => mk(
			vec![
				Msg::Shutdown { len: 17, tag: 401 },
				Msg::ChannelReady { tag: 402 },
				Msg::Error { len: 18, tag: 403 },
				Msg::QueryRange { tag: 404 },
				Msg::SendUpdate { excess: 0, tag: 405 },
				Msg::BcastUpdate { excess: 2, tag: 406 },
				Msg::Custom { len: 1, tag: 407 },
				Msg::TxAbort { len: 0, tag: 408 },
				Msg::Stfu { tag: 409 },
				Msg::BcastUpdate { excess: 17, tag: 410 },
			],
			vec![Msg::BcastUpdate { excess: 1, tag: 421 }, Msg::Custom { len: 18, tag: 422 }, Msg::Shutdown { len: 0, tag: 423 }],
			0,
		),
		"big" => {
			let v = vec![Msg::Custom { len: 1, tag: 501 }, Msg::Custom { len: MAX_PAYLOAD, tag: 502 }, Msg::Custom { len: 2, tag: 503 }];
			match parts.get(1).copied() {
				Some("b") => mk(vec![], v, 0),
				_ => mk(v, vec![], 0),
			}
		},
		"pause" => mk(cyc(14, 600), cyc(14, 700), 0),
		// B answers: it queues its messages only once it has handled A's first one, so they reach A
		// while A is still stuck behind a full socket (and has paused its reads)
		"pause2" => Scenario { release_after: [0, 1], ..mk(cyc(16, 800), cyc(14, 900), 0) },
		"rot" => {
			let n: usize = parts.get(2).and_then(|s| s.parse().ok()).unwrap_or(1003);
			let chunk: usize = parts.get(3).and_then(|s| s.parse().ok()).unwrap_or(0);
			match parts.get(1).copied() {
				Some("b") => mk(vec![], cyc(n, 2000), chunk),
				Some("ab") => mk(cyc(n, 1000), cyc(n, 5000), chunk),
				_ => mk(cyc(n, 1000), vec![], chunk),
			}
		},
		_ => cli::die(&format!("unknown scenario {}", name)),
	}
}

// ---------------------------------------------------------------------------------------------
// aggregation

#[derive(Default)]
struct Agg {
	runs: u64,
	api_calls: u64,
	effective_cut: u64,
	effective_short: u64,
	zero_accept_runs: u64,
	delay_runs: u64,
	skip_runs: u64,
	deferred_read_runs: u64,
	pause_signal_runs: u64,
	rotation_runs: u64,
	max_records: u64,
	delivered_msgs: u64,
	read_err_runs: u64,
	outcomes: BTreeMap<String, u64>,
	stage_rejects: BTreeMap<String, u64>,
	viol: Vec<Viol>,
	digests: HashSet<u64>,
	skipped_by_cap: u64,
}

#[derive(Clone)]
struct Viol {
	oracle: String,
	family: String,
	scenario: String,
	what: String,
	detail: String,
	replay: Value,
	weight: usize,
}

impl Agg {
	fn merge(&mut self, o: Agg) {
		self.runs += o.runs;
		self.api_calls += o.api_calls;
		self.effective_cut += o.effective_cut;
		self.effective_short += o.effective_short;
		self.zero_accept_runs += o.zero_accept_runs;
		self.delay_runs += o.delay_runs;
		self.skip_runs += o.skip_runs;
		self.deferred_read_runs += o.deferred_read_runs;
		self.pause_signal_runs += o.pause_signal_runs;
		self.rotation_runs += o.rotation_runs;
		self.max_records = self.max_records.max(o.max_records);
		self.delivered_msgs += o.delivered_msgs;
		self.read_err_runs += o.read_err_runs;
		self.skipped_by_cap += o.skipped_by_cap;
		for (k, v) in o.outcomes {
			*self.outcomes.entry(k).or_insert(0) += v;
		}
		for (k, v) in o.stage_rejects {
			*self.stage_rejects.entry(k).or_insert(0) += v;
		}
		self.viol.extend(o.viol);
		self.digests.extend(o.digests);
	}
	fn note(&mut self, c: &Counters) {
		self.runs += 1;
		self.api_calls += c.api_calls;
		self.effective_cut += (c.cuts_applied > 0) as u64;
		self.effective_short += (c.shorts_applied > 0) as u64;
		self.zero_accept_runs += (c.zero_accepts > 0) as u64;
		self.delay_runs += (c.delays_applied > 0) as u64;
		self.skip_runs += (c.skips_applied > 0) as u64;
		self.deferred_read_runs += (c.deferred_reads > 0) as u64;
		self.pause_signal_runs += (c.pause_signals > 0) as u64;
		// records after the handshake acts: a direction rotates its key before records 500, 1000, ...
		let r = c.records[0].saturating_sub(2).max(c.records[1].saturating_sub(1));
		self.rotation_runs += (r > 500) as u64;
		self.max_records = self.max_records.max(r);
		self.delivered_msgs += c.delivered_msgs;
		self.read_err_runs += (c.read_errs > 0) as u64;
	}
	fn outcome(&mut self, o: String) {
		if self.outcomes.len() < 400 || self.outcomes.contains_key(&o) {
			*self.outcomes.entry(o).or_insert(0) += 1;
		}
	}
}

// ---------------------------------------------------------------------------------------------
// tasks

#[derive(Clone, Copy, PartialEq, Eq, Debug)]
enum Mode {
	Clean,
	/// The first deviation of every run is the manipulation the oracle is about.
	Tamper,
}

/// Runs `prefix` alone (pool = None) or `prefix + [pool[k]]` for every k in the range.
struct WTask {
	family: &'static str,
	scn: usize,
	mode: Mode,
	prefix: Vec<Dev>,
	pool: Option<(Arc<Vec<Dev>>, usize, usize)>,
}

struct Ctx {
	scns: Vec<Scenario>,
	bases: Vec<Base>,
	deadline: Instant,
	capped: AtomicBool,
	collect_states: bool,
}

fn world_replay(scn: &Scenario, mode: Mode, devs: &[Dev]) -> Value {
	json!({
		"kind": "world",
		"mode": if mode == Mode::Clean { "clean" } else { "tamper" },
		"scenario": scn.to_json(),
		"devs": devs.iter().map(|d| d.to_json()).collect::<Vec<_>>(),
	})
}

fn run_world_once(scn: &Scenario, base: Option<&Base>, mode: Mode, devs: &[Dev], collect: bool) -> (Option<Trace>, Result<String, Failure>) {
	let res = par::guarded(|| run(scn, devs, collect));
	match res {
		Err(p) => (None, Err(Failure::new("no-panic", p))),
		Ok(Err(f)) => (None, Err(f)),
		Ok(Ok(tr)) => {
			let verdict = match mode {
				Mode::Clean => check_clean(scn, &tr),
				Mode::Tamper => {
					let owned;
					let b = match base {
						Some(b) => b,
						None => match Base::of(scn) {
							Ok(b) => {
								owned = b;
								&owned
							},
							Err(f) => return (Some(tr), Err(f)),
						},
					};
					check_tampered(scn, b, &devs[0], &tr)
				},
			};
			(Some(tr), verdict)
		},
	}
}

fn exec_world(ctx: &Ctx, t: &WTask, agg: &mut Agg) {
	let scn = &ctx.scns[t.scn];
	let base = &ctx.bases[t.scn];
	let one = |devs: &[Dev], agg: &mut Agg| {
		if Instant::now() >= ctx.deadline {
			ctx.capped.store(true, Ordering::Relaxed);
			agg.skipped_by_cap += 1;
			return;
		}
		let (tr, verdict) = run_world_once(scn, Some(base), t.mode, devs, ctx.collect_states);
		if let Some(tr) = &tr {
			agg.note(&tr.counters);
			let salt = mc_common::fnv64(scn.name.as_bytes());
			for d in &tr.state_digests {
				agg.digests.insert(d ^ salt);
			}
		} else {
			agg.runs += 1;
		}
		match verdict {
			Ok(o) => {
				if t.mode == Mode::Tamper {
					let stage = match &devs[0] {
						Dev::Flip { dir, bit } => format!("flip:{}", stage_name(base, *dir, bit / 8)),
						Dev::Trunc { dir, off } => format!("trunc:{}", stage_name(base, *dir, (*off).min(base.len(*dir).saturating_sub(1)))),
						Dev::Splice { dir, at, .. } => format!("splice:{}", stage_name(base, *dir, (*at).min(base.len(*dir).saturating_sub(1)))),
						_ => "other".into(),
					};
					*agg.stage_rejects.entry(stage).or_insert(0) += 1;
				}
				agg.outcome(format!("{}:{}", t.family, o));
			},
			Err(f) => {
				let what = devs.iter().map(|d| d.short_str()).collect::<Vec<_>>().join(",");
				agg.viol.push(Viol {
					oracle: f.oracle.clone(),
					family: t.family.to_string(),
					scenario: scn.name.clone(),
					what: what.clone(),
					detail: format!("[{} / {}] {} under [{}]", t.family, scn.name, f.detail, what),
					replay: world_replay(scn, t.mode, devs),
					weight: devs.len(),
				});
			},
		}
	};
	match &t.pool {
		None => one(&t.prefix, agg),
		Some((pool, from, to)) => {
			let mut devs = t.prefix.clone();
			devs.push(Dev::Cut { dir: 0, off: 0 });
			let last = devs.len() - 1;
			for k in *from..*to {
				devs[last] = pool[k].clone();
				one(&devs, agg);
			}
		},
	}
}

/// All cut positions of both directions.
fn cut_pool(base: &Base, lo: [usize; 2]) -> Vec<Dev> {
	let mut v = Vec::new();
	for d in 0..2 {
		for off in lo[d].max(1)..base.len(d) {
			v.push(Dev::Cut { dir: d, off });
		}
	}
	v
}

/// All short-write positions ("socket full at offset") of both directions. Act one is written by
/// the driver, not through `send_data`, so direction A starts at 50.
fn short_pool(base: &Base, lo: [usize; 2]) -> Vec<Dev> {
	let mut v = Vec::new();
	for d in 0..2 {
		let start = if d == A { lo[d].max(50) } else { lo[d] };
		for off in start..base.len(d) {
			v.push(Dev::Short { dir: d, off });
		}
	}
	v
}

fn skip_pool(base: &Base) -> Vec<Dev> {
	let mut v = Vec::new();
	for s in 0..2 {
		for nth in 0..base.proc_calls[s] {
			v.push(Dev::SkipProc { side: s, nth });
		}
	}
	v
}

fn delay_pool() -> Vec<Dev> {
	let mut v = Vec::new();
	for d in 0..2 {
		for nth in 0..2 {
			for rounds in [1usize, 2] {
				v.push(Dev::DelayW { dir: d, nth, rounds });
			}
		}
	}
	v
}

/// Tasks for every execution with at most `k` (1 or 2) deviations from `pool` (pairs in pool order).
fn upto_k(family: &'static str, scn: usize, pool: Vec<Dev>, k: usize, out: &mut Vec<WTask>) {
	let pool = Arc::new(pool);
	let n = pool.len();
	let step = 64;
	let mut i = 0;
	while i < n {
		out.push(WTask { family, scn, mode: Mode::Clean, prefix: vec![], pool: Some((pool.clone(), i, (i + step).min(n))) });
		i += step;
	}
	if k >= 2 {
		for i in 0..n {
			let mut j = i + 1;
			while j < n {
				let e = (j + 256).min(n);
				out.push(WTask { family, scn, mode: Mode::Clean, prefix: vec![pool[i].clone()], pool: Some((pool.clone(), j, e)) });
				j = e;
			}
		}
	}
}

fn tamper_tasks(family: &'static str, scn: usize, devs: Vec<Dev>, out: &mut Vec<WTask>) {
	let pool = Arc::new(devs);
	let n = pool.len();
	let mut i = 0;
	while i < n {
		let e = (i + 32).min(n);
		out.push(WTask { family, scn, mode: Mode::Tamper, prefix: vec![], pool: Some((pool.clone(), i, e)) });
		i = e;
	}
}

// ---------------------------------------------------------------------------------------------
// raw-peer cases

#[derive(Clone, Debug)]
enum Expect {
	/// No handler may ever be called.
	Nothing { must_reject: bool },
	/// After the three `peer_connected` calls exactly these observations, in order.
	Exactly { obs: Vec<Ev>, must_reject: Option<bool> },
	/// Whatever reaches a handler must be an in-order, duplicate-free selection of what was sent.
	Subseq { sent: Vec<Ev> },
}

#[derive(Clone, Debug)]
struct RawCase {
	family: &'static str,
	role: Role,
	script: Vec<Step>,
	expect: Expect,
	/// The node must have answered with a pong of this many padding bytes.
	pong: Option<u16>,
}

fn raw_replay(c: &RawCase) -> Value {
	let (k, must, obs) = match &c.expect {
		Expect::Nothing { must_reject } => ("nothing", *must_reject, vec![]),
		Expect::Exactly { obs, must_reject } => (if must_reject.is_none() { "exactly-any" } else { "exactly" }, must_reject.unwrap_or(false), obs.clone()),
		Expect::Subseq { sent } => ("subseq", false, sent.clone()),
	};
	json!({
		"kind": "raw",
		"family": c.family,
		"role": if c.role == Role::RawInitiator { "raw-initiator" } else { "raw-responder" },
		"script": c.script.iter().map(|s| s.to_json()).collect::<Vec<_>>(),
		"expect": k,
		"must_reject": must,
		"pong": c.pong.map(|p| p as i64).unwrap_or(-1),
		"obs": obs.iter().map(|e| match e { Ev::Msg { h, ty, bytes } => json!([h, ty, mc_common::hex(bytes)]), _ => json!(null) }).collect::<Vec<_>>(),
	})
}

fn raw_case_from_json(v: &Value) -> Option<RawCase> {
	let role = if v.get("role")?.as_str()? == "raw-initiator" { Role::RawInitiator } else { Role::RawResponder };
	let script: Vec<Step> = v.get("script")?.as_array()?.iter().map(Step::from_json).collect::<Option<_>>()?;
	let must = v.get("must_reject")?.as_bool()?;
	let obs: Vec<Ev> = v
		.get("obs")?
		.as_array()?
		.iter()
		.map(|o| Some(Ev::Msg { h: o.get(0)?.as_u64()? as u8, ty: o.get(1)?.as_u64()? as u16, bytes: mc_common::unhex(o.get(2)?.as_str()?)? }))
		.collect::<Option<_>>()?;
	let expect = match v.get("expect")?.as_str()? {
		"nothing" => Expect::Nothing { must_reject: must },
		"exactly" => Expect::Exactly { obs, must_reject: Some(must) },
		"exactly-any" => Expect::Exactly { obs, must_reject: None },
		_ => Expect::Subseq { sent: obs },
	};
	let p = v.get("pong")?.as_i64()?;
	Some(RawCase { family: "replay", role, script, expect, pong: if p < 0 { None } else { Some(p as u16) } })
}

fn check_raw(c: &RawCase, tr: &raw::RawTrace) -> Result<String, Failure> {
	if let Some(b) = &tr.node_stream_bad {
		return Err(Failure::new("reference-interop", format!("the independent BOLT-8 reference cannot follow the node's output: {}", b)));
	}
	let connected = tr.events.iter().filter(|e| matches!(e, Ev::Connected(_))).count();
	if connected != 0 && connected != 3 {
		return Err(Failure::new("init-order", format!("{} peer_connected calls", connected)));
	}
	// no message before the node processed the raw peer's Init
	let mut conn = 0;
	for e in &tr.events {
		match e {
			Ev::Connected(_) => conn += 1,
			Ev::Msg { h, ty, .. } if conn < 3 => {
				return Err(Failure::new("init-order", format!("handler {} got message type {} before the peer's Init was processed", h, ty)));
			},
			_ => {},
		}
	}
	let msgs: Vec<&Ev> = tr.events.iter().filter(|e| matches!(e, Ev::Msg { .. })).collect();
	let rejected = tr.any_err || tr.ldk_closed;
	let label;
	match &c.expect {
		Expect::Nothing { must_reject } => {
			if connected > 0 || !msgs.is_empty() {
				return Err(Failure::new("tamper-not-processed", format!("handlers were called ({} connects, {} messages) although the peer never completed a valid handshake + Init", connected, msgs.len())));
			}
			if *must_reject && !rejected {
				return Err(Failure::new("tamper-detected", "invalid bytes were neither answered with Err nor with disconnect_socket"));
			}
			label = format!("nothing rejected={}", rejected);
		},
		Expect::Exactly { obs, must_reject } => {
			if connected != 3 {
				return Err(Failure::new("exact-sequence", "a valid handshake + Init did not lead to peer_connected"));
			}
			if msgs.len() != obs.len() || msgs.iter().zip(obs.iter()).any(|(a, b)| *a != b) {
				return Err(Failure::new("exact-sequence", format!("handlers observed {} messages, expected {} (or contents differ)", msgs.len(), obs.len())));
			}
			if *must_reject == Some(true) && !rejected {
				return Err(Failure::new("tamper-detected", "expected the connection to be dropped"));
			}
			if *must_reject == Some(false) && rejected {
				return Err(Failure::new("no-spurious-disconnect", "a well-formed exchange was answered with Err/disconnect"));
			}
			label = format!("exactly n={} rejected={}", obs.len(), rejected);
		},
		Expect::Subseq { sent } => {
			let mut i = 0;
			for m in &msgs {
				let same = |a: &Ev, b: &Ev| match (a, b) {
					(Ev::Msg { ty: t1, bytes: b1, .. }, Ev::Msg { ty: t2, bytes: b2, .. }) => t1 == t2 && b1 == b2,
					_ => false,
				};
				while i < sent.len() && !same(&sent[i], m) {
					i += 1;
				}
				if i == sent.len() {
					return Err(Failure::new("exact-sequence", "a handler observed something the raw peer did not send (or out of order / twice)"));
				}
				i += 1;
			}
			label = format!("subseq seen={} rejected={}", msgs.len().min(3), rejected);
		},
	}
	let acts: Vec<&Step> = c.script.iter().filter(|s| matches!(s, Step::Act { .. })).collect();
	let clean_hs = acts.len() == raw::handshake_steps(c.role).len() && acts.iter().all(|s| matches!(s, Step::Act { xor, keep } if xor.iter().all(|x| *x == 0) && *keep == usize::MAX)) && !c.script.iter().take_while(|s| !matches!(s, Step::Init | Step::Msg { .. } | Step::Record { .. })).any(|s| matches!(s, Step::Bytes(_)));
	if tr.handshake_done && clean_hs {
		// the node's first record must be its Init, readable by the reference
		match tr.node_msgs.first() {
			Some(m) if m.len() >= 2 && m[0] == 0 && m[1] == 16 => {},
			Some(_) => return Err(Failure::new("reference-interop", "the node's first message is not init")),
			None => return Err(Failure::new("reference-interop", "the node sent no Init after the handshake")),
		}
	}
	if let Some(p) = c.pong {
		let want_len = 2 + 2 + p as usize;
		let ok = tr.node_msgs.iter().any(|m| m.len() == want_len && m[0] == 0 && m[1] == 19 && u16::from_be_bytes([m[2], m[3]]) == p);
		if !ok {
			return Err(Failure::new("exact-sequence", format!("no pong with {} padding bytes came back", p)));
		}
	}
	Ok(label)
}

fn exec_raw(ctx: &Ctx, c: &RawCase, agg: &mut Agg) {
	if Instant::now() >= ctx.deadline {
		ctx.capped.store(true, Ordering::Relaxed);
		agg.skipped_by_cap += 1;
		return;
	}
	let res = par::guarded(|| raw::run(c.role, &c.script, &[]));
	agg.runs += 1;
	let verdict = match res {
		Err(p) => Err(Failure::new("no-panic", p)),
		Ok(tr) => {
			agg.api_calls += tr.api_calls;
			let rejected = tr.any_err || tr.ldk_closed;
			let v = check_raw(c, &tr);
			if v.is_ok() {
				*agg.stage_rejects.entry(format!("raw:{}:{}", c.family, if rejected { "rejected" } else { "not-rejected" })).or_insert(0) += 1;
				if tr.handshake_done {
					*agg.stage_rejects.entry("raw:handshake-completed-with-reference".into()).or_insert(0) += 1;
				}
			}
			v
		},
	};
	match verdict {
		Ok(o) => agg.outcome(format!("{}:{}", c.family, o)),
		Err(f) => {
			let r = raw_replay(c);
			let what = format!("{:016x}", mc_common::fnv64(r.to_string().as_bytes()));
			agg.viol.push(Viol {
				oracle: f.oracle.clone(),
				family: c.family.to_string(),
				scenario: format!("{:?}", c.role),
				what,
				detail: format!("[{} / {:?}] {} (script of {} steps, see replay)", c.family, c.role, f.detail, c.script.len()),
				replay: r,
				weight: c.script.iter().map(|s| match s { Step::Bytes(b) => b.len(), Step::Msg { payload, .. } => payload.len() + 2, Step::Record { body, .. } => body.len(), _ => 1 }).sum(),
			});
		},
	}
}

fn both_roles() -> [Role; 2] {
	[Role::RawInitiator, Role::RawResponder]
}

fn act(xor: Vec<u8>) -> Step {
	Step::Act { xor, keep: usize::MAX }
}

/// Structured garbage offered in place of a 50-byte handshake act.
fn garbage_corpus() -> Vec<Vec<u8>> {
	let g = fixed_pubkey().serialize();
	let mut v: Vec<Vec<u8>> = Vec::new();
	for fill in [0x00u8, 0xff, 0x01, 0x02, 0x03, 0x80] {
		for len in [3usize, 17, 18, 33, 34, 49, 50, 51, 66, 100, 116, 4096] {
			v.push(vec![fill; len]);
		}
	}
	// version 0, a valid curve point, then various MACs
	for mac in [0x00u8, 0xff] {
		let mut a = vec![0u8];
		a.extend_from_slice(&g);
		a.extend_from_slice(&[mac; 16]);
		v.push(a);
	}
	// version 0, x coordinate not on the curve / out of range / uncompressed-prefix
	for (pfx, x) in [(2u8, 0x00u8), (2, 0xff), (3, 0xff), (4, 0x11), (0, 0x11), (5, 0x11), (2, 0x05)] {
		let mut a = vec![0u8, pfx];
		a.extend_from_slice(&[x; 32]);
		a.extend_from_slice(&[0x42; 16]);
		v.push(a);
	}
	// other version bytes in front of an otherwise plausible act
	for ver in [1u8, 2, 0x7f, 0x80, 0xff] {
		let mut a = vec![ver];
		a.extend_from_slice(&g);
		a.extend_from_slice(&[0x42; 16]);
		v.push(a);
	}
	// text protocols / TLS hello heads, a counting pattern
	v.push(b"GET / HTTP/1.1\r\nHost: lightning\r\n\r\n................".to_vec());
	v.push(vec![0x16, 0x03, 0x01, 0x02, 0x00, 0x01, 0x00, 0x01, 0xfc, 0x03, 0x03].into_iter().chain((0..60).map(|i| i as u8)).collect());
	v.push((0..=255u8).collect());
	v.push((0..70000usize).map(|i| (i * 7) as u8).collect());
	v
}

/// Well-formed messages (type, payload, what a handler must observe if delivered after Init).
fn wellformed() -> Vec<(u16, Vec<u8>, Vec<Ev>, Option<u16>)> {
	let mut v = Vec::new();
	let ms = [
		Msg::Shutdown { len: 0, tag: 801 },
		Msg::Shutdown { len: 17, tag: 802 },
		Msg::TxAbort { len: 18, tag: 803 },
		Msg::ChannelReady { tag: 804 },
		Msg::Stfu { tag: 805 },
		Msg::Error { len: 2, tag: 806 },
		Msg::QueryRange { tag: 807 },
		Msg::SendUpdate { excess: 1, tag: 808 },
		Msg::Custom { len: 0, tag: 809 },
		Msg::Custom { len: 18, tag: 810 },
	];
	for m in ms {
		let (ty, p) = m.wire();
		v.push((ty, p, m.expected(), None));
	}
	// hand-encoded per BOLT-1/2/7 (not through LDK's writers)
	let cid = [0x6bu8; 32];
	// update_fee: channel_id, feerate_per_kw
	let mut p = cid.to_vec();
	p.extend_from_slice(&253u32.to_be_bytes());
	v.push((T_UPDATE_FEE, p.clone(), vec![Ev::Msg { h: H_CHAN, ty: T_UPDATE_FEE, bytes: p }], None));
	// tx_complete: channel_id
	v.push((T_TX_COMPLETE, cid.to_vec(), vec![Ev::Msg { h: H_CHAN, ty: T_TX_COMPLETE, bytes: cid.to_vec() }], None));
	// update_fail_htlc: channel_id, id, len, reason
	let mut p = cid.to_vec();
	p.extend_from_slice(&7u64.to_be_bytes());
	p.extend_from_slice(&3u16.to_be_bytes());
	p.extend_from_slice(&[1, 2, 3]);
	v.push((T_UPDATE_FAIL_HTLC, p.clone(), vec![Ev::Msg { h: H_CHAN, ty: T_UPDATE_FAIL_HTLC, bytes: p }], None));
	// update_fulfill_htlc: channel_id, id, preimage
	let mut p = cid.to_vec();
	p.extend_from_slice(&9u64.to_be_bytes());
	p.extend_from_slice(&[0xab; 32]);
	v.push((T_UPDATE_FULFILL_HTLC, p.clone(), vec![Ev::Msg { h: H_CHAN, ty: T_UPDATE_FULFILL_HTLC, bytes: p }], None));
	// peer_storage: u16 length + blob
	let mut p = 5u16.to_be_bytes().to_vec();
	p.extend_from_slice(&[9, 8, 7, 6, 5]);
	v.push((T_PEER_STORAGE, p.clone(), vec![Ev::Msg { h: H_CHAN, ty: T_PEER_STORAGE, bytes: p }], None));
	// warning (logged only), ping (answered with pong), pong, gossip_timestamp_filter, unknown odd
	let mut p = cid.to_vec();
	p.extend_from_slice(&2u16.to_be_bytes());
	p.extend_from_slice(b"hi");
	v.push((T_WARNING, p, vec![], None));
	for (ponglen, byteslen) in [(0u16, 0u16), (1, 17), (17, 0), (65531, 2), (65532, 1), (65535, 0)] {
		let mut p = ponglen.to_be_bytes().to_vec();
		p.extend_from_slice(&byteslen.to_be_bytes());
		p.extend_from_slice(&vec![0u8; byteslen as usize]);
		v.push((T_PING, p, vec![], if ponglen < 65532 { Some(ponglen) } else { None }));
	}
	let mut p = 3u16.to_be_bytes().to_vec();
	p.extend_from_slice(&[0, 0, 0]);
	v.push((T_PONG, p, vec![], None));
	let mut p = bitcoin::constants::ChainHash::using_genesis_block(bitcoin::Network::Testnet).as_bytes().to_vec();
	p.extend_from_slice(&0xffff_fff0u32.to_be_bytes());
	p.extend_from_slice(&10u32.to_be_bytes());
	v.push((T_GOSSIP_TIMESTAMP_FILTER, p, vec![], None));
	v.push((32001, vec![1, 2, 3], vec![], None));
	v
}

fn raw_cases(tier: Tier) -> Vec<RawCase> {
	let mut v: Vec<RawCase> = Vec::new();
	let thorough = tier.is_thorough();
	// R1/R2: every byte string of length <= 2 in place of act one / act two, then EOF; and the same
	// strings replacing the head of an otherwise valid act (expressed as xor masks over the valid act:
	// as the mask ranges over all values so does the replaced head).
	for role in both_roles() {
		let pre: Vec<Step> = vec![];
		let fam_eof = if role == Role::RawInitiator { "garbage-act1-eof" } else { "garbage-act2-eof" };
		let fam_head = if role == Role::RawInitiator { "garbage-act1-head" } else { "garbage-act2-head" };
		let fam_pad = if role == Role::RawInitiator { "garbage-act1-padded" } else { "garbage-act2-padded" };
		let fam_corpus = if role == Role::RawInitiator { "garbage-act1-corpus" } else { "garbage-act2-corpus" };
		let fam_trunc = if role == Role::RawInitiator { "act1-truncated" } else { "act2-truncated" };
		v.push(RawCase { family: fam_eof, role, script: [pre.clone(), vec![Step::Close]].concat(), expect: Expect::Nothing { must_reject: false }, pong: None });
		for a in 0..=255u8 {
			v.push(RawCase { family: fam_eof, role, script: [pre.clone(), vec![Step::Bytes(vec![a]), Step::Close]].concat(), expect: Expect::Nothing { must_reject: false }, pong: None });
			v.push(RawCase { family: fam_head, role, script: [pre.clone(), vec![act(vec![a]), Step::Close]].concat(), expect: Expect::Nothing { must_reject: a != 0 }, pong: None });
			for pad in [0x00u8, 0xff] {
				let mut b = vec![pad; 50];
				b[0] = a;
				v.push(RawCase { family: fam_pad, role, script: [pre.clone(), vec![Step::Bytes(b), Step::Close]].concat(), expect: Expect::Nothing { must_reject: true }, pong: None });
			}
			for b in 0..=255u8 {
				v.push(RawCase { family: fam_eof, role, script: [pre.clone(), vec![Step::Bytes(vec![a, b]), Step::Close]].concat(), expect: Expect::Nothing { must_reject: false }, pong: None });
				v.push(RawCase { family: fam_head, role, script: [pre.clone(), vec![act(vec![a, b]), Step::Close]].concat(), expect: Expect::Nothing { must_reject: a != 0 || b != 0 }, pong: None });
				if thorough || a < 4 || b < 2 {
					let mut bb = vec![0u8; 50];
					bb[0] = a;
					bb[1] = b;
					v.push(RawCase { family: fam_pad, role, script: [pre.clone(), vec![Step::Bytes(bb), Step::Close]].concat(), expect: Expect::Nothing { must_reject: true }, pong: None });
				}
			}
		}
		for g in garbage_corpus() {
			let must = g.len() >= 50;
			v.push(RawCase { family: fam_corpus, role, script: [pre.clone(), vec![Step::Bytes(g), Step::Close]].concat(), expect: Expect::Nothing { must_reject: must }, pong: None });
		}
		for keep in 0..50usize {
			v.push(RawCase { family: fam_trunc, role, script: [pre.clone(), vec![Step::Act { xor: vec![], keep }, Step::Close]].concat(), expect: Expect::Nothing { must_reject: false }, pong: None });
		}
		// every bit of the act produced by the reference
		for bit in 0..400usize {
			let mut x = vec![0u8; bit / 8 + 1];
			x[bit / 8] = 1 << (bit % 8);
			v.push(RawCase { family: if role == Role::RawInitiator { "ref-act1-bitflip" } else { "ref-act2-bitflip" }, role, script: vec![act(x), Step::Close], expect: Expect::Nothing { must_reject: true }, pong: None });
		}
	}
	// act three produced by the reference: every bit, truncations, garbage
	for bit in 0..528usize {
		let mut x = vec![0u8; bit / 8 + 1];
		x[bit / 8] = 1 << (bit % 8);
		v.push(RawCase { family: "ref-act3-bitflip", role: Role::RawInitiator, script: vec![act(vec![]), act(x), Step::Close], expect: Expect::Nothing { must_reject: true }, pong: None });
	}
	for keep in 0..66usize {
		v.push(RawCase { family: "act3-truncated", role: Role::RawInitiator, script: vec![act(vec![]), Step::Act { xor: vec![], keep }, Step::Close], expect: Expect::Nothing { must_reject: false }, pong: None });
	}
	for g in garbage_corpus() {
		let must = g.len() >= 66;
		v.push(RawCase { family: "garbage-act3-corpus", role: Role::RawInitiator, script: vec![act(vec![]), Step::Bytes(g), Step::Close], expect: Expect::Nothing { must_reject: must }, pong: None });
	}
	// R3b: a message the node deliberately ignores (a gossip query using the zlib encoding it does not support, an
	// unreadable gossip message: answered with a warning at most, never a disconnection) followed by ordinary
	// messages shorter and longer than it: everything after the ignored message still arrives, intact and in order
	for role in both_roles() {
		let hs = raw::handshake_steps(role);
		let chain = bitcoin::constants::ChainHash::using_genesis_block(bitcoin::Network::Testnet).as_bytes().to_vec();
		let mut ignorable: Vec<(u16, Vec<u8>)> = Vec::new();
		for ids in [0usize, 8, 64] {
			// query_short_channel_ids: chain_hash, u16 len, encoding type 1 (zlib) + data
			let mut p = chain.clone();
			p.extend_from_slice(&((1 + ids) as u16).to_be_bytes());
			p.push(1);
			p.extend_from_slice(&vec![0x5a; ids]);
			ignorable.push((261, p));
		}
		{
			// reply_channel_range: chain_hash, first_blocknum, number_of_blocks, sync_complete, u16 len, zlib-encoded ids
			let mut p = chain.clone();
			p.extend_from_slice(&100u32.to_be_bytes());
			p.extend_from_slice(&10u32.to_be_bytes());
			p.push(1);
			p.extend_from_slice(&9u16.to_be_bytes());
			p.push(1);
			p.extend_from_slice(&[0x33; 8]);
			ignorable.push((264, p));
		}
		// unreadable gossip messages (too short to be a channel_update / node_announcement / channel_announcement)
		ignorable.push((T_CHANNEL_UPDATE, vec![0x11; 10]));
		ignorable.push((T_NODE_ANNOUNCEMENT, vec![0x22; 70]));
		ignorable.push((T_CHANNEL_ANNOUNCEMENT, vec![0x44; 300]));
		let follow = [Msg::Shutdown { len: 0, tag: 821 }, Msg::Custom { len: 0, tag: 822 }, Msg::Custom { len: 18, tag: 823 }, Msg::TxAbort { len: 400, tag: 824 }];
		for (ty, payload) in ignorable.iter() {
			for k in 1..=follow.len() {
				for start in 0..follow.len() {
					let seq: Vec<&Msg> = (0..k).map(|j| &follow[(start + j) % follow.len()]).collect();
					let mut script = hs.clone();
					script.push(Step::Init);
					// one ordinary message first: the ignored message is met in the middle of the stream
					let (t0, p0) = follow[0].wire();
					script.push(Step::Msg { ty: t0, payload: p0 });
					let mut obs: Vec<Ev> = follow[0].expected();
					script.push(Step::Msg { ty: *ty, payload: payload.clone() });
					for m in seq.iter() {
						let (t, p) = m.wire();
						script.push(Step::Msg { ty: t, payload: p });
						obs.extend(m.expected());
					}
					v.push(RawCase { family: "ignored-gossip-then-more", role, script, expect: Expect::Exactly { obs, must_reject: Some(false) }, pong: None });
				}
			}
		}
	}
	// R3: well-formed messages before the raw peer's Init, and (control) after it
	for role in both_roles() {
		let hs = raw::handshake_steps(role);
		v.push(RawCase { family: "control-init-only", role, script: [hs.clone(), vec![Step::Init, Step::Close]].concat(), expect: Expect::Exactly { obs: vec![], must_reject: Some(false) }, pong: None });
		v.push(RawCase { family: "no-init-eof", role, script: [hs.clone(), vec![Step::Close]].concat(), expect: Expect::Nothing { must_reject: false }, pong: None });
		for (ty, payload, obs, pong) in wellformed() {
			let m = Step::Msg { ty, payload: payload.clone() };
			v.push(RawCase { family: "wellformed-before-init", role, script: [hs.clone(), vec![m.clone(), Step::Init, m.clone(), Step::Close]].concat(), expect: Expect::Nothing { must_reject: true }, pong: None });
			v.push(RawCase { family: "wellformed-after-init", role, script: [hs.clone(), vec![Step::Init, m.clone()]].concat(), expect: Expect::Exactly { obs: obs.clone(), must_reject: Some(false) }, pong });
			// twice after Init: both observed, in order
			let twice: Vec<Ev> = obs.iter().cloned().chain(obs.iter().cloned()).collect();
			v.push(RawCase { family: "wellformed-after-init", role, script: [hs.clone(), vec![Step::Init, m.clone(), m.clone()]].concat(), expect: Expect::Exactly { obs: twice, must_reject: Some(false) }, pong });
			// every strict prefix of the payload after Init: never panics, never invents a message
			let n = payload.len();
			let idx: Vec<usize> = if thorough || n <= 80 { (0..n).collect() } else { (0..40).chain(n - 40..n).collect() };
			for k in idx {
				let t = Step::Msg { ty, payload: payload[..k].to_vec() };
				// if a strict prefix happens to be a complete message it may be delivered, but only as itself
				let one = Ev::Msg { h: 255, ty, bytes: payload[..k].to_vec() };
				let sent: Vec<Ev> = vec![one.clone(), one];
				v.push(RawCase { family: "truncated-payload-after-init", role, script: [hs.clone(), vec![Step::Init, t, Step::Close]].concat(), expect: Expect::Subseq { sent }, pong: None });
			}
		}
		// every 2-byte plaintext (= every message type with an empty payload) before and after Init
		let stride = if thorough { 1 } else { 1 };
		let mut ty = 0u32;
		while ty <= 65535 {
			let t = ty as u16;
			let m = Step::Msg { ty: t, payload: vec![] };
			let sent = vec![Ev::Msg { h: 255, ty: t, bytes: vec![] }, Ev::Msg { h: 255, ty: t, bytes: vec![] }];
			let before = RawCase { family: "type-sweep-before-init", role, script: [hs.clone(), vec![m.clone(), Step::Close]].concat(), expect: Expect::Nothing { must_reject: false }, pong: None };
			let pick = thorough || t < 2048 || t % 16 == 0 || (t >= 32768 - 64 && t < 32768 + 64) || t >= 65535 - 64;
			if !pick {
				ty += stride;
				continue;
			}
			v.push(before);
			v.push(RawCase { family: "type-sweep-after-init", role, script: [hs.clone(), vec![Step::Init, m, Step::Close]].concat(), expect: Expect::Subseq { sent }, pong: None });
			ty += stride;
		}
		// malformed records after the handshake
		v.push(RawCase { family: "record-len0", role, script: [hs.clone(), vec![Step::Record { claimed: 0, body: vec![] }, Step::Close]].concat(), expect: Expect::Nothing { must_reject: true }, pong: None });
		v.push(RawCase { family: "record-len0", role, script: [hs.clone(), vec![Step::Init, Step::Record { claimed: 0, body: vec![] }, Step::Close]].concat(), expect: Expect::Exactly { obs: vec![], must_reject: Some(true) }, pong: None });
		for x in 0..=255u8 {
			v.push(RawCase { family: "record-len1", role, script: [hs.clone(), vec![Step::Init, Step::Record { claimed: 1, body: vec![x] }, Step::Close]].concat(), expect: Expect::Exactly { obs: vec![], must_reject: Some(true) }, pong: None });
			v.push(RawCase { family: "record-len1", role, script: [hs.clone(), vec![Step::Record { claimed: 1, body: vec![x] }, Step::Close]].concat(), expect: Expect::Nothing { must_reject: true }, pong: None });
		}
		// a length field that lies about the body: the node must fail on the MAC or keep waiting, never deliver
		for (claimed, blen) in [(2u16, 3usize), (3, 2), (40, 2), (2, 40), (65535, 10), (0, 2), (1, 2)] {
			let mut body = T_CUSTOM.to_be_bytes().to_vec();
			body.resize(blen.max(2), 0x5a);
			body.truncate(blen);
			let follow = Step::Msg { ty: T_CUSTOM, payload: vec![1, 2, 3] };
			v.push(RawCase { family: "record-length-lie", role, script: [hs.clone(), vec![Step::Init, Step::Record { claimed, body }, follow.clone(), follow, Step::Close]].concat(), expect: Expect::Exactly { obs: vec![], must_reject: None }, pong: None });
		}
		// protocol-level violations
		v.push(RawCase { family: "second-init", role, script: [hs.clone(), vec![Step::Init, Step::Init, Step::Msg { ty: T_CUSTOM, payload: vec![7] }, Step::Close]].concat(), expect: Expect::Exactly { obs: vec![], must_reject: Some(true) }, pong: None });
		v.push(RawCase { family: "unknown-even-type", role, script: [hs.clone(), vec![Step::Init, Step::Msg { ty: 100, payload: vec![] }, Step::Msg { ty: T_CUSTOM, payload: vec![7] }, Step::Close]].concat(), expect: Expect::Exactly { obs: vec![], must_reject: Some(true) }, pong: None });
		v.push(RawCase {
			family: "unknown-odd-type",
			role,
			script: [hs.clone(), vec![Step::Init, Step::Msg { ty: 101, payload: vec![1, 2] }, Step::Msg { ty: T_CUSTOM, payload: vec![7] }]].concat(),
			expect: Expect::Exactly { obs: vec![Ev::Msg { h: H_CUSTOM, ty: T_CUSTOM, bytes: vec![7] }], must_reject: Some(false) },
			pong: None,
		});
		// init with an unknown required (even) feature bit: feature bit 100 -> byte 12 from the end
		let mut feat = vec![0u8; 13];
		feat[0] = 1 << 4;
		let mut init = vec![0u8, 0];
		init.extend_from_slice(&(feat.len() as u16).to_be_bytes());
		init.extend_from_slice(&feat);
		v.push(RawCase { family: "init-unknown-required-feature", role, script: [hs.clone(), vec![Step::Msg { ty: T_INIT, payload: init }, Step::Msg { ty: T_CUSTOM, payload: vec![7] }, Step::Close]].concat(), expect: Expect::Nothing { must_reject: true }, pong: None });
		// init naming only a foreign chain (TLV 1)
		let mut init = vec![0u8, 0, 0, 0, 1, 32];
		init.extend_from_slice(&[0x99; 32]);
		v.push(RawCase { family: "init-foreign-chain", role, script: [hs.clone(), vec![Step::Msg { ty: T_INIT, payload: init }, Step::Msg { ty: T_CUSTOM, payload: vec![7] }, Step::Close]].concat(), expect: Expect::Nothing { must_reject: true }, pong: None });
		// the largest possible message, unknown odd type and custom type
		v.push(RawCase {
			family: "max-size-message",
			role,
			script: [hs.clone(), vec![Step::Init, Step::Msg { ty: 32001, payload: vec![0xee; 65533] }, Step::Msg { ty: T_CUSTOM, payload: pattern(65533, 9) }]].concat(),
			expect: Expect::Exactly { obs: vec![Ev::Msg { h: H_CUSTOM, ty: T_CUSTOM, bytes: pattern(65533, 9) }], must_reject: Some(false) },
			pong: None,
		});
	}
	v
}

// ---------------------------------------------------------------------------------------------
// driver

fn select_offsets(len: usize, lo: usize, thorough: bool) -> Vec<usize> {
	if thorough {
		return (lo..len).collect();
	}
	let mut v: Vec<usize> = Vec::new();
	for o in lo..len {
		let near_edge = o < lo + 96 || o + 96 >= len;
		let near_4k = (o % 4096) <= 1 || (o % 4096) >= 4095;
		let near_8k = (o % 8192) <= 1 || (o % 8192) >= 8191;
		if near_edge || near_4k || near_8k || o % 509 == 0 {
			v.push(o);
		}
	}
	v
}

fn replay_file(path: &std::path::Path) -> ! {
	let s = std::fs::read_to_string(path).unwrap_or_else(|_| cli::die("cannot read replay file"));
	let v: Value = mc_common::serde_json::from_str(&s).unwrap_or_else(|_| cli::die("replay file is not JSON"));
	let r = v.get("replay").unwrap_or(&v);
	par::set_quiet(false);
	let verdict: Result<String, Failure> = match r.get("kind").and_then(|k| k.as_str()) {
		Some("world") => {
			let scn = r.get("scenario").and_then(Scenario::from_json).unwrap_or_else(|| cli::die("bad scenario in replay"));
			let devs: Vec<Dev> = r.get("devs").and_then(|d| d.as_array()).map(|a| a.iter().filter_map(Dev::from_json).collect()).unwrap_or_default();
			let mode = if r.get("mode").and_then(|m| m.as_str()) == Some("tamper") { Mode::Tamper } else { Mode::Clean };
			let (tr, verdict) = run_world_once(&scn, None, mode, &devs, false);
			if let Some(tr) = tr {
				eprintln!("replay: {} rounds, {} API calls, {} handler events, read_err={:?} ldk_closed={:?}", tr.counters.rounds, tr.counters.api_calls, tr.events.len(), tr.read_err, tr.ldk_closed);
			}
			verdict
		},
		Some("raw") => {
			let c = raw_case_from_json(r).unwrap_or_else(|| cli::die("bad raw case in replay"));
			match par::guarded(|| raw::run(c.role, &c.script, &[])) {
				Err(p) => Err(Failure::new("no-panic", p)),
				Ok(tr) => {
					eprintln!("replay: handshake_done={} any_err={} ldk_closed={} events={}", tr.handshake_done, tr.any_err, tr.ldk_closed, tr.events.len());
					check_raw(&c, &tr)
				},
			}
		},
		Some("cipher") => {
			let n = r.get("n").and_then(|n| n.as_u64()).unwrap_or(2100) as usize;
			match par::guarded(|| cipher::differential(n, true)) {
				Err(p) => Err(Failure::new("no-panic", p)),
				Ok(Err(f)) => Err(f),
				Ok(Ok(_)) => Ok("cipher ok".into()),
			}
		},
		_ => cli::die("replay file has no known kind"),
	};
	match verdict {
		Ok(o) => {
			println!("REPLAY property={} verdict=holds ({})", ID, o);
			std::process::exit(0)
		},
		Err(f) => {
			println!("REPLAY property={} verdict=VIOLATION oracle={} detail={}", ID, f.oracle, f.detail);
			std::process::exit(1)
		},
	}
}

fn main() {
	let args = cli::parse();
	par::install_quiet_panic_hook();
	if let Some(p) = &args.replay {
		replay_file(p);
	}
	if args.property != ID {
		cli::die(&format!("mc-transport only checks {}", ID));
	}
	let tier = args.tier;
	let thorough = tier.is_thorough();
	let cap_s = if args.wall_cap_s > 0 { args.wall_cap_s } else if thorough { 2400 } else { 55 };
	let start = Instant::now();
	let deadline = start + Duration::from_secs(cap_s);
	let threads = args.threads.max(1);
	let only = args.opt("only").map(|s| s.to_string());
	let want = |fam: &str| only.as_ref().map(|o| o.split(',').any(|x| fam.starts_with(x))).unwrap_or(true);

	let mut ev = Evidence::new(ID, tier, args.seed, Level::ModelChecking);
	let mut violations: Vec<Violation> = Vec::new();

	// 0. the reference must itself agree with the BOLT-8 test vectors
	if let Err(e) = bolt8::self_check() {
		cli::die(&format!("the independent BOLT-8 reference fails the specification's test vectors: {}", e));
	}

	// 1. cipher layer in isolation, LDK encryptor vs reference
	let mut agg_total = Agg::default();
	let mut timings: Vec<(String, f64, u64)> = Vec::new();
	if want("cipher") {
		let t0 = Instant::now();
		let n = if thorough { 5200 } else { 2100 };
		match par::guarded(|| cipher::differential(n, true)) {
			Err(p) => violations.push(Violation { property: ID.into(), oracle: "no-panic".into(), identity: "no-panic|cipher".into(), detail: p, replay: json!({"kind": "cipher", "n": n}) }),
			Ok(Err(f)) => violations.push(Violation { property: ID.into(), oracle: f.oracle.clone(), identity: format!("{}|cipher|{}", f.oracle, f.detail), detail: f.detail, replay: json!({"kind": "cipher", "n": n}) }),
			Ok(Ok(st)) => {
				if st.rotations < 8 {
					cli::die("vacuity: the cipher differential crossed fewer than 8 key rotations");
				}
				ev.set("cipher_differential", json!({"messages": st.messages, "key_rotations": st.rotations, "ciphertext_bytes_compared": st.bytes}));
			},
		}
		timings.push(("cipher".into(), t0.elapsed().as_secs_f64(), 1));
	}

	// 2. scenarios and their base runs
	let scn_names: Vec<String> = {
		let mut v: Vec<String> = ["hs", "seq", "seqchan", "mixed", "big:a", "big:b", "pause", "pause2", "rot:a:1003", "rot:b:1003", "rot:ab:1003", "rot:a:1003:4096"].iter().map(|s| s.to_string()).collect();
		if thorough {
			v.push("rot:ab:2505".into());
		}
		v
	};
	let scns: Vec<Scenario> = scn_names.iter().map(|n| scenario(n)).collect();
	let mut bases = Vec::new();
	for s in &scns {
		match par::guarded(|| Base::of(s)) {
			Ok(Ok(b)) => bases.push(b),
			Ok(Err(f)) => {
				// the default schedule itself violates the property: report and stop (nothing else is meaningful)
				violations.push(Violation { property: ID.into(), oracle: f.oracle.clone(), identity: format!("{}|base|{}", f.oracle, s.name), detail: format!("[base / {}] {} under the default schedule", s.name, f.detail), replay: world_replay(s, Mode::Clean, &[]) });
				ev.set("states", 1u64).set("transitions", 1u64).set("traces_validated_against_impl", 1u64);
				ev.sample(json!({"scenario": s.name, "devs": []}), 8);
				std::process::exit(findings::conclude(ID, &violations, &mut ev));
			},
			Err(p) => {
				violations.push(Violation { property: ID.into(), oracle: "no-panic".into(), identity: format!("no-panic|base|{}", s.name), detail: format!("[base / {}] {}", s.name, p), replay: world_replay(s, Mode::Clean, &[]) });
				ev.set("states", 1u64).set("transitions", 1u64).set("traces_validated_against_impl", 1u64);
				ev.sample(json!({"scenario": s.name, "devs": []}), 8);
				std::process::exit(findings::conclude(ID, &violations, &mut ev));
			},
		}
	}
	let idx = |n: &str| scn_names.iter().position(|x| x == n).unwrap();
	for n in ["seq", "seqchan", "big:a", "big:b"] {
		if let Err(e) = verify_wire_order(&scns[idx(n)], &bases[idx(n)]) {
			cli::die(&format!("scenario {} does not have the wire layout the tamper oracle assumes: {}", n, e));
		}
	}
	let ctx = Ctx { scns, bases, deadline, capped: AtomicBool::new(false), collect_states: true };
	let init_start = |b: &Base| [b.unit_start(A, 2), b.unit_start(B, 1)];

	// 3. task families
	let mut families: Vec<(&'static str, Vec<WTask>)> = Vec::new();
	{
		// F1: handshake + Init, every execution with <= 2 deviations (cuts, short writes, skipped
		// process_events, delayed writable notifications)
		let i = idx("hs");
		let b = &ctx.bases[i];
		let mut pool = cut_pool(b, [0, 0]);
		pool.extend(short_pool(b, [0, 0]));
		pool.extend(skip_pool(b));
		pool.extend(delay_pool());
		let mut t = vec![WTask { family: "hs<=2", scn: i, mode: Mode::Clean, prefix: vec![], pool: None }];
		upto_k("hs<=2", i, pool, 2, &mut t);
		families.push(("hs<=2", t));
		if thorough {
			// every triple of cut positions over the handshake acts and Init
			let cuts = Arc::new(cut_pool(b, [0, 0]));
			let n = cuts.len();
			let mut t = Vec::new();
			for x in 0..n {
				for y in x + 1..n {
					if y + 1 < n {
						t.push(WTask { family: "hs-3cuts", scn: i, mode: Mode::Clean, prefix: vec![cuts[x].clone(), cuts[y].clone()], pool: Some((cuts.clone(), y + 1, n)) });
					}
				}
			}
			families.push(("hs-3cuts", t));
		}
	}
	{
		// F2: short message sequence over the size alphabet in both directions
		let i = idx("seq");
		let b = &ctx.bases[i];
		let lo = if thorough { [0, 0] } else { [b.unit_start(A, 3), b.unit_start(B, 2)] };
		let mut pool1 = cut_pool(b, [0, 0]);
		pool1.extend(short_pool(b, [0, 0]));
		pool1.extend(skip_pool(b));
		let mut t = vec![WTask { family: "seq<=2", scn: i, mode: Mode::Clean, prefix: vec![], pool: None }];
		upto_k("seq<=2", i, pool1, 1, &mut t);
		// pairs: quick = both deviations at or after the first message record (pairs over the
		// handshake + Init bytes are family hs<=2); thorough = anywhere
		let mut pool2 = cut_pool(b, lo);
		pool2.extend(short_pool(b, lo));
		pool2.extend(skip_pool(b));
		pool2.extend(delay_pool());
		let mut t2 = Vec::new();
		upto_k("seq<=2", i, pool2, 2, &mut t2);
		// drop the singles of the second pool (already run)
		t2.retain(|x| !x.prefix.is_empty());
		t.extend(t2);
		families.push(("seq<=2", t));
	}
	for name in ["seqchan", "mixed"] {
		// F3: channel / routing / gossip-broadcast messages: every single deviation; pairs in thorough
		let i = idx(name);
		let b = &ctx.bases[i];
		let mut pool = cut_pool(b, [0, 0]);
		pool.extend(short_pool(b, [0, 0]));
		pool.extend(skip_pool(b));
		let mut t = vec![WTask { family: "chanmsgs", scn: i, mode: Mode::Clean, prefix: vec![], pool: None }];
		upto_k("chanmsgs", i, pool, 1, &mut t);
		families.push(("chanmsgs", t));
		if thorough && name == "seqchan" {
			// all pairs of cuts / short writes from the first message record on
			let lo = [b.unit_start(A, 3), b.unit_start(B, 2)];
			let mut p2 = cut_pool(b, lo);
			p2.extend(short_pool(b, lo));
			let mut t2 = Vec::new();
			upto_k("chanmsgs-pairs", i, p2, 2, &mut t2);
			t2.retain(|x| !x.prefix.is_empty());
			families.push(("chanmsgs-pairs", t2));
		}
	}
	{
		// F4: back-pressure: both sides queue 14 messages; a blocked writer with >= 12 queued
		// messages pauses its own reads. Every single deviation; short write x delayed writable;
		// short write in A->B's first records x every cut/short in B->A.
		for pname in ["pause", "pause2"] {
		let i = idx(pname);
		let b = &ctx.bases[i];
		let mut pool = cut_pool(b, [0, 0]);
		pool.extend(short_pool(b, [0, 0]));
		pool.extend(skip_pool(b));
		let mut t = vec![WTask { family: "pause", scn: i, mode: Mode::Clean, prefix: vec![], pool: None }];
		upto_k("pause", i, pool, 1, &mut t);
		let is = init_start(b);
		let stride = if thorough { 1 } else { 3 };
		for d in 0..2 {
			// the writable notification owed after the short write comes 1, 2 or 3 rounds late
			let delays = Arc::new(vec![Dev::DelayW { dir: d, nth: 0, rounds: 1 }, Dev::DelayW { dir: d, nth: 0, rounds: 2 }, Dev::DelayW { dir: d, nth: 0, rounds: 3 }]);
			for off in is[d]..b.len(d) {
				t.push(WTask { family: "pause", scn: i, mode: Mode::Clean, prefix: vec![Dev::Short { dir: d, off }], pool: Some((delays.clone(), 0, delays.len())) });
			}
		}
		let mut other: Vec<Dev> = Vec::new();
		for off in (is[B]..b.len(B)).step_by(stride) {
			other.push(Dev::Cut { dir: B, off });
			other.push(Dev::Short { dir: B, off });
		}
		let other = Arc::new(other);
		let hi = b.unit_start(A, hs_units(A) + 3).min(b.len(A));
		for off in (is[A]..hi).step_by(stride) {
			t.push(WTask { family: "pause", scn: i, mode: Mode::Clean, prefix: vec![Dev::Short { dir: A, off }], pool: Some((other.clone(), 0, other.len())) });
		}
		families.push(("pause", t));
		}
	}
	for name in ["big:a", "big:b"] {
		// F5: a maximum-size message: single cuts / short writes over the big record
		let i = idx(name);
		let b = &ctx.bases[i];
		let d = if name == "big:a" { A } else { B };
		let lo = b.unit_start(d, hs_units(d) + 1);
		let mut pool = Vec::new();
		for off in select_offsets(b.len(d), lo, thorough) {
			pool.push(Dev::Cut { dir: d, off });
			pool.push(Dev::Short { dir: d, off });
		}
		let mut t = vec![WTask { family: "big", scn: i, mode: Mode::Clean, prefix: vec![], pool: None }];
		upto_k("big", i, pool, 1, &mut t);
		families.push(("big", t));
	}
	{
		// F6: key rotation. Default answers up to the neighbourhood of records 500 and 1000 (0-based,
		// counted after the handshake; the sender re-keys before them), every single cut and short
		// write inside records 498..=502 and 998..=1002, both directions, plus chunked reads.
		for name in ctx.scns.iter().map(|s| s.name.clone()).filter(|n| n.starts_with("rot:")) {
			let i = idx(&name);
			let b = &ctx.bases[i];
			let mut pool = Vec::new();
			for d in 0..2 {
				let hs = hs_units(d);
				let nrec = b.units(d) - hs;
				let mut k = 500;
				while k + 3 <= nrec {
					let lo = b.unit_start(d, hs + k - 2);
					let hi = b.rec_ends[d][hs + k + 2];
					let step = if thorough || name == "rot:a:1003" || name == "rot:b:1003" { 1 } else { 5 };
					for off in (lo..hi).step_by(step) {
						pool.push(Dev::Cut { dir: d, off });
						pool.push(Dev::Short { dir: d, off });
					}
					k += 500;
				}
			}
			if pool.is_empty() {
				cli::die(&format!("vacuity: scenario {} never reaches record 500", name));
			}
			let mut t = vec![WTask { family: "rotation", scn: i, mode: Mode::Clean, prefix: vec![], pool: None }];
			upto_k("rotation", i, pool, 1, &mut t);
			families.push(("rotation", t));
		}
	}
	{
		// T1: bit flips. Every bit of every handshake act, of every record's length header, its MAC,
		// its body and its body MAC in the short sequences; the max-size body every 64th bit (quick).
		for name in ["seq", "seqchan"] {
			let i = idx(name);
			let b = &ctx.bases[i];
			let mut devs = Vec::new();
			for d in 0..2 {
				for bit in 0..b.len(d) * 8 {
					devs.push(Dev::Flip { dir: d, bit });
				}
			}
			let mut t = Vec::new();
			tamper_tasks("flip", i, devs, &mut t);
			families.push(("flip", t));
		}
		for name in ["big:a", "big:b"] {
			let i = idx(name);
			let b = &ctx.bases[i];
			let d = if name == "big:a" { A } else { B };
			let u = hs_units(d) + 2; // acts, Init, small message, then the big record
			let (s, e) = (b.unit_start(d, u), b.rec_ends[d][u]);
			let mut devs = Vec::new();
			for bit in s * 8..e * 8 {
				let off = bit / 8;
				let in_body = off >= s + 18 && off < e - 16;
				let every = if !thorough { 64 } else if d == A { 1 } else { 8 };
				if !in_body || bit % every == 0 {
					devs.push(Dev::Flip { dir: d, bit });
				}
			}
			let mut t = Vec::new();
			tamper_tasks("flip-big", i, devs, &mut t);
			families.push(("flip-big", t));
		}
		{
			// flips right after a key rotation (records 499, 500, 501)
			let i = idx("rot:a:1003");
			let b = &ctx.bases[i];
			let mut devs = Vec::new();
			for k in [499usize, 500, 501, 1000] {
				let u = hs_units(A) + k;
				let (s, e) = (b.unit_start(A, u), b.rec_ends[A][u]);
				for bit in s * 8..e * 8 {
					if thorough || bit % 8 == 0 || (bit / 8) < s + 2 {
						devs.push(Dev::Flip { dir: A, bit });
					}
				}
			}
			// record k (counted after the acts) carries message k-1; LDK's extra ping is appended
			// behind all 1003 messages. Check that layout instead of assuming it.
			let wo = wire_order(&ctx.scns[i], A);
			for (k, m) in wo.iter().enumerate() {
				let u = hs_units(A) + 1 + k;
				if u >= b.units(A) || b.rec_ends[A][u] - b.unit_start(A, u) != m.record_len() {
					cli::die("scenario rot:a:1003 does not have the wire layout the tamper oracle assumes");
				}
			}
			let mut t = Vec::new();
			tamper_tasks("flip-rotation", i, devs, &mut t);
			families.push(("flip-rotation", t));
		}
	}
	{
		// T2: truncation at every offset followed by disconnect
		for name in ["seq", "seqchan"] {
			let i = idx(name);
			let b = &ctx.bases[i];
			let mut devs = Vec::new();
			for d in 0..2 {
				for off in 0..=b.len(d) {
					devs.push(Dev::Trunc { dir: d, off });
				}
			}
			let mut t = Vec::new();
			tamper_tasks("trunc", i, devs, &mut t);
			families.push(("trunc", t));
		}
		for name in ["big:a", "big:b"] {
			let i = idx(name);
			let b = &ctx.bases[i];
			let d = if name == "big:a" { A } else { B };
			let lo = b.unit_start(d, hs_units(d) + 1);
			let devs: Vec<Dev> = select_offsets(b.len(d) + 1, lo, thorough).into_iter().map(|off| Dev::Trunc { dir: d, off }).collect();
			let mut t = Vec::new();
			tamper_tasks("trunc", i, devs, &mut t);
			families.push(("trunc", t));
		}
	}
	{
		// T3: replay / reorder / drop / reflect whole units
		for name in ["seq", "seqchan"] {
			let i = idx(name);
			let b = &ctx.bases[i];
			let mut devs = Vec::new();
			for d in 0..2 {
				let n = b.units(d);
				let unit = |dd: usize, u: usize| b.streams[dd][b.unit_start(dd, u)..b.rec_ends[dd][u]].to_vec();
				for j in 0..=n {
					let at = if j == n { b.len(d) } else { b.unit_start(d, j) };
					// replay of an earlier unit of the same direction before unit j (or at the very end)
					for src in 0..j.min(n) {
						devs.push(Dev::Splice { dir: d, at, del: 0, ins: unit(d, src) });
					}
					// reflection: a unit of the opposite direction
					for src in 0..b.units(1 - d) {
						devs.push(Dev::Splice { dir: d, at, del: 0, ins: unit(1 - d, src) });
					}
					if j < n {
						let len = b.rec_ends[d][j] - at;
						// unit j dropped
						devs.push(Dev::Splice { dir: d, at, del: len, ins: vec![] });
						// unit j replaced by a later one (reordering)
						for src in j + 1..n {
							devs.push(Dev::Splice { dir: d, at, del: len, ins: unit(d, src) });
						}
						// unit j replaced by zeros / by itself with the two halves swapped
						devs.push(Dev::Splice { dir: d, at, del: len, ins: vec![0u8; len] });
						let mut sw = unit(d, j);
						sw.rotate_left(len / 2);
						if sw != unit(d, j) {
							devs.push(Dev::Splice { dir: d, at, del: len, ins: sw });
						}
					}
				}
			}
			let mut t = Vec::new();
			tamper_tasks("splice", i, devs, &mut t);
			families.push(("splice", t));
		}
	}

	// 4. run (the two large enumerations last, so that a capped run still covers every kind of check)
	families.sort_by_key(|(f, _)| match *f {
		"hs<=2" => 1,
		"seq<=2" => 2,
		"chanmsgs-pairs" => 3,
		"flip-big" if thorough => 4,
		"hs-3cuts" => 5,
		_ => 0,
	});
	let mut samples: Vec<Value> = Vec::new();
	let mut per_family: BTreeMap<String, Value> = BTreeMap::new();
	let mut raw_runs = 0u64;
	for phase in 0..2 {
		for (fam, tasks) in &families {
			let late = matches!(*fam, "hs<=2" | "seq<=2" | "hs-3cuts" | "chanmsgs-pairs") || (thorough && *fam == "flip-big");
			if !want(fam) || late != (phase == 1) {
				continue;
			}
			let t0 = Instant::now();
			let results = par::map(tasks, threads, |_, t| {
				let mut a = Agg::default();
				exec_world(&ctx, t, &mut a);
				a
			});
			let mut a = Agg::default();
			for r in results {
				match r {
					Ok(x) => a.merge(x),
					Err(p) => cli::die(&format!("harness panic outside the guarded subject call: {}", p)),
				}
			}
			let secs = t0.elapsed().as_secs_f64();
			timings.push((fam.to_string(), secs, a.runs));
			let e = per_family.entry(fam.to_string()).or_insert(json!({"runs": 0u64, "wall_s": 0.0}));
			e["runs"] = json!(e["runs"].as_u64().unwrap() + a.runs);
			e["wall_s"] = json!(((e["wall_s"].as_f64().unwrap() + secs) * 1000.0).round() / 1000.0);
			if samples.len() < 12 {
				if let Some(t) = tasks.iter().rev().find(|t| t.pool.is_some()) {
					let (pool, from, _) = t.pool.as_ref().unwrap();
					let mut d: Vec<Value> = t.prefix.iter().map(|x| x.to_json()).collect();
					d.push(pool[*from].to_json());
					samples.push(json!({"family": fam, "scenario": ctx.scns[t.scn].name, "devs": d}));
				}
			}
			agg_total.merge(a);
		}

		// raw peer
		if want("raw") && phase == 0 {
			let t0 = Instant::now();
			let cases = raw_cases(tier);
			let chunks: Vec<&[RawCase]> = cases.chunks(128).collect();
			let results = par::map(&chunks, threads, |_, ch| {
				let mut a = Agg::default();
				for c in ch.iter() {
					exec_raw(&ctx, c, &mut a);
				}
				a
			});
			let mut a = Agg::default();
			for r in results {
				match r {
					Ok(x) => a.merge(x),
					Err(p) => cli::die(&format!("harness panic outside the guarded subject call: {}", p)),
				}
			}
			raw_runs = a.runs;
			timings.push(("raw".into(), t0.elapsed().as_secs_f64(), a.runs));
			per_family.insert("raw".into(), json!({"runs": a.runs, "wall_s": (t0.elapsed().as_secs_f64() * 1000.0).round() / 1000.0}));
			if let Some(c) = cases.iter().find(|c| c.family == "wellformed-before-init") {
				samples.push(raw_replay(c));
			}
			agg_total.merge(a);
		}

	}
	// 5. violations: keep the smallest witness per (oracle, family, scenario)
	let mut best: BTreeMap<(String, String, String), Viol> = BTreeMap::new();
	for v in agg_total.viol.drain(..) {
		let k = (v.oracle.clone(), v.family.clone(), v.scenario.clone());
		let better = match best.get(&k) {
			None => true,
			Some(o) => (v.weight, &v.what) < (o.weight, &o.what),
		};
		if better {
			best.insert(k, v);
		}
	}
	let n_viol_runs = best.len();
	for (_, v) in best {
		violations.push(Violation {
			property: ID.into(),
			oracle: v.oracle.clone(),
			identity: format!("{}|{}|{}|{}", v.oracle, v.family, v.scenario, v.what),
			detail: v.detail,
			replay: v.replay,
		});
	}

	// 6. vacuity guards (only meaningful when the whole suite ran and nothing fired)
	let capped = ctx.capped.load(Ordering::Relaxed);
	let a = &agg_total;
	let full = only.is_none();
	if full && violations.is_empty() && !capped {
		let need = |ok: bool, what: &str| {
			if !ok {
				cli::die(&format!("vacuity guard: {}", what));
			}
		};
		need(a.effective_cut > 1000, "fewer than 1000 runs in which a cut actually split a read");
		need(a.effective_short > 1000, "fewer than 1000 runs in which send_data actually accepted less than offered");
		need(a.zero_accept_runs > 100, "fewer than 100 runs in which send_data accepted 0 bytes");
		need(a.delay_runs > 100, "no runs with a delayed write_buffer_space_avail");
		need(a.skip_runs > 10, "no runs with a skipped process_events");
		need(a.deferred_read_runs > 500, "back-pressure deferred a read in fewer than 500 runs");
		need(a.pause_signal_runs > 50, "LDK never asked the driver to pause reading");
		need(a.rotation_runs > 100, "fewer than 100 runs crossed a key rotation");
		need(a.max_records >= 1000, "no run crossed the second key rotation (record 1000)");
		for st in ["flip:act1", "flip:act2", "flip:act3", "flip:init-len", "flip:init-len-mac", "flip:init-body", "flip:init-body-mac", "flip:len", "flip:len-mac", "flip:body", "flip:body-mac", "trunc:body", "trunc:len-mac", "trunc:act3", "splice:len", "splice:act3", "raw:wellformed-before-init:rejected", "raw:wellformed-after-init:not-rejected", "raw:garbage-act1-head:rejected", "raw:garbage-act2-head:rejected", "raw:garbage-act1-head:not-rejected", "raw:garbage-act2-head:not-rejected", "raw:ref-act3-bitflip:rejected", "raw:handshake-completed-with-reference", "raw:type-sweep-before-init:rejected", "raw:max-size-message:not-rejected"] {
			need(a.stage_rejects.get(st).copied().unwrap_or(0) > 0, &format!("no run of stage `{}` was observed", st));
		}
		need(a.outcomes.len() >= 8, "fewer than 8 distinct outcomes");
	}

	// 7. evidence
	let runs_total = a.runs + if want("cipher") { 1 } else { 0 };
	ev.set("states", a.digests.len().max(1) as u64);
	ev.set("transitions", a.api_calls.max(1));
	ev.set("traces_validated_against_impl", runs_total);
	ev.set("state_definition", "distinct digests of (scenario, bytes sent per direction, bytes read per direction, records completed, bytes held by the driver, handler-observation count, blocked/paused/closed/error flags) after every driver step");
	ev.set("transition_definition", "calls into PeerManager made by the driver (read_event, write_buffer_space_avail, process_events, socket_disconnected, new_*_connection)");
	ev.set("capped", capped);
	ev.set("cap_s", cap_s);
	ev.set("runs_skipped_by_cap", a.skipped_by_cap);
	ev.set("raw_peer_runs", raw_runs);
	ev.set("families", Value::Object(per_family.into_iter().collect()));
	ev.set("timings", timings.iter().map(|(f, s, r)| json!([f, (s * 1000.0).round() / 1000.0, r])).collect::<Vec<_>>());
	ev.set(
		"vacuity",
		json!({
			"runs_where_a_cut_split_a_read": a.effective_cut,
			"runs_where_send_data_accepted_less_than_offered": a.effective_short,
			"runs_where_send_data_accepted_zero_bytes": a.zero_accept_runs,
			"runs_with_delayed_write_buffer_space_avail": a.delay_runs,
			"runs_with_skipped_process_events": a.skip_runs,
			"runs_where_backpressure_deferred_a_read": a.deferred_read_runs,
			"runs_where_ldk_paused_reads": a.pause_signal_runs,
			"runs_crossing_a_key_rotation": a.rotation_runs,
			"max_records_one_direction": a.max_records,
			"handler_observations_total": a.delivered_msgs,
			"runs_with_read_event_err": a.read_err_runs,
			"accepted_per_stage": a.stage_rejects,
		}),
	);
	ev.set("distinct_outcomes", a.outcomes.len() as u64);
	ev.set("outcomes", a.outcomes.iter().take(60).map(|(k, v)| json!([k, v])).collect::<Vec<_>>());
	ev.set("violating_witnesses", n_viol_runs as u64);
	ev.set(
		"bounds",
		json!({
			"quick": "hs: all <=2 deviations (cuts, short writes incl. 0 bytes, skipped process_events, delayed writable); seq: all singles, pairs from the Init records on; chan/gossip msgs: singles; pause: singles + short x delay + short(A) x cut/short(B) stride 3; big: selected offsets; rotation: every cut/short in records 498..502 and 998..1002; flips: every bit of acts and small records, every 64th body bit of the 65535-byte record; trunc: every offset (small), selected (big); splices: replay/reflect/drop/reorder of whole units",
			"thorough": "adds every triple of cuts over handshake+Init, all pairs for seq, pairs from the first message record on for the channel-message sequence, all offsets of the max-size record, all of its body bits (A->B; every 8th B->A), 2505-message runs (5 rotations), all 65536 message types before/after Init",
		}),
	);
	for s in samples {
		ev.sample(s, 16);
	}
	ev.assume("secp256k1, SHA-256/HMAC and the chacha20-poly1305 crate behave to specification (they are shared by LDK and the reference)");
	ev.assume("the independent reference in bolt8.rs is correct; it reproduces the BOLT-8 appendix vectors (handshake transcript, keys, messages 0/1/500/501/1000/1001) at start-up");
	ev.assume("calls into one PeerManager are sequential (no lock-level concurrency); a driver honours continue_read=false by not calling read_event, as the SocketDescriptor contract asks");
	ev.assume("message handlers never fail: the harness handlers accept every message; handler-induced disconnects are out of scope");
	ev.assume("hash-table iteration inside LDK is made reproducible by hook H1; only one peer is connected per PeerManager");
	eprintln!("C15 {}: {} runs, {} api calls, {} states, {:.1}s, capped={}", tier.name(), runs_total, a.api_calls, a.digests.len(), start.elapsed().as_secs_f64(), capped);
	for (f, s, r) in &timings {
		eprintln!("  {:<16} {:>9} runs {:>8.2}s", f, r, s);
	}
	std::process::exit(findings::conclude(ID, &violations, &mut ev));
}
