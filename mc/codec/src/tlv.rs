//! Independent (harness-side) BOLT-1 BigSize / TLV-stream reader and writer. Written from the
//! specification, shares no code with `lightning::util::ser`.

/// Minimal BigSize encoding.
pub fn bigsize(x: u64) -> Vec<u8> {
	if x < 0xfd {
		vec![x as u8]
	} else if x <= 0xffff {
		let mut v = vec![0xfd];
		v.extend_from_slice(&(x as u16).to_be_bytes());
		v
	} else if x <= 0xffff_ffff {
		let mut v = vec![0xfe];
		v.extend_from_slice(&(x as u32).to_be_bytes());
		v
	} else {
		let mut v = vec![0xff];
		v.extend_from_slice(&x.to_be_bytes());
		v
	}
}

/// All encodings of `x` that are longer than the minimal one (all must be rejected by a reader).
pub fn bigsize_nonminimal(x: u64) -> Vec<Vec<u8>> {
	let min = bigsize(x).len();
	let mut out = Vec::new();
	if x <= 0xffff && min < 3 {
		let mut v = vec![0xfd];
		v.extend_from_slice(&(x as u16).to_be_bytes());
		out.push(v);
	}
	if x <= 0xffff_ffff && min < 5 {
		let mut v = vec![0xfe];
		v.extend_from_slice(&(x as u32).to_be_bytes());
		out.push(v);
	}
	if min < 9 {
		let mut v = vec![0xff];
		v.extend_from_slice(&x.to_be_bytes());
		out.push(v);
	}
	out
}

/// Reads a BigSize at `pos`; returns (value, encoded length, is_minimal).
pub fn read_bigsize(b: &[u8], pos: usize) -> Option<(u64, usize, bool)> {
	let first = *b.get(pos)?;
	match first {
		0xff => {
			let s = b.get(pos + 1..pos + 9)?;
			let x = u64::from_be_bytes(s.try_into().unwrap());
			Some((x, 9, x > 0xffff_ffff))
		},
		0xfe => {
			let s = b.get(pos + 1..pos + 5)?;
			let x = u32::from_be_bytes(s.try_into().unwrap()) as u64;
			Some((x, 5, x > 0xffff))
		},
		0xfd => {
			let s = b.get(pos + 1..pos + 3)?;
			let x = u16::from_be_bytes(s.try_into().unwrap()) as u64;
			Some((x, 3, x >= 0xfd))
		},
		n => Some((n as u64, 1, true)),
	}
}

#[derive(Clone, Debug)]
#[allow(dead_code)]
pub struct Rec {
	pub typ: u64,
	pub typ_off: usize,
	pub typ_len: usize,
	pub len: u64,
	pub len_off: usize,
	pub len_len: usize,
	pub val_off: usize,
}

/// Parses a well-formed TLV stream occupying exactly `b[start..]`: minimal BigSizes, strictly
/// increasing types, every value inside the buffer. `None` if it is not well formed.
pub fn parse_stream(b: &[u8], start: usize) -> Option<Vec<Rec>> {
	let mut pos = start;
	let mut out: Vec<Rec> = Vec::new();
	while pos < b.len() {
		let (typ, typ_len, m1) = read_bigsize(b, pos)?;
		let len_off = pos + typ_len;
		let (len, len_len, m2) = read_bigsize(b, len_off)?;
		if !m1 || !m2 {
			return None;
		}
		if let Some(last) = out.last() {
			if typ <= last.typ {
				return None;
			}
		}
		let val_off = len_off + len_len;
		let end = (val_off as u64).checked_add(len)?;
		if end > b.len() as u64 {
			return None;
		}
		out.push(Rec { typ, typ_off: pos, typ_len, len, len_off, len_len, val_off });
		pos = end as usize;
	}
	Some(out)
}

pub fn record(typ: u64, value: &[u8]) -> Vec<u8> {
	let mut v = bigsize(typ);
	v.extend_from_slice(&bigsize(value.len() as u64));
	v.extend_from_slice(value);
	v
}

/// `b` with the byte range `off..off+old_len` replaced by `new`.
pub fn splice(b: &[u8], off: usize, old_len: usize, new: &[u8]) -> Vec<u8> {
	let mut v = Vec::with_capacity(b.len() + new.len());
	v.extend_from_slice(&b[..off]);
	v.extend_from_slice(new);
	v.extend_from_slice(&b[off + old_len..]);
	v
}
