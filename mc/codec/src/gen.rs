//! Table-driven bounded value generator.
//!
//! A message type is described by a base value and a list of *dimensions*; each dimension is a
//! named field (or group of fields) with a tiny domain of setter closures. The generator
//! enumerates
//!   * the **full product** of all dimensions when its size is at most `cap` (reported as
//!     `full_product: true`), otherwise
//!   * a deterministic **cover**: the full product of the *structural* dimensions (optional TLVs
//!     present/absent, vector lengths, enum variants, feature vectors) crossed with the scalar
//!     "diagonals" (every scalar field at its k-th domain value, k = 0,1,2,..) plus
//!     one-factor-at-a-time variation of every scalar field around the first diagonal.
//! Nothing is sampled; the order is the mixed-radix order of the dimension list.
use std::collections::BTreeSet;
use std::sync::Arc;

pub type Setter<M> = Arc<dyn Fn(&mut M) + Send + Sync>;

pub struct Dim<M> {
	pub name: &'static str,
	/// Structural dimensions are always enumerated as a full product.
	pub structural: bool,
	/// Late dimensions are applied after all others (they look at the rest of the message, e.g.
	/// "fill this vector up to the 65535-byte message limit").
	pub late: bool,
	/// Solo dimensions hold the "largest that fits 65535 bytes" choices. Value 0 is "leave as is";
	/// every other value is combined only with the structural defaults (and the all-last structural
	/// corner) on every scalar diagonal instead of with the whole product, which bounds the number
	/// of 64 KiB messages per type.
	pub solo: bool,
	pub vals: Vec<Setter<M>>,
}

fn mk<M, T, F>(name: &'static str, structural: bool, late: bool, vals: Vec<T>, set: F) -> Dim<M>
where
	T: Clone + Send + Sync + 'static,
	F: Fn(&mut M, T) + Send + Sync + Copy + 'static,
{
	assert!(!vals.is_empty());
	Dim {
		name,
		structural,
		late,
		solo: false,
		vals: vals
			.into_iter()
			.map(|v| {
				let f: Setter<M> = Arc::new(move |m: &mut M| set(m, v.clone()));
				f
			})
			.collect(),
	}
}

/// Scalar dimension (integers, keys, hashes ...).
pub fn sc<M, T, F>(name: &'static str, vals: Vec<T>, set: F) -> Dim<M>
where
	T: Clone + Send + Sync + 'static,
	F: Fn(&mut M, T) + Send + Sync + Copy + 'static,
{
	mk(name, false, false, vals, set)
}

/// Structural dimension (Option / TLV presence, vector length, enum variant, feature vector).
pub fn st<M, T, F>(name: &'static str, vals: Vec<T>, set: F) -> Dim<M>
where
	T: Clone + Send + Sync + 'static,
	F: Fn(&mut M, T) + Send + Sync + Copy + 'static,
{
	mk(name, true, false, vals, set)
}

/// Structural dimension whose setters are given directly as closures over the whole message and
/// which is applied after every non-late dimension (used for "largest that fits" vectors).
pub fn late<M>(name: &'static str, vals: Vec<Setter<M>>) -> Dim<M> {
	assert!(!vals.is_empty());
	Dim { name, structural: true, late: true, solo: false, vals }
}

/// Solo (see [`Dim::solo`]) late dimension; a no-op "leave as is" choice is prepended.
pub fn solo<M: 'static>(name: &'static str, mut vals: Vec<Setter<M>>) -> Dim<M> {
	let noop: Setter<M> = Arc::new(|_m: &mut M| {});
	vals.insert(0, noop);
	Dim { name, structural: true, late: true, solo: true, vals }
}

pub struct Val<M> {
	pub value: M,
	/// Index of the chosen domain element per dimension.
	pub choice: Vec<u8>,
	/// Member of the representative subset (all scalar fields on one diagonal).
	pub repr: bool,
}

pub struct Generated<M> {
	pub values: Vec<Val<M>>,
	pub full_product: bool,
	pub product_size: u128,
	pub dims: Vec<(&'static str, usize, bool)>,
}

fn build<M: Clone>(base: &M, dims: &[Dim<M>], choice: &[u8]) -> M {
	let mut m = base.clone();
	for pass in [false, true] {
		for (d, c) in dims.iter().zip(choice.iter()) {
			if d.late == pass {
				(d.vals[*c as usize])(&mut m);
			}
		}
	}
	m
}

fn product_over(idx: &[usize], dims_len: &[usize], fixed: &[u8], out: &mut Vec<Vec<u8>>) {
	// Enumerates the product over the dimensions listed in `idx`, the others stay at `fixed`.
	let mut cur = fixed.to_vec();
	for i in idx {
		cur[*i] = 0;
	}
	loop {
		out.push(cur.clone());
		let mut k = idx.len();
		loop {
			if k == 0 {
				return;
			}
			k -= 1;
			let i = idx[k];
			if (cur[i] as usize) + 1 < dims_len[i] {
				cur[i] += 1;
				break;
			} else {
				cur[i] = 0;
			}
		}
	}
}

pub fn generate<M: Clone>(base: &M, dims: Vec<Dim<M>>, cap: usize) -> Generated<M> {
	let lens: Vec<usize> = dims.iter().map(|d| d.vals.len()).collect();
	assert!(lens.iter().all(|l| *l <= 255));
	let all: Vec<usize> = (0..dims.len()).filter(|i| !dims[*i].solo).collect();
	let solos: Vec<usize> = (0..dims.len()).filter(|i| dims[*i].solo).collect();
	let product_size: u128 = all.iter().map(|i| lens[*i] as u128).product();
	let structural: Vec<usize> = all.iter().cloned().filter(|i| dims[*i].structural).collect();
	let scalar: Vec<usize> = all.iter().cloned().filter(|i| !dims[*i].structural).collect();
	let max_scalar = scalar.iter().map(|i| lens[*i]).max().unwrap_or(1);
	let diag = |k: usize| -> Vec<u8> {
		let mut c = vec![0u8; dims.len()];
		for i in &scalar {
			c[*i] = k.min(lens[*i] - 1) as u8;
		}
		c
	};
	let is_diag = |c: &[u8]| -> bool {
		(0..max_scalar.max(1)).any(|k| scalar.iter().all(|i| c[*i] as usize == k.min(lens[*i] - 1)))
	};

	let mut choices: Vec<Vec<u8>> = Vec::new();
	let full_product = product_size <= cap as u128;
	if full_product {
		product_over(&all, &lens, &vec![0u8; dims.len()], &mut choices);
	} else {
		// structural product x scalar diagonals
		for k in 0..max_scalar {
			product_over(&structural, &lens, &diag(k), &mut choices);
		}
		// structural product x one-factor-at-a-time around diagonal 0 (and around the last diagonal)
		for around in [0usize, max_scalar - 1] {
			for i in &scalar {
				for v in 0..lens[*i] {
					let mut c = diag(around);
					if c[*i] as usize == v {
						continue;
					}
					c[*i] = v as u8;
					product_over(&structural, &lens, &c, &mut choices);
				}
			}
		}
	}
	// solo ("largest that fits") choices: structural defaults on every diagonal, plus the
	// all-last structural corner on diagonal 0
	for s in &solos {
		for v in 1..lens[*s] {
			for k in 0..max_scalar {
				let mut c = diag(k);
				c[*s] = v as u8;
				choices.push(c);
			}
			let mut c = diag(0);
			for i in &structural {
				c[*i] = (lens[*i] - 1) as u8;
			}
			c[*s] = v as u8;
			choices.push(c);
		}
	}
	let mut seen: BTreeSet<Vec<u8>> = BTreeSet::new();
	let mut values = Vec::new();
	for c in choices {
		if !seen.insert(c.clone()) {
			continue;
		}
		let repr = is_diag(&c);
		values.push(Val { value: build(base, &dims, &c), choice: c, repr });
	}
	Generated {
		values,
		full_product,
		product_size,
		dims: dims.iter().map(|d| (d.name, d.vals.len(), d.structural && !d.solo)).collect(),
	}
}
