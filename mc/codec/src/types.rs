//! The message-type table: base value, dimensions (field domains), TLV metadata and fixed-offset
//! out-of-range probes for every peer message type of `lightning::ln::msgs`.
use crate::check::{Msg, MAX_MSG};
use crate::domain::*;
use crate::gen::{generate, late, sc, solo, st, Dim, Setter};
use crate::runner::{Reject, Spec, TypeRunner};
use crate::tlv;
use bitcoin::absolute::LockTime;
use bitcoin::constants::ChainHash;
use bitcoin::hashes::Hash;
use bitcoin::secp256k1::ecdsa::Signature;
use bitcoin::secp256k1::PublicKey;
use bitcoin::transaction::Version;
use bitcoin::{Amount, OutPoint, ScriptBuf, Sequence, Transaction, TxIn, TxOut, Txid, Witness};
use lightning::blinded_path::message::BlindedMessagePath;
use lightning::blinded_path::BlindedHop;
use lightning::ln::msgs::*;
use lightning::ln::onion_utils::AttributionData;
use lightning::ln::types::ChannelId;
use lightning::onion_message::packet::Packet as OmPacket;
use lightning::routing::gossip::NodeAlias;
use lightning::util::ser::{Hostname, LengthReadable, Readable, Writeable};
use lightning_types::features::{ChannelFeatures, InitFeatures, NodeFeatures};
use lightning_types::payment::{PaymentHash, PaymentPreimage};
use std::sync::Arc;

/// `wire::read` only has arms for closing_complete / closing_sig under `--cfg simple_close`, which
/// the harness build (like the default LDK build) does not set. Their codecs and type ids exist
/// unconditionally and are checked at the codec level; through the dispatch they must come out as
/// unknown (even => disconnect).
const SIMPLE_CLOSE: bool = false;

fn cid0() -> ChannelId {
	ChannelId([0u8; 32])
}
fn txid0() -> Txid {
	Txid::from_byte_array([0u8; 32])
}

/// Sets a vector-like field to the largest length for which the whole message (with its 2-byte
/// type id) still fits BOLT-1's 65535 bytes.
fn fill<M: Msg>(m: &mut M, unit: usize, set_len: &dyn Fn(&mut M, usize)) {
	set_len(m, 0);
	let l0 = m.serialized_length() + 2;
	if l0 >= MAX_MSG {
		return;
	}
	let mut n = (MAX_MSG - l0) / unit;
	loop {
		set_len(m, n);
		let l = m.serialized_length() + 2;
		if l <= MAX_MSG || n == 0 {
			break;
		}
		let over = l - MAX_MSG;
		n -= ((over + unit - 1) / unit).min(n);
	}
}

/// Vector-length dimension over the given small lengths (applied late so that setters which
/// rebuild the message see the other fields).
fn vec_dim<M: Msg>(name: &'static str, lens: &[usize], set_len: fn(&mut M, usize)) -> Dim<M> {
	let mut vals: Vec<Setter<M>> = Vec::new();
	for n in lens.iter().cloned() {
		vals.push(Arc::new(move |m: &mut M| set_len(m, n)));
	}
	late(name, vals)
}
/// "Largest that fits" choice for a vector; `unit` is the encoded size of one element.
fn fill_dim<M: Msg>(name: &'static str, unit: usize, set_len: fn(&mut M, usize)) -> Dim<M> {
	solo(name, vec![Arc::new(move |m: &mut M| fill(m, unit, &|m, n| set_len(m, n)))])
}
const SMALL: [usize; 3] = [0, 1, 2];

fn pattern(n: usize) -> Vec<u8> {
	(0..n).map(|i| (i as u8).wrapping_mul(7).wrapping_add(1)).collect()
}

/// Like [`spec`], with a whitelist of offsets whose substitution may decode to the same message.
fn spec_absorbing<M: Msg>(
	name: &'static str, dispatched: bool, strip: Option<fn(&M) -> M>, known_tlv_types: &'static [u64], rejects: Vec<Reject>,
	base: M, dims: Vec<Dim<M>>, cap: usize, absorb_ok: fn(&M, &[u8], usize) -> bool,
) -> Box<dyn TypeRunner> {
	let type_id = base.type_id();
	Box::new(Spec { name, type_id, dispatched, strip, known_tlv_types, absorb_ok: Some(absorb_ok), rejects, gen: generate(&base, dims, cap) })
}

fn spec<M: Msg>(
	name: &'static str, dispatched: bool, strip: Option<fn(&M) -> M>, known_tlv_types: &'static [u64], rejects: Vec<Reject>,
	base: M, dims: Vec<Dim<M>>, cap: usize,
) -> Box<dyn TypeRunner> {
	let type_id = base.type_id();
	Box::new(Spec { name, type_id, dispatched, strip, known_tlv_types, absorb_ok: None, rejects, gen: generate(&base, dims, cap) })
}

fn rej(name: &'static str, off: usize, bytes: Vec<u8>) -> Reject {
	Reject { name, off, bytes }
}
/// Invalid compressed points at `off`: all zero, and x >= p.
fn bad_pk(off: usize) -> Vec<Reject> {
	let mut big = vec![0x02];
	big.extend_from_slice(&[0xff; 32]);
	vec![rej("pubkey all-zero", off, vec![0u8; 33]), rej("pubkey x >= field prime", off, big), rej("pubkey prefix 0x04", off, vec![0x04])]
}
/// Invalid compact signature at `off`: r >= group order.
fn bad_sig(off: usize) -> Vec<Reject> {
	vec![rej("signature r,s >= group order", off, vec![0xff; 64])]
}

fn attribution(fillb: u8) -> AttributionData {
	let bytes: Vec<u8> = (0..920).map(|i| fillb.wrapping_add((i % 251) as u8)).collect();
	<AttributionData as Readable>::read(&mut &bytes[..]).expect("AttributionData is 920 opaque bytes")
}
fn attributions() -> Vec<Option<AttributionData>> {
	let z = <AttributionData as Readable>::read(&mut &[0u8; 920][..]).unwrap();
	vec![None, Some(z), Some(attribution(3))]
}

fn blinded_path(hops: usize, payload: usize, compact_intro: Option<u8>) -> BlindedMessagePath {
	let hop = |i: usize| BlindedHop { blinded_node_id: pk(i % 2), encrypted_payload: pattern(payload) };
	let p = BlindedMessagePath::from_blinded_path(pk(0), pk(1), (0..hops).map(hop).collect());
	match compact_intro {
		None => p,
		Some(dir) => {
			// The short-channel-id introduction node can only be built by the library itself from a
			// network graph; obtain it by decoding the spec encoding.
			let enc = p.encode();
			let mut b = vec![dir];
			b.extend_from_slice(&0x0102_0304_0506_0708u64.to_be_bytes());
			b.extend_from_slice(&enc[33..]);
			<BlindedMessagePath as Readable>::read(&mut &b[..]).expect("compact blinded path")
		},
	}
}

fn txs() -> Vec<Option<Transaction>> {
	let legacy = Transaction {
		version: Version::TWO,
		lock_time: LockTime::ZERO,
		input: vec![TxIn { previous_output: OutPoint { txid: txid0(), vout: 1 }, script_sig: ScriptBuf::from(vec![0x51]), sequence: Sequence::MAX, witness: Witness::new() }],
		output: vec![TxOut { value: Amount::from_sat(1000), script_pubkey: scripts()[2].clone() }],
	};
	let mut segwit = legacy.clone();
	segwit.input[0].script_sig = ScriptBuf::new();
	segwit.input[0].witness = Witness::from_slice(&[vec![0x30; 71], vec![0x02; 33]]);
	segwit.output.push(TxOut { value: Amount::from_sat(u64::MAX), script_pubkey: ScriptBuf::new() });
	let empty = Transaction { version: Version(0), lock_time: LockTime::ZERO, input: vec![], output: vec![] };
	let mut big = legacy.clone();
	// largest transaction that still leaves room for the rest of tx_add_input
	big.output[0].script_pubkey = ScriptBuf::from(vec![0x6a; 65000]);
	vec![None, Some(legacy), Some(segwit), Some(empty), Some(big)]
}

fn onion_packets() -> Vec<OnionPacket> {
	let mut hd = [0u8; 1300];
	for (i, b) in hd.iter_mut().enumerate() {
		*b = (i % 253) as u8;
	}
	vec![
		OnionPacket { version: 0, public_key: Ok(pk(0)), hop_data: [0u8; 1300], hmac: [0u8; 32] },
		OnionPacket { version: 1, public_key: Ok(pk(1)), hop_data: hd, hmac: [0xff; 32] },
		// what the decoder produces for an unparsable ephemeral key
		OnionPacket { version: 255, public_key: PublicKey::from_slice(&[0u8; 33]), hop_data: [0xff; 1300], hmac: [1u8; 32] },
	]
}

fn hostname(n: usize) -> Hostname {
	let s: String = (0..n).map(|i| ['a', 'Z', '0', '-', '.', '_'][i % 6]).collect();
	Hostname::try_from(s).unwrap()
}
fn socket_addresses() -> Vec<SocketAddress> {
	vec![
		SocketAddress::TcpIpV4 { addr: [255, 254, 253, 252], port: 9735 },
		SocketAddress::TcpIpV6 { addr: [0xfe; 16], port: 0 },
		SocketAddress::OnionV2([0x11; 12]),
		SocketAddress::OnionV3 { ed25519_pubkey: [0x22; 32], checksum: 0xffff, version: 3, port: 65535 },
		SocketAddress::Hostname { hostname: hostname(0), port: 1 },
		SocketAddress::Hostname { hostname: hostname(1), port: 1 },
		SocketAddress::Hostname { hostname: hostname(255), port: 65535 },
	]
}

fn fail_htlc(cid: ChannelId, htlc_id: u64, reason: &[u8], attr: &Option<AttributionData>) -> UpdateFailHTLC {
	// `reason` is pub(crate): build the BOLT-2 encoding by hand and let the library construct it.
	let mut b = cid.0.to_vec();
	b.extend_from_slice(&htlc_id.to_be_bytes());
	b.extend_from_slice(&(reason.len() as u16).to_be_bytes());
	b.extend_from_slice(reason);
	if let Some(a) = attr {
		b.extend_from_slice(&tlv::record(1, &a.encode()));
	}
	<UpdateFailHTLC as LengthReadable>::read_from_fixed_length_buffer(&mut &b[..]).expect("hand-built update_fail_htlc")
}
fn malformed(cid: ChannelId, htlc_id: u64, sha: [u8; 32], code: u16) -> UpdateFailMalformedHTLC {
	let mut b = cid.0.to_vec();
	b.extend_from_slice(&htlc_id.to_be_bytes());
	b.extend_from_slice(&sha);
	b.extend_from_slice(&code.to_be_bytes());
	<UpdateFailMalformedHTLC as LengthReadable>::read_from_fixed_length_buffer(&mut &b[..]).expect("hand-built update_fail_malformed_htlc")
}

fn open_common() -> CommonOpenChannelFields {
	CommonOpenChannelFields {
		chain_hash: ChainHash::BITCOIN,
		temporary_channel_id: cid0(),
		funding_satoshis: 0,
		dust_limit_satoshis: 0,
		max_htlc_value_in_flight_msat: 0,
		htlc_minimum_msat: 0,
		commitment_feerate_sat_per_1000_weight: 0,
		to_self_delay: 0,
		max_accepted_htlcs: 0,
		funding_pubkey: pk(0),
		revocation_basepoint: pk(0),
		payment_basepoint: pk(0),
		delayed_payment_basepoint: pk(0),
		htlc_basepoint: pk(0),
		first_per_commitment_point: pk(0),
		channel_flags: 0,
		shutdown_scriptpubkey: None,
		channel_type: None,
	}
}
fn accept_common() -> CommonAcceptChannelFields {
	CommonAcceptChannelFields {
		temporary_channel_id: cid0(),
		dust_limit_satoshis: 0,
		max_htlc_value_in_flight_msat: 0,
		htlc_minimum_msat: 0,
		minimum_depth: 0,
		to_self_delay: 0,
		max_accepted_htlcs: 0,
		funding_pubkey: pk(0),
		revocation_basepoint: pk(0),
		payment_basepoint: pk(0),
		delayed_payment_basepoint: pk(0),
		htlc_basepoint: pk(0),
		first_per_commitment_point: pk(0),
		shutdown_scriptpubkey: None,
		channel_type: None,
	}
}

macro_rules! open_common_dims {
	($M:ty) => {
		vec![
			sc("chain_hash", chains(), |m: &mut $M, v| m.common_fields.chain_hash = v),
			sc("temporary_channel_id", cids(), |m: &mut $M, v| m.common_fields.temporary_channel_id = v),
			sc("funding_satoshis", u64s(), |m: &mut $M, v| m.common_fields.funding_satoshis = v),
			sc("dust_limit_satoshis", u64s(), |m: &mut $M, v| m.common_fields.dust_limit_satoshis = v),
			sc("max_htlc_value_in_flight_msat", u64s(), |m: &mut $M, v| m.common_fields.max_htlc_value_in_flight_msat = v),
			sc("htlc_minimum_msat", u64s(), |m: &mut $M, v| m.common_fields.htlc_minimum_msat = v),
			sc("commitment_feerate", u32s(), |m: &mut $M, v| m.common_fields.commitment_feerate_sat_per_1000_weight = v),
			sc("to_self_delay", u16s(), |m: &mut $M, v| m.common_fields.to_self_delay = v),
			sc("max_accepted_htlcs", u16s(), |m: &mut $M, v| m.common_fields.max_accepted_htlcs = v),
			sc("funding_pubkey", pks(), |m: &mut $M, v| m.common_fields.funding_pubkey = v),
			sc("revocation_basepoint", pks(), |m: &mut $M, v| m.common_fields.revocation_basepoint = v),
			sc("payment_basepoint", pks(), |m: &mut $M, v| m.common_fields.payment_basepoint = v),
			sc("delayed_payment_basepoint", pks(), |m: &mut $M, v| m.common_fields.delayed_payment_basepoint = v),
			sc("htlc_basepoint", pks(), |m: &mut $M, v| m.common_fields.htlc_basepoint = v),
			sc("first_per_commitment_point", pks(), |m: &mut $M, v| m.common_fields.first_per_commitment_point = v),
			sc("channel_flags", u8s(), |m: &mut $M, v| m.common_fields.channel_flags = v),
			st("shutdown_scriptpubkey", opt(scripts()), |m: &mut $M, v| m.common_fields.shutdown_scriptpubkey = v),
			st("channel_type", channel_types(), |m: &mut $M, v| m.common_fields.channel_type = v),
		]
	};
}
macro_rules! accept_common_dims {
	($M:ty) => {
		vec![
			sc("temporary_channel_id", cids(), |m: &mut $M, v| m.common_fields.temporary_channel_id = v),
			sc("dust_limit_satoshis", u64s(), |m: &mut $M, v| m.common_fields.dust_limit_satoshis = v),
			sc("max_htlc_value_in_flight_msat", u64s(), |m: &mut $M, v| m.common_fields.max_htlc_value_in_flight_msat = v),
			sc("htlc_minimum_msat", u64s(), |m: &mut $M, v| m.common_fields.htlc_minimum_msat = v),
			sc("minimum_depth", u32s(), |m: &mut $M, v| m.common_fields.minimum_depth = v),
			sc("to_self_delay", u16s(), |m: &mut $M, v| m.common_fields.to_self_delay = v),
			sc("max_accepted_htlcs", u16s(), |m: &mut $M, v| m.common_fields.max_accepted_htlcs = v),
			sc("funding_pubkey", pks(), |m: &mut $M, v| m.common_fields.funding_pubkey = v),
			sc("revocation_basepoint", pks(), |m: &mut $M, v| m.common_fields.revocation_basepoint = v),
			sc("payment_basepoint", pks(), |m: &mut $M, v| m.common_fields.payment_basepoint = v),
			sc("delayed_payment_basepoint", pks(), |m: &mut $M, v| m.common_fields.delayed_payment_basepoint = v),
			sc("htlc_basepoint", pks(), |m: &mut $M, v| m.common_fields.htlc_basepoint = v),
			sc("first_per_commitment_point", pks(), |m: &mut $M, v| m.common_fields.first_per_commitment_point = v),
			st("shutdown_scriptpubkey", opt(scripts()), |m: &mut $M, v| m.common_fields.shutdown_scriptpubkey = v),
			st("channel_type", channel_types(), |m: &mut $M, v| m.common_fields.channel_type = v),
		]
	};
}

fn many(offs: &[usize], f: fn(usize) -> Vec<Reject>) -> Vec<Reject> {
	offs.iter().flat_map(|o| f(*o)).collect()
}

/// Builds the whole table. `cap` bounds the number of generated values per type before the
/// generator falls back from the full product to the structural-product cover.
pub fn all_types(cap: usize) -> Vec<Box<dyn TypeRunner>> {
	let mut t: Vec<Box<dyn TypeRunner>> = Vec::new();

	// ---- BOLT 1 ----
	t.push(spec_absorbing(
		"Init",
		true,
		Some(|m: &Init| Init { features: m.features.clone(), networks: None, remote_network_address: None }),
		&[1, 3],
		vec![],
		Init { features: InitFeatures::empty(), networks: None, remote_network_address: None },
		vec![
			st("features", init_features(), |m: &mut Init, v| m.features = v),
			st(
				"networks",
				vec![None, Some(vec![]), Some(vec![ChainHash::BITCOIN]), Some(vec![ChainHash::from([0u8; 32]), ChainHash::from([0xff; 32])]), Some(vec![ChainHash::BITCOIN; 300])],
				|m: &mut Init, v| m.networks = v,
			),
			st("remote_network_address", opt(socket_addresses()), |m: &mut Init, v| m.remote_network_address = v),
			solo("features_fill", vec![Arc::new(|m: &mut Init| {
					fill(m, 1, &|m, n| {
						let mut f = vec![0u8; n];
						if n > 0 {
							f[n - 1] = 0x80;
							f[0] = 0x02;
						}
						m.features = InitFeatures::from_le_bytes(f)
					})
				}),
			]),
		],
		cap,
		|_m: &Init, e: &[u8], off: usize| {
			// global features (offset 2..) and local features are OR-ed: a bit present in one copy
			// may be dropped from the other
			let gflen = u16::from_be_bytes([e[0], e[1]]) as usize;
			let lflen = u16::from_be_bytes([e[2 + gflen], e[3 + gflen]]) as usize;
			(off >= 2 && off < 2 + gflen) || (off >= 4 + gflen && off < 4 + gflen + lflen)
		},
	));
	t.push(spec(
		"ErrorMessage",
		true,
		None,
		&[],
		vec![rej("data not UTF-8", 34, vec![0xff])],
		ErrorMessage { channel_id: cid0(), data: String::new() },
		vec![
			sc("channel_id", cids(), |m: &mut ErrorMessage, v| m.channel_id = v),
			st("data", vec!["".to_string(), "a".to_string(), "\u{e9}\u{20ac}".to_string(), "internal error: \u{1F4A5}".to_string()], |m: &mut ErrorMessage, v| m.data = v),
			solo("data_fill", vec![Arc::new(|m: &mut ErrorMessage| fill(m, 1, &|m, n| m.data = "x".repeat(n)))]),
		],
		cap,
	));
	t.push(spec(
		"WarningMessage",
		true,
		None,
		&[],
		vec![rej("data not UTF-8", 34, vec![0xff])],
		WarningMessage { channel_id: cid0(), data: String::new() },
		vec![
			sc("channel_id", cids(), |m: &mut WarningMessage, v| m.channel_id = v),
			st("data", vec!["".to_string(), "a".to_string(), "\u{e9}\u{20ac}".to_string(), "warning \u{1F4A5}".to_string()], |m: &mut WarningMessage, v| m.data = v),
			solo("data_fill", vec![Arc::new(|m: &mut WarningMessage| fill(m, 1, &|m, n| m.data = "x".repeat(n)))]),
		],
		cap,
	));
	t.push(spec_absorbing(
		"Ping",
		true,
		None,
		&[],
		vec![],
		Ping { ponglen: 0, byteslen: 0 },
		vec![
			sc("ponglen", u16s(), |m: &mut Ping, v| m.ponglen = v),
			vec_dim("byteslen", &[0, 1, 2, 64, 253, 1300], |m: &mut Ping, n| m.byteslen = n as u16),
			fill_dim("byteslen_fill", 1, |m: &mut Ping, n| m.byteslen = n as u16),
		],
		cap,
		|_m: &Ping, _e: &[u8], off: usize| off >= 4,
	));
	t.push(spec_absorbing(
		"Pong",
		true,
		None,
		&[],
		vec![],
		Pong { byteslen: 0 },
		vec![
			vec_dim("byteslen", &[0, 1, 2, 64, 253, 1300], |m: &mut Pong, n| m.byteslen = n as u16),
			fill_dim("byteslen_fill", 1, |m: &mut Pong, n| m.byteslen = n as u16),
		],
		cap,
		|_m: &Pong, _e: &[u8], off: usize| off >= 2,
	));
	t.push(spec(
		"PeerStorage",
		true,
		Some(|m: &PeerStorage| m.clone()),
		&[],
		vec![],
		PeerStorage { data: vec![] },
		vec![vec_dim("data", &SMALL, |m: &mut PeerStorage, n| m.data = pattern(n)), fill_dim("data_fill", 1, |m: &mut PeerStorage, n| m.data = pattern(n))],
		cap,
	));
	t.push(spec(
		"PeerStorageRetrieval",
		true,
		Some(|m: &PeerStorageRetrieval| m.clone()),
		&[],
		vec![],
		PeerStorageRetrieval { data: vec![] },
		vec![vec_dim("data", &SMALL, |m: &mut PeerStorageRetrieval, n| m.data = pattern(n)), fill_dim("data_fill", 1, |m: &mut PeerStorageRetrieval, n| m.data = pattern(n))],
		cap,
	));

	// ---- BOLT 2: channel establishment ----
	{
		let mut dims = open_common_dims!(OpenChannel);
		dims.push(sc("push_msat", u64s(), |m: &mut OpenChannel, v| m.push_msat = v));
		dims.push(sc("channel_reserve_satoshis", u64s(), |m: &mut OpenChannel, v| m.channel_reserve_satoshis = v));
		t.push(spec(
			"OpenChannel",
			true,
			Some(|m: &OpenChannel| {
				let mut s = m.clone();
				s.common_fields.shutdown_scriptpubkey = None;
				s.common_fields.channel_type = None;
				s
			}),
			&[0, 1],
			many(&[120, 153, 186, 219, 252, 285], bad_pk),
			OpenChannel { common_fields: open_common(), push_msat: 0, channel_reserve_satoshis: 0 },
			dims,
			cap,
		));
	}
	{
		let mut dims = open_common_dims!(OpenChannelV2);
		dims.push(sc("funding_feerate", u32s(), |m: &mut OpenChannelV2, v| m.funding_feerate_sat_per_1000_weight = v));
		dims.push(sc("locktime", u32s(), |m: &mut OpenChannelV2, v| m.locktime = v));
		dims.push(sc("second_per_commitment_point", pks(), |m: &mut OpenChannelV2, v| m.second_per_commitment_point = v));
		dims.push(st("require_confirmed_inputs", unit_opts(), |m: &mut OpenChannelV2, v| m.require_confirmed_inputs = v));
		dims.push(st("disable_channel_reserve", unit_opts(), |m: &mut OpenChannelV2, v| m.disable_channel_reserve = v));
		t.push(spec(
			"OpenChannelV2",
			true,
			Some(|m: &OpenChannelV2| {
				let mut s = m.clone();
				s.common_fields.shutdown_scriptpubkey = None;
				s.common_fields.channel_type = None;
				s.require_confirmed_inputs = None;
				s.disable_channel_reserve = None;
				s
			}),
			&[0, 1, 2, 103],
			many(&[112, 145, 178, 211, 244, 277, 310], bad_pk),
			OpenChannelV2 {
				common_fields: open_common(),
				funding_feerate_sat_per_1000_weight: 0,
				locktime: 0,
				second_per_commitment_point: pk(0),
				require_confirmed_inputs: None,
				disable_channel_reserve: None,
			},
			dims,
			cap,
		));
	}
	{
		let mut dims = accept_common_dims!(AcceptChannel);
		dims.push(sc("channel_reserve_satoshis", u64s(), |m: &mut AcceptChannel, v| m.channel_reserve_satoshis = v));
		t.push(spec(
			"AcceptChannel",
			true,
			Some(|m: &AcceptChannel| {
				let mut s = m.clone();
				s.common_fields.shutdown_scriptpubkey = None;
				s.common_fields.channel_type = None;
				s
			}),
			&[0, 1],
			many(&[72, 105, 138, 171, 204, 237], bad_pk),
			AcceptChannel { common_fields: accept_common(), channel_reserve_satoshis: 0 },
			dims,
			cap,
		));
	}
	{
		let mut dims = accept_common_dims!(AcceptChannelV2);
		dims.push(sc("funding_satoshis", u64s(), |m: &mut AcceptChannelV2, v| m.funding_satoshis = v));
		dims.push(sc("second_per_commitment_point", pks(), |m: &mut AcceptChannelV2, v| m.second_per_commitment_point = v));
		dims.push(st("require_confirmed_inputs", unit_opts(), |m: &mut AcceptChannelV2, v| m.require_confirmed_inputs = v));
		dims.push(st("disable_channel_reserve", unit_opts(), |m: &mut AcceptChannelV2, v| m.disable_channel_reserve = v));
		t.push(spec(
			"AcceptChannelV2",
			true,
			Some(|m: &AcceptChannelV2| {
				let mut s = m.clone();
				s.common_fields.shutdown_scriptpubkey = None;
				s.common_fields.channel_type = None;
				s.require_confirmed_inputs = None;
				s.disable_channel_reserve = None;
				s
			}),
			&[0, 1, 2, 103],
			many(&[72, 105, 138, 171, 204, 237, 270], bad_pk),
			AcceptChannelV2 {
				common_fields: accept_common(),
				funding_satoshis: 0,
				second_per_commitment_point: pk(0),
				require_confirmed_inputs: None,
				disable_channel_reserve: None,
			},
			dims,
			cap,
		));
	}
	t.push(spec(
		"FundingCreated",
		true,
		Some(|m: &FundingCreated| m.clone()),
		&[],
		bad_sig(66),
		FundingCreated { temporary_channel_id: cid0(), funding_txid: txid0(), funding_output_index: 0, signature: sig(0) },
		vec![
			sc("temporary_channel_id", cids(), |m: &mut FundingCreated, v| m.temporary_channel_id = v),
			sc("funding_txid", txids(), |m: &mut FundingCreated, v| m.funding_txid = v),
			sc("funding_output_index", u16s(), |m: &mut FundingCreated, v| m.funding_output_index = v),
			sc("signature", sigs(), |m: &mut FundingCreated, v| m.signature = v),
		],
		cap,
	));
	t.push(spec(
		"FundingSigned",
		true,
		Some(|m: &FundingSigned| m.clone()),
		&[],
		bad_sig(32),
		FundingSigned { channel_id: cid0(), signature: sig(0) },
		vec![
			sc("channel_id", cids(), |m: &mut FundingSigned, v| m.channel_id = v),
			sc("signature", sigs(), |m: &mut FundingSigned, v| m.signature = v),
		],
		cap,
	));
	t.push(spec(
		"ChannelReady",
		true,
		Some(|m: &ChannelReady| ChannelReady { short_channel_id_alias: None, ..m.clone() }),
		&[1],
		bad_pk(32),
		ChannelReady { channel_id: cid0(), next_per_commitment_point: pk(0), short_channel_id_alias: None },
		vec![
			sc("channel_id", cids(), |m: &mut ChannelReady, v| m.channel_id = v),
			sc("next_per_commitment_point", pks(), |m: &mut ChannelReady, v| m.next_per_commitment_point = v),
			st("short_channel_id_alias", opt(u64s()), |m: &mut ChannelReady, v| m.short_channel_id_alias = v),
		],
		cap,
	));

	// ---- quiescence / splicing / interactive tx ----
	t.push(spec(
		"Stfu",
		true,
		Some(|m: &Stfu| m.clone()),
		&[],
		vec![rej("bool 2", 32, vec![2]), rej("bool 0xff", 32, vec![0xff])],
		Stfu { channel_id: cid0(), initiator: false },
		vec![sc("channel_id", cids(), |m: &mut Stfu, v| m.channel_id = v), sc("initiator", bools(), |m: &mut Stfu, v| m.initiator = v)],
		cap,
	));
	t.push(spec(
		"SpliceInit",
		true,
		Some(|m: &SpliceInit| SpliceInit { require_confirmed_inputs: None, ..m.clone() }),
		&[2],
		bad_pk(48),
		SpliceInit { channel_id: cid0(), funding_contribution_satoshis: 0, funding_feerate_per_kw: 0, locktime: 0, funding_pubkey: pk(0), require_confirmed_inputs: None },
		vec![
			sc("channel_id", cids(), |m: &mut SpliceInit, v| m.channel_id = v),
			sc("funding_contribution_satoshis", i64s(), |m: &mut SpliceInit, v| m.funding_contribution_satoshis = v),
			sc("funding_feerate_per_kw", u32s(), |m: &mut SpliceInit, v| m.funding_feerate_per_kw = v),
			sc("locktime", u32s(), |m: &mut SpliceInit, v| m.locktime = v),
			sc("funding_pubkey", pks(), |m: &mut SpliceInit, v| m.funding_pubkey = v),
			st("require_confirmed_inputs", unit_opts(), |m: &mut SpliceInit, v| m.require_confirmed_inputs = v),
		],
		cap,
	));
	t.push(spec(
		"SpliceAck",
		true,
		Some(|m: &SpliceAck| SpliceAck { require_confirmed_inputs: None, ..m.clone() }),
		&[2],
		bad_pk(40),
		SpliceAck { channel_id: cid0(), funding_contribution_satoshis: 0, funding_pubkey: pk(0), require_confirmed_inputs: None },
		vec![
			sc("channel_id", cids(), |m: &mut SpliceAck, v| m.channel_id = v),
			sc("funding_contribution_satoshis", i64s(), |m: &mut SpliceAck, v| m.funding_contribution_satoshis = v),
			sc("funding_pubkey", pks(), |m: &mut SpliceAck, v| m.funding_pubkey = v),
			st("require_confirmed_inputs", unit_opts(), |m: &mut SpliceAck, v| m.require_confirmed_inputs = v),
		],
		cap,
	));
	t.push(spec(
		"SpliceLocked",
		true,
		Some(|m: &SpliceLocked| m.clone()),
		&[],
		vec![],
		SpliceLocked { channel_id: cid0(), splice_txid: txid0() },
		vec![sc("channel_id", cids(), |m: &mut SpliceLocked, v| m.channel_id = v), sc("splice_txid", txids(), |m: &mut SpliceLocked, v| m.splice_txid = v)],
		cap,
	));
	t.push(spec(
		"TxAddInput",
		true,
		Some(|m: &TxAddInput| TxAddInput { shared_input_txid: None, ..m.clone() }),
		&[0],
		vec![],
		TxAddInput { channel_id: cid0(), serial_id: 0, prevtx: None, prevtx_out: 0, sequence: 0, shared_input_txid: None },
		vec![
			sc("channel_id", cids(), |m: &mut TxAddInput, v| m.channel_id = v),
			sc("serial_id", u64s(), |m: &mut TxAddInput, v| m.serial_id = v),
			st("prevtx", txs(), |m: &mut TxAddInput, v| m.prevtx = v),
			sc("prevtx_out", u32s(), |m: &mut TxAddInput, v| m.prevtx_out = v),
			sc("sequence", u32s(), |m: &mut TxAddInput, v| m.sequence = v),
			st("shared_input_txid", opt(txids()), |m: &mut TxAddInput, v| m.shared_input_txid = v),
		],
		cap,
	));
	t.push(spec(
		"TxAddOutput",
		true,
		Some(|m: &TxAddOutput| m.clone()),
		&[],
		vec![],
		TxAddOutput { channel_id: cid0(), serial_id: 0, sats: 0, script: ScriptBuf::new() },
		vec![
			sc("channel_id", cids(), |m: &mut TxAddOutput, v| m.channel_id = v),
			sc("serial_id", u64s(), |m: &mut TxAddOutput, v| m.serial_id = v),
			sc("sats", u64s(), |m: &mut TxAddOutput, v| m.sats = v),
			st("script", scripts(), |m: &mut TxAddOutput, v| m.script = v),
			solo("script_fill", vec![Arc::new(|m: &mut TxAddOutput| fill(m, 1, &|m, n| m.script = ScriptBuf::from(vec![0x6a; n])))]),
		],
		cap,
	));
	t.push(spec(
		"TxRemoveInput",
		true,
		Some(|m: &TxRemoveInput| m.clone()),
		&[],
		vec![],
		TxRemoveInput { channel_id: cid0(), serial_id: 0 },
		vec![sc("channel_id", cids(), |m: &mut TxRemoveInput, v| m.channel_id = v), sc("serial_id", u64s(), |m: &mut TxRemoveInput, v| m.serial_id = v)],
		cap,
	));
	t.push(spec(
		"TxRemoveOutput",
		true,
		Some(|m: &TxRemoveOutput| m.clone()),
		&[],
		vec![],
		TxRemoveOutput { channel_id: cid0(), serial_id: 0 },
		vec![sc("channel_id", cids(), |m: &mut TxRemoveOutput, v| m.channel_id = v), sc("serial_id", u64s(), |m: &mut TxRemoveOutput, v| m.serial_id = v)],
		cap,
	));
	t.push(spec(
		"TxComplete",
		true,
		Some(|m: &TxComplete| m.clone()),
		&[],
		vec![],
		TxComplete { channel_id: cid0() },
		vec![sc("channel_id", cids(), |m: &mut TxComplete, v| m.channel_id = v)],
		cap,
	));
	t.push(spec(
		"TxSignatures",
		true,
		Some(|m: &TxSignatures| TxSignatures { shared_input_signature: None, ..m.clone() }),
		&[0],
		vec![],
		TxSignatures { channel_id: cid0(), tx_hash: txid0(), witnesses: vec![], shared_input_signature: None },
		vec![
			sc("channel_id", cids(), |m: &mut TxSignatures, v| m.channel_id = v),
			sc("tx_hash", txids(), |m: &mut TxSignatures, v| m.tx_hash = v),
			st(
				"witnesses",
				vec![
					vec![],
					vec![Witness::new()],
					vec![Witness::from_slice(&[vec![0x30u8; 72], vec![0x03; 33]])],
					vec![Witness::from_slice(&[Vec::<u8>::new()]), Witness::from_slice(&[vec![1u8; 253], vec![], vec![2u8]])],
				],
				|m: &mut TxSignatures, v| m.witnesses = v,
			),
			solo("witnesses_fill", vec![// many one-element witnesses: count(1) + element length(1) + 1 byte, plus the 2-byte size prefix
				Arc::new(|m: &mut TxSignatures| fill(m, 5, &|m, n| m.witnesses = vec![Witness::from_slice(&[vec![7u8]]); n])),
				// one witness with one huge element
				Arc::new(|m: &mut TxSignatures| fill(m, 1, &|m, n| m.witnesses = vec![Witness::from_slice(&[vec![9u8; n.saturating_sub(8)]])])),
			]),
			st("shared_input_signature", opt(sigs()), |m: &mut TxSignatures, v| m.shared_input_signature = v),
		],
		cap,
	));
	t.push(spec(
		"TxInitRbf",
		true,
		Some(|m: &TxInitRbf| TxInitRbf { funding_output_contribution: None, ..m.clone() }),
		&[0],
		vec![],
		TxInitRbf { channel_id: cid0(), locktime: 0, feerate_sat_per_1000_weight: 0, funding_output_contribution: None },
		vec![
			sc("channel_id", cids(), |m: &mut TxInitRbf, v| m.channel_id = v),
			sc("locktime", u32s(), |m: &mut TxInitRbf, v| m.locktime = v),
			sc("feerate", u32s(), |m: &mut TxInitRbf, v| m.feerate_sat_per_1000_weight = v),
			st("funding_output_contribution", opt(i64s()), |m: &mut TxInitRbf, v| m.funding_output_contribution = v),
		],
		cap,
	));
	t.push(spec(
		"TxAckRbf",
		true,
		Some(|m: &TxAckRbf| TxAckRbf { funding_output_contribution: None, ..m.clone() }),
		&[0],
		vec![],
		TxAckRbf { channel_id: cid0(), funding_output_contribution: None },
		vec![
			sc("channel_id", cids(), |m: &mut TxAckRbf, v| m.channel_id = v),
			st("funding_output_contribution", opt(i64s()), |m: &mut TxAckRbf, v| m.funding_output_contribution = v),
		],
		cap,
	));
	t.push(spec(
		"TxAbort",
		true,
		Some(|m: &TxAbort| m.clone()),
		&[],
		vec![],
		TxAbort { channel_id: cid0(), data: vec![] },
		vec![sc("channel_id", cids(), |m: &mut TxAbort, v| m.channel_id = v), vec_dim("data", &SMALL, |m: &mut TxAbort, n| m.data = pattern(n)), fill_dim("data_fill", 1, |m: &mut TxAbort, n| m.data = pattern(n))],
		cap,
	));

	// ---- BOLT 2: closing ----
	t.push(spec(
		"Shutdown",
		true,
		Some(|m: &Shutdown| m.clone()),
		&[],
		vec![],
		Shutdown { channel_id: cid0(), scriptpubkey: ScriptBuf::new() },
		vec![
			sc("channel_id", cids(), |m: &mut Shutdown, v| m.channel_id = v),
			st("scriptpubkey", scripts(), |m: &mut Shutdown, v| m.scriptpubkey = v),
			solo("scriptpubkey_fill", vec![Arc::new(|m: &mut Shutdown| fill(m, 1, &|m, n| m.scriptpubkey = ScriptBuf::from(vec![0x6a; n])))]),
		],
		cap,
	));
	t.push(spec(
		"ClosingSigned",
		true,
		Some(|m: &ClosingSigned| ClosingSigned { fee_range: None, ..m.clone() }),
		&[1],
		bad_sig(40),
		ClosingSigned { channel_id: cid0(), fee_satoshis: 0, signature: sig(0), fee_range: None },
		vec![
			sc("channel_id", cids(), |m: &mut ClosingSigned, v| m.channel_id = v),
			sc("fee_satoshis", u64s(), |m: &mut ClosingSigned, v| m.fee_satoshis = v),
			sc("signature", sigs(), |m: &mut ClosingSigned, v| m.signature = v),
			st(
				"fee_range",
				vec![
					None,
					Some(ClosingSignedFeeRange { min_fee_satoshis: 0, max_fee_satoshis: 0 }),
					Some(ClosingSignedFeeRange { min_fee_satoshis: 1, max_fee_satoshis: u64::MAX }),
					Some(ClosingSignedFeeRange { min_fee_satoshis: u64::MAX, max_fee_satoshis: 0 }),
				],
				|m: &mut ClosingSigned, v| m.fee_range = v,
			),
		],
		cap,
	));
	macro_rules! closing_dims {
		($M:ty) => {
			vec![
				sc("channel_id", cids(), |m: &mut $M, v| m.channel_id = v),
				st("closer_scriptpubkey", scripts(), |m: &mut $M, v| m.closer_scriptpubkey = v),
				st("closee_scriptpubkey", scripts(), |m: &mut $M, v| m.closee_scriptpubkey = v),
				sc("fee_satoshis", u64s(), |m: &mut $M, v| m.fee_satoshis = v),
				sc("locktime", u32s(), |m: &mut $M, v| m.locktime = v),
				st("closer_output_only", opt(sigs()), |m: &mut $M, v| m.closer_output_only = v),
				st("closee_output_only", opt(sigs()), |m: &mut $M, v| m.closee_output_only = v),
				st("closer_and_closee_outputs", opt(sigs()), |m: &mut $M, v| m.closer_and_closee_outputs = v),
				solo("closee_scriptpubkey_fill", vec![Arc::new(|m: &mut $M| fill(m, 1, &|m, n| m.closee_scriptpubkey = ScriptBuf::from(vec![0x6a; n])))]),
			]
		};
	}
	t.push(spec(
		"ClosingComplete",
		SIMPLE_CLOSE,
		Some(|m: &ClosingComplete| ClosingComplete { closer_output_only: None, closee_output_only: None, closer_and_closee_outputs: None, ..m.clone() }),
		&[1, 2, 3],
		vec![],
		ClosingComplete {
			channel_id: cid0(),
			closer_scriptpubkey: ScriptBuf::new(),
			closee_scriptpubkey: ScriptBuf::new(),
			fee_satoshis: 0,
			locktime: 0,
			closer_output_only: None,
			closee_output_only: None,
			closer_and_closee_outputs: None,
		},
		closing_dims!(ClosingComplete),
		cap,
	));
	t.push(spec(
		"ClosingSig",
		SIMPLE_CLOSE,
		Some(|m: &ClosingSig| ClosingSig { closer_output_only: None, closee_output_only: None, closer_and_closee_outputs: None, ..m.clone() }),
		&[1, 2, 3],
		vec![],
		ClosingSig {
			channel_id: cid0(),
			closer_scriptpubkey: ScriptBuf::new(),
			closee_scriptpubkey: ScriptBuf::new(),
			fee_satoshis: 0,
			locktime: 0,
			closer_output_only: None,
			closee_output_only: None,
			closer_and_closee_outputs: None,
		},
		closing_dims!(ClosingSig),
		cap,
	));

	// ---- BOLT 2: normal operation ----
	t.push(spec(
		"StartBatch",
		true,
		Some(|m: &StartBatch| StartBatch { message_type: None, ..m.clone() }),
		&[1],
		vec![],
		StartBatch { channel_id: cid0(), batch_size: 0, message_type: None },
		vec![
			sc("channel_id", cids(), |m: &mut StartBatch, v| m.channel_id = v),
			sc("batch_size", u16s(), |m: &mut StartBatch, v| m.batch_size = v),
			st("message_type", vec![None, Some(0u16), Some(132), Some(u16::MAX)], |m: &mut StartBatch, v| m.message_type = v),
		],
		cap,
	));
	t.push(spec_absorbing(
		"UpdateAddHTLC",
		true,
		Some(|m: &UpdateAddHTLC| UpdateAddHTLC { blinding_point: None, skimmed_fee_msat: None, hold_htlc: None, accountable: None, ..m.clone() }),
		&[0, 65537, 75537, 106823],
		vec![],
		UpdateAddHTLC {
			channel_id: cid0(),
			htlc_id: 0,
			amount_msat: 0,
			payment_hash: PaymentHash([0; 32]),
			cltv_expiry: 0,
			skimmed_fee_msat: None,
			onion_routing_packet: onion_packets()[0].clone(),
			blinding_point: None,
			hold_htlc: None,
			accountable: None,
		},
		vec![
			sc("channel_id", cids(), |m: &mut UpdateAddHTLC, v| m.channel_id = v),
			sc("htlc_id", u64s(), |m: &mut UpdateAddHTLC, v| m.htlc_id = v),
			sc("amount_msat", u64s(), |m: &mut UpdateAddHTLC, v| m.amount_msat = v),
			sc("payment_hash", b32s(), |m: &mut UpdateAddHTLC, v| m.payment_hash = PaymentHash(v)),
			sc("cltv_expiry", u32s(), |m: &mut UpdateAddHTLC, v| m.cltv_expiry = v),
			st("onion_routing_packet", onion_packets(), |m: &mut UpdateAddHTLC, v| m.onion_routing_packet = v),
			st("blinding_point", opt(pks()), |m: &mut UpdateAddHTLC, v| m.blinding_point = v),
			st("skimmed_fee_msat", opt(u64s()), |m: &mut UpdateAddHTLC, v| m.skimmed_fee_msat = v),
			st("hold_htlc", unit_opts(), |m: &mut UpdateAddHTLC, v| m.hold_htlc = v),
			st("accountable", opt(bools()), |m: &mut UpdateAddHTLC, v| m.accountable = v),
		],
		cap,
		|m: &UpdateAddHTLC, e: &[u8], off: usize| {
			(m.onion_routing_packet.public_key.is_err() && (85..118).contains(&off)) || (m.accountable == Some(false) && off + 1 == e.len())
		},
	));
	t.push(spec(
		"UpdateFulfillHTLC",
		true,
		Some(|m: &UpdateFulfillHTLC| UpdateFulfillHTLC { attribution_data: None, ..m.clone() }),
		&[1],
		vec![],
		UpdateFulfillHTLC { channel_id: cid0(), htlc_id: 0, payment_preimage: PaymentPreimage([0; 32]), attribution_data: None },
		vec![
			sc("channel_id", cids(), |m: &mut UpdateFulfillHTLC, v| m.channel_id = v),
			sc("htlc_id", u64s(), |m: &mut UpdateFulfillHTLC, v| m.htlc_id = v),
			sc("payment_preimage", b32s(), |m: &mut UpdateFulfillHTLC, v| m.payment_preimage = PaymentPreimage(v)),
			st("attribution_data", attributions(), |m: &mut UpdateFulfillHTLC, v| m.attribution_data = v),
		],
		cap,
	));
	t.push(spec(
		"UpdateFailHTLC",
		true,
		Some(|m: &UpdateFailHTLC| {
			let mut s = m.clone();
			s.attribution_data = None;
			s
		}),
		&[1],
		vec![],
		fail_htlc(cid0(), 0, &[], &None),
		vec![
			sc("channel_id", cids(), |m: &mut UpdateFailHTLC, v| m.channel_id = v),
			sc("htlc_id", u64s(), |m: &mut UpdateFailHTLC, v| m.htlc_id = v),
			st("attribution_data", attributions(), |m: &mut UpdateFailHTLC, v| m.attribution_data = v),
			vec_dim("reason", &[0, 1, 2, 292, 1060], |m: &mut UpdateFailHTLC, n| *m = fail_htlc(m.channel_id, m.htlc_id, &pattern(n), &m.attribution_data)),
			fill_dim("reason_fill", 1, |m: &mut UpdateFailHTLC, n| *m = fail_htlc(m.channel_id, m.htlc_id, &pattern(n), &m.attribution_data)),
		],
		cap,
	));
	t.push(spec(
		"UpdateFailMalformedHTLC",
		true,
		Some(|m: &UpdateFailMalformedHTLC| m.clone()),
		&[],
		vec![],
		malformed(cid0(), 0, [0; 32], 0),
		vec![
			sc("channel_id", cids(), |m: &mut UpdateFailMalformedHTLC, v| m.channel_id = v),
			sc("htlc_id", u64s(), |m: &mut UpdateFailMalformedHTLC, v| m.htlc_id = v),
			sc("sha256_of_onion", b32s(), |m: &mut UpdateFailMalformedHTLC, v| *m = malformed(m.channel_id, m.htlc_id, v, m.failure_code)),
			sc("failure_code", vec![0u16, 1, 0x8000 | 0x4000 | 5, u16::MAX], |m: &mut UpdateFailMalformedHTLC, v| m.failure_code = v),
		],
		cap,
	));
	t.push(spec(
		"CommitmentSigned",
		true,
		Some(|m: &CommitmentSigned| CommitmentSigned { funding_txid: None, ..m.clone() }),
		&[1],
		bad_sig(32),
		CommitmentSigned { channel_id: cid0(), signature: sig(0), htlc_signatures: vec![], funding_txid: None },
		vec![
			sc("channel_id", cids(), |m: &mut CommitmentSigned, v| m.channel_id = v),
			sc("signature", sigs(), |m: &mut CommitmentSigned, v| m.signature = v),
			vec_dim("htlc_signatures", &[0, 1, 2, 483], |m: &mut CommitmentSigned, n| m.htlc_signatures = (0..n).map(|i| sig(i % 2)).collect()),
			fill_dim("htlc_signatures_fill", 64, |m: &mut CommitmentSigned, n| m.htlc_signatures = (0..n).map(|i| sig(i % 2)).collect()),
			st("funding_txid", opt(txids()), |m: &mut CommitmentSigned, v| m.funding_txid = v),
		],
		cap,
	));
	t.push(spec(
		"RevokeAndACK",
		true,
		Some(|m: &RevokeAndACK| RevokeAndACK { release_htlc_message_paths: vec![], ..m.clone() }),
		&[75537],
		bad_pk(64),
		RevokeAndACK { channel_id: cid0(), per_commitment_secret: [0; 32], next_per_commitment_point: pk(0), release_htlc_message_paths: vec![] },
		vec![
			sc("channel_id", cids(), |m: &mut RevokeAndACK, v| m.channel_id = v),
			sc("per_commitment_secret", b32s(), |m: &mut RevokeAndACK, v| m.per_commitment_secret = v),
			sc("next_per_commitment_point", pks(), |m: &mut RevokeAndACK, v| m.next_per_commitment_point = v),
			st(
				"release_htlc_message_paths",
				vec![
					vec![],
					vec![(0u64, blinded_path(1, 0, None))],
					vec![(1u64, blinded_path(2, 26, None)), (u64::MAX, blinded_path(1, 1, Some(0)))],
					vec![(7u64, blinded_path(3, 300, Some(1)))],
					vec![(0u64, blinded_path(255, 1, None))],
					vec![(0u64, blinded_path(1, 60000, None))],
					(0..100u64).map(|i| (i, blinded_path(1, 50, None))).collect(),
				],
				|m: &mut RevokeAndACK, v| m.release_htlc_message_paths = v,
			),
		],
		cap,
	));
	t.push(spec(
		"UpdateFee",
		true,
		Some(|m: &UpdateFee| m.clone()),
		&[],
		vec![],
		UpdateFee { channel_id: cid0(), feerate_per_kw: 0 },
		vec![sc("channel_id", cids(), |m: &mut UpdateFee, v| m.channel_id = v), sc("feerate_per_kw", u32s(), |m: &mut UpdateFee, v| m.feerate_per_kw = v)],
		cap,
	));
	t.push(spec(
		"ChannelReestablish",
		true,
		Some(|m: &ChannelReestablish| ChannelReestablish { next_funding: None, my_current_funding_locked: None, ..m.clone() }),
		&[1, 5],
		bad_pk(80),
		ChannelReestablish {
			channel_id: cid0(),
			next_local_commitment_number: 0,
			next_remote_commitment_number: 0,
			your_last_per_commitment_secret: [0; 32],
			my_current_per_commitment_point: pk(0),
			next_funding: None,
			my_current_funding_locked: None,
		},
		vec![
			sc("channel_id", cids(), |m: &mut ChannelReestablish, v| m.channel_id = v),
			sc("next_local_commitment_number", u64s(), |m: &mut ChannelReestablish, v| m.next_local_commitment_number = v),
			sc("next_remote_commitment_number", u64s(), |m: &mut ChannelReestablish, v| m.next_remote_commitment_number = v),
			sc("your_last_per_commitment_secret", b32s(), |m: &mut ChannelReestablish, v| m.your_last_per_commitment_secret = v),
			sc("my_current_per_commitment_point", pks(), |m: &mut ChannelReestablish, v| m.my_current_per_commitment_point = v),
			st(
				"next_funding",
				vec![None, Some(NextFunding { txid: txid0(), retransmit_flags: 0 }), Some(NextFunding { txid: txids()[1], retransmit_flags: 1 }), Some(NextFunding { txid: txids()[1], retransmit_flags: 255 })],
				|m: &mut ChannelReestablish, v| m.next_funding = v,
			),
			st(
				"my_current_funding_locked",
				vec![None, Some(FundingLocked { txid: txid0(), retransmit_flags: 0 }), Some(FundingLocked { txid: txids()[1], retransmit_flags: 1 }), Some(FundingLocked { txid: txids()[1], retransmit_flags: 255 })],
				|m: &mut ChannelReestablish, v| m.my_current_funding_locked = v,
			),
		],
		cap,
	));
	t.push(spec(
		"OnionMessage",
		true,
		None,
		&[],
		[bad_pk(0), bad_pk(36)].concat(),
		OnionMessage { blinding_point: pk(0), onion_routing_packet: OmPacket { version: 0, public_key: pk(0), hop_data: vec![], hmac: [0; 32] } },
		vec![
			sc("blinding_point", pks(), |m: &mut OnionMessage, v| m.blinding_point = v),
			sc("packet.version", u8s(), |m: &mut OnionMessage, v| m.onion_routing_packet.version = v),
			sc("packet.public_key", pks(), |m: &mut OnionMessage, v| m.onion_routing_packet.public_key = v),
			sc("packet.hmac", b32s(), |m: &mut OnionMessage, v| m.onion_routing_packet.hmac = v),
			vec_dim("packet.hop_data", &[0, 1, 2, 1300, 4096, 4097], |m: &mut OnionMessage, n| m.onion_routing_packet.hop_data = pattern(n)),
			fill_dim("packet.hop_data_fill", 1, |m: &mut OnionMessage, n| m.onion_routing_packet.hop_data = pattern(n)),
		],
		cap,
	));

	// ---- BOLT 7 ----
	t.push(spec(
		"AnnouncementSignatures",
		true,
		Some(|m: &AnnouncementSignatures| m.clone()),
		&[],
		[bad_sig(40), bad_sig(104)].concat(),
		AnnouncementSignatures { channel_id: cid0(), short_channel_id: 0, node_signature: sig(0), bitcoin_signature: sig(0) },
		vec![
			sc("channel_id", cids(), |m: &mut AnnouncementSignatures, v| m.channel_id = v),
			sc("short_channel_id", u64s(), |m: &mut AnnouncementSignatures, v| m.short_channel_id = v),
			sc("node_signature", sigs(), |m: &mut AnnouncementSignatures, v| m.node_signature = v),
			sc("bitcoin_signature", sigs(), |m: &mut AnnouncementSignatures, v| m.bitcoin_signature = v),
		],
		cap,
	));
	t.push(spec(
		"ChannelAnnouncement",
		true,
		None,
		&[],
		[bad_sig(0), bad_sig(64), bad_sig(128), bad_sig(192)].concat(),
		ChannelAnnouncement {
			node_signature_1: sig(0),
			node_signature_2: sig(0),
			bitcoin_signature_1: sig(0),
			bitcoin_signature_2: sig(0),
			contents: UnsignedChannelAnnouncement {
				features: ChannelFeatures::empty(),
				chain_hash: ChainHash::BITCOIN,
				short_channel_id: 0,
				node_id_1: node_ids()[0],
				node_id_2: node_ids()[0],
				bitcoin_key_1: node_ids()[0],
				bitcoin_key_2: node_ids()[0],
				excess_data: vec![],
			},
		},
		vec![
			sc("node_signature_1", sigs(), |m: &mut ChannelAnnouncement, v| m.node_signature_1 = v),
			sc("node_signature_2", sigs(), |m: &mut ChannelAnnouncement, v| m.node_signature_2 = v),
			sc("bitcoin_signature_1", sigs(), |m: &mut ChannelAnnouncement, v| m.bitcoin_signature_1 = v),
			sc("bitcoin_signature_2", sigs(), |m: &mut ChannelAnnouncement, v| m.bitcoin_signature_2 = v),
			st("features", channel_features(), |m: &mut ChannelAnnouncement, v| m.contents.features = v),
			sc("chain_hash", chains(), |m: &mut ChannelAnnouncement, v| m.contents.chain_hash = v),
			sc("short_channel_id", u64s(), |m: &mut ChannelAnnouncement, v| m.contents.short_channel_id = v),
			sc("node_id_1", node_ids(), |m: &mut ChannelAnnouncement, v| m.contents.node_id_1 = v),
			sc("node_id_2", node_ids(), |m: &mut ChannelAnnouncement, v| m.contents.node_id_2 = v),
			sc("bitcoin_key_1", node_ids(), |m: &mut ChannelAnnouncement, v| m.contents.bitcoin_key_1 = v),
			sc("bitcoin_key_2", node_ids(), |m: &mut ChannelAnnouncement, v| m.contents.bitcoin_key_2 = v),
			vec_dim("excess_data", &SMALL, |m: &mut ChannelAnnouncement, n| m.contents.excess_data = pattern(n)),
			fill_dim("excess_data_fill", 1, |m: &mut ChannelAnnouncement, n| m.contents.excess_data = pattern(n)),
		],
		cap,
	));
	{
		let addrs = socket_addresses();
		let mut lists: Vec<Vec<SocketAddress>> = vec![vec![]];
		for a in &addrs {
			lists.push(vec![a.clone()]);
		}
		lists.push(vec![addrs[0].clone(), addrs[1].clone()]);
		lists.push(vec![addrs[0].clone(), addrs[0].clone()]);
		lists.push(vec![addrs[0].clone(), addrs[1].clone(), addrs[2].clone(), addrs[3].clone(), addrs[6].clone()]);
		lists.push(vec![addrs[6].clone(), addrs[3].clone(), addrs[0].clone()]);
		t.push(spec(
			"NodeAnnouncement",
			true,
			None,
			&[],
			bad_sig(0),
			NodeAnnouncement {
				signature: sig(0),
				contents: UnsignedNodeAnnouncement {
					features: NodeFeatures::empty(),
					timestamp: 0,
					node_id: node_ids()[0],
					rgb: [0; 3],
					alias: NodeAlias([0; 32]),
					addresses: vec![],
					excess_address_data: vec![],
					excess_data: vec![],
				},
			},
			vec![
				sc("signature", sigs(), |m: &mut NodeAnnouncement, v| m.signature = v),
				sc("features", node_features(), |m: &mut NodeAnnouncement, v| m.contents.features = v),
				sc("timestamp", u32s(), |m: &mut NodeAnnouncement, v| m.contents.timestamp = v),
				sc("node_id", node_ids(), |m: &mut NodeAnnouncement, v| m.contents.node_id = v),
				sc("rgb", vec![[0u8; 3], [1, 2, 3], [255; 3]], |m: &mut NodeAnnouncement, v| m.contents.rgb = v),
				sc("alias", b32s(), |m: &mut NodeAnnouncement, v| m.contents.alias = NodeAlias(v)),
				st("addresses", lists, |m: &mut NodeAnnouncement, v| m.contents.addresses = v),
				// Excess address data always starts with an address type the decoder does not know
				// (otherwise it *is* an address).
				st("excess_address_data", vec![vec![], vec![0xffu8], vec![6u8, 1, 2, 3], vec![0u8; 5]], |m: &mut NodeAnnouncement, v| m.contents.excess_address_data = v),
				sc("excess_data", vec![vec![], vec![1u8], vec![0xffu8, 0]], |m: &mut NodeAnnouncement, v| m.contents.excess_data = v),
				solo("fill", vec![Arc::new(|m: &mut NodeAnnouncement| fill(m, 1, &|m, n| m.contents.excess_data = pattern(n))),
					Arc::new(|m: &mut NodeAnnouncement| fill(m, 7, &|m, n| m.contents.addresses = vec![SocketAddress::TcpIpV4 { addr: [1, 2, 3, 4], port: 5 }; n])),
					Arc::new(|m: &mut NodeAnnouncement| {
						fill(m, 1, &|m, n| {
							m.contents.excess_address_data = if n == 0 { vec![] } else { let mut v = pattern(n); v[0] = 0x2a; v };
						})
					}),
				]),
			],
			cap,
		));
	}
	t.push(spec(
		"ChannelUpdate",
		true,
		None,
		&[],
		[bad_sig(0), vec![rej("message_flags must_be_one clear (0)", 108, vec![0]), rej("message_flags must_be_one clear (2)", 108, vec![2])]].concat(),
		ChannelUpdate {
			signature: sig(0),
			contents: UnsignedChannelUpdate {
				chain_hash: ChainHash::BITCOIN,
				short_channel_id: 0,
				timestamp: 0,
				message_flags: 1,
				channel_flags: 0,
				cltv_expiry_delta: 0,
				htlc_minimum_msat: 0,
				htlc_maximum_msat: 0,
				fee_base_msat: 0,
				fee_proportional_millionths: 0,
				excess_data: vec![],
			},
		},
		vec![
			sc("signature", sigs(), |m: &mut ChannelUpdate, v| m.signature = v),
			sc("chain_hash", chains(), |m: &mut ChannelUpdate, v| m.contents.chain_hash = v),
			sc("short_channel_id", u64s(), |m: &mut ChannelUpdate, v| m.contents.short_channel_id = v),
			sc("timestamp", u32s(), |m: &mut ChannelUpdate, v| m.contents.timestamp = v),
			// bit 0 (must_be_one) is always set by the library and enforced by the decoder
			sc("message_flags", vec![1u8, 3, 255], |m: &mut ChannelUpdate, v| m.contents.message_flags = v),
			sc("channel_flags", u8s(), |m: &mut ChannelUpdate, v| m.contents.channel_flags = v),
			sc("cltv_expiry_delta", u16s(), |m: &mut ChannelUpdate, v| m.contents.cltv_expiry_delta = v),
			sc("htlc_minimum_msat", u64s(), |m: &mut ChannelUpdate, v| m.contents.htlc_minimum_msat = v),
			sc("htlc_maximum_msat", u64s(), |m: &mut ChannelUpdate, v| m.contents.htlc_maximum_msat = v),
			sc("fee_base_msat", u32s(), |m: &mut ChannelUpdate, v| m.contents.fee_base_msat = v),
			sc("fee_proportional_millionths", u32s(), |m: &mut ChannelUpdate, v| m.contents.fee_proportional_millionths = v),
			vec_dim("excess_data", &SMALL, |m: &mut ChannelUpdate, n| m.contents.excess_data = pattern(n)),
			fill_dim("excess_data_fill", 1, |m: &mut ChannelUpdate, n| m.contents.excess_data = pattern(n)),
		],
		cap,
	));
	t.push(spec(
		"QueryShortChannelIds",
		true,
		None,
		&[],
		vec![rej("encoding_type zlib", 34, vec![1]), rej("encoding_len 0", 32, vec![0, 0]), rej("encoding_len not 1 mod 8", 32, vec![0, 4])],
		QueryShortChannelIds { chain_hash: ChainHash::BITCOIN, short_channel_ids: vec![] },
		vec![
			sc("chain_hash", chains(), |m: &mut QueryShortChannelIds, v| m.chain_hash = v),
			vec_dim("short_channel_ids", &SMALL, |m: &mut QueryShortChannelIds, n| m.short_channel_ids = (0..n as u64).map(|i| if i % 2 == 0 { i } else { u64::MAX - i }).collect()),
			fill_dim("short_channel_ids_fill", 8, |m: &mut QueryShortChannelIds, n| m.short_channel_ids = (0..n as u64).map(|i| if i % 2 == 0 { i } else { u64::MAX - i }).collect()),
		],
		cap,
	));
	t.push(spec(
		"ReplyShortChannelIdsEnd",
		true,
		Some(|m: &ReplyShortChannelIdsEnd| m.clone()),
		&[],
		vec![rej("bool 2", 32, vec![2]), rej("bool 0xff", 32, vec![0xff])],
		ReplyShortChannelIdsEnd { chain_hash: ChainHash::BITCOIN, full_information: false },
		vec![
			sc("chain_hash", chains(), |m: &mut ReplyShortChannelIdsEnd, v| m.chain_hash = v),
			sc("full_information", bools(), |m: &mut ReplyShortChannelIdsEnd, v| m.full_information = v),
		],
		cap,
	));
	t.push(spec(
		"QueryChannelRange",
		true,
		Some(|m: &QueryChannelRange| m.clone()),
		&[],
		vec![],
		QueryChannelRange { chain_hash: ChainHash::BITCOIN, first_blocknum: 0, number_of_blocks: 0 },
		vec![
			sc("chain_hash", chains(), |m: &mut QueryChannelRange, v| m.chain_hash = v),
			sc("first_blocknum", u32s(), |m: &mut QueryChannelRange, v| m.first_blocknum = v),
			sc("number_of_blocks", u32s(), |m: &mut QueryChannelRange, v| m.number_of_blocks = v),
		],
		cap,
	));
	t.push(spec(
		"ReplyChannelRange",
		true,
		None,
		&[],
		vec![rej("bool 2", 40, vec![2]), rej("encoding_type zlib", 43, vec![1]), rej("encoding_len 0", 41, vec![0, 0]), rej("encoding_len not 1 mod 8", 41, vec![0, 4])],
		ReplyChannelRange { chain_hash: ChainHash::BITCOIN, first_blocknum: 0, number_of_blocks: 0, sync_complete: false, short_channel_ids: vec![] },
		vec![
			sc("chain_hash", chains(), |m: &mut ReplyChannelRange, v| m.chain_hash = v),
			sc("first_blocknum", u32s(), |m: &mut ReplyChannelRange, v| m.first_blocknum = v),
			sc("number_of_blocks", u32s(), |m: &mut ReplyChannelRange, v| m.number_of_blocks = v),
			sc("sync_complete", bools(), |m: &mut ReplyChannelRange, v| m.sync_complete = v),
			vec_dim("short_channel_ids", &SMALL, |m: &mut ReplyChannelRange, n| m.short_channel_ids = (0..n as u64).map(|i| if i % 2 == 0 { i } else { u64::MAX - i }).collect()),
			fill_dim("short_channel_ids_fill", 8, |m: &mut ReplyChannelRange, n| m.short_channel_ids = (0..n as u64).map(|i| if i % 2 == 0 { i } else { u64::MAX - i }).collect()),
		],
		cap,
	));
	t.push(spec(
		"GossipTimestampFilter",
		true,
		Some(|m: &GossipTimestampFilter| m.clone()),
		&[],
		vec![],
		GossipTimestampFilter { chain_hash: ChainHash::BITCOIN, first_timestamp: 0, timestamp_range: 0 },
		vec![
			sc("chain_hash", chains(), |m: &mut GossipTimestampFilter, v| m.chain_hash = v),
			sc("first_timestamp", u32s(), |m: &mut GossipTimestampFilter, v| m.first_timestamp = v),
			sc("timestamp_range", u32s(), |m: &mut GossipTimestampFilter, v| m.timestamp_range = v),
		],
		cap,
	));
	let _ = (Signature::from_compact, InitFeatures::empty);
	t
}

/// Values a *user* can build through public fields but the library itself never constructs; they
/// are outside the enumerated domain. What the codec does with them is recorded in the evidence
/// (informational, never a verdict).
pub fn outside_domain_observations() -> mc_common::Value {
	use mc_common::json;
	let mut out = Vec::new();
	let cu = |flags: u8| ChannelUpdate {
		signature: sig(0),
		contents: UnsignedChannelUpdate {
			chain_hash: ChainHash::BITCOIN,
			short_channel_id: 0,
			timestamp: 0,
			message_flags: flags,
			channel_flags: 0,
			cltv_expiry_delta: 0,
			htlc_minimum_msat: 0,
			htlc_maximum_msat: 0,
			fee_base_msat: 0,
			fee_proportional_millionths: 0,
			excess_data: vec![],
		},
	};
	for f in [0u8, 2] {
		let m = cu(f);
		let d = <ChannelUpdate as LengthReadable>::read_from_fixed_length_buffer(&mut &m.encode()[..]);
		out.push(json!({
			"value": format!("ChannelUpdate with message_flags = {} (must_be_one bit clear; the library always sets it)", f),
			"outcome": match d { Ok(x) => format!("writer forces the bit: decodes to message_flags = {} ({} the constructed value)", x.contents.message_flags, if x == m { "equal to" } else { "differs from" }), Err(e) => format!("does not decode: {:?}", e) },
		}));
	}
	{
		let m = RevokeAndACK { channel_id: cid0(), per_commitment_secret: [0; 32], next_per_commitment_point: pk(0), release_htlc_message_paths: vec![(0, BlindedMessagePath::from_blinded_path(pk(0), pk(1), vec![]))] };
		let d = <RevokeAndACK as LengthReadable>::read_from_fixed_length_buffer(&mut &m.encode()[..]);
		out.push(json!({
			"value": "RevokeAndACK with a zero-hop blinded path (BlindedMessagePath::from_blinded_path(.., vec![]); the library never builds one)",
			"outcome": match d { Ok(x) => format!("decodes, equal = {}", x == m), Err(e) => format!("encodes, but the decoder rejects num_hops = 0: {:?}", e) },
		}));
	}
	{
		let mut m = NodeAnnouncement {
			signature: sig(0),
			contents: UnsignedNodeAnnouncement { features: NodeFeatures::empty(), timestamp: 0, node_id: node_ids()[0], rgb: [0; 3], alias: NodeAlias([0; 32]), addresses: vec![], excess_address_data: vec![], excess_data: vec![] },
		};
		m.contents.excess_address_data = vec![1, 10, 0, 0, 1, 0x26, 0x07];
		let d = <NodeAnnouncement as LengthReadable>::read_from_fixed_length_buffer(&mut &m.encode()[..]);
		out.push(json!({
			"value": "NodeAnnouncement whose excess_address_data is itself a well-formed IPv4 address descriptor (the decoder only ever puts unknown descriptors there)",
			"outcome": match d { Ok(x) => format!("decodes to {} address(es) and {} excess bytes, equal = {}", x.contents.addresses.len(), x.contents.excess_address_data.len(), x == m), Err(e) => format!("does not decode: {:?}", e) },
		}));
	}
	{
		let p = OnionPacket { version: 0, public_key: Err(bitcoin::secp256k1::Error::InvalidSignature), hop_data: [0; 1300], hmac: [0; 32] };
		let m = UpdateAddHTLC { channel_id: cid0(), htlc_id: 0, amount_msat: 0, payment_hash: PaymentHash([0; 32]), cltv_expiry: 0, skimmed_fee_msat: None, onion_routing_packet: p, blinding_point: None, hold_htlc: None, accountable: None };
		let d = <UpdateAddHTLC as LengthReadable>::read_from_fixed_length_buffer(&mut &m.encode()[..]);
		out.push(json!({
			"value": "UpdateAddHTLC whose onion public_key is Err(InvalidSignature) (only Err(InvalidPublicKey) is ever produced, by the decoder)",
			"outcome": match d { Ok(x) => format!("decodes, equal = {} (the error variant is not on the wire)", x == m), Err(e) => format!("does not decode: {:?}", e) },
		}));
	}
	mc_common::Value::Array(out)
}
