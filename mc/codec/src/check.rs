//! Oracles of C13, written once, generic over the message type.
use lightning::io;
use lightning::ln::msgs::DecodeError;
use lightning::ln::wire::{self, Type};
use lightning::util::ser::{FixedLengthReader, LengthReadable, Writeable};
use mc_common::par::guarded;
use std::fmt::Debug;

pub trait Msg: Writeable + LengthReadable + PartialEq + Debug + Clone + Send + Sync + Type + 'static {}
impl<T> Msg for T where T: Writeable + LengthReadable + PartialEq + Debug + Clone + Send + Sync + Type + 'static {}

/// Bytes placed behind every input; a decoder must never consume them.
pub const POISON: [u8; 48] = [0xA5; 48];
/// BOLT-1: type (2 bytes) + payload <= 65535 bytes.
pub const MAX_MSG: usize = 65535;

/// The underlying stream: the message bytes followed by further (poison) bytes. Counts how many
/// bytes were handed out.
pub struct Under<'a> {
	pub buf: &'a [u8],
	pub pos: usize,
}
impl<'a> io::Read for Under<'a> {
	fn read(&mut self, dest: &mut [u8]) -> Result<usize, io::Error> {
		let n = dest.len().min(self.buf.len() - self.pos);
		dest[..n].copy_from_slice(&self.buf[self.pos..self.pos + n]);
		self.pos += n;
		Ok(n)
	}
}

pub enum Dec<M> {
	Ok(M),
	Err(DecodeError),
	Panic(String),
}

/// Decodes `M` from the first `limit` bytes of `buf` through LDK's `FixedLengthReader` (the
/// `LengthLimitedRead` LDK itself uses for length-delimited sub-streams); returns the outcome and
/// how many bytes were taken from the underlying stream (must never exceed `limit`).
pub fn dec<M: Msg>(buf: &[u8], limit: usize) -> (Dec<M>, usize) {
	let mut u = Under { buf, pos: 0 };
	let r = guarded(|| {
		let mut r = FixedLengthReader::new(&mut u, limit as u64);
		M::read_from_fixed_length_buffer(&mut r)
	});
	let d = match r {
		Ok(Ok(m)) => Dec::Ok(m),
		Ok(Err(e)) => Dec::Err(e),
		Err(p) => Dec::Panic(p),
	};
	(d, u.pos)
}

/// The production path: `PeerManager` hands `wire::read` a plain `&[u8]`.
pub fn dec_slice<M: Msg>(bytes: &[u8]) -> Dec<M> {
	match guarded(|| M::read_from_fixed_length_buffer(&mut &bytes[..])) {
		Ok(Ok(m)) => Dec::Ok(m),
		Ok(Err(e)) => Dec::Err(e),
		Err(p) => Dec::Panic(p),
	}
}

#[derive(Clone, Copy, PartialEq, Eq, Debug)]
#[repr(usize)]
pub enum Class {
	Valid = 0,
	Trunc,
	Subst,
	Ext,
	TlvOdd,
	TlvEven,
	NonMin,
	DecLen,
	Reject,
	Short,
	Wire,
	UnknownType,
	Uniform,
}
pub const NCLASS: usize = 13;
pub const CLASS_NAMES: [&str; NCLASS] = [
	"valid", "truncation", "substitution", "extension", "tlv_unknown_odd", "tlv_unknown_even", "nonminimal_bigsize",
	"tlv_declared_length", "out_of_range", "short_string", "wire_dispatch", "unknown_type", "uniform_string",
];
pub const ERR_NAMES: [&str; 8] = [
	"UnknownVersion", "UnknownRequiredFeature", "InvalidValue", "ShortRead", "BadLengthDescriptor", "Io",
	"UnsupportedCompression", "DangerousValue",
];
pub fn err_idx(e: &DecodeError) -> usize {
	match e {
		DecodeError::UnknownVersion => 0,
		DecodeError::UnknownRequiredFeature => 1,
		DecodeError::InvalidValue => 2,
		DecodeError::ShortRead => 3,
		DecodeError::BadLengthDescriptor => 4,
		DecodeError::Io(_) => 5,
		DecodeError::UnsupportedCompression => 6,
		DecodeError::DangerousValue => 7,
	}
}

#[derive(Default, Clone)]
pub struct Stats {
	pub ok: [u64; NCLASS],
	pub err: [u64; NCLASS],
	pub errs: [u64; 8],
	/// Mutated input decoded successfully to a value different from the original.
	pub changed_ok: u64,
	/// Successful decodes whose re-encoding differs from the input bytes (non-canonical input accepted).
	pub noncanonical_ok: u64,
	pub values: u64,
	pub values_mutated: u64,
	pub large_values: u64,
	pub tlv_records_seen: u64,
	pub wire_unknown_odd: u64,
	pub wire_unknown_even: u64,
	pub violations: u64,
	pub max_consumed_eq_limit: u64,
	/// 64-bit digests of (type, input) for every input that decoded successfully.
	pub ok_digests: Vec<u64>,
}
impl Stats {
	pub fn merge(&mut self, o: &Stats) {
		for i in 0..NCLASS {
			self.ok[i] += o.ok[i];
			self.err[i] += o.err[i];
		}
		for i in 0..8 {
			self.errs[i] += o.errs[i];
		}
		self.changed_ok += o.changed_ok;
		self.noncanonical_ok += o.noncanonical_ok;
		self.values += o.values;
		self.values_mutated += o.values_mutated;
		self.large_values += o.large_values;
		self.tlv_records_seen += o.tlv_records_seen;
		self.wire_unknown_odd += o.wire_unknown_odd;
		self.wire_unknown_even += o.wire_unknown_even;
		self.violations += o.violations;
		self.max_consumed_eq_limit += o.max_consumed_eq_limit;
	}
	pub fn evaluations(&self) -> u64 {
		self.ok.iter().sum::<u64>() + self.err.iter().sum::<u64>()
	}
	pub fn decode_ok(&self) -> u64 {
		self.ok.iter().sum()
	}
}

#[derive(Clone, Debug)]
pub struct Viol {
	pub oracle: String,
	pub tname: String,
	pub vidx: Option<usize>,
	/// What to re-run on replay: "value", "any", "canon", "must_err:<oracle>", "must_eq:<oracle>",
	/// "not_eq:<oracle>", "wire", "unknown".
	pub check: String,
	pub input: Vec<u8>,
	pub detail: String,
}

pub struct Ctx {
	pub tname: &'static str,
	pub vidx: Option<usize>,
	pub stats: Stats,
	pub viols: Vec<Viol>,
	pub collect_digests: bool,
}

pub fn fnv(parts: &[&[u8]]) -> u64 {
	let mut h: u64 = 0xcbf29ce484222325;
	for p in parts {
		for b in *p {
			h ^= *b as u64;
			h = h.wrapping_mul(0x100000001b3);
		}
		h ^= 0xff;
		h = h.wrapping_mul(0x100000001b3);
	}
	h
}

pub fn short_hex(b: &[u8]) -> String {
	if b.len() <= 96 {
		mc_common::hex(b)
	} else {
		// head, tail (TLV probes and truncations differ at the end), length and a digest of the whole
		format!("{}..{}..len{}..fnv{:016x}", mc_common::hex(&b[..32]), mc_common::hex(&b[b.len() - 32..]), b.len(), fnv(&[b]))
	}
}

impl Ctx {
	pub fn new(tname: &'static str, vidx: Option<usize>, collect_digests: bool) -> Self {
		Ctx { tname, vidx, stats: Stats::default(), viols: Vec::new(), collect_digests }
	}
	pub fn viol(&mut self, oracle: &str, check: &str, input: &[u8], detail: String) {
		self.stats.violations += 1;
		if self.viols.iter().filter(|v| v.oracle == oracle).count() >= 3 {
			return;
		}
		self.viols.push(Viol {
			oracle: oracle.to_string(),
			tname: self.tname.to_string(),
			vidx: self.vidx,
			check: check.to_string(),
			input: input.to_vec(),
			detail,
		});
	}
}

pub enum Expect<'a, M> {
	/// Only the universal clauses: no panic, no over-read, a successful decode is stable under
	/// re-encode / decode.
	Any,
	/// A truncation of a canonical encoding: additionally, if it decodes, the value must account
	/// for every byte (its encoding is exactly the input) - otherwise bytes were silently dropped,
	/// i.e. a partially filled message was returned.
	Canon,
	MustErr(&'static str),
	/// Must decode and equal the given message.
	MustEq(&'static str, &'a M),
	/// Must not decode to the given message.
	NotEq(&'static str, &'a M),
}
impl<'a, M> Expect<'a, M> {
	pub fn kind(&self) -> String {
		match self {
			Expect::Any => "any".into(),
			Expect::Canon => "canon".into(),
			Expect::MustErr(o) => format!("must_err:{}", o),
			Expect::MustEq(o, _) => format!("must_eq:{}", o),
			Expect::NotEq(o, _) => format!("not_eq:{}", o),
		}
	}
}

fn dbg_short<T: Debug>(t: &T) -> String {
	let s = format!("{:?}", t);
	if s.len() > 300 {
		let mut e = 300;
		while !s.is_char_boundary(e) {
			e -= 1;
		}
		format!("{}...", &s[..e])
	} else {
		s
	}
}

/// Runs every universal oracle plus `exp` on the input `buf[..limit]` (`buf` continues with
/// further bytes that must stay untouched). Returns the decoded value, if any.
pub fn examine<M: Msg>(cx: &mut Ctx, class: Class, buf: &[u8], limit: usize, exp: Expect<M>) -> Option<M> {
	let (d, consumed) = dec::<M>(buf, limit);
	let input = &buf[..limit];
	let kind = exp.kind();
	if consumed > limit {
		cx.viol(
			"no-overread",
			&kind,
			input,
			format!("decoder consumed {} bytes of the underlying stream, declared length {}", consumed, limit),
		);
	}
	if consumed == limit {
		cx.stats.max_consumed_eq_limit += 1;
	}
	match d {
		Dec::Panic(p) => {
			cx.stats.err[class as usize] += 1;
			cx.viol("no-panic", &kind, input, format!("decoding {} panicked: {}", cx.tname, p));
			None
		},
		Dec::Err(e) => {
			cx.stats.err[class as usize] += 1;
			cx.stats.errs[err_idx(&e)] += 1;
			if let Expect::MustEq(o, m) = exp {
				cx.viol(o, &kind, input, format!("expected a successful decode equal to {}, got Err({:?})", dbg_short(m), e));
			}
			None
		},
		Dec::Ok(x) => {
			cx.stats.ok[class as usize] += 1;
			if cx.collect_digests {
				cx.stats.ok_digests.push(fnv(&[cx.tname.as_bytes(), input]));
			}
			// Stability: re-encode, decode again, must give the same message.
			match guarded(|| x.encode()) {
				Err(p) => cx.viol("reencode-no-panic", &kind, input, format!("re-encoding the decoded {} panicked: {}", cx.tname, p)),
				Ok(e2) => {
					if e2 != input {
						cx.stats.noncanonical_ok += 1;
					}
					match dec_slice::<M>(&e2) {
						Dec::Ok(y) => {
							if y != x {
								cx.viol(
									"reencode-stable",
									&kind,
									input,
									format!("decode(encode(x)) != x for x = {} ; re-encoding {}", dbg_short(&x), short_hex(&e2)),
								);
							}
						},
						Dec::Err(er) => cx.viol(
							"reencode-stable",
							&kind,
							input,
							format!("re-encoding {} of decoded {} does not decode: {:?}", short_hex(&e2), dbg_short(&x), er),
						),
						Dec::Panic(p) => cx.viol("no-panic", &kind, &e2, format!("decoding a re-encoding panicked: {}", p)),
					}
					if let Expect::Canon = exp {
						if e2 != input {
							cx.viol(
								"truncation-ok-is-complete",
								&kind,
								input,
								format!(
									"truncated encoding decoded to {} whose encoding {} is not the input: bytes were dropped (partially filled message)",
									dbg_short(&x),
									short_hex(&e2)
								),
							);
						}
					}
				},
			}
			match exp {
				Expect::MustErr(o) => {
					cx.viol(o, &kind, input, format!("malformed input was accepted as {}", dbg_short(&x)));
				},
				Expect::MustEq(o, m) => {
					if &x != m {
						cx.viol(o, &kind, input, format!("decoded {} but expected {}", dbg_short(&x), dbg_short(m)));
					}
				},
				Expect::NotEq(o, m) => {
					if &x == m {
						cx.viol(o, &kind, input, format!("a changed input still decoded to the original message (the changed bytes / declared length were ignored): {}", dbg_short(m)));
					}
				},
				Expect::Any | Expect::Canon => {},
			}
			Some(x)
		},
	}
}

pub enum WireOut {
	Ok(wire::VerifWireRoundtrip),
	Err(DecodeError, Option<u16>),
	Panic(String),
}

/// `wire::read` (hook H2) over the first `limit` bytes of `buf`.
pub fn wire_dec(buf: &[u8], limit: usize) -> (WireOut, usize) {
	let mut u = Under { buf, pos: 0 };
	let r = guarded(|| {
		let mut r = FixedLengthReader::new(&mut u, limit as u64);
		wire::verif_wire_roundtrip(&mut r)
	});
	let o = match r {
		Ok(Ok(x)) => WireOut::Ok(x),
		Ok(Err((e, t))) => WireOut::Err(e, t),
		Err(p) => WireOut::Panic(p),
	};
	(o, u.pos)
}

/// Differential oracle between the type-id dispatch and the per-type codec for one payload:
/// `wire::read(id || payload)` must succeed exactly when `M` decodes from `payload`, with the
/// same error, and `Message::write` must produce `id || encode(decoded)`.
pub fn wire_consistent<M: Msg>(cx: &mut Ctx, id: u16, dispatched: bool, payload: &[u8]) {
	let mut bytes = Vec::with_capacity(payload.len() + 2 + POISON.len());
	bytes.extend_from_slice(&id.to_be_bytes());
	bytes.extend_from_slice(payload);
	let limit = bytes.len();
	bytes.extend_from_slice(&POISON);
	let (w, consumed) = wire_dec(&bytes, limit);
	let input = &bytes[..limit];
	if consumed > limit {
		cx.viol("no-overread", "wire", input, format!("wire::read consumed {} bytes, declared length {}", consumed, limit));
	}
	let cls = Class::Wire as usize;
	if !dispatched {
		// Compiled without a decoder for this id: must be reported as unknown, nothing re-encoded.
		match w {
			WireOut::Ok(r) if r.unknown && r.type_id == id && r.is_even == (id % 2 == 0) && r.reencoded == id.to_be_bytes() => {
				cx.stats.ok[cls] += 1;
			},
			WireOut::Ok(r) => {
				cx.stats.ok[cls] += 1;
				cx.viol("wire-unknown-type", "wire", input, format!("type {} has no dispatch arm but wire::read returned type_id {} unknown {}", id, r.type_id, r.unknown));
			},
			WireOut::Err(e, t) => {
				cx.stats.err[cls] += 1;
				cx.viol("wire-unknown-type", "wire", input, format!("type {} has no dispatch arm but wire::read failed {:?} {:?}", id, e, t));
			},
			WireOut::Panic(p) => {
				cx.stats.err[cls] += 1;
				cx.viol("no-panic", "wire", input, format!("wire::read panicked: {}", p));
			},
		}
		return;
	}
	let typed = dec_slice::<M>(payload);
	match (w, typed) {
		(WireOut::Panic(p), _) => {
			cx.stats.err[cls] += 1;
			cx.viol("no-panic", "wire", input, format!("wire::read panicked: {}", p));
		},
		(_, Dec::Panic(p)) => {
			cx.stats.err[cls] += 1;
			cx.viol("no-panic", "wire", input, format!("decoding {} panicked: {}", cx.tname, p));
		},
		(WireOut::Ok(r), Dec::Ok(x)) => {
			cx.stats.ok[cls] += 1;
			let mut want = id.to_be_bytes().to_vec();
			want.extend_from_slice(&x.encode());
			if r.unknown || r.type_id != id || r.reencoded != want || x.type_id() != id {
				cx.viol(
					"wire-dispatch-consistent",
					"wire",
					input,
					format!(
						"wire::read gave type_id {} unknown {} re-encoding {} ; the {} codec gives {}",
						r.type_id,
						r.unknown,
						short_hex(&r.reencoded),
						cx.tname,
						short_hex(&want)
					),
				);
			}
		},
		(WireOut::Err(e, t), Dec::Err(e2)) => {
			cx.stats.err[cls] += 1;
			if e != e2 || t != Some(id) {
				cx.viol("wire-dispatch-consistent", "wire", input, format!("wire::read failed with {:?} {:?}, the {} codec with {:?}", e, t, cx.tname, e2));
			}
		},
		(WireOut::Ok(r), Dec::Err(e2)) => {
			cx.stats.ok[cls] += 1;
			cx.viol(
				"wire-dispatch-consistent",
				"wire",
				input,
				format!("wire::read succeeded (type_id {} unknown {}), the {} codec fails with {:?}", r.type_id, r.unknown, cx.tname, e2),
			);
		},
		(WireOut::Err(e, t), Dec::Ok(x)) => {
			cx.stats.err[cls] += 1;
			cx.viol("wire-dispatch-consistent", "wire", input, format!("wire::read failed {:?} {:?}, the {} codec decodes {}", e, t, cx.tname, dbg_short(&x)));
		},
	}
}

/// One input `id || payload` for an id without any decoder: odd => must be ignored (reported as
/// `Unknown`, nothing of the payload interpreted), even => must be flagged unknown-and-even (the
/// `PeerManager` then disconnects). Inputs shorter than a type id must be errors.
pub fn unknown_type_check(cx: &mut Ctx, bytes_no_poison: &[u8]) {
	let mut bytes = bytes_no_poison.to_vec();
	let limit = bytes.len();
	bytes.extend_from_slice(&POISON);
	let (w, consumed) = wire_dec(&bytes, limit);
	let input = &bytes[..limit];
	let cls = Class::UnknownType as usize;
	if consumed > limit {
		cx.viol("no-overread", "unknown", input, format!("wire::read consumed {} bytes, declared length {}", consumed, limit));
	}
	if limit < 2 {
		match w {
			WireOut::Err(_, None) => cx.stats.err[cls] += 1,
			WireOut::Err(e, Some(t)) => {
				cx.stats.err[cls] += 1;
				cx.viol("wire-short-type", "unknown", input, format!("{} byte input produced error {:?} for type {}", limit, e, t));
			},
			WireOut::Ok(r) => {
				cx.stats.ok[cls] += 1;
				cx.viol("wire-short-type", "unknown", input, format!("{} byte input decoded as type {}", limit, r.type_id));
			},
			WireOut::Panic(p) => {
				cx.stats.err[cls] += 1;
				cx.viol("no-panic", "unknown", input, format!("wire::read panicked: {}", p));
			},
		}
		return;
	}
	let id = u16::from_be_bytes([input[0], input[1]]);
	match w {
		WireOut::Ok(r) => {
			cx.stats.ok[cls] += 1;
			if !(r.unknown && r.type_id == id && r.is_even == (id % 2 == 0) && r.reencoded == id.to_be_bytes()) {
				let o = if id % 2 == 1 { "unknown-odd-type-ignored" } else { "unknown-even-type-flagged" };
				cx.viol(o, "unknown", input, format!("type {}: wire::read returned type_id {} unknown {} is_even {} re-encoding {}", id, r.type_id, r.unknown, r.is_even, short_hex(&r.reencoded)));
			} else if id % 2 == 1 {
				cx.stats.wire_unknown_odd += 1;
			} else {
				cx.stats.wire_unknown_even += 1;
			}
		},
		WireOut::Err(e, t) => {
			cx.stats.err[cls] += 1;
			let o = if id % 2 == 1 { "unknown-odd-type-ignored" } else { "unknown-even-type-flagged" };
			cx.viol(o, "unknown", input, format!("type {}: wire::read failed with {:?} {:?} instead of reporting an unknown message", id, e, t));
		},
		WireOut::Panic(p) => {
			cx.stats.err[cls] += 1;
			cx.viol("no-panic", "unknown", input, format!("wire::read panicked: {}", p));
		},
	}
}

/// Machinery self-check: the over-read detector must fire when a reader takes one byte more
/// than the declared length from the underlying stream.
pub fn overread_detector_works() -> bool {
	let buf = [1u8, 2, 3, 4];
	let mut u = Under { buf: &buf, pos: 0 };
	let mut d = [0u8; 4];
	let _ = io::Read::read_exact(&mut u, &mut d);
	let declared = 3;
	u.pos > declared
}
