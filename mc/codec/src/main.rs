fn main() {
	let _args = mc_common::cli::parse();
	mc_common::cli::die("engine not built yet");
}
