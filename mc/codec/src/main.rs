//! mc-codec: bounded-exhaustive input enumeration for C13
//! "Peer messages round-trip through the wire format and decoding is total".
mod check;
mod domain;
mod gen;
mod runner;
mod tlv;
mod types;

use check::{Class, Ctx, Stats, Viol, CLASS_NAMES, ERR_NAMES, NCLASS};
use mc_common::cli::{self, Tier};
use mc_common::evidence::{Evidence, Level};
use mc_common::findings::{self, Violation};
use mc_common::{json, par, Value};
use runner::{CaseOut, Cfg, TypeRunner};
use std::collections::BTreeMap;
use std::time::{Duration, Instant};

const ID: &str = "C13";

#[derive(Clone)]
enum Work {
	Case { t: usize, idx: usize, mutated: bool },
	Short { t: usize },
	/// Unknown type ids `ids`, every payload of length <= `maxlen`.
	Unknown { ids: Vec<u16>, maxlen: usize },
}

fn cfg_for(tier: Tier, args: &cli::Args) -> (Cfg, usize) {
	let thorough = tier.is_thorough();
	let cap = args.opt_u64("cap_values").unwrap_or(if thorough { 30_000 } else { 1_500 }) as usize;
	let cfg = Cfg {
		thorough,
		mutate_all: args.opt_u64("mutate_all").map(|v| v != 0).unwrap_or(false),
		max_mutated_per_type: args.opt_u64("max_mutated").unwrap_or(if thorough { 200 } else { 32 }) as usize,
		subst_all: args.opt_u64("subst_all").map(|v| v != 0).unwrap_or(thorough),
		dense_limit: args.opt_u64("dense_limit").unwrap_or(if thorough { 2048 } else { 1500 }) as usize,
		sparse_offsets: args.opt_u64("sparse_offsets").unwrap_or(if thorough { 512 } else { 64 }) as usize,
		collect_digests: true,
	};
	(cfg, cap)
}

fn unknown_ids(known: &[u16]) -> (Vec<u16>, Vec<u16>) {
	// every id below 1100 plus the region boundaries, minus the ids with a codec
	let mut all: Vec<u16> = (0u16..1100).collect();
	all.extend_from_slice(&[32767, 32768, 32769, 65534, 65535]);
	all.retain(|i| !known.contains(i));
	// ids that additionally get every 2-byte payload
	let deep: Vec<u16> = [0u16, 3, 4, 5, 11, 40, 41, 267, 1000, 32768, 32769, 65534, 65535].iter().cloned().filter(|i| !known.contains(i)).collect();
	(all, deep)
}

fn run_unknown(ids: &[u16], maxlen: usize, collect: bool) -> CaseOut {
	let mut cx = Ctx::new("unknown-type", None, collect);
	for id in ids {
		let mut b = id.to_be_bytes().to_vec();
		check::unknown_type_check(&mut cx, &b);
		if maxlen >= 1 {
			b.push(0);
			for x in 0..=255u8 {
				b[2] = x;
				check::unknown_type_check(&mut cx, &b);
			}
		}
		if maxlen >= 2 {
			b.push(0);
			for x in 0..=255u8 {
				b[2] = x;
				for y in 0..=255u8 {
					b[3] = y;
					check::unknown_type_check(&mut cx, &b);
				}
			}
		}
	}
	CaseOut { stats: cx.stats, viols: cx.viols, sample: None, machinery_error: None }
}

fn run_too_short() -> CaseOut {
	// inputs that do not even hold a type id
	let mut cx = Ctx::new("unknown-type", None, false);
	check::unknown_type_check(&mut cx, &[]);
	for x in 0..=255u8 {
		check::unknown_type_check(&mut cx, &[x]);
	}
	CaseOut { stats: cx.stats, viols: cx.viols, sample: None, machinery_error: None }
}

fn to_violation(v: &Viol, tier: Tier, cap: usize) -> Violation {
	Violation {
		property: ID.to_string(),
		oracle: v.oracle.clone(),
		identity: format!("{}|{}|{}", v.oracle, v.tname, check::short_hex(&v.input)),
		detail: format!("[{}] {} (input {} bytes: {})", v.tname, v.detail, v.input.len(), check::short_hex(&v.input)),
		replay: json!({
			"type": v.tname,
			"tier": tier.name(),
			"cap_values": cap,
			"value_index": v.vidx,
			"check": v.check,
			"input": mc_common::hex(&v.input),
		}),
	}
}

fn replay(path: &std::path::Path, args: &cli::Args) -> ! {
	let text = std::fs::read_to_string(path).unwrap_or_else(|e| cli::die(&format!("cannot read {}: {}", path.display(), e)));
	let doc: Value = mc_common::serde_json::from_str(&text).unwrap_or_else(|e| cli::die(&format!("replay file does not parse: {}", e)));
	let rec = if doc.get("replay").is_some() { doc["replay"].clone() } else { doc.clone() };
	let tname = rec["type"].as_str().unwrap_or_else(|| cli::die("replay: no type")).to_string();
	let check = rec["check"].as_str().unwrap_or_else(|| cli::die("replay: no check")).to_string();
	let input = mc_common::unhex(rec["input"].as_str().unwrap_or("")).unwrap_or_else(|| cli::die("replay: bad input hex"));
	let vidx = rec["value_index"].as_u64().map(|v| v as usize);
	let tier = if rec["tier"].as_str() == Some("thorough") { Tier::Thorough } else { Tier::Quick };
	let (_, default_cap) = cfg_for(tier, args);
	let cap = rec["cap_values"].as_u64().map(|c| c as usize).unwrap_or(default_cap);
	par::set_quiet(false);
	let out = if tname == "unknown-type" {
		let mut cx = Ctx::new("unknown-type", None, false);
		check::unknown_type_check(&mut cx, &input);
		CaseOut { stats: cx.stats, viols: cx.viols, sample: None, machinery_error: None }
	} else {
		let table = types::all_types(cap);
		let r = table.iter().find(|r| r.name() == tname).unwrap_or_else(|| cli::die(&format!("replay: unknown message type {}", tname)));
		r.replay(&check, vidx, &input)
	};
	if out.viols.is_empty() {
		println!("REPLAY property={} type={} check={} input={} : no violation", ID, tname, check, check::short_hex(&input));
		std::process::exit(0);
	}
	for v in &out.viols {
		println!("REPLAY-VIOLATION property={} oracle={} type={} : {}", ID, v.oracle, v.tname, v.detail);
	}
	println!("VIOLATION property={} replay={}", ID, path.display());
	std::process::exit(1);
}

fn main() {
	// Last line of defence: a panic that escapes the per-case guards while inputs are being prepared
	// (e.g. inside an LDK encoder used for a size estimate) must become a verdict, never a silent abort.
	par::install_quiet_panic_hook();
	match par::guarded(real_main) {
		Ok(()) => {},
		Err(msg) => {
			if msg.contains("lightning") && !msg.contains("/verif/") {
				let args = cli::parse();
				let mut ev = Evidence::new(ID, args.tier, args.seed, Level::Exploration);
				ev.set("evaluations", 1u64);
				ev.set("distinct_nontrivial", 2u64);
				ev.set("rule", "aborted: a panic inside the library escaped while inputs were being generated");
				ev.set("exhaustive", false);
				ev.sample(json!({"panic": msg}), 1);
				let v = findings::Violation {
					property: ID.to_string(),
					oracle: "no-panic".to_string(),
					identity: format!("no-panic|input-preparation|{}", msg),
					detail: format!("the library panicked while the harness was encoding generated messages: {}", msg),
					replay: json!({"panic": msg}),
				};
				std::process::exit(findings::conclude(ID, &[v], &mut ev));
			}
			cli::die(&format!("engine panic: {}", msg));
		},
	}
}

fn real_main() {
	let args = cli::parse();
	if let Some(p) = args.replay.clone() {
		replay(&p, &args);
	}
	if args.property != ID {
		cli::die(&format!("mc-codec implements {} only (got {:?})", ID, args.property));
	}
	par::install_quiet_panic_hook();
	if !check::overread_detector_works() {
		cli::die("over-read detector self-check failed");
	}
	let start = Instant::now();
	let tier = args.tier;
	// created first: its clock is the run's wall time
	let mut ev = Evidence::new(ID, tier, args.seed, Level::Exploration);
	let (cfg, cap) = cfg_for(tier, &args);
	let wall_cap = if args.wall_cap_s > 0 { args.wall_cap_s } else if tier.is_thorough() { 2400 } else { 55 };
	let deadline = start + Duration::from_secs(wall_cap);

	let table: Vec<Box<dyn TypeRunner>> = types::all_types(cap);
	let only: Option<Vec<String>> = args.opt("types").map(|s| s.split(',').map(|x| x.to_string()).collect());
	let gen_s = start.elapsed().as_secs_f64();

	// ---- work list ----
	let mut work: Vec<(u64, Work)> = Vec::new(); // (cost estimate, item)
	let mut mutated_sets: Vec<Vec<usize>> = Vec::new();
	for (t, r) in table.iter().enumerate() {
		let skip = only.as_ref().map(|o| !o.iter().any(|n| n == r.name())).unwrap_or(false);
		let ms: Vec<usize> = if skip { vec![] } else { r.mutated_indices(&cfg) };
		if !skip {
			for idx in 0..r.n_values() {
				let mutated = ms.binary_search(&idx).is_ok();
				let len = r.encoded_len(idx) as u64 + 1;
				let sites = if len as usize > cfg.dense_limit { cfg.sparse_offsets as u64 } else { len };
				let cost = if mutated { sites * if cfg.subst_all { 300 } else { 12 } * (1 + len / 200) } else { len / 64 + 1 };
				work.push((cost, Work::Case { t, idx, mutated }));
			}
			work.push((140_000, Work::Short { t }));
		}
		mutated_sets.push(ms);
	}
	let known_ids: Vec<u16> = table.iter().map(|r| r.type_id()).collect();
	let (all_unknown, deep_unknown) = unknown_ids(&known_ids);
	if only.is_none() {
		for chunk in all_unknown.chunks(64) {
			work.push((chunk.len() as u64 * 257, Work::Unknown { ids: chunk.to_vec(), maxlen: 1 }));
		}
		for id in &deep_unknown {
			work.push((66_000, Work::Unknown { ids: vec![*id], maxlen: 2 }));
		}
	}
	// Heaviest first (deterministic: cost is a function of the generated values only); results are
	// re-ordered by their position in the table afterwards.
	let mut order: Vec<usize> = (0..work.len()).collect();
	let heavy = |w: &Work| -> u8 {
		match w {
			Work::Case { mutated, .. } => *mutated as u8,
			_ => 0,
		}
	};
	// cheap items (valid-value oracles on every generated value, short strings, unknown ids) first,
	// so that a wall-clock cap can only cut into the malformed-input suites
	order.sort_by(|a, b| heavy(&work[*a].1).cmp(&heavy(&work[*b].1)).then(work[*b].0.cmp(&work[*a].0)).then(a.cmp(b)));
	let items: Vec<(usize, Work)> = order.iter().map(|i| (*i, work[*i].1.clone())).collect();

	// ---- run ----
	let collect = cfg.collect_digests;
	let results = par::map(&items, args.threads, |_, (_, w)| -> Option<(CaseOut, f64)> {
		if Instant::now() >= deadline {
			return None;
		}
		let t0 = Instant::now();
		let out = match w {
			Work::Case { t, idx, mutated } => table[*t].run_case(*idx, *mutated, &cfg),
			Work::Short { t } => table[*t].run_short(&cfg),
			Work::Unknown { ids, maxlen } => run_unknown(ids, *maxlen, collect),
		};
		Some((out, t0.elapsed().as_secs_f64()))
	});
	let too_short = run_too_short();

	// ---- collect (in table order) ----
	let mut by_pos: Vec<Option<Result<Option<(CaseOut, f64)>, String>>> = (0..work.len()).map(|_| None).collect();
	for ((pos, _), r) in items.iter().zip(results.into_iter()) {
		by_pos[*pos] = Some(r);
	}
	let mut per_type: Vec<Stats> = table.iter().map(|_| Stats::default()).collect();
	let mut unknown_stats = too_short.stats.clone();
	let mut viols: Vec<Viol> = too_short.viols.clone();
	let mut skipped = 0u64;
	let mut digests: Vec<u64> = Vec::new();
	let mut samples: Vec<Value> = Vec::new();
	let mut machinery: Vec<String> = Vec::new();
	let mut timings: Vec<(f64, usize)> = Vec::new();
	for (pos, r) in by_pos.into_iter().enumerate() {
		let w = &work[pos].1;
		match r.expect("every work item has a result") {
			Ok(None) => skipped += 1,
			Ok(Some((mut out, secs))) => {
				timings.push((secs, pos));
				if let Some(e) = out.machinery_error.take() {
					machinery.push(e);
				}
				digests.append(&mut out.stats.ok_digests);
				match w {
					Work::Case { t, .. } | Work::Short { t } => per_type[*t].merge(&out.stats),
					Work::Unknown { .. } => unknown_stats.merge(&out.stats),
				}
				viols.extend(out.viols);
				if let Some(s) = out.sample {
					// a few samples per type: first values and the first with the malformed suite
					if let Work::Case { idx, mutated, .. } = w {
						if *idx < 1 || (*mutated && samples.len() < 200 && *idx % 97 == 1) {
							samples.push(s);
						}
					}
				}
			},
			Err(p) => {
				// a panic that escaped the per-input guards
				let (tname, vidx) = match w {
					Work::Case { t, idx, .. } => (table[*t].name().to_string(), Some(*idx)),
					Work::Short { t } => (table[*t].name().to_string(), None),
					Work::Unknown { .. } => ("unknown-type".to_string(), None),
				};
				viols.push(Viol { oracle: "no-panic".into(), tname, vidx, check: "value".into(), input: vec![], detail: format!("panic outside the per-input guards: {}", p) });
			},
		}
	}
	if !machinery.is_empty() {
		cli::die(&format!("{} generator errors, first: {}", machinery.len(), machinery[0]));
	}
	let capped = skipped > 0;
	if args.opt("timing").is_some() {
		timings.sort_by(|a, b| b.0.partial_cmp(&a.0).unwrap());
		for (secs, pos) in timings.iter().take(25) {
			let d = match &work[*pos].1 {
				Work::Case { t, idx, mutated } => format!("{} value {} mutated {} len {}", table[*t].name(), idx, mutated, table[*t].encoded_len(*idx)),
				Work::Short { t } => format!("{} short strings", table[*t].name()),
				Work::Unknown { ids, maxlen } => format!("unknown ids {}.. maxlen {}", ids[0], maxlen),
			};
			eprintln!("timing {:8.3}s  est {:>12}  {}", secs, work[*pos].0, d);
		}
		eprintln!("timing total item seconds {:.1}", timings.iter().map(|t| t.0).sum::<f64>());
	}
	digests.sort_unstable();
	digests.dedup();

	// ---- evidence ----
	let mut total = Stats::default();
	for s in &per_type {
		total.merge(s);
	}
	total.merge(&unknown_stats);
	ev.set("evaluations", total.evaluations());
	ev.set("distinct_nontrivial", digests.len() as u64);
	ev.set(
		"rule",
		"distinct (message type, input bytes) pairs that decoded successfully, over every evaluated input: constructed encodings, all their prefixes, single-byte substitutions, extensions, TLV probes, all strings of length <= 2 per type id (64-bit digests, sorted and de-duplicated)",
	);
	ev.set("exhaustive", !capped && only.is_none());
	ev.set("capped", capped);
	ev.set("work_items", work.len() as u64);
	ev.set("work_items_skipped_by_wall_cap", skipped);
	ev.set("decode_ok", total.decode_ok());
	ev.set("decode_err", total.evaluations() - total.decode_ok());
	ev.set("message_types", table.len() as u64);
	ev.set("generated_values", total.values);
	ev.set("values_with_malformed_suite", total.values_mutated);
	ev.set("large_values_over_16KiB", total.large_values);
	ev.set("mutated_ok_to_different_message", total.changed_ok);
	ev.set("accepted_noncanonical_inputs", total.noncanonical_ok);
	ev.set("tlv_records_in_generated_encodings", total.tlv_records_seen);
	ev.set("wire_unknown_odd_ignored", unknown_stats.wire_unknown_odd);
	ev.set("wire_unknown_even_flagged", unknown_stats.wire_unknown_even);
	ev.set("unknown_type_ids", all_unknown.len() as u64);
	ev.set("unknown_type_ids_with_all_2_byte_payloads", deep_unknown.len() as u64);
	ev.set("reads_reaching_exactly_the_declared_length", total.max_consumed_eq_limit);
	ev.set("raw_violation_count", total.violations);
	let mut by_class = serde_map();
	for i in 0..NCLASS {
		by_class.insert(CLASS_NAMES[i].to_string(), json!({"ok": total.ok[i], "err": total.err[i]}));
	}
	ev.set("by_input_class", Value::Object(by_class));
	let mut by_err = serde_map();
	for i in 0..8 {
		by_err.insert(ERR_NAMES[i].to_string(), json!(total.errs[i]));
	}
	ev.set("decode_errors_by_variant", Value::Object(by_err));
	let mut types_json = serde_map();
	let mut full_products: Vec<&str> = Vec::new();
	let mut covers: Vec<&str> = Vec::new();
	for (t, r) in table.iter().enumerate() {
		let s = &per_type[t];
		let mut info = r.info();
		if info["full_product"].as_bool() == Some(true) {
			full_products.push(r.name());
		} else {
			covers.push(r.name());
		}
		let o = info.as_object_mut().unwrap();
		o.insert("evaluations".into(), json!(s.evaluations()));
		o.insert("decode_ok".into(), json!(s.decode_ok()));
		o.insert("values_with_malformed_suite".into(), json!(s.values_mutated));
		o.insert("large_values".into(), json!(s.large_values));
		o.insert("truncation_ok".into(), json!(s.ok[Class::Trunc as usize]));
		o.insert("truncation_err".into(), json!(s.err[Class::Trunc as usize]));
		o.insert("substitution_ok".into(), json!(s.ok[Class::Subst as usize]));
		o.insert("substitution_err".into(), json!(s.err[Class::Subst as usize]));
		o.insert("tlv_odd_ignored".into(), json!(s.ok[Class::TlvOdd as usize]));
		o.insert("tlv_even_rejected".into(), json!(s.err[Class::TlvEven as usize]));
		o.insert("nonminimal_rejected".into(), json!(s.err[Class::NonMin as usize]));
		o.insert("out_of_range_rejected".into(), json!(s.err[Class::Reject as usize]));
		o.insert("short_strings_ok".into(), json!(s.ok[Class::Short as usize]));
		types_json.insert(r.name().to_string(), info);
	}
	ev.set("per_type", Value::Object(types_json));
	ev.set("types_enumerated_as_full_product", json!(full_products));
	ev.set("types_enumerated_as_structural_cover", json!(covers));
	ev.set(
		"bounds",
		json!({
			"cap_values_per_type_before_cover": cap,
			"max_values_with_malformed_suite_per_type": cfg.max_mutated_per_type,
			"substitutions_per_offset": if cfg.subst_all { "all 255 other values + 0xffff pair" } else { "8 single-bit flips + 0xffff pair" },
			"all_offsets_up_to_len": cfg.dense_limit,
			"offsets_for_longer_encodings": cfg.sparse_offsets,
			"truncations": "every prefix of every encoding up to all_offsets_up_to_len that gets the malformed suite; for longer encodings the prefix lengths of the sparse offset set (head, tail, evenly spaced middle)",
			"extensions": if cfg.thorough { "all 256 one-byte, 64 + 1240 two-byte" } else { "all 256 one-byte, 64 two-byte" },
			"short_strings": "all byte strings of length <= 2 after every known type id (codec and dispatch) and after 13 unknown ids; all of length <= 1 after every other id below 1100 and the region boundaries",
			"uniform_strings": "per type, b^L for every byte b and L in 3..=160, every 13th length up to 1500, 4095, 4096, 4097, 32768, 65533",
			"wall_cap_s": wall_cap,
		}),
	);
	ev.set("generation_s", (gen_s * 1000.0).round() / 1000.0);
	ev.set("outside_domain_observations", types::outside_domain_observations());
	ev.assume("secp256k1 point / signature parsing and rust-bitcoin consensus (de)serialisation of Transaction / Witness are trusted components behind the codecs");
	ev.assume("the domain of 'messages the library can construct' is restricted to messages that fit BOLT-1's 65535 bytes, ChannelUpdate.message_flags with the must_be_one bit set, blinded paths with 1..=255 hops, excess_address_data that starts with an unknown address type (what the library itself produces)");
	ev.assume("an unknown even message type is turned into an error by PeerManager (peer_handler.rs, `Message::Unknown(_) if message.is_even()` => disconnect); this engine checks that wire::read classifies it as unknown-and-even, the disconnect itself is exercised by C15");
	ev.assume("lightning is built without --cfg simple_close: closing_complete / closing_sig have codecs (checked) but no dispatch arm (checked to come out as unknown even types 40 / 41)");
	ev.assume("hook H2 (wire::verif_wire_roundtrip, feature _verif_hooks) is a faithful wrapper of wire::read + Message::type_id/write");
	for s in samples.into_iter().take(40) {
		ev.sample(s, 40);
	}

	// ---- vacuity guards ----
	if only.is_none() && !capped && total.violations == 0 {
		let mut problems: Vec<String> = Vec::new();
		for (t, r) in table.iter().enumerate() {
			let s = &per_type[t];
			if r.n_values() == 0 || s.ok[Class::Valid as usize] < 2 * r.n_values() as u64 {
				problems.push(format!("{}: not every generated value decoded (valid ok {} for {} values)", r.name(), s.ok[Class::Valid as usize], r.n_values()));
			}
			if s.values_mutated == 0 {
				problems.push(format!("{}: no value got the malformed-input suite", r.name()));
			}
			if s.err[Class::Trunc as usize] == 0 {
				problems.push(format!("{}: no truncation was rejected", r.name()));
			}
			if s.ok[Class::Subst as usize] == 0 {
				problems.push(format!("{}: substitutions never decoded", r.name()));
			}
			if r.has_tlv() && (s.ok[Class::TlvOdd as usize] == 0 || s.err[Class::TlvEven as usize] == 0 || s.err[Class::NonMin as usize] == 0) {
				problems.push(format!("{}: TLV probes vacuous (odd ok {}, even err {}, non-minimal err {})", r.name(), s.ok[Class::TlvOdd as usize], s.err[Class::TlvEven as usize], s.err[Class::NonMin as usize]));
			}
			if r.n_rejects() > 0 && s.err[Class::Reject as usize] == 0 {
				problems.push(format!("{}: no out-of-range probe applied", r.name()));
			}
			if r.dispatched() && s.ok[Class::Wire as usize] == 0 {
				problems.push(format!("{}: never decoded through wire::read", r.name()));
			}
		}
		if total.err[Class::Subst as usize] == 0 || total.err[Class::Ext as usize] == 0 || total.ok[Class::Ext as usize] == 0 {
			problems.push("substitutions / extensions never rejected (or extensions never accepted)".into());
		}
		if total.changed_ok == 0 {
			problems.push("no mutated input decoded to a different message".into());
		}
		if total.ok[Class::Trunc as usize] == 0 {
			problems.push("no truncation decoded successfully (optional trailing fields never exercised)".into());
		}
		if total.ok[Class::Short as usize] == 0 {
			problems.push("no short string decoded successfully".into());
		}
		if total.errs[1] == 0 || total.errs[2] == 0 || total.errs[3] == 0 || total.errs[4] == 0 || total.errs[0] == 0 || total.errs[6] == 0 {
			problems.push(format!("a DecodeError variant was never produced: {:?}", total.errs));
		}
		if unknown_stats.wire_unknown_odd == 0 || unknown_stats.wire_unknown_even == 0 {
			problems.push("unknown odd / even type ids never observed through wire::read".into());
		}
		if total.tlv_records_seen == 0 || total.max_consumed_eq_limit == 0 || total.large_values == 0 {
			problems.push("no TLV record / no full-length read / no large value generated".into());
		}
		if !problems.is_empty() {
			cli::die(&format!("vacuity guard: {}", problems.join("; ")));
		}
	}

	// ---- violations ----
	// keep the first few per (oracle, type) in table order
	let mut kept: Vec<Violation> = Vec::new();
	let mut per_key: BTreeMap<(String, String), usize> = BTreeMap::new();
	for v in &viols {
		let k = (v.oracle.clone(), v.tname.clone());
		let c = per_key.entry(k).or_insert(0);
		*c += 1;
		if *c <= 2 && kept.len() < 400 {
			kept.push(to_violation(v, tier, cap));
		}
	}
	let mut oracle_counts = serde_map();
	for ((o, t), c) in &per_key {
		oracle_counts.insert(format!("{}|{}", o, t), json!(*c));
	}
	ev.set("violations_by_oracle_and_type", Value::Object(oracle_counts));
	eprintln!(
		"C13 {}: {} types, {} values ({} with malformed suite), {} evaluations, {} ok, {} distinct ok, {} violations, capped={} in {:.1}s",
		tier.name(),
		table.len(),
		total.values,
		total.values_mutated,
		total.evaluations(),
		total.decode_ok(),
		digests.len(),
		viols.len(),
		capped,
		start.elapsed().as_secs_f64()
	);
	std::process::exit(findings::conclude(ID, &kept, &mut ev));
}

fn serde_map() -> mc_common::serde_json::Map<String, Value> {
	mc_common::serde_json::Map::new()
}
