//! Tiny per-field domains.
use bitcoin::constants::ChainHash;
use bitcoin::hashes::Hash;
use bitcoin::secp256k1::ecdsa::Signature;
use bitcoin::secp256k1::{PublicKey, Secp256k1, SecretKey};
use bitcoin::{ScriptBuf, Txid};
use lightning::ln::types::ChannelId;
use lightning::routing::gossip::NodeId;
use lightning_types::features::{ChannelFeatures, ChannelTypeFeatures, InitFeatures, NodeFeatures};
use std::sync::OnceLock;

pub fn u8s() -> Vec<u8> {
	vec![0, 1, u8::MAX]
}
pub fn u16s() -> Vec<u16> {
	vec![0, 1, u16::MAX]
}
pub fn u32s() -> Vec<u32> {
	vec![0, 1, u32::MAX]
}
pub fn u64s() -> Vec<u64> {
	vec![0, 1, u64::MAX]
}
pub fn i64s() -> Vec<i64> {
	vec![0, 1, -1, i64::MAX, i64::MIN]
}
pub fn bools() -> Vec<bool> {
	vec![false, true]
}
pub fn b32s() -> Vec<[u8; 32]> {
	vec![[0u8; 32], [0xffu8; 32]]
}

static PKS: OnceLock<[PublicKey; 2]> = OnceLock::new();
pub fn pk(i: usize) -> PublicKey {
	PKS.get_or_init(|| {
		let secp = Secp256k1::new();
		[
			PublicKey::from_secret_key(&secp, &SecretKey::from_slice(&[1u8; 32]).unwrap()),
			PublicKey::from_secret_key(&secp, &SecretKey::from_slice(&[0xfeu8; 32]).unwrap()),
		]
	})[i]
}
pub fn pks() -> Vec<PublicKey> {
	vec![pk(0), pk(1)]
}
/// Two syntactically valid compact signatures: (r, s) = (0x0101.., 0x0101..) and (n-1, n-1).
pub fn sig(i: usize) -> Signature {
	if i == 0 {
		Signature::from_compact(&[1u8; 64]).unwrap()
	} else {
		let n1: [u8; 32] = [
			0xff, 0xff, 0xff, 0xff, 0xff, 0xff, 0xff, 0xff, 0xff, 0xff, 0xff, 0xff, 0xff, 0xff, 0xff, 0xfe, 0xba, 0xae, 0xdc,
			0xe6, 0xaf, 0x48, 0xa0, 0x3b, 0xbf, 0xd2, 0x5e, 0x8c, 0xd0, 0x36, 0x41, 0x40,
		];
		let mut b = [0u8; 64];
		b[..32].copy_from_slice(&n1);
		b[32..].copy_from_slice(&n1);
		Signature::from_compact(&b).unwrap()
	}
}
pub fn sigs() -> Vec<Signature> {
	vec![sig(0), sig(1)]
}
pub fn cids() -> Vec<ChannelId> {
	vec![ChannelId([0u8; 32]), ChannelId([0xffu8; 32])]
}
pub fn txids() -> Vec<Txid> {
	vec![Txid::from_byte_array([0u8; 32]), Txid::from_byte_array([0xffu8; 32])]
}
pub fn chains() -> Vec<ChainHash> {
	vec![ChainHash::from([0u8; 32]), ChainHash::BITCOIN, ChainHash::from([0xffu8; 32])]
}
pub fn node_ids() -> Vec<NodeId> {
	// NodeId is 33 opaque bytes on the wire (not validated as a point).
	vec![NodeId::from_pubkey(&pk(0)), NodeId::from_slice(&[0xffu8; 33]).unwrap(), NodeId::from_slice(&[0u8; 33]).unwrap()]
}
pub fn scripts() -> Vec<ScriptBuf> {
	let mut p2wpkh = vec![0x00, 0x14];
	p2wpkh.extend_from_slice(&[0x42; 20]);
	vec![ScriptBuf::new(), ScriptBuf::from(vec![0x51]), ScriptBuf::from(p2wpkh)]
}
pub fn opt<T: Clone>(v: Vec<T>) -> Vec<Option<T>> {
	let mut o = vec![None];
	o.extend(v.into_iter().map(Some));
	o
}
pub fn unit_opts() -> Vec<Option<()>> {
	vec![None, Some(())]
}

/// Feature vectors as little-endian flag bytes: empty, one odd bit, one even (known) bit, a
/// two-byte vector, a long vector with the top bit of byte 32 set, one with trailing (wire:
/// leading) zero bytes.
pub fn feature_flags() -> Vec<Vec<u8>> {
	let mut long = vec![0u8; 33];
	long[32] = 0x80;
	long[0] = 0x02;
	vec![vec![], vec![0x02], vec![0x01], vec![0x00, 0x10], long, vec![0x02, 0x00, 0x00]]
}
pub fn init_features() -> Vec<InitFeatures> {
	feature_flags().into_iter().map(InitFeatures::from_le_bytes).collect()
}
pub fn node_features() -> Vec<NodeFeatures> {
	feature_flags().into_iter().map(NodeFeatures::from_le_bytes).collect()
}
pub fn channel_features() -> Vec<ChannelFeatures> {
	feature_flags().into_iter().map(ChannelFeatures::from_le_bytes).collect()
}
pub fn channel_types() -> Vec<Option<ChannelTypeFeatures>> {
	let mut long = vec![0u8; 33];
	long[32] = 0x80;
	vec![
		None,
		Some(ChannelTypeFeatures::empty()),
		Some(ChannelTypeFeatures::only_static_remote_key()),
		Some(ChannelTypeFeatures::anchors_zero_htlc_fee_and_dependencies()),
		Some(ChannelTypeFeatures::from_le_bytes(vec![0x02])),
		Some(ChannelTypeFeatures::from_le_bytes(long)),
	]
}
