//! Per-type driver: valid-value oracles, the malformed-input suite, replay.
use crate::check::*;
use crate::gen::Generated;
use crate::tlv;
use mc_common::json;
use mc_common::par::guarded;
use mc_common::Value;

/// A fixed-offset "this must be rejected" probe: the bytes at `off` are replaced by `bytes`.
#[derive(Clone)]
pub struct Reject {
	pub name: &'static str,
	pub off: usize,
	pub bytes: Vec<u8>,
}

pub struct Spec<M> {
	pub name: &'static str,
	pub type_id: u16,
	/// Whether `wire::read` has an arm for this id in this build (ClosingComplete / ClosingSig are
	/// behind `cfg(simple_close)`).
	pub dispatched: bool,
	/// `Some(strip)` for messages that end in a TLV stream; `strip` clears every TLV field so that
	/// the length of the stripped encoding is the offset of the TLV stream.
	pub strip: Option<fn(&M) -> M>,
	pub known_tlv_types: &'static [u64],
	/// `absorb_ok(value, encoding, offset)`: a substitution at `offset` may legitimately decode to
	/// the very same message (padding bytes, redundant fields). Everywhere else every byte of a
	/// canonical encoding must matter.
	pub absorb_ok: Option<fn(&M, &[u8], usize) -> bool>,
	pub rejects: Vec<Reject>,
	pub gen: Generated<M>,
}

#[derive(Clone)]
pub struct Cfg {
	pub thorough: bool,
	/// Run the malformed-input suite on every generated value (else only on the representative
	/// subset).
	pub mutate_all: bool,
	/// Upper bound on representative values per type that get the malformed-input suite.
	pub max_mutated_per_type: usize,
	/// All 255 substitutions per offset (else the 8 single-bit flips).
	pub subst_all: bool,
	/// Encodings longer than this get the substitution sweep on a deterministic offset subset.
	pub dense_limit: usize,
	pub sparse_offsets: usize,
	pub collect_digests: bool,
}

pub struct CaseOut {
	pub stats: Stats,
	pub viols: Vec<Viol>,
	pub sample: Option<Value>,
	pub machinery_error: Option<String>,
}

pub trait TypeRunner: Send + Sync {
	fn name(&self) -> &'static str;
	fn type_id(&self) -> u16;
	fn dispatched(&self) -> bool;
	fn has_tlv(&self) -> bool;
	fn n_values(&self) -> usize;
	fn n_rejects(&self) -> usize;
	fn encoded_len(&self, idx: usize) -> usize;
	fn mutated_indices(&self, cfg: &Cfg) -> Vec<usize>;
	fn info(&self) -> Value;
	fn run_case(&self, idx: usize, mutated: bool, cfg: &Cfg) -> CaseOut;
	fn run_short(&self, cfg: &Cfg) -> CaseOut;
	fn replay(&self, check: &str, vidx: Option<usize>, input: &[u8]) -> CaseOut;
}

fn with_poison(b: &[u8]) -> Vec<u8> {
	let mut v = Vec::with_capacity(b.len() + POISON.len());
	v.extend_from_slice(b);
	v.extend_from_slice(&POISON);
	v
}

/// Offsets that get the substitution sweep.
pub fn offsets(len: usize, cfg: &Cfg) -> Vec<usize> {
	if len <= cfg.dense_limit {
		return (0..len).collect();
	}
	// head, tail and an evenly spaced selection of the middle
	let head = cfg.sparse_offsets / 2;
	let tail = cfg.sparse_offsets / 4;
	let mid = cfg.sparse_offsets - head - tail;
	let mut v: Vec<usize> = (0..head).collect();
	let span = len - head - tail;
	for k in 0..mid {
		v.push(head + k * span / mid);
	}
	v.extend(len - tail..len);
	v.dedup();
	v
}

impl<M: Msg> Spec<M> {
	fn mutated_set(&self, cfg: &Cfg) -> Vec<usize> {
		let cand: Vec<usize> =
			(0..self.gen.values.len()).filter(|i| cfg.mutate_all || self.gen.values[*i].repr).collect();
		if cand.len() <= cfg.max_mutated_per_type {
			return cand;
		}
		let n = cfg.max_mutated_per_type;
		(0..n).map(|k| cand[k * cand.len() / n]).collect()
	}

	/// Oracles on a constructed value: encode -> decode -> `==`, re-encode -> identical bytes, the
	/// same through `FixedLengthReader` with poison behind, and through the type-id dispatch.
	fn check_value(&self, cx: &mut Ctx, v: &M, e: &[u8]) {
		let cls = Class::Valid as usize;
		match dec_slice::<M>(e) {
			Dec::Ok(d) => {
				cx.stats.ok[cls] += 1;
				if cx.collect_digests {
					cx.stats.ok_digests.push(fnv(&[cx.tname.as_bytes(), e]));
				}
				if &d != v {
					cx.viol("roundtrip-equal", "value", e, format!("decode(encode(m)) != m: constructed {:?} ; decoded {:?}", v, d));
				}
				match guarded(|| d.encode()) {
					Ok(e2) => {
						if e2 != e {
							cx.viol("reencode-identical", "value", e, format!("re-encoding the decoded message gives {} instead of {}", short_hex(&e2), short_hex(e)));
						}
					},
					Err(p) => cx.viol("reencode-no-panic", "value", e, format!("re-encoding panicked: {}", p)),
				}
			},
			Dec::Err(er) => {
				cx.stats.err[cls] += 1;
				cx.viol("roundtrip-decodes", "value", e, format!("the encoding of constructed {:?} does not decode: {:?}", v, er));
			},
			Dec::Panic(p) => {
				cx.stats.err[cls] += 1;
				cx.viol("no-panic", "value", e, format!("decoding a valid encoding panicked: {}", p));
			},
		}
		// Same through a length-limited reader with poison behind the message.
		let buf = with_poison(e);
		examine::<M>(cx, Class::Valid, &buf, e.len(), Expect::MustEq("roundtrip-equal", v));
		// Type-id dispatch.
		if v.type_id() != self.type_id {
			cx.viol("wire-type-id", "value", e, format!("type_id() is {} but the table says {}", v.type_id(), self.type_id));
		}
		wire_consistent::<M>(cx, self.type_id, self.dispatched, e);
	}

	fn tlv_suite(&self, cx: &mut Ctx, v: &M, e: &[u8]) {
		let strip = match self.strip {
			Some(s) => s,
			None => return,
		};
		let stripped = strip(v).encode();
		let start = stripped.len();
		if e.len() < start || e[..start] != stripped[..] {
			cx.viol("tlv-stream-wellformed", "value", e, format!("the encoding without optional TLVs ({}) is not a prefix of the encoding", short_hex(&stripped)));
			return;
		}
		let recs = match tlv::parse_stream(e, start) {
			Some(r) => r,
			None => {
				cx.viol("tlv-stream-wellformed", "value", e, format!("bytes from offset {} are not a well-formed TLV stream (minimal BigSize, increasing types, in-bounds lengths)", start));
				return;
			},
		};
		cx.stats.tlv_records_seen += recs.len() as u64;
		let try_one = |cx: &mut Ctx, class: Class, bytes: Vec<u8>, exp: Expect<M>| {
			let limit = bytes.len();
			let buf = with_poison(&bytes);
			examine::<M>(cx, class, &buf, limit, exp);
		};
		let cat = |a: &[u8], b: &[u8]| -> Vec<u8> {
			let mut x = a.to_vec();
			x.extend_from_slice(b);
			x
		};
		let last = recs.last().map(|r| r.typ);
		// Appended unknown records, types above everything present, in every BigSize width.
		for (odd, even) in [(251u64, 250u64), (65521, 65520), (4_000_000_001, 4_000_000_000), (0x1_0000_0001, 0x1_0000_0000)] {
			if let Some(l) = last {
				if even <= l {
					continue;
				}
			}
			if self.known_tlv_types.contains(&odd) || self.known_tlv_types.contains(&even) {
				continue;
			}
			for payload in [&[][..], &[0xab, 0xcd, 0xef][..]] {
				try_one(cx, Class::TlvOdd, cat(e, &tlv::record(odd, payload)), Expect::MustEq("tlv-unknown-odd-ignored", v));
				try_one(cx, Class::TlvEven, cat(e, &tlv::record(even, payload)), Expect::MustErr("tlv-unknown-even-rejected"));
				// the same odd record with a non-minimal type / non-minimal length
				for nm in tlv::bigsize_nonminimal(odd) {
					let mut rec = nm.clone();
					rec.extend_from_slice(&tlv::bigsize(payload.len() as u64));
					rec.extend_from_slice(payload);
					try_one(cx, Class::NonMin, cat(e, &rec), Expect::MustErr("nonminimal-bigsize-rejected"));
				}
				for nm in tlv::bigsize_nonminimal(payload.len() as u64) {
					let mut rec = tlv::bigsize(odd);
					rec.extend_from_slice(&nm);
					rec.extend_from_slice(payload);
					try_one(cx, Class::NonMin, cat(e, &rec), Expect::MustErr("nonminimal-bigsize-rejected"));
				}
			}
		}
		// Unknown records inserted at every position of the stream (smallest unknown odd / even
		// type that keeps the stream strictly increasing).
		for k in 0..=recs.len() {
			let lo = if k == 0 { 0 } else { recs[k - 1].typ + 1 };
			let hi = if k == recs.len() { u64::MAX } else { recs[k].typ };
			let at = if k == recs.len() { e.len() } else { recs[k].typ_off };
			for parity in [1u64, 0u64] {
				let mut t = lo + ((lo + parity) % 2);
				let mut found = None;
				while t < hi && t < lo + 64 {
					if !self.known_tlv_types.contains(&t) {
						found = Some(t);
						break;
					}
					t += 2;
				}
				if let Some(t) = found {
					let bytes = tlv::splice(e, at, 0, &tlv::record(t, &[0x11]));
					if parity == 1 {
						try_one(cx, Class::TlvOdd, bytes, Expect::MustEq("tlv-unknown-odd-ignored", v));
					} else {
						try_one(cx, Class::TlvEven, bytes, Expect::MustErr("tlv-unknown-even-rejected"));
					}
				}
			}
		}
		// Every present record: non-minimal type, non-minimal length, declared length +-1.
		for r in &recs {
			for nm in tlv::bigsize_nonminimal(r.typ) {
				try_one(cx, Class::NonMin, tlv::splice(e, r.typ_off, r.typ_len, &nm), Expect::MustErr("nonminimal-bigsize-rejected"));
			}
			for nm in tlv::bigsize_nonminimal(r.len) {
				try_one(cx, Class::NonMin, tlv::splice(e, r.len_off, r.len_len, &nm), Expect::MustErr("nonminimal-bigsize-rejected"));
			}
			if r.len > 0 {
				try_one(cx, Class::DecLen, tlv::splice(e, r.len_off, r.len_len, &tlv::bigsize(r.len - 1)), Expect::NotEq("tlv-declared-length-respected", v));
			}
			try_one(cx, Class::DecLen, tlv::splice(e, r.len_off, r.len_len, &tlv::bigsize(r.len + 1)), Expect::NotEq("tlv-declared-length-respected", v));
		}
	}

	fn mutation_suite(&self, cx: &mut Ctx, v: &M, e: &[u8], cfg: &Cfg) {
		let len = e.len();
		let mut buf = with_poison(e);
		// 1. every prefix (for encodings beyond `dense_limit`: the prefix lengths of the sparse offset
		//    set - head, tail, evenly spaced middle)
		let big = len > cfg.dense_limit;
		let wire_too = !big;
		for i in offsets(len, cfg) {
			examine::<M>(cx, Class::Trunc, &buf, i, Expect::Canon);
			if wire_too {
				wire_consistent::<M>(cx, self.type_id, self.dispatched, &e[..i]);
			}
		}
		// 2. single-byte substitutions (and the two-byte 0xffff "extended collection length" marker)
		for off in offsets(len, cfg) {
			let orig = buf[off];
			let may_absorb = |o: usize| self.absorb_ok.map(|f| f(v, e, o)).unwrap_or(false);
			let allowed = may_absorb(off) || (off + 1 < len && may_absorb(off + 1));
			let one = |cx: &mut Ctx, buf: &[u8]| {
				let exp = if allowed { Expect::Any } else { Expect::NotEq("substitution-absorbed", v) };
				if let Some(x) = examine::<M>(cx, Class::Subst, buf, len, exp) {
					if &x != v {
						cx.stats.changed_ok += 1;
					}
				}
			};
			if cfg.subst_all {
				for nv in 0..=255u8 {
					if nv != orig {
						buf[off] = nv;
						one(cx, &buf);
					}
				}
			} else {
				for bit in 0..8 {
					buf[off] = orig ^ (1 << bit);
					one(cx, &buf);
				}
				// off-by-one in every length / count / type byte (where it is not already a single-bit flip)
				for nv in [orig.wrapping_sub(1), orig.wrapping_add(1)] {
					if (nv ^ orig).count_ones() != 1 {
						buf[off] = nv;
						one(cx, &buf);
					}
				}
			}
			buf[off] = orig;
			if off + 1 < len && !(buf[off] == 0xff && buf[off + 1] == 0xff) {
				let o1 = buf[off + 1];
				buf[off] = 0xff;
				buf[off + 1] = 0xff;
				one(cx, &buf);
				buf[off] = orig;
				buf[off + 1] = o1;
			}
		}
		// 3. one- and two-byte extensions
		if len + 2 + 2 <= MAX_MSG + 2 {
			const A: [u8; 8] = [0x00, 0x01, 0x02, 0x03, 0xfc, 0xfd, 0xfe, 0xff];
			let mut ext = e.to_vec();
			ext.push(0);
			ext.extend_from_slice(&POISON);
			for b in 0..=255u8 {
				if big && !A.contains(&b) {
					continue;
				}
				ext[len] = b;
				examine::<M>(cx, Class::Ext, &ext, len + 1, Expect::Any);
			}
			let mut ext2 = e.to_vec();
			ext2.extend_from_slice(&[0, 0]);
			ext2.extend_from_slice(&POISON);
			let mut pairs: Vec<(u8, u8)> = Vec::new();
			for a in A {
				for b in A {
					pairs.push((a, b));
				}
			}
			if cfg.thorough && !big {
				for a in 0..=255u8 {
					for b in [0x00u8, 0x01, 0x02, 0xfd, 0xff] {
						if !(A.contains(&a) && A.contains(&b)) {
							pairs.push((a, b));
						}
					}
				}
			}
			for (a, b) in pairs {
				ext2[len] = a;
				ext2[len + 1] = b;
				examine::<M>(cx, Class::Ext, &ext2, len + 2, Expect::Any);
			}
		}
		// 4. TLV-stream probes
		self.tlv_suite(cx, v, e);
		// 5. out-of-range probes at fixed offsets
		for r in &self.rejects {
			if len >= r.off + r.bytes.len() && e[r.off..r.off + r.bytes.len()] != r.bytes[..] {
				let bytes = tlv::splice(e, r.off, r.bytes.len(), &r.bytes);
				let b = with_poison(&bytes);
				examine::<M>(cx, Class::Reject, &b, bytes.len(), Expect::MustErr("out-of-range-rejected"));
			}
		}
	}
}

impl<M: Msg> TypeRunner for Spec<M> {
	fn name(&self) -> &'static str {
		self.name
	}
	fn type_id(&self) -> u16 {
		self.type_id
	}
	fn dispatched(&self) -> bool {
		self.dispatched
	}
	fn has_tlv(&self) -> bool {
		self.strip.is_some()
	}
	fn n_values(&self) -> usize {
		self.gen.values.len()
	}
	fn n_rejects(&self) -> usize {
		self.rejects.len()
	}
	fn encoded_len(&self, idx: usize) -> usize {
		// a panic in the encoder is reported by run_case (oracle no-panic); the cost estimate just needs a number
		guarded(|| self.gen.values[idx].value.serialized_length()).unwrap_or(1)
	}
	fn mutated_indices(&self, cfg: &Cfg) -> Vec<usize> {
		self.mutated_set(cfg)
	}
	fn info(&self) -> Value {
		json!({
			"type_id": self.type_id,
			"wire_dispatch_arm": self.dispatched,
			"tlv_stream": self.strip.is_some(),
			"generated_values": self.gen.values.len(),
			"full_product": self.gen.full_product,
			"product_size": self.gen.product_size.to_string(),
			"dimensions": self.gen.dims.iter().map(|(n, k, s)| format!("{}:{}{}", n, k, if *s { "s" } else { "" })).collect::<Vec<_>>(),
			"out_of_range_probes": self.rejects.iter().map(|r| r.name).collect::<Vec<_>>(),
		})
	}

	fn run_case(&self, idx: usize, mutated: bool, cfg: &Cfg) -> CaseOut {
		let val = &self.gen.values[idx];
		let v = &val.value;
		let mut cx = Ctx::new(self.name, Some(idx), cfg.collect_digests);
		cx.stats.values += 1;
		let e = match guarded(|| v.encode()) {
			Ok(e) => e,
			Err(p) => {
				cx.viol("encode-no-panic", "value", &[], format!("encoding constructed {:?} panicked: {}", v, p));
				return CaseOut { stats: cx.stats, viols: cx.viols, sample: None, machinery_error: None };
			},
		};
		if e.len() + 2 > MAX_MSG {
			return CaseOut {
				stats: cx.stats,
				viols: cx.viols,
				sample: None,
				machinery_error: Some(format!("generator produced a {} byte {} (choice {:?}), beyond the BOLT-1 limit", e.len() + 2, self.name, val.choice)),
			};
		}
		if e.len() > 16384 {
			cx.stats.large_values += 1;
		}
		self.check_value(&mut cx, v, &e);
		if mutated {
			cx.stats.values_mutated += 1;
			self.mutation_suite(&mut cx, v, &e, cfg);
		}
		let sample = json!({"type": self.name, "value_index": idx, "choice": val.choice, "encoding": short_hex(&e), "malformed_suite": mutated});
		CaseOut { stats: cx.stats, viols: cx.viols, sample: Some(sample), machinery_error: None }
	}

	/// All byte strings of length <= 2 as payload of this type id, through the codec and through
	/// the dispatch.
	fn run_short(&self, cfg: &Cfg) -> CaseOut {
		let mut cx = Ctx::new(self.name, None, cfg.collect_digests);
		let mut buf = vec![0u8; 2];
		buf.extend_from_slice(&POISON);
		examine::<M>(&mut cx, Class::Short, &buf, 0, Expect::Any);
		wire_consistent::<M>(&mut cx, self.type_id, self.dispatched, &[]);
		for a in 0..=255u8 {
			buf[0] = a;
			examine::<M>(&mut cx, Class::Short, &buf, 1, Expect::Any);
			wire_consistent::<M>(&mut cx, self.type_id, self.dispatched, &[a]);
			for b in 0..=255u8 {
				buf[1] = b;
				examine::<M>(&mut cx, Class::Short, &buf, 2, Expect::Any);
				wire_consistent::<M>(&mut cx, self.type_id, self.dispatched, &[a, b]);
			}
		}
		// Uniform strings b^L: every byte value, every length 3..=160, every 13th up to 1500 and the
		// buffer-size / message-size boundaries (all-0xff maximises every length field, all-0x00
		// minimises it).
		let mut lens: Vec<usize> = (3..=160).collect();
		lens.extend((161..=1500).step_by(13));
		lens.extend_from_slice(&[4095, 4096, 4097, 32768, 65533]);
		for b in 0..=255u8 {
			let mut u = vec![b; 65533];
			u.extend_from_slice(&POISON);
			for l in &lens {
				examine::<M>(&mut cx, Class::Uniform, &u, *l, Expect::Any);
			}
		}
		CaseOut { stats: cx.stats, viols: cx.viols, sample: None, machinery_error: None }
	}

	fn replay(&self, check: &str, vidx: Option<usize>, input: &[u8]) -> CaseOut {
		let mut cx = Ctx::new(self.name, vidx, false);
		let orig = vidx.and_then(|i| self.gen.values.get(i)).map(|v| &v.value);
		let buf = with_poison(input);
		let need_orig = || -> &M {
			match orig {
				Some(o) => o,
				None => mc_common::cli::die("replay record needs a value_index that exists for this tier"),
			}
		};
		if check == "value" {
			let v = need_orig();
			match guarded(|| v.encode()) {
				Ok(e) => {
					self.check_value(&mut cx, v, &e);
					// tlv well-formedness is also reported with check "value"
					let mut cx2 = Ctx::new(self.name, vidx, false);
					self.tlv_suite(&mut cx2, v, &e);
					cx.viols.extend(cx2.viols.into_iter().filter(|x| x.oracle == "tlv-stream-wellformed"));
				},
				Err(p) => cx.viol("encode-no-panic", "value", &[], format!("encoding panicked: {}", p)),
			}
		} else if check == "any" {
			examine::<M>(&mut cx, Class::Subst, &buf, input.len(), Expect::Any);
		} else if check == "canon" {
			examine::<M>(&mut cx, Class::Trunc, &buf, input.len(), Expect::Canon);
		} else if check == "wire" {
			if input.len() < 2 {
				mc_common::cli::die("wire replay needs at least the type id");
			}
			wire_consistent::<M>(&mut cx, self.type_id, self.dispatched, &input[2..]);
		} else if let Some(o) = check.strip_prefix("must_err:") {
			examine::<M>(&mut cx, Class::Reject, &buf, input.len(), Expect::MustErr(leak(o)));
		} else if let Some(o) = check.strip_prefix("must_eq:") {
			examine::<M>(&mut cx, Class::TlvOdd, &buf, input.len(), Expect::MustEq(leak(o), need_orig()));
		} else if let Some(o) = check.strip_prefix("not_eq:") {
			examine::<M>(&mut cx, Class::DecLen, &buf, input.len(), Expect::NotEq(leak(o), need_orig()));
		} else {
			mc_common::cli::die(&format!("unknown replay check {:?}", check));
		}
		CaseOut { stats: cx.stats, viols: cx.viols, sample: None, machinery_error: None }
	}
}

fn leak(s: &str) -> &'static str {
	Box::leak(s.to_string().into_boxed_str())
}
