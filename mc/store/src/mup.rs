//! C19 (b): `MonitorUpdatingPersister` crash consistency. Real `ChannelMonitor` update histories
//! from the closed world (mc-world) are persisted through the real `MonitorUpdatingPersister` over
//! the logging, fault-injecting `FaultStore`; for every prefix of the resulting store-operation log,
//! every subset of lazy deletions lost, and a single failing store call at every position, the store
//! is rebuilt and `read_all_channel_monitors_with_updates` must recover a monitor that includes every
//! update reported as persisted and equals the in-memory monitor as of that update or a later one.
use crate::faultstore::{FailMode, Fault, FaultStore, LogEntry};
use lightning::chain::chainmonitor::Persist;
use lightning::ln::types::ChannelId;
use lightning::util::persist::MonitorUpdatingPersister;
use lightning::util::test_channel_signer::TestChannelSigner;
use lightning::util::test_utils::{TestFeeEstimator, TestKeysInterface};
use mc_common::findings::Violation;
use mc_common::{json, par, Value};
use mc_world::base::{McBroadcaster, McLogger};
use mc_world::checks::c01::{user_config, Ct};
use mc_world::persist::{Mirror, MirrorRec, KEEP_ALL};
use mc_world::world::{ClaimPolicy, World};
use std::collections::BTreeMap;
use std::sync::Arc;

type Mup = MonitorUpdatingPersister<Arc<FaultStore>, Arc<McLogger>, Arc<TestKeysInterface>, Arc<TestKeysInterface>, Arc<McBroadcaster>, Arc<TestFeeEstimator>>;

fn keys_for(tag: u8) -> Arc<TestKeysInterface> {
	let mut seed = [tag; 32];
	seed[31] = 1;
	let mut k = TestKeysInterface::new(&seed, bitcoin::Network::Testnet);
	k.disable_all_state_policy_checks = true;
	Arc::new(k)
}

fn new_mup(store: Arc<FaultStore>, tag: u8, max_pending: u64) -> Mup {
	let logger = Arc::new(McLogger::new(b'p'));
	let keys = keys_for(tag);
	MonitorUpdatingPersister::new(store, logger, max_pending, keys.clone(), keys, Arc::new(McBroadcaster::new()), Arc::new(TestFeeEstimator::new(253)))
}

#[derive(Clone, Debug)]
pub struct Hist {
	pub name: &'static str,
	pub ops: Vec<(usize, usize, u64, ClaimPolicy)>,
}

pub struct RunOut {
	pub log: Vec<LogEntry>,
	pub mirror: Vec<MirrorRec>,
	/// in-memory monitor snapshots of node 1 by latest update id (all snapshots with that id)
	pub snaps: BTreeMap<u64, Vec<Arc<Vec<u8>>>>,
	pub cid: ChannelId,
	pub panicked: Option<String>,
	pub store: Arc<FaultStore>,
	pub blocks: Vec<bitcoin::Block>,
}

/// Runs the history on a real two-node world with node 1's persister mirrored into a
/// MonitorUpdatingPersister over a FaultStore (optionally with one failing call).
pub fn run_history(h: &Hist, max_pending: u64, fault: Option<Fault>) -> RunOut {
	KEEP_ALL.store(true, std::sync::atomic::Ordering::Relaxed);
	let store = Arc::new(match fault {
		Some(f) => FaultStore::with_fault(f),
		None => FaultStore::new(),
	});
	let mut w = World::new(vec![user_config(Ct::Static), user_config(Ct::Static)], 253);
	{
		let mup = new_mup(store.clone(), b'B', max_pending);
		let st = store.clone();
		*w.nodes[1].persist.mirror.lock().unwrap() =
			Some(Mirror { persist: Box::new(mup) as Box<dyn Persist<TestChannelSigner> + Send + Sync>, log_len: Box::new(move || st.log_len()) });
	}
	let mut cid = ChannelId([0; 32]);
	let res = par::guarded(|| {
		let c = w.open_channel(0, 1, 1_000_000, 400_000_000);
		for (from, to, amt, pol) in h.ops.iter() {
			w.send_payment(*from, &[(*to, c)], *amt, pol.clone());
			w.run_to_quiescence(400);
		}
		c
	});
	let panicked = match res {
		Ok(c) => {
			cid = c;
			None
		},
		Err(p) => Some(p),
	};
	if panicked.is_some() {
		// the channel id is the one of the only monitor node 1 persisted, if any
		if let Some((c, _)) = w.nodes[1].persist.inner.lock().map(|g| g.history.first().cloned()).unwrap_or(None) {
			cid = c;
		}
	}
	let mut snaps: BTreeMap<u64, Vec<Arc<Vec<u8>>>> = BTreeMap::new();
	if let Ok(g) = w.nodes[1].persist.inner.lock() {
		for (_, s) in g.history.iter() {
			snaps.entry(s.monitor_update_id).or_default().push(s.bytes.clone());
		}
	}
	let mirror = w.nodes[1].persist.mirror_log.lock().map(|g| g.clone()).unwrap_or_default();
	// drop the mirror so that the store Arc is only ours
	if let Ok(mut g) = w.nodes[1].persist.mirror.lock() {
		*g = None;
	}
	let blocks = w.chain.blocks.clone();
	RunOut { log: store.log(), mirror, snaps, cid, panicked, store, blocks }
}

pub struct Stats {
	pub histories: u64,
	pub store_ops: u64,
	pub crash_images: u64,
	pub recoveries: u64,
	pub recoveries_with_updates_applied: u64,
	pub faulted_runs: u64,
	pub faulted_runs_that_aborted: u64,
	pub cleanup_checks: u64,
	pub lazy_losses_considered: u64,
}

fn to_tip(m: &lightning::chain::channelmonitor::ChannelMonitor<TestChannelSigner>, blocks: &[bitcoin::Block]) {
	let bc = McBroadcaster::new();
	let fee = TestFeeEstimator::new(253);
	let logger = McLogger::new(b'q');
	let from = m.current_best_block().height;
	for h in (from as usize + 1)..blocks.len() {
		let b = &blocks[h];
		let txdata: Vec<(usize, &bitcoin::Transaction)> = b.txdata.iter().enumerate().collect();
		m.block_connected(&b.header, &txdata, h as u32, &bc, &fee, &logger);
	}
}

fn check_image(
	store: FaultStore, acked: u64, any_persisted: bool, snaps: &BTreeMap<u64, Vec<Arc<Vec<u8>>>>, max_pending: u64, what: &str,
	stats: &mut Stats, with_cleanup: bool, blocks: &[bitcoin::Block],
) -> Result<(), (String, String)> {
	let store = Arc::new(store);
	let mup = new_mup(store.clone(), b'B', max_pending);
	let rec = mup.read_all_channel_monitors_with_updates().map_err(|e| ("recovery-failed".to_string(), format!("{}: read_all_channel_monitors_with_updates failed: {:?}", what, e)))?;
	stats.recoveries += 1;
	if rec.is_empty() {
		if any_persisted {
			return Err(("persisted-monitor-lost".into(), format!("{}: no monitor recovered although persist_new_channel had been reported complete", what)));
		}
		return Ok(());
	}
	let m = &rec[0].1;
	let id = m.get_latest_update_id();
	if id < acked {
		return Err((
			"persisted-update-lost".into(),
			format!("{}: recovered monitor is at update {} but update {} had been reported as persisted", what, id, acked),
		));
	}
	// equals the in-memory monitor as of that update (any of its snapshots: chain data may have been added between)
	let keys = keys_for(b'B');
	let cands = snaps.get(&id).cloned().unwrap_or_default();
	let mut equal = false;
	// "once brought to the same chain tip": both sides are synced to the tip of the chain the node had seen
	to_tip(m, blocks);
	for c in cands.iter() {
		use lightning::util::ser::ReadableArgs;
		if let Ok((_, mm)) =
			<(lightning::chain::BlockLocator, lightning::chain::channelmonitor::ChannelMonitor<TestChannelSigner>)>::read(&mut &c[..], (&*keys, &*keys))
		{
			to_tip(&mm, blocks);
			if mm == *m {
				equal = true;
				break;
			}
		}
	}
	if !equal {
		return Err((
			"recovered-monitor-differs".into(),
			format!("{}: recovered monitor at update {} equals none of the {} in-memory monitors of that update", what, id, cands.len()),
		));
	}
	if id > 0 {
		stats.recoveries_with_updates_applied += 1;
	}
	if with_cleanup {
		// clean-up of superseded updates never deletes something recovery still needs
		mup.cleanup_stale_updates(false).map_err(|e| ("cleanup-failed".to_string(), format!("{}: cleanup_stale_updates failed: {:?}", what, e)))?;
		let rec2 = mup.read_all_channel_monitors_with_updates().map_err(|e| ("cleanup-breaks-recovery".to_string(), format!("{}: recovery after cleanup failed: {:?}", what, e)))?;
		stats.cleanup_checks += 1;
		if !rec2.is_empty() {
			to_tip(&rec2[0].1, blocks);
		}
		if rec2.is_empty() || rec2[0].1.get_latest_update_id() != id || rec2[0].1 != *m {
			return Err(("cleanup-breaks-recovery".into(), format!("{}: after cleanup_stale_updates recovery yields a different monitor", what)));
		}
	}
	Ok(())
}

/// Highest update id reported persisted (Completed) by calls that had returned when the store log had `prefix` entries.
fn acked_at(mirror: &[MirrorRec], prefix: usize) -> (u64, bool) {
	let mut acked = 0;
	let mut any = false;
	for r in mirror.iter() {
		if r.completed && r.log_len_after <= prefix {
			acked = acked.max(r.monitor_update_id);
			any = true;
		}
	}
	(acked, any)
}

pub fn histories() -> Vec<Hist> {
	vec![
		Hist { name: "pay-claim", ops: vec![(0, 1, 50_000_000, ClaimPolicy::Claim)] },
		Hist { name: "pay-fail", ops: vec![(0, 1, 50_000_000, ClaimPolicy::Fail)] },
		Hist { name: "both-ways", ops: vec![(0, 1, 50_000_000, ClaimPolicy::Claim), (1, 0, 20_000_000, ClaimPolicy::Claim)] },
		Hist { name: "three", ops: vec![(0, 1, 50_000_000, ClaimPolicy::Claim), (1, 0, 20_000_000, ClaimPolicy::Fail), (0, 1, 300_000, ClaimPolicy::Claim)] },
	]
}

pub fn run(thorough: bool, threads: usize) -> (Value, Vec<Violation>) {
	let max_pendings: Vec<u64> = if thorough { vec![0, 1, 2, 3, 5, 7] } else { vec![0, 2, 3, 5] };
	let hs: Vec<Hist> = if thorough { histories() } else { histories().into_iter().take(3).collect() };
	let mut work: Vec<(Hist, u64)> = Vec::new();
	for h in hs.iter() {
		for m in max_pendings.iter() {
			work.push((h.clone(), *m));
		}
	}
	let results = par::map(&work, threads, |_, (h, mp)| {
		let mut stats = Stats {
			histories: 1,
			store_ops: 0,
			crash_images: 0,
			recoveries: 0,
			recoveries_with_updates_applied: 0,
			faulted_runs: 0,
			faulted_runs_that_aborted: 0,
			cleanup_checks: 0,
			lazy_losses_considered: 0,
		};
		let mut viols: Vec<(String, String, Value)> = Vec::new();
		let base = run_history(h, *mp, None);
		if let Some(p) = &base.panicked {
			viols.push(("no-panic".into(), format!("{} max_pending={}: fault-free run panicked: {}", h.name, mp, p), json!({"history": h.name, "max_pending": mp})));
			return (stats, viols);
		}
		stats.store_ops = base.log.len() as u64;
		// every crash point between two store operations x lost lazy deletions
		for prefix in 0..=base.log.len() {
			let (acked, any) = acked_at(&base.mirror, prefix);
			let images = FaultStore::crash_images(&base.log, prefix, 6);
			for img in images {
				stats.crash_images += 1;
				stats.lazy_losses_considered += img.lost_lazy.len() as u64;
				let what = format!("{} max_pending={} crash after {} of {} store ops, lazy deletions lost {:?}", h.name, mp, prefix, base.log.len(), img.lost_lazy);
				if let Err((o, d)) = check_image(img.store, acked, any, &base.snaps, *mp, &what, &mut stats, true, &base.blocks) {
					viols.push((o, d, json!({"history": h.name, "max_pending": mp, "prefix": prefix, "lost_lazy": img.lost_lazy.iter().collect::<Vec<_>>()})));
					if viols.len() > 5 {
						return (stats, viols);
					}
				}
			}
		}
		// a single failing store operation at every position, in both modes
		for at in 0..base.log.len() {
			for mode in [FailMode::BeforeEffect, FailMode::AfterEffect] {
				let r = run_history(h, *mp, Some(Fault { at, mode }));
				stats.faulted_runs += 1;
				if r.panicked.is_some() {
					stats.faulted_runs_that_aborted += 1;
				}
				// whatever happened (the persister reports UnrecoverableError and the node aborts), the store as
				// it stands must still recover everything that had been reported persisted before
				let plen = r.log.len();
				let (acked, any) = acked_at(&r.mirror, plen);
				for img in FaultStore::crash_images(&r.log, plen, 6) {
					stats.crash_images += 1;
					let what = format!("{} max_pending={} store call {} fails ({:?}), lazy deletions lost {:?}", h.name, mp, at, mode, img.lost_lazy);
					if let Err((o, d)) = check_image(img.store, acked, any, &r.snaps, *mp, &what, &mut stats, false, &r.blocks) {
						viols.push((o, d, json!({"history": h.name, "max_pending": mp, "fault_at": at, "mode": format!("{:?}", mode)})));
						if viols.len() > 5 {
							return (stats, viols);
						}
					}
				}
			}
		}
		(stats, viols)
	});
	let mut total = Stats {
		histories: 0,
		store_ops: 0,
		crash_images: 0,
		recoveries: 0,
		recoveries_with_updates_applied: 0,
		faulted_runs: 0,
		faulted_runs_that_aborted: 0,
		cleanup_checks: 0,
		lazy_losses_considered: 0,
	};
	let mut violations = Vec::new();
	for (i, r) in results.into_iter().enumerate() {
		match r {
			Ok((s, vs)) => {
				total.histories += s.histories;
				total.store_ops += s.store_ops;
				total.crash_images += s.crash_images;
				total.recoveries += s.recoveries;
				total.recoveries_with_updates_applied += s.recoveries_with_updates_applied;
				total.faulted_runs += s.faulted_runs;
				total.faulted_runs_that_aborted += s.faulted_runs_that_aborted;
				total.cleanup_checks += s.cleanup_checks;
				total.lazy_losses_considered += s.lazy_losses_considered;
				for (o, d, rep) in vs {
					violations.push(Violation {
						property: "C19".into(),
						oracle: o.clone(),
						identity: format!("{}|mup|{}|max_pending={}", o, work[i].0.name, work[i].1),
						detail: d,
						replay: json!({"part": "mup", "case": rep}),
					});
				}
			},
			Err(p) => violations.push(Violation {
				property: "C19".into(),
				oracle: "no-panic".into(),
				identity: format!("no-panic|mup|{}|{}", work[i].0.name, work[i].1),
				detail: format!("panic in MonitorUpdatingPersister recovery: {}", p),
				replay: json!({"part": "mup"}),
			}),
		}
	}
	let j = json!({
		"what": "real ChannelMonitor update histories (mc-world, node B of a two-node channel) persisted through the real MonitorUpdatingPersister over the fault store; every prefix of the store-operation log x every subset of lost lazy deletions (<= 6 pending, else extremes + singles) x cleanup_stale_updates; one failing store call at every position in both modes",
		"histories_x_max_pending": total.histories,
		"max_pending_values": max_pendings,
		"store_operations": total.store_ops,
		"crash_images": total.crash_images,
		"recoveries": total.recoveries,
		"recoveries_with_updates_applied": total.recoveries_with_updates_applied,
		"cleanup_checks": total.cleanup_checks,
		"lazy_losses_considered": total.lazy_losses_considered,
		"faulted_runs": total.faulted_runs,
		"faulted_runs_in_which_the_node_aborted": total.faulted_runs_that_aborted,
	});
	(j, violations)
}
