//! The scenario families of the concurrent part (C19a).
//!
//! Operation codes: `W0`/`W1` write key 0/1 (each write gets its own value), `X0` remove key 0
//! (non-lazy), `Z0` remove key 0 (lazy), `R0` read key 0, `L` list the namespace, `B<i>` begin
//! ticket i (take the version), `F<i>` finish ticket i (execute it).
use crate::conc::{Mutation, Op, Scenario, Variant};
use std::sync::Arc;

const ALPHA: [&str; 6] = ["W0", "W1", "X0", "Z0", "R0", "L"];
const ALL_VARIANTS: [Variant; 4] = [Variant::Plain, Variant::EmptySub, Variant::EmptyBoth, Variant::MaxLen];

fn is_mut(s: &str) -> bool {
	s.starts_with('W') || s.starts_with('X') || s.starts_with('Z')
}

struct Builder {
	next_val: u8,
}

impl Builder {
	fn mutation(&mut self, code: &str) -> Mutation {
		let key: u8 = code[1..].parse().unwrap();
		match &code[..1] {
			"W" => {
				let v = self.next_val;
				self.next_val += 1;
				Mutation::Write { key, val: v }
			},
			"X" => Mutation::Remove { key, lazy: false },
			"Z" => Mutation::Remove { key, lazy: true },
			_ => panic!("bad mutation code {}", code),
		}
	}
	fn op(&mut self, code: &str) -> Op {
		match &code[..1] {
			"W" | "X" | "Z" => Op::Mut(self.mutation(code)),
			"R" => Op::Read { key: code[1..].parse().unwrap() },
			"L" => Op::List,
			"B" => Op::Begin { ticket: code[1..].parse().unwrap() },
			"F" => Op::Finish { ticket: code[1..].parse().unwrap() },
			_ => panic!("bad op code {}", code),
		}
	}
}

#[allow(clippy::too_many_arguments)]
pub fn mk(family: &str, v2: bool, variant: Variant, init: &[u8], tickets: &[&str], upfront: u8, programs: &[Vec<&str>]) -> Arc<Scenario> {
	let mut b = Builder { next_val: 10 };
	let tickets: Vec<Mutation> = tickets.iter().map(|c| b.mutation(c)).collect();
	let programs: Vec<Vec<Op>> = programs.iter().map(|p| p.iter().map(|c| b.op(c)).collect()).collect();
	Arc::new(Scenario { family: family.to_string(), v2, variant, init: init.to_vec(), tickets, upfront, programs })
}

pub fn build(thorough: bool, only: Option<&str>) -> Vec<Arc<Scenario>> {
	let mut out: Vec<Arc<Scenario>> = Vec::new();
	let inits: [&[u8]; 2] = [&[], &[0, 1]];
	for v2 in [false, true] {
		// ---- 2 threads x 1 operation: every unordered pair with at least one mutation, all four
		// namespace / key-length variants
		for variant in ALL_VARIANTS {
			for init in inits {
				for i in 0..ALPHA.len() {
					for j in i..ALPHA.len() {
						if !is_mut(ALPHA[i]) && !is_mut(ALPHA[j]) {
							continue;
						}
						out.push(mk("2x1", v2, variant, init, &[], 0, &[vec![ALPHA[i]], vec![ALPHA[j]]]));
					}
				}
			}
		}
		// ---- 2 threads x 2 operations
		let variants_22: &[Variant] = if thorough { &ALL_VARIANTS } else { &[Variant::Plain] };
		for variant in variants_22 {
			for init in inits {
				if thorough {
					let mut progs: Vec<Vec<&str>> = Vec::new();
					for a in ALPHA {
						for b in ALPHA {
							progs.push(vec![a, b]);
						}
					}
					for i in 0..progs.len() {
						for j in i..progs.len() {
							let muts = progs[i].iter().chain(progs[j].iter()).filter(|c| is_mut(c)).count();
							if muts == 0 {
								continue;
							}
							// the other variants only with the programs that collide on key 0
							if *variant != Variant::Plain && (muts < 2 || progs[i].iter().chain(progs[j].iter()).any(|c| *c == "W1")) {
								continue;
							}
							out.push(mk("2x2", v2, *variant, init, &[], 0, &[progs[i].clone(), progs[j].clone()]));
						}
					}
				} else {
					let left: [[&str; 2]; 6] = [["W0", "W0"], ["W0", "X0"], ["X0", "W0"], ["W0", "Z0"], ["Z0", "W0"], ["W0", "W1"]];
					let right: [[&str; 2]; 6] = [["R0", "R0"], ["L", "L"], ["W0", "R0"], ["X0", "R0"], ["R0", "L"], ["W0", "L"]];
					for l in left {
						for r in right {
							out.push(mk("2x2", v2, *variant, init, &[], 0, &[l.to_vec(), r.to_vec()]));
						}
					}
				}
			}
		}
		// ---- 3 threads x 1 operation
		for init in inits {
			if thorough {
				for i in 0..ALPHA.len() {
					for j in i..ALPHA.len() {
						for k in j..ALPHA.len() {
							if [ALPHA[i], ALPHA[j], ALPHA[k]].iter().filter(|c| is_mut(c)).count() == 0 {
								continue;
							}
							out.push(mk("3x1", v2, Variant::Plain, init, &[], 0, &[vec![ALPHA[i]], vec![ALPHA[j]], vec![ALPHA[k]]]));
						}
					}
				}
			} else {
				let sel: [[&str; 3]; 10] = [
					["W0", "W0", "R0"],
					["W0", "X0", "R0"],
					["W0", "Z0", "L"],
					["W0", "W0", "W0"],
					["W0", "X0", "W0"],
					["W0", "W1", "L"],
					["X0", "X0", "W0"],
					["W0", "R0", "L"],
					["X0", "R0", "L"],
					["W0", "Z0", "R0"],
				];
				for s in sel {
					out.push(mk("3x1", v2, Variant::Plain, init, &[], 0, &[vec![s[0]], vec![s[1]], vec![s[2]]]));
				}
			}
		}
		// ---- asynchronous shape: versions taken up front (in ticket order), executed by one thread
		// per ticket in any order, optionally observed by a reader thread
		let muts = ["W0", "X0", "Z0"];
		for init in inits {
			for a in muts {
				for b in muts {
					let mut readers: Vec<Vec<&str>> = vec![vec![], vec!["R0", "R0"], vec!["L"]];
					if thorough {
						readers.push(vec!["R0", "L"]);
					}
					for rd in readers {
						let mut progs = vec![vec!["F0"], vec!["F1"]];
						if !rd.is_empty() {
							progs.push(rd);
						}
						out.push(mk("async-2", v2, Variant::Plain, init, &[a, b], 2, &progs));
					}
					// one worker executes both tickets in reverse order of issue
					out.push(mk("async-2", v2, Variant::Plain, init, &[a, b], 2, &[vec!["F1", "F0"], vec!["R0", "R0"]]));
					// versions taken by an issuer thread while the first ticket may already execute
					out.push(mk("async-issuer", v2, Variant::Plain, init, &[a, b], 0, &[vec!["B0", "B1"], vec!["F0"], vec!["F1"]]));
					// ... and with a complete operation on the key between the two issues (the lock-map
					// entry may be garbage-collected between them while ticket 0 still holds its lock)
					out.push(mk("async-issuer", v2, Variant::Plain, init, &[a, b], 0, &[vec!["B0", "R0", "B1"], vec!["F0"], vec!["F1"]]));
				}
			}
			let triples: Vec<[&str; 3]> = if thorough {
				let mut v = Vec::new();
				for a in muts {
					for b in muts {
						for c in muts {
							v.push([a, b, c]);
						}
					}
				}
				v
			} else {
				vec![["W0", "W0", "W0"], ["W0", "X0", "W0"], ["W0", "Z0", "W0"], ["X0", "W0", "X0"], ["W0", "W0", "Z0"]]
			};
			for t in triples {
				out.push(mk("async-3", v2, Variant::Plain, init, &t, 3, &[vec!["F0"], vec!["F1"], vec!["F2"]]));
				if thorough {
					out.push(mk("async-3", v2, Variant::Plain, init, &t, 3, &[vec!["F2", "F0"], vec!["F1"], vec!["R0", "R0"]]));
				}
			}
			// two keys: no ordering requirement across keys, but none may be lost
			out.push(mk("async-2", v2, Variant::Plain, init, &["W0", "W1"], 2, &[vec!["F1"], vec!["F0"], vec!["L"]]));
		}
		if thorough {
			for variant in [Variant::EmptySub, Variant::EmptyBoth, Variant::MaxLen] {
				for a in muts {
					for b in muts {
						out.push(mk("async-2", v2, variant, &[0, 1], &[a, b], 2, &[vec!["F0"], vec!["F1"], vec!["R0", "L"]]));
					}
				}
			}
		}
	}
	if let Some(f) = only {
		out.retain(|s| s.family == f);
	}
	out
}
