//! Cooperative scheduler for real OS threads running the real `FilesystemStore` code.
//!
//! Hook H7 makes every store thread call back into `hook_cb` before each lock acquisition, after
//! each lock release and before each group of filesystem system calls. A thread that arrives at
//! such a *point* parks; exactly one thread runs at any time (baton passing: the arriving thread
//! itself takes the scheduling decision under the execution mutex and either continues or wakes
//! the chosen thread). The scheduler mirrors the state of every lock (identified by its address)
//! from the acquire / release points, so it never resumes a thread that would block; if no parked
//! thread is enabled and not all threads have finished, that is a deadlock.
//!
//! A schedule is the list of decisions `t<i>` (resume thread i) / `t<i>!` (resume thread i and make
//! the filesystem step it is about to perform fail). The default decision is "continue the current
//! thread, else the lowest enabled one"; switching away from a thread that could continue costs one
//! preemption, an injected failure costs one fault; everything else is free.
use std::cell::RefCell;
use std::path::{Path, PathBuf};
use std::sync::{Arc, Condvar, Mutex, MutexGuard, Once};
use std::time::{Duration, Instant};

#[derive(Clone, Copy, PartialEq, Eq, Debug, PartialOrd, Ord, Hash)]
pub struct Action {
	pub tid: u8,
	pub fail: bool,
}

impl Action {
	pub fn encode(&self) -> String {
		format!("t{}{}", self.tid, if self.fail { "!" } else { "" })
	}
	pub fn decode(s: &str) -> Option<Action> {
		let s = s.strip_prefix('t')?;
		let (num, fail) = match s.strip_suffix('!') {
			Some(n) => (n, true),
			None => (s, false),
		};
		Some(Action { tid: num.parse().ok()?, fail })
	}
}

#[derive(Clone, Copy, PartialEq, Eq, Debug)]
pub enum PKind {
	/// Harness point between two operations of a thread (`need_ticket`: the async ticket that has to
	/// exist before the operation can start).
	OpCall,
	LockOuter,
	LockRead,
	LockWrite,
	Unlock,
	Step,
}

/// Steps reported through `verif::fallible` (an injected failure makes the step return an error).
pub const FALLIBLE: &[&str] = &[
	"read-open", "read-data", "stat-dest", "mkdir", "tmp-create", "tmp-write", "tmp-fsync", "rename", "dir-fsync", "unlink",
	"list-exists", "read-dir-open", "read-dir-step",
];
/// Steps that touch the destination file / its directory entry (used for the "critical sections
/// really interleaved" witness).
pub const FS_STEPS: &[&str] = &[
	"read-open", "read-data", "stat-dest", "tmp-create", "tmp-write", "tmp-fsync", "rename", "dir-fsync", "unlink", "tmp-unlink",
];

fn classify(kind: &str) -> PKind {
	match kind {
		"op-call" => PKind::OpCall,
		"lock-outer" => PKind::LockOuter,
		"lock-read" => PKind::LockRead,
		"lock-write" => PKind::LockWrite,
		k if k.starts_with("unlock-") => PKind::Unlock,
		_ => PKind::Step,
	}
}

#[derive(Clone, Debug)]
pub struct Pending {
	pub kind: &'static str,
	pub pk: PKind,
	pub obj: usize,
	pub fallible: bool,
	pub need_ticket: Option<usize>,
}

#[derive(Clone, Debug)]
enum Status {
	Parked(Pending),
	Running,
	Finished,
}

#[derive(Clone, Debug)]
pub struct Event {
	pub tid: u8,
	pub op: u16,
	pub kind: &'static str,
	pub path: String,
	pub injected: bool,
}

#[derive(Clone, Debug)]
pub struct Decision {
	pub chosen: Action,
	/// Kind of the point the previously running thread is parked at ("start" / "exit" otherwise).
	pub at: &'static str,
	/// (preemption cost, fault cost) of the chosen action.
	pub cost: (u8, u8),
	/// The alternatives that were *not* taken with their costs.
	pub alts: Vec<(Action, u8, u8)>,
}

#[derive(Clone, Debug, PartialEq, Eq)]
pub enum Abort {
	Deadlock(String),
	Divergence(String),
	Hang(String),
}

#[derive(Clone, Debug)]
pub struct Policy {
	/// Offer `t<i>!` alternatives at fallible steps.
	pub faults: bool,
	/// Step kinds at which the running thread is never preempted (it can still be failed).
	pub nopreempt: Vec<&'static str>,
	pub hang_secs: u64,
}

struct LockSt {
	obj: usize,
	writer: Option<usize>,
	readers: Vec<usize>,
}

pub struct St {
	threads: Vec<Status>,
	cur_op: Vec<u16>,
	current: Option<usize>,
	granted: Option<(usize, bool)>,
	locks: Vec<LockSt>,
	ready: Vec<bool>,
	prefix: Vec<Action>,
	pub decisions: Vec<Decision>,
	pub events: Vec<Event>,
	pub clock: u64,
	pub abort: Option<Abort>,
	pub done: bool,
}

pub struct Exec {
	m: Mutex<St>,
	cvs: Vec<Condvar>,
	main_cv: Condvar,
	base: PathBuf,
	policy: Policy,
}

pub struct AbortToken;

thread_local! {
	static CTX: RefCell<Option<(Arc<Exec>, usize)>> = const { RefCell::new(None) };
}
static REGISTER: Once = Once::new();

fn hook_cb(kind: &'static str, path: &Path, obj: usize) -> bool {
	let ctx = CTX.with(|c| c.borrow().clone());
	match ctx {
		None => false,
		Some((exec, tid)) => exec.at_point(tid, kind, path, obj, None),
	}
}

/// Registers the H7 callback (idempotent). Dies if somebody else registered one.
pub fn install_hook() {
	REGISTER.call_once(|| {
		if !lightning_persister::verif::set_callback(hook_cb) {
			mc_common::cli::die("lightning-persister verif callback already registered");
		}
	});
}

/// Binds the calling OS thread to `(exec, tid)`: from now on its H7 points are scheduled.
pub fn bind_thread(exec: &Arc<Exec>, tid: usize) {
	CTX.with(|c| *c.borrow_mut() = Some((exec.clone(), tid)));
}
pub fn unbind_thread() {
	CTX.with(|c| *c.borrow_mut() = None);
}

impl St {
	fn lock_mut(&mut self, obj: usize) -> &mut LockSt {
		if let Some(i) = self.locks.iter().position(|l| l.obj == obj) {
			return &mut self.locks[i];
		}
		self.locks.push(LockSt { obj, writer: None, readers: Vec::new() });
		self.locks.last_mut().unwrap()
	}
	fn enabled(&self, p: &Pending) -> bool {
		let l = self.locks.iter().find(|l| l.obj == p.obj);
		match p.pk {
			PKind::LockOuter | PKind::LockWrite => l.map(|l| l.writer.is_none() && l.readers.is_empty()).unwrap_or(true),
			PKind::LockRead => l.map(|l| l.writer.is_none()).unwrap_or(true),
			PKind::OpCall => p.need_ticket.map(|t| self.ready.get(t).copied().unwrap_or(false)).unwrap_or(true),
			_ => true,
		}
	}
	fn release(&mut self, tid: usize, obj: usize) {
		let l = self.lock_mut(obj);
		if l.writer == Some(tid) {
			l.writer = None;
		} else if let Some(i) = l.readers.iter().position(|r| *r == tid) {
			l.readers.remove(i);
		}
	}
	pub fn locks_held(&self) -> usize {
		self.locks.iter().filter(|l| l.writer.is_some() || !l.readers.is_empty()).count()
	}
	fn describe_blocked(&self) -> String {
		let mut s = String::new();
		for (i, t) in self.threads.iter().enumerate() {
			match t {
				Status::Parked(p) => s.push_str(&format!("t{}@{}{} ", i, p.kind, if self.enabled(p) { "" } else { "(blocked)" })),
				Status::Running => s.push_str(&format!("t{}@running ", i)),
				Status::Finished => s.push_str(&format!("t{}@finished ", i)),
			}
		}
		s
	}
}

impl Exec {
	pub fn new(n_threads: usize, n_tickets: usize, prefix: Vec<Action>, base: PathBuf, policy: Policy) -> Arc<Exec> {
		Arc::new(Exec {
			m: Mutex::new(St {
				threads: (0..n_threads).map(|_| Status::Running).collect(),
				cur_op: vec![0; n_threads],
				current: None,
				granted: None,
				locks: Vec::new(),
				ready: vec![false; n_tickets],
				prefix,
				decisions: Vec::new(),
				events: Vec::new(),
				clock: 0,
				abort: None,
				done: false,
			}),
			cvs: (0..n_threads).map(|_| Condvar::new()).collect(),
			main_cv: Condvar::new(),
			base,
			policy,
		})
	}

	fn lock(&self) -> MutexGuard<'_, St> {
		match self.m.lock() {
			Ok(g) => g,
			Err(p) => p.into_inner(),
		}
	}

	/// Logical clock tick (call / return stamps of the recorded history).
	pub fn stamp(&self) -> u64 {
		let mut st = self.lock();
		st.clock += 1;
		st.clock
	}
	pub fn aborted(&self) -> bool {
		self.lock().abort.is_some()
	}
	pub fn set_ticket_ready(&self, t: usize) {
		let mut st = self.lock();
		if t < st.ready.len() {
			st.ready[t] = true;
		}
	}
	pub fn set_cur_op(&self, tid: usize, op: u16) {
		self.lock().cur_op[tid] = op;
	}

	fn rel(&self, p: &Path) -> String {
		match p.strip_prefix(&self.base) {
			Ok(r) => r.to_string_lossy().into_owned(),
			Err(_) => p.to_string_lossy().into_owned(),
		}
	}

	/// A scheduling point of thread `tid`. Returns whether the step that follows must fail.
	pub fn at_point(&self, tid: usize, kind: &'static str, path: &Path, obj: usize, need_ticket: Option<usize>) -> bool {
		let pk = classify(kind);
		if std::thread::panicking() {
			// unwinding through the store (subject panic or harness abort): bookkeeping only
			if pk == PKind::Unlock {
				self.lock().release(tid, obj);
			}
			return false;
		}
		let mut st = self.lock();
		if st.abort.is_some() {
			drop(st);
			std::panic::resume_unwind(Box::new(AbortToken));
		}
		if pk == PKind::Unlock {
			st.release(tid, obj);
		}
		let op = st.cur_op[tid];
		let rel = self.rel(path);
		// during start-up the threads arrive in an arbitrary (OS-chosen) order: log their first point
		// only when they are granted, so that the event log depends on the schedule alone
		let startup = st.current != Some(tid);
		let mut ev_idx = usize::MAX;
		if !startup {
			st.events.push(Event { tid: tid as u8, op, kind, path: rel.clone(), injected: false });
			ev_idx = st.events.len() - 1;
		}
		let fallible = FALLIBLE.contains(&kind);
		st.threads[tid] = Status::Parked(Pending { kind, pk, obj, fallible, need_ticket });
		if st.current == Some(tid) {
			// the running thread arrived at its next point: it takes the scheduling decision itself
			self.decide(&mut st);
		} else {
			// start-up: every thread parks at its first `op-call`; `start()` takes the first decision
			self.main_cv.notify_all();
		}
		loop {
			if st.abort.is_some() {
				drop(st);
				std::panic::resume_unwind(Box::new(AbortToken));
			}
			if let Some((t, _)) = st.granted {
				if t == tid {
					break;
				}
			}
			st = match self.cvs[tid].wait(st) {
				Ok(g) => g,
				Err(p) => p.into_inner(),
			};
		}
		let fail = st.granted.take().unwrap().1;
		if startup {
			st.events.push(Event { tid: tid as u8, op, kind, path: rel, injected: false });
			ev_idx = st.events.len() - 1;
		}
		st.threads[tid] = Status::Running;
		st.current = Some(tid);
		match pk {
			PKind::LockOuter | PKind::LockWrite => st.lock_mut(obj).writer = Some(tid),
			PKind::LockRead => st.lock_mut(obj).readers.push(tid),
			_ => {},
		}
		if fail {
			st.events[ev_idx].injected = true;
		}
		fail
	}

	/// Called by the controlling thread once all subject threads have been spawned.
	pub fn start(&self) {
		let mut st = self.lock();
		// wait until every thread is parked at its first point
		let t0 = Instant::now();
		loop {
			if st.threads.iter().all(|t| matches!(t, Status::Parked(_))) {
				break;
			}
			if t0.elapsed() > Duration::from_secs(20) {
				st.abort = Some(Abort::Hang("threads did not reach their first point".into()));
				for cv in &self.cvs {
					cv.notify_all();
				}
				return;
			}
			st = match self.main_cv.wait_timeout(st, Duration::from_millis(50)) {
				Ok((g, _)) => g,
				Err(p) => p.into_inner().0,
			};
		}
		self.decide(&mut st);
	}

	/// Thread `tid` is done (normally or by unwinding after an abort).
	pub fn thread_exit(&self, tid: usize) {
		let mut st = self.lock();
		st.threads[tid] = Status::Finished;
		// a finished thread cannot hold locks; drop whatever the mirror still thinks it holds
		for l in st.locks.iter_mut() {
			if l.writer == Some(tid) {
				l.writer = None;
			}
			l.readers.retain(|r| *r != tid);
		}
		if st.abort.is_none() {
			st.current = Some(tid);
			self.decide(&mut st);
		}
		self.main_cv.notify_all();
	}

	fn decide(&self, st: &mut St) {
		if st.abort.is_some() {
			return;
		}
		let cur = st.current;
		let n = st.threads.len();
		let mut order: Vec<usize> = Vec::with_capacity(n);
		if let Some(c) = cur {
			order.push(c);
		}
		for t in 0..n {
			if Some(t) != cur {
				order.push(t);
			}
		}
		let mut cands: Vec<usize> = Vec::new();
		for t in order {
			if let Status::Parked(p) = &st.threads[t] {
				if st.enabled(p) {
					cands.push(t);
				}
			}
		}
		if cands.is_empty() {
			if st.threads.iter().all(|t| matches!(t, Status::Finished)) {
				st.done = true;
			} else if st.threads.iter().any(|t| matches!(t, Status::Running)) {
				// cannot happen: only the deciding thread runs and it has parked or finished
				st.abort = Some(Abort::Divergence(format!("decide() with a running thread: {}", st.describe_blocked())));
			} else {
				st.abort = Some(Abort::Deadlock(st.describe_blocked()));
			}
			if st.abort.is_some() {
				for cv in &self.cvs {
					cv.notify_all();
				}
			}
			self.main_cv.notify_all();
			return;
		}
		let cur_enabled = cur.map(|c| cands.first() == Some(&c)).unwrap_or(false);
		if cur_enabled {
			let c = cur.unwrap();
			if let Status::Parked(p) = &st.threads[c] {
				if self.policy.nopreempt.contains(&p.kind) {
					cands.truncate(1);
				}
			}
		}
		let mut alts: Vec<(Action, u8, u8)> = Vec::new();
		for t in &cands {
			let pc = if cur_enabled && Some(*t) != cur { 1 } else { 0 };
			alts.push((Action { tid: *t as u8, fail: false }, pc, 0));
			if self.policy.faults {
				if let Status::Parked(p) = &st.threads[*t] {
					if p.fallible {
						alts.push((Action { tid: *t as u8, fail: true }, pc, 1));
					}
				}
			}
		}
		let at: &'static str = match cur {
			None => "start",
			Some(c) => match &st.threads[c] {
				Status::Parked(p) => p.kind,
				Status::Finished => "exit",
				Status::Running => "?",
			},
		};
		let pos = st.decisions.len();
		let chosen_idx = if pos < st.prefix.len() {
			let want = st.prefix[pos];
			match alts.iter().position(|(a, _, _)| *a == want) {
				Some(i) => i,
				None => {
					st.abort = Some(Abort::Divergence(format!(
						"decision {}: `{}` is not among the enabled actions [{}] ({})",
						pos,
						want.encode(),
						alts.iter().map(|(a, _, _)| a.encode()).collect::<Vec<_>>().join(","),
						st.describe_blocked()
					)));
					for cv in &self.cvs {
						cv.notify_all();
					}
					self.main_cv.notify_all();
					return;
				},
			}
		} else {
			0
		};
		let (chosen, pc, fc) = alts.remove(chosen_idx);
		// alternatives are only needed beyond the replayed prefix
		let keep_alts = pos >= st.prefix.len();
		st.decisions.push(Decision { chosen, at, cost: (pc, fc), alts: if keep_alts { alts } else { Vec::new() } });
		st.granted = Some((chosen.tid as usize, chosen.fail));
		self.cvs[chosen.tid as usize].notify_all();
	}

	/// Blocks the controlling thread until the execution is over. Returns the abort reason, if any.
	pub fn wait_done(&self) -> Option<Abort> {
		let mut st = self.lock();
		let mut last_progress = (st.events.len(), st.decisions.len());
		let mut last_change = Instant::now();
		loop {
			if st.done || st.abort.is_some() {
				return st.abort.clone();
			}
			st = match self.main_cv.wait_timeout(st, Duration::from_millis(500)) {
				Ok((g, _)) => g,
				Err(p) => p.into_inner().0,
			};
			let prog = (st.events.len(), st.decisions.len());
			if prog != last_progress {
				last_progress = prog;
				last_change = Instant::now();
			} else if last_change.elapsed() > Duration::from_secs(self.policy.hang_secs) && !st.done && st.abort.is_none() {
				st.abort = Some(Abort::Hang(format!("no scheduling point reached for {} s: {}", self.policy.hang_secs, st.describe_blocked())));
				for cv in &self.cvs {
					cv.notify_all();
				}
				return st.abort.clone();
			}
		}
	}

	/// Takes the recorded decisions / events out (after `wait_done`).
	pub fn take_logs(&self) -> (Vec<Decision>, Vec<Event>, usize) {
		let mut st = self.lock();
		let held = st.locks_held();
		(std::mem::take(&mut st.decisions), std::mem::take(&mut st.events), held)
	}
}
