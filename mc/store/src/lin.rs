//! Brute-force linearisability check of a recorded call/return history against a map.
//!
//! * `write`/`remove` that returned `Ok` take effect atomically somewhere between call and return;
//! * a mutation that returned an (injected) error may or may not have taken effect;
//! * `read` must return the value of the map at its linearisation point (an errored read gives no
//!   information);
//! * `list` is *not* required to be atomic with respect to mutations it overlaps: for a key with no
//!   overlapping mutation the answer must be exact at the linearisation point, for a key with
//!   overlapping mutations the answer must be the presence at the linearisation point or the
//!   presence produced by one of the overlapping mutations ("⊆ keys ever present, ⊇ keys present
//!   throughout");
//! * operations carrying a `version` (asynchronous API: the version is taken when the call is
//!   *issued*) must, if successful and on the same key, take effect in version order.
use std::collections::HashSet;

pub const NKEYS: usize = 2;
pub type State = [Option<u8>; NKEYS];

#[derive(Clone, Debug, PartialEq)]
pub enum HKind {
	Write { key: usize, val: u8 },
	Remove { key: usize },
	Read { key: usize },
	List,
}

#[derive(Clone, Debug, PartialEq)]
pub enum HRes {
	Ok,
	Val(u8),
	NotFound,
	Keys([bool; NKEYS]),
	/// The call returned an error other than NotFound (injected fault).
	Failed,
}

#[derive(Clone, Debug)]
pub struct HOp {
	pub call: u64,
	pub ret: u64,
	pub kind: HKind,
	pub res: HRes,
	pub version: Option<u64>,
	pub label: String,
}

impl HOp {
	fn mutation_key(&self) -> Option<usize> {
		match self.kind {
			HKind::Write { key, .. } | HKind::Remove { key } => Some(key),
			_ => None,
		}
	}
}

struct Ctx<'a> {
	ops: &'a [HOp],
	preds: Vec<u32>,
	/// per list op and key: (exists overlapping mutation, may be present, may be absent) from overlaps
	overlap: Vec<[(bool, bool, bool); NKEYS]>,
	dead: HashSet<(u32, State)>,
	order: Vec<usize>,
}

/// Returns a witness linearisation (indices into `ops`) or `None`.
pub fn linearise(init: State, ops: &[HOp]) -> Option<Vec<usize>> {
	assert!(ops.len() <= 30);
	let n = ops.len();
	let mut preds = vec![0u32; n];
	for i in 0..n {
		for j in 0..n {
			if i == j {
				continue;
			}
			// real time: j returned before i was called
			if ops[j].ret < ops[i].call {
				preds[i] |= 1 << j;
			}
			// version order among successful mutations of one key
			if let (Some(vi), Some(vj)) = (ops[i].version, ops[j].version) {
				if ops[i].res == HRes::Ok
					&& ops[j].res == HRes::Ok
					&& ops[i].mutation_key().is_some()
					&& ops[i].mutation_key() == ops[j].mutation_key()
					&& vj < vi
				{
					preds[i] |= 1 << j;
				}
			}
		}
	}
	let mut overlap = vec![[(false, false, false); NKEYS]; n];
	for i in 0..n {
		if ops[i].kind != HKind::List {
			continue;
		}
		for j in 0..n {
			if i == j {
				continue;
			}
			if let Some(k) = ops[j].mutation_key() {
				if ops[j].call < ops[i].ret && ops[j].ret > ops[i].call {
					let e = &mut overlap[i][k];
					e.0 = true;
					match ops[j].kind {
						HKind::Write { .. } => e.1 = true,
						HKind::Remove { .. } => e.2 = true,
						_ => {},
					}
				}
			}
		}
	}
	let mut cx = Ctx { ops, preds, overlap, dead: HashSet::new(), order: Vec::new() };
	if search(&mut cx, 0, init) {
		Some(cx.order)
	} else {
		None
	}
}

fn search(cx: &mut Ctx, mask: u32, state: State) -> bool {
	let n = cx.ops.len();
	if mask == (1u32 << n) - 1 {
		return true;
	}
	if cx.dead.contains(&(mask, state)) {
		return false;
	}
	for i in 0..n {
		if mask >> i & 1 == 1 || cx.preds[i] & !mask != 0 {
			continue;
		}
		let op = &cx.ops[i];
		let mut nexts: Vec<State> = Vec::with_capacity(2);
		match (&op.kind, &op.res) {
			(HKind::Write { key, val }, HRes::Ok) => {
				let mut s = state;
				s[*key] = Some(*val);
				nexts.push(s);
			},
			(HKind::Write { key, val }, _) => {
				let mut s = state;
				s[*key] = Some(*val);
				nexts.push(state);
				nexts.push(s);
			},
			(HKind::Remove { key }, HRes::Ok) => {
				let mut s = state;
				s[*key] = None;
				nexts.push(s);
			},
			(HKind::Remove { key }, _) => {
				let mut s = state;
				s[*key] = None;
				nexts.push(state);
				nexts.push(s);
			},
			(HKind::Read { key }, HRes::Val(v)) => {
				if state[*key] == Some(*v) {
					nexts.push(state);
				}
			},
			(HKind::Read { key }, HRes::NotFound) => {
				if state[*key].is_none() {
					nexts.push(state);
				}
			},
			(HKind::Read { .. }, _) => nexts.push(state),
			(HKind::List, HRes::Keys(ks)) => {
				let mut ok = true;
				for k in 0..NKEYS {
					let (any, may_present, may_absent) = cx.overlap[i][k];
					let now = state[k].is_some();
					let allowed = if !any { ks[k] == now } else { ks[k] == now || (ks[k] && may_present) || (!ks[k] && may_absent) };
					if !allowed {
						ok = false;
					}
				}
				if ok {
					nexts.push(state);
				}
			},
			(HKind::List, _) => nexts.push(state),
		}
		for s in nexts {
			cx.order.push(i);
			if search(cx, mask | 1 << i, s) {
				return true;
			}
			cx.order.pop();
		}
	}
	cx.dead.insert((mask, state));
	false
}

#[cfg(test)]
mod tests {
	use super::*;
	fn op(call: u64, ret: u64, kind: HKind, res: HRes) -> HOp {
		HOp { call, ret, kind, res, version: None, label: String::new() }
	}
	#[test]
	fn basic() {
		// write(0,5) [1,4] overlapping read -> 5 [2,3]: ok
		let h = vec![op(1, 4, HKind::Write { key: 0, val: 5 }, HRes::Ok), op(2, 3, HKind::Read { key: 0 }, HRes::Val(5))];
		assert!(linearise([None, None], &h).is_some());
		// read after completed write must see it
		let h = vec![op(1, 2, HKind::Write { key: 0, val: 5 }, HRes::Ok), op(3, 4, HKind::Read { key: 0 }, HRes::NotFound)];
		assert!(linearise([None, None], &h).is_none());
	}
}
