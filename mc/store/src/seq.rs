//! C19a, sequential part: every operation sequence up to a length over 2 namespaces x 2 keys on the
//! real `FilesystemStore` / `FilesystemStoreV2`, compared step by step with a map.
use crate::conc::{AnyStore, Workdir};
use lightning::util::persist::PaginatedKVStoreSync;
use mc_common::{json, Value};
use std::collections::{BTreeMap, BTreeSet};
use std::path::{Path, PathBuf};

#[derive(Clone, Debug)]
pub struct NsSet {
	pub name: &'static str,
	pub ns: [(String, String); 2],
	pub keys: [String; 2],
}

pub fn ns_set(name: &str) -> Option<NsSet> {
	match name {
		"A" => Some(NsSet { name: "A", ns: [("ns".into(), "".into()), ("ns".into(), "sub".into())], keys: ["k1".into(), "k2".into()] }),
		"B" => Some(NsSet { name: "B", ns: [("".into(), "".into()), ("top".into(), "".into())], keys: ["k1".into(), "k2".into()] }),
		"C" => Some(NsSet {
			name: "C",
			ns: [("p".repeat(120), "s".repeat(120)), ("p".repeat(120), "".into())],
			keys: [format!("{}1", "a".repeat(119)), format!("{}2", "a".repeat(119))],
		}),
		_ => None,
	}
}

/// Operation alphabet: index -> (code, ns, key). 0..16: per (ns,key) W X Z R; 16,17: L ns0, L ns1.
pub const N_OPS: usize = 18;

pub fn op_code(i: usize) -> String {
	if i >= 16 {
		return format!("L{}", i - 16);
	}
	let slot = i / 4;
	format!("{}{}{}", ["W", "X", "Z", "R"][i % 4], slot / 2, slot % 2)
}
pub fn op_from_code(s: &str) -> Option<usize> {
	(0..N_OPS).find(|i| op_code(*i) == s)
}

fn value_for(pos: usize) -> Vec<u8> {
	if pos == 1 {
		Vec::new()
	} else {
		vec![(pos + 1) as u8; 3 + pos]
	}
}

#[derive(Clone, Debug)]
pub struct SeqFailure {
	pub oracle: &'static str,
	pub detail: String,
	pub at: usize,
}

#[derive(Default, Clone, Debug)]
pub struct SeqStats {
	pub sequences: u64,
	pub ops: u64,
	pub reads_with_data: u64,
	pub reads_not_found: u64,
	pub lists_nonempty: u64,
	pub removes_of_present: u64,
	pub overwrites: u64,
	pub final_states: BTreeSet<u64>,
}

impl SeqStats {
	pub fn merge(&mut self, o: &SeqStats) {
		self.sequences += o.sequences;
		self.ops += o.ops;
		self.reads_with_data += o.reads_with_data;
		self.reads_not_found += o.reads_not_found;
		self.lists_nonempty += o.lists_nonempty;
		self.removes_of_present += o.removes_of_present;
		self.overwrites += o.overwrites;
		self.final_states.extend(o.final_states.iter().cloned());
	}
}

fn rel_path(v2: bool, ns: &(String, String), key: &str) -> String {
	let mut p = PathBuf::new();
	if v2 {
		p.push(if ns.0.is_empty() { "[empty]" } else { &ns.0 });
		p.push(if ns.1.is_empty() { "[empty]" } else { &ns.1 });
	} else {
		if !ns.0.is_empty() {
			p.push(&ns.0);
		}
		if !ns.1.is_empty() {
			p.push(&ns.1);
		}
	}
	p.push(key);
	p.to_string_lossy().into_owned()
}

fn walk_files(dir: &Path, base: &Path, out: &mut Vec<(String, Vec<u8>)>) {
	if let Ok(rd) = std::fs::read_dir(dir) {
		for e in rd.flatten() {
			let p = e.path();
			if p.is_dir() {
				walk_files(&p, base, out);
			} else {
				out.push((p.strip_prefix(base).unwrap_or(&p).to_string_lossy().into_owned(), std::fs::read(&p).unwrap_or_default()));
			}
		}
	}
}

/// Runs one sequence on a fresh store and compares with the map after every step and at the end.
pub fn run_sequence(v2: bool, nss: &NsSet, ops: &[usize], deep_end: bool, wd: &Workdir, st: &mut SeqStats) -> Result<(), SeqFailure> {
	let dir = wd.fresh();
	let store = AnyStore::new(v2, dir.clone()).map_err(|e| SeqFailure { oracle: "store-new", detail: e, at: 0 })?;
	let r = run_on(&store, v2, nss, ops, deep_end, &dir, st);
	drop(store);
	let _ = std::fs::remove_dir_all(&dir);
	r
}

fn run_on(store: &AnyStore, v2: bool, nss: &NsSet, ops: &[usize], deep_end: bool, dir: &Path, st: &mut SeqStats) -> Result<(), SeqFailure> {
	let mut model: BTreeMap<(usize, usize), Vec<u8>> = BTreeMap::new();
	let kv = store.kv();
	st.sequences += 1;
	for (pos, &op) in ops.iter().enumerate() {
		st.ops += 1;
		let fail = |oracle: &'static str, detail: String| SeqFailure { oracle, detail: format!("step {} {}: {}", pos, op_code(op), detail), at: pos };
		if op >= 16 {
			let n = op - 16;
			let got = kv.list(&nss.ns[n].0, &nss.ns[n].1).map_err(|e| fail("list-exact", format!("list failed: {}", e)))?;
			let mut got_sorted = got.clone();
			got_sorted.sort();
			let want: Vec<String> = (0..2).filter(|k| model.contains_key(&(n, *k))).map(|k| nss.keys[k].clone()).collect();
			let mut want_sorted = want.clone();
			want_sorted.sort();
			if got_sorted != want_sorted {
				return Err(fail("list-exact", format!("list returned {:?}, the map holds {:?}", got, want)));
			}
			if !got.is_empty() {
				st.lists_nonempty += 1;
			}
			continue;
		}
		let slot = op / 4;
		let (n, k) = (slot / 2, slot % 2);
		let (pn, sn, key) = (&nss.ns[n].0, &nss.ns[n].1, &nss.keys[k]);
		match op % 4 {
			0 => {
				let v = value_for(pos);
				kv.write(pn, sn, key, v.clone()).map_err(|e| fail("write-ok", format!("write failed: {}", e)))?;
				if model.insert((n, k), v).is_some() {
					st.overwrites += 1;
				}
			},
			1 | 2 => {
				kv.remove(pn, sn, key, op % 4 == 2).map_err(|e| fail("remove-ok", format!("remove failed: {}", e)))?;
				if model.remove(&(n, k)).is_some() {
					st.removes_of_present += 1;
				}
			},
			_ => match (kv.read(pn, sn, key), model.get(&(n, k))) {
				(Ok(got), Some(want)) if &got == want => st.reads_with_data += 1,
				(Err(e), None) if e.kind() == lightning::io::ErrorKind::NotFound => st.reads_not_found += 1,
				(got, want) => {
					return Err(fail(
						"read-last-write",
						format!("read returned {:?}, the map holds {:?}", got.map_err(|e| format!("{:?}: {}", e.kind(), e)), want),
					))
				},
			},
		}
	}
	// ----- end state: everything read back, listings, list_all_keys, raw directory, lock map
	let at = ops.len();
	let fail = |oracle: &'static str, detail: String| SeqFailure { oracle, detail: format!("at the end: {}", detail), at };
	let mut digest = String::new();
	for n in 0..2 {
		for k in 0..2 {
			digest.push_str(&format!("{}{}={:?};", n, k, model.get(&(n, k))));
		}
	}
	// (reading everything back through the API is what the sequences one operation longer do; at
	// the maximum length it is repeated here only when `deep_end` is set)
	for n in 0..(if deep_end { 2 } else { 0 }) {
		for k in 0..2 {
			match (kv.read(&nss.ns[n].0, &nss.ns[n].1, &nss.keys[k]), model.get(&(n, k))) {
				(Ok(got), Some(want)) if &got == want => {},
				(Err(e), None) if e.kind() == lightning::io::ErrorKind::NotFound => {},
				(got, want) => return Err(fail("read-last-write", format!("final read of {}/{} returned {:?}, the map holds {:?}", n, k, got.is_ok(), want))),
			}
		}
		let mut got = kv.list(&nss.ns[n].0, &nss.ns[n].1).map_err(|e| fail("list-exact", format!("final list failed: {}", e)))?;
		got.sort();
		let mut want: Vec<String> = (0..2).filter(|k| model.contains_key(&(n, *k))).map(|k| nss.keys[k].clone()).collect();
		want.sort();
		if got != want {
			return Err(fail("list-exact", format!("final list of ns{} returned {:?}, the map holds {:?}", n, got, want)));
		}
		if let AnyStore::V2(s2) = store {
			let page = s2.list_paginated(&nss.ns[n].0, &nss.ns[n].1, None).map_err(|e| fail("list-exact", format!("list_paginated failed: {}", e)))?;
			let mut pk = page.keys.clone();
			pk.sort();
			if pk != want || page.next_page_token.is_some() {
				return Err(fail("list-exact", format!("list_paginated of ns{} returned {:?}, the map holds {:?}", n, page.keys, want)));
			}
		}
	}
	let mut all = store.list_all_keys().map_err(|e| fail("list-all-keys", format!("list_all_keys failed: {}", e)))?;
	all.sort();
	let mut want_all: Vec<(String, String, String)> =
		model.keys().map(|(n, k)| (nss.ns[*n].0.clone(), nss.ns[*n].1.clone(), nss.keys[*k].clone())).collect();
	want_all.sort();
	if all != want_all {
		return Err(fail("list-all-keys", format!("list_all_keys returned {:?}, the map holds {:?}", all, want_all)));
	}
	let mut files = Vec::new();
	walk_files(dir, dir, &mut files);
	files.sort();
	let mut want_files: Vec<(String, Vec<u8>)> = model.iter().map(|((n, k), v)| (rel_path(v2, &nss.ns[*n], &nss.keys[*k]), v.clone())).collect();
	want_files.sort();
	if files != want_files {
		let names: Vec<&String> = files.iter().map(|f| &f.0).collect();
		let oracle = if names.iter().any(|n| n.ends_with(".tmp")) { "no-leftover-tmp" } else { "raw-matches-map" };
		return Err(fail(oracle, format!("directory holds {:?}, expected {:?}", names, want_files.iter().map(|f| &f.0).collect::<Vec<_>>())));
	}
	if store.state_size() != 0 {
		return Err(fail("lockmap-empty", format!("{} lock-map entries left after a sequential run", store.state_size())));
	}
	st.final_states.insert(mc_common::fnv64(digest.as_bytes()));
	Ok(())
}

pub struct SeqOutcome {
	pub stats: SeqStats,
	pub failures: Vec<(Vec<usize>, SeqFailure)>,
	pub exhaustive: bool,
	#[allow(dead_code)]
	pub len: usize,
	pub alphabet: usize,
}

/// All sequences of exactly `len` operations (every shorter sequence is a checked prefix of one of
/// them). `alphabet` is `N_OPS` or a subset given as indices.
pub fn enumerate(v2: bool, nss: &NsSet, len: usize, alphabet: &[usize], deep_end: bool, threads: usize, wd: &Workdir, deadline: Option<std::time::Instant>) -> SeqOutcome {
	let a = alphabet.len();
	let head = len.min(2);
	let chunks: Vec<Vec<usize>> = {
		let mut v = Vec::new();
		let total = a.pow(head as u32);
		for c in 0..total {
			let mut x = c;
			let mut h = Vec::new();
			for _ in 0..head {
				h.push(alphabet[x % a]);
				x /= a;
			}
			v.push(h);
		}
		v
	};
	let results = mc_common::par::map(&chunks, threads, |_, headops| {
		let mut st = SeqStats::default();
		let mut fails: Vec<(Vec<usize>, SeqFailure)> = Vec::new();
		let mut complete = true;
		let tail = len - head;
		let total = a.pow(tail as u32);
		for c in 0..total {
			if c % 256 == 0 {
				if let Some(d) = deadline {
					if std::time::Instant::now() >= d {
						complete = false;
						break;
					}
				}
			}
			let mut ops = headops.clone();
			let mut x = c;
			for _ in 0..tail {
				ops.push(alphabet[x % a]);
				x /= a;
			}
			let r = match mc_common::par::guarded(|| run_sequence(v2, nss, &ops, deep_end, wd, &mut st)) {
				Ok(r) => r,
				Err(p) => Err(SeqFailure { oracle: "no-panic", detail: format!("panic: {}", p), at: ops.len() }),
			};
			if let Err(f) = r {
				if fails.len() < 20 {
					let cut = (f.at + 1).min(ops.len());
					fails.push((ops[..cut].to_vec(), f));
				}
			}
		}
		(st, fails, complete)
	});
	let mut out = SeqOutcome { stats: SeqStats::default(), failures: Vec::new(), exhaustive: true, len, alphabet: a };
	for (i, r) in results.into_iter().enumerate() {
		match r {
			Ok((st, fails, complete)) => {
				out.stats.merge(&st);
				out.failures.extend(fails);
				out.exhaustive &= complete;
			},
			Err(p) => out.failures.push((chunks[i].clone(), SeqFailure { oracle: "no-panic", detail: format!("panic in a sequence starting with {:?}: {}", chunks[i], p), at: 0 })),
		}
	}
	out
}

pub fn replay_json(v2: bool, nss: &NsSet, ops: &[usize]) -> Value {
	json!({"part": "seq", "store": if v2 {"v2"} else {"v1"}, "ns_set": nss.name, "ops": ops.iter().map(|o| op_code(*o)).collect::<Vec<_>>()})
}
