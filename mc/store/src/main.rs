//! mc-store: property C19 (a) `FilesystemStore` / `FilesystemStoreV2` as an atomic map – controlled
//! scheduling of real threads + exhaustive sequential sequences – and (b, store side) the
//! fault-injecting in-memory store used for `MonitorUpdatingPersister` crash consistency.
mod conc;
mod families;
mod fstest;
mod lin;
mod mup;
use mc_store::faultstore;
mod sched;
mod seq;
mod xplore;

use conc::{Scenario, Workdir};
use mc_common::cli::{self, Tier};
use mc_common::evidence::{Evidence, Level};
use mc_common::findings::{self, Violation};
use mc_common::{json, Value};
use sched::{Action, Policy};
use std::sync::Arc;
use std::time::{Duration, Instant};

const ID: &str = "C19";

fn policy(args: &cli::Args) -> Policy {
	let mut nopreempt: Vec<&'static str> = vec!["tmp-fsync", "dir-fsync", "read-dir-step"];
	if args.opt("nopreempt") == Some("none") {
		nopreempt.clear();
	}
	Policy { faults: args.opt_u64("faults").unwrap_or(1) != 0, nopreempt, hang_secs: args.opt_u64("hang").unwrap_or(15) }
}

fn policy_json(p: &Policy) -> Value {
	json!({"faults": p.faults, "nopreempt": p.nopreempt})
}

fn policy_from_json(v: &Value, dflt: &Policy) -> Policy {
	let mut p = dflt.clone();
	if let Some(f) = v.get("faults").and_then(|f| f.as_bool()) {
		p.faults = f;
	}
	if let Some(a) = v.get("nopreempt").and_then(|a| a.as_array()) {
		let all = ["tmp-fsync", "dir-fsync", "read-dir-step"];
		p.nopreempt = all.iter().filter(|k| a.iter().any(|x| x.as_str() == Some(**k))).cloned().collect();
	}
	p
}

fn replay(args: &cli::Args, path: &std::path::Path) -> ! {
	let text = std::fs::read_to_string(path).unwrap_or_else(|e| cli::die(&format!("cannot read {}: {}", path.display(), e)));
	let v: Value = mc_common::serde_json::from_str(&text).unwrap_or_else(|e| cli::die(&format!("replay file does not parse: {}", e)));
	let r = if v.get("replay").is_some() { &v["replay"] } else { &v };
	let wd = Workdir::new();
	let mut fails: Vec<String> = Vec::new();
	match r["part"].as_str() {
		Some("conc") => {
			let scn = Arc::new(Scenario::from_json(&r["scenario"]).unwrap_or_else(|| cli::die("bad scenario in replay file")));
			let schedule: Vec<Action> = r["schedule"]
				.as_array()
				.unwrap_or_else(|| cli::die("schedule missing"))
				.iter()
				.map(|a| a.as_str().and_then(Action::decode).unwrap_or_else(|| cli::die("bad action in schedule")))
				.collect();
			let pol = policy_from_json(&r["policy"], &policy(args));
			let a = conc::run_execution(&scn, &schedule, &pol, &wd);
			let b = conc::run_execution(&scn, &schedule, &pol, &wd);
			println!("scenario: {}", scn.short());
			println!("schedule: {}", schedule.iter().map(|a| a.encode()).collect::<Vec<_>>().join(","));
			for h in &a.history {
				println!("  {}", h);
			}
			if args.opt("events").is_some() {
				for e in &a.events {
					println!("    t{}.{} {} {}{}", e.tid, e.op, e.kind, e.path, if e.injected { " [FAIL INJECTED]" } else { "" });
				}
			}
			if a.digest != b.digest {
				wd.cleanup();
				cli::die(&format!("NONDETERMINISM: two replays of the same schedule differ ({:?} vs {:?})", a.history, b.history));
			}
			for f in &a.failures {
				fails.push(format!("{}: {}", f.oracle, f.detail));
			}
		},
		Some("seq") => {
			let v2 = r["store"].as_str() == Some("v2");
			let nss = seq::ns_set(r["ns_set"].as_str().unwrap_or("A")).unwrap_or_else(|| cli::die("bad ns_set"));
			let ops: Vec<usize> = r["ops"]
				.as_array()
				.unwrap_or_else(|| cli::die("ops missing"))
				.iter()
				.map(|o| o.as_str().and_then(seq::op_from_code).unwrap_or_else(|| cli::die("bad op")))
				.collect();
			let mut st = seq::SeqStats::default();
			match mc_common::par::guarded(|| seq::run_sequence(v2, &nss, &ops, true, &wd, &mut st)) {
				Ok(Ok(())) => {},
				Ok(Err(f)) => fails.push(format!("{}: {}", f.oracle, f.detail)),
				Err(p) => fails.push(format!("no-panic: {}", p)),
			}
		},
		Some("faultstore") => {
			let ops: Vec<usize> = r["ops"]
				.as_array()
				.unwrap_or_else(|| cli::die("ops missing"))
				.iter()
				.map(|o| o.as_str().and_then(fstest::op_from_code).unwrap_or_else(|| cli::die("bad op")))
				.collect();
			let mut st = fstest::FsStats::default();
			if let Err(e) = fstest::check_sequence(&ops, &mut st) {
				fails.push(format!("faultstore-model: {}", e));
			}
		},
		_ => cli::die("replay file has no known `part`"),
	}
	wd.cleanup();
	if fails.is_empty() {
		println!("REPLAY: property {} holds on this input", ID);
		std::process::exit(0)
	}
	for f in &fails {
		println!("REPLAY: still violates – {}", f);
	}
	std::process::exit(1)
}

/// The oracle must be able to fail: known-bad histories have to be rejected by the lineariser.
fn oracle_self_check() {
	use lin::{linearise, HKind, HOp, HRes};
	let op = |call, ret, kind, res, version| HOp { call, ret, kind, res, version, label: String::new() };
	let bad: Vec<(&str, [Option<u8>; 2], Vec<HOp>)> = vec![
		("lost write", [None, None], vec![op(1, 2, HKind::Write { key: 0, val: 5 }, HRes::Ok, None), op(3, 4, HKind::Read { key: 0 }, HRes::NotFound, None)]),
		("stale read", [Some(1), None], vec![op(1, 2, HKind::Write { key: 0, val: 5 }, HRes::Ok, None), op(3, 4, HKind::Read { key: 0 }, HRes::Val(1), None)]),
		(
			"version order",
			[None, None],
			vec![
				op(1, 10, HKind::Write { key: 0, val: 5 }, HRes::Ok, Some(1)),
				op(2, 11, HKind::Write { key: 0, val: 6 }, HRes::Ok, Some(2)),
				op(20, 21, HKind::Read { key: 0 }, HRes::Val(5), None),
			],
		),
		("list misses a stable key", [Some(1), Some(2)], vec![op(1, 4, HKind::Write { key: 0, val: 5 }, HRes::Ok, None), op(2, 3, HKind::List, HRes::Keys([true, false]), None)]),
		("list invents a key", [None, None], vec![op(1, 4, HKind::Remove { key: 0 }, HRes::Ok, None), op(2, 3, HKind::List, HRes::Keys([true, false]), None)]),
		(
			"value goes back",
			[None, None],
			vec![
				op(1, 10, HKind::Write { key: 0, val: 5 }, HRes::Ok, None),
				op(2, 3, HKind::Read { key: 0 }, HRes::Val(5), None),
				op(4, 5, HKind::Read { key: 0 }, HRes::NotFound, None),
			],
		),
	];
	for (name, init, h) in bad {
		if linearise(init, &h).is_some() {
			cli::die(&format!("oracle self-check: the bad history `{}` was accepted", name));
		}
	}
	let good: Vec<(&str, [Option<u8>; 2], Vec<HOp>)> = vec![
		(
			"skipped stale write",
			[None, None],
			vec![
				op(1, 20, HKind::Write { key: 0, val: 5 }, HRes::Ok, Some(1)),
				op(2, 11, HKind::Write { key: 0, val: 6 }, HRes::Ok, Some(2)),
				op(12, 13, HKind::Read { key: 0 }, HRes::Val(6), None),
				op(30, 31, HKind::Read { key: 0 }, HRes::Val(6), None),
			],
		),
		("failed write may apply", [None, None], vec![op(1, 2, HKind::Write { key: 0, val: 5 }, HRes::Failed, None), op(3, 4, HKind::Read { key: 0 }, HRes::Val(5), None)]),
		("list during write", [None, None], vec![op(1, 4, HKind::Write { key: 0, val: 5 }, HRes::Ok, None), op(2, 3, HKind::List, HRes::Keys([true, false]), None)]),
	];
	for (name, init, h) in good {
		if linearise(init, &h).is_none() {
			cli::die(&format!("oracle self-check: the good history `{}` was rejected", name));
		}
	}
}

fn bail(wd: &Workdir, msg: &str) -> ! {
	wd.cleanup();
	cli::die(msg)
}

fn main() {
	let args = cli::parse();
	mc_common::par::install_quiet_panic_hook();
	if let Some(p) = args.replay.clone() {
		replay(&args, &p);
	}
	if args.property != ID {
		cli::die(&format!("mc-store checks {} only (got `{}`)", ID, args.property));
	}
	let thorough = args.tier == Tier::Thorough;
	let part = args.opt("part").unwrap_or("all").to_string();
	let t_start = Instant::now();
	let cap = if args.wall_cap_s > 0 { args.wall_cap_s } else if thorough { 1800 } else { 52 };
	let deadline = t_start + Duration::from_secs(cap);
	let mut ev = Evidence::new(ID, args.tier, args.seed, Level::ModelChecking);
	let mut violations: Vec<Violation> = Vec::new();
	let wd = Workdir::new();
	oracle_self_check();
	let mut capped_any = false;

	// ------------------------------------------------------------------ (b) MonitorUpdatingPersister crash consistency
	if part == "all" || part == "mup" {
		let t0 = Instant::now();
		let (j, vs) = mup::run(thorough, args.threads);
		if violations.is_empty() && vs.is_empty() {
			let ok = j["recoveries_with_updates_applied"].as_u64().unwrap_or(0) > 0 && j["lazy_losses_considered"].as_u64().unwrap_or(0) > 0 && j["faulted_runs_in_which_the_node_aborted"].as_u64().unwrap_or(0) > 0;
			if !ok {
				bail(&wd, "vacuity: MonitorUpdatingPersister part never recovered with updates applied / never lost a lazy deletion / never aborted on a fault");
			}
		}
		eprintln!("[mup] {} recoveries over {} crash images, {} faulted runs, {:.1}s", j["recoveries"], j["crash_images"], j["faulted_runs"], t0.elapsed().as_secs_f64());
		ev.set("b_monitor_updating_persister", j);
		ev.sample(json!({"part": "mup", "history": "pay-claim", "max_pending": 3, "prefix": 7, "lost_lazy": [5]}), 12);
		violations.extend(vs);
	}
	// ------------------------------------------------------------------ (b, store side) faultstore
	if part == "all" || part == "fault" {
		let t0 = Instant::now();
		if let Err(e) = fstest::extra_checks() {
			violations.push(Violation {
				property: ID.into(),
				oracle: "faultstore-model".into(),
				identity: format!("faultstore-model|extra|{}", e),
				detail: format!("faultstore self-test: {}", e),
				replay: json!({"part": "faultstore-extra"}),
			});
		}
		let len = args.opt_u64("faultlen").unwrap_or(4) as usize;
		let out = fstest::enumerate(len, args.threads);
		for (ops, e) in out.failures.iter().take(10) {
			let codes: Vec<String> = ops.iter().map(|o| fstest::op_code(*o)).collect();
			violations.push(Violation {
				property: ID.into(),
				oracle: "faultstore-model".into(),
				identity: format!("faultstore-model|{}", codes.join(",")),
				detail: format!("faultstore differs from the reference model on [{}]: {}", codes.join(","), e),
				replay: json!({"part": "faultstore", "ops": codes}),
			});
		}
		if out.stats.crash_images_with_lost_lazy == 0 || out.stats.images_differing_from_no_loss == 0 || out.stats.faulted_runs == 0 {
			bail(&wd, "vacuity: faultstore self-test never built an image with a lost lazy removal that mattered / never injected a fault");
		}
		let mut j = out.stats.to_json();
		j["sequence_length"] = json!(len);
		j["alphabet"] = json!(fstest::N_OPS);
		j["exhaustive"] = json!(true);
		j["wall_s"] = json!(t0.elapsed().as_secs_f64());
		j["what"] = json!("mc_store::faultstore::FaultStore vs an independent association-list model: every sequence of exactly this length (all shorter ones are checked prefixes) over 2 namespaces x 2 keys x {write, remove, lazy remove, read} + 2 lists; rebuild() for every prefix x every subset of lazy removals; crash_images(); a single failing call at every position in both modes");
		ev.set("b_store_faultstore", j);
		ev.sample(json!({"part": "faultstore", "ops": ["W00", "Z00", "W01", "R00"]}), 12);
		eprintln!("[faultstore] {} sequences, {} crash images, {} faulted runs, {:.1}s", out.stats.sequences, out.stats.crash_images, out.stats.faulted_runs, t0.elapsed().as_secs_f64());
	}

	// ------------------------------------------------------------------ (a) sequential part
	if part == "all" || part == "seq" {
		let t0 = Instant::now();
		let full: Vec<usize> = (0..seq::N_OPS).collect();
		// quick, longest length only: three of the four (namespace, key) slots, one removal flavour per
		// slot (alternating), both listings; thorough uses the full alphabet everywhere
		let reduced: Vec<usize> = (0..seq::N_OPS)
			.filter(|i| *i >= 16 || (*i / 4 != 3 && !((*i % 4 == 1 && (*i / 4) % 2 == 1) || (*i % 4 == 2 && (*i / 4) % 2 == 0))))
			.collect();
		let mut runs: Vec<(bool, &str, usize, Vec<usize>)> = Vec::new();
		let seqlen = args.opt_u64("seqlen").unwrap_or(5) as usize;
		for v2 in [false, true] {
			if thorough {
				runs.push((v2, "A", seqlen, full.clone()));
				runs.push((v2, "B", seqlen, full.clone()));
				runs.push((v2, "C", seqlen.min(4), full.clone()));
			} else {
				runs.push((v2, "A", seqlen.min(4), full.clone()));
				runs.push((v2, "A", seqlen, reduced.clone()));
				runs.push((v2, "B", seqlen.min(3), full.clone()));
				runs.push((v2, "C", seqlen.min(3), full.clone()));
			}
		}
		// cheapest runs first, so that a wall cap cuts the biggest enumeration rather than a store version
		runs.sort_by_key(|(v2, _, len, alpha)| ((alpha.len() as u64).pow(*len as u32), *v2));
		// (relative to now, not to the start: on a loaded machine the parts before this one must not eat its budget)
		let seq_deadline = if thorough { t_start + Duration::from_secs(cap * 2 / 5) } else { (t_start + Duration::from_secs(20)).max(Instant::now() + Duration::from_secs(12)) };
		let mut jr = Vec::new();
		let mut total = seq::SeqStats::default();
		for (v2, nsname, len, alpha) in runs {
			let nss = seq::ns_set(nsname).unwrap();
			let out = seq::enumerate(v2, &nss, len, &alpha, thorough, args.threads, &wd, Some(seq_deadline));
			for (ops, f) in out.failures.iter().take(10) {
				let codes: Vec<String> = ops.iter().map(|o| seq::op_code(*o)).collect();
				violations.push(Violation {
					property: ID.into(),
					oracle: format!("seq-{}", f.oracle),
					identity: format!("seq-{}|{}|{}|{}", f.oracle, if v2 { "v2" } else { "v1" }, nsname, codes.join(",")),
					detail: format!("{} ns-set {} sequence [{}]: {}", if v2 { "FilesystemStoreV2" } else { "FilesystemStore" }, nsname, codes.join(","), f.detail),
					replay: seq::replay_json(v2, &nss, ops),
				});
			}
			if !out.exhaustive {
				capped_any = true;
			}
			jr.push(json!({
				"store": if v2 {"v2"} else {"v1"}, "ns_set": nsname, "length": len, "alphabet": out.alphabet,
				"sequences_run": out.stats.sequences, "ops": out.stats.ops, "exhaustive": out.exhaustive,
				"distinct_final_states": out.stats.final_states.len(), "failures": out.failures.len(),
			}));
			total.merge(&out.stats);
		}
		if total.reads_with_data == 0 || total.reads_not_found == 0 || total.lists_nonempty == 0 || total.removes_of_present == 0 || total.overwrites == 0 {
			bail(&wd, "vacuity: the sequential part never read data / never hit NotFound / never listed a key / never removed or overwrote an existing key");
		}
		ev.set(
			"a_sequential",
			json!({
				"runs": jr, "sequences_run": total.sequences, "ops": total.ops,
				"reads_with_data": total.reads_with_data, "reads_not_found": total.reads_not_found,
				"lists_nonempty": total.lists_nonempty, "removes_of_present": total.removes_of_present, "overwrites": total.overwrites,
				"wall_s": t0.elapsed().as_secs_f64(),
				"what": "every sequence of exactly `length` operations (shorter ones are checked prefixes) over 2 namespaces x 2 keys x {write, remove, lazy remove, read} + 2 lists on a fresh store and directory; each answer compared with a BTreeMap; at the end all keys read back, both listings, list_all_keys, list_paginated (v2), the raw directory (no stray or temporary file, exact contents) and the lock map (empty)",
				"ns_sets": {"A": "(ns,'') and (ns,sub) – a namespace directory inside a listed namespace", "B": "('','') and (top,'') – empty primary namespace", "C": "120-character namespaces and keys"},
			}),
		);
		ev.sample(json!({"part": "seq", "ops": ["W00", "R00", "Z00", "L0", "W10"]}), 12);
		eprintln!("[seq] {} sequences, {} ops, {:.1}s", total.sequences, total.ops, t0.elapsed().as_secs_f64());
	}

	// ------------------------------------------------------------------ (a) concurrent part
	let mut states = 0u64;
	let mut transitions = 0u64;
	let mut executions = 0u64;
	if part == "all" || part == "conc" {
		let t0 = Instant::now();
		let scns = families::build(thorough, args.opt("family"));
		let scns: Vec<Arc<Scenario>> = match args.opt_u64("maxscn") {
			Some(n) => scns.into_iter().take(n as usize).collect(),
			None => scns,
		};
		let k = args.opt_u64("k").unwrap_or(if thorough { 3 } else { 2 }) as u8;
		let pol = policy(&args);
		let cfg = xplore::XConfig {
			k,
			max_faults: args.opt_u64("maxfaults").unwrap_or(1) as u8,
			threads: args.threads,
			deadline: Some(if thorough { deadline } else { deadline.max(Instant::now() + Duration::from_secs(20)) }),
			policy: pol.clone(),
			det_sample: args.opt_u64("detsample").unwrap_or(64),
		};
		let (st, viols) = xplore::explore(&scns, &cfg, &wd);
		if !st.det_mismatch.is_empty() {
			wd.cleanup();
			bail(&wd, &format!("NONDETERMINISM or harness failure: {}", st.det_mismatch.join(" || ")));
		}
		for v in &viols {
			let scn = &scns[v.scn];
			violations.push(Violation {
				property: ID.into(),
				oracle: v.oracle.clone(),
				identity: format!("{}|{}", v.oracle, scn.short()),
				detail: format!(
					"{} – scenario `{}`, schedule [{}] ({} deviations); history: {}",
					v.detail,
					scn.short(),
					v.schedule.iter().map(|a| a.encode()).collect::<Vec<_>>().join(","),
					v.deviations,
					v.history.join("; ")
				),
				replay: json!({"part": "conc", "scenario": scn.to_json(), "schedule": xplore::schedule_json(&v.schedule), "policy": policy_json(&pol)}),
			});
		}
		if !viols.is_empty() {
			let mut by: std::collections::BTreeMap<String, (u64, u8)> = std::collections::BTreeMap::new();
			for v in &viols {
				let e = by.entry(v.oracle.clone()).or_insert((0, u8::MAX));
				e.0 += 1;
				e.1 = e.1.min(v.deviations);
			}
			eprintln!("[conc] violating scenarios by oracle (count, fewest deviations): {:?}", by);
		}
		executions = st.executions;
		states = st.new_decisions + st.scenarios;
		transitions = st.new_decisions;
		capped_any |= st.capped;
		// vacuity guards
		if st.interleaved == 0 {
			bail(&wd, "vacuity: in no schedule did two threads' critical sections on the same key interleave at the filesystem level");
		}
		if st.final_states.len() < 2 {
			bail(&wd, "vacuity: fewer than two distinct final directory states");
		}
		if pol.faults && cfg.max_faults > 0 && k > 0 && st.faulted == 0 {
			bail(&wd, "vacuity: no filesystem step failure was ever injected");
		}
		if st.bound_completed.is_none() {
			bail(&wd, "the wall cap hit before even the preemption-free schedules were done");
		}
		if k >= 1 && st.preempted_by_kind.is_empty() {
			bail(&wd, "vacuity: no preemption was ever taken");
		}
		let fam: Value = st
			.per_family
			.iter()
			.map(|(k, f)| {
				(k.clone(), json!({"scenarios": f.scenarios, "schedules": f.executions, "interleaved_critical_sections": f.interleaved, "with_injected_fault": f.faulted, "max_decisions": f.max_decisions}))
			})
			.collect::<mc_common::serde_json::Map<String, Value>>()
			.into();
		ev.set(
			"a_concurrent",
			json!({
				"scenarios": st.scenarios, "families": fam,
				"schedules": st.executions, "schedules_per_deviation_level": st.executions_per_level,
				"reexpansions_not_counted_as_schedules": st.reexpansions,
				"deviation_bound_requested": st.bound_requested, "deviation_bound_completed": st.bound_completed,
				"deviation_rule": "a schedule's deviations = preemptions (switching away from a thread that could continue) + injected step failures (at most max_faults); all schedules with at most `deviation_bound_completed` deviations were executed, each to quiescence",
				"max_faults_per_schedule": cfg.max_faults,
				"capped": st.capped,
				"scheduler_decisions": st.new_decisions + st.replayed_decisions, "new_decisions": st.new_decisions,
				"max_decisions_in_one_schedule": st.max_depth,
				"schedules_with_interleaved_critical_sections": st.interleaved,
				"schedules_with_injected_fault": st.faulted, "injected_faults_by_step": st.faulted_by_kind,
				"preemptions_by_point": st.preempted_by_kind,
				"points_reached_by_kind": st.point_kinds,
				"schedules_with_failed_operation": st.failed_ops_observed,
				"distinct_final_directory_states": st.final_states.len(),
				"distinct_observed_histories": st.labels.len(),
				"deadlocks": st.deadlocks,
				"determinism_reexecutions": st.det_checked,
				"observation_lockmap_entries_left_at_quiescence": {
					"note": "not part of the property statement (memory only, the entry is removed by the next operation on the same path); reported as an observation, not a violation",
					"schedules": st.lockmap_leftover_execs,
					"schedules_without_injected_fault": st.lockmap_leftover_faultfree_execs,
					"sample_without_fault": st.lockmap_leftover_faultfree_sample,
					"sample_with_fault": st.lockmap_leftover_sample,
				},
				"non_preemptible_points": pol.nopreempt,
				"wall_s": t0.elapsed().as_secs_f64(),
			}),
		);
		for s in &st.samples {
			ev.sample(s.clone(), 12);
		}
		eprintln!(
			"[conc] {} scenarios, {} schedules (levels {:?}), bound {:?}/{}, capped={}, interleaved={}, faulted={}, final states={}, lockmap-leftover={}, {:.1}s",
			st.scenarios,
			st.executions,
			st.executions_per_level,
			st.bound_completed,
			st.bound_requested,
			st.capped,
			st.interleaved,
			st.faulted,
			st.final_states.len(),
			st.lockmap_leftover_execs,
			t0.elapsed().as_secs_f64()
		);
	}
	wd.cleanup();

	ev.set("states", states.max(1));
	ev.set("states_rule", "stateless exploration: number of distinct scheduler-decision prefixes executed (nodes of the schedule tree), summed over scenarios");
	ev.set("transitions", transitions.max(1));
	ev.set("traces_validated_against_impl", executions);
	ev.set("capped", capped_any);
	ev.set("parts_run", part.clone());
	ev.assume("tmpfs (/dev/shm) behaves like a POSIX filesystem for open/write/fsync/rename/unlink/readdir; reordering inside the OS on power loss is not modelled (the storage crash model is the operation-prefix model of C19b)");
	ev.assume("the store's shared state is only reachable through Mutex/RwLock/atomics in safe Rust, so the H7 points (before every lock acquisition, after every release, before every filesystem step) are the only places where threads can observe each other; memory orderings weaker than sequential consistency are not explored");
	ev.assume("fsync steps (tmp-fsync, dir-fsync) and read_dir iteration steps are not preemption points: nothing another thread can observe changes between them and the preceding point (on tmpfs fsync is a no-op and readdir has buffered the whole small directory); they are still fault-injection points");
	ev.assume("the asynchronous KVStore shape is exercised through H7 wrappers that run the two halves of write_async/remove_async (version + lock reference taken at call time; write_version/remove_version later) without tokio; the tokio plumbing itself (spawn_blocking, JoinError mapping) is not executed");
	ev.assume("an operation that returned an (injected) I/O error may or may not have taken effect and is exempt from the version-order rule; list is not required to be atomic with respect to mutations it overlaps");
	ev.assume("Windows code paths (ReplaceFileW / trash files) are not compiled here");
	ev.assume("callers respect the documented KVStore precondition that keys do not collide with namespace names of the same level (v1 maps both to the same path)");
	std::process::exit(findings::conclude(ID, &violations, &mut ev));
}
