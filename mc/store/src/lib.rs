//! Library half of the C19 engine: reusable pieces other engines depend on.
//!
//! * [`faultstore`] – logging, fault-injecting in-memory `KVStoreSync` with crash-image rebuilding
//!   (store side of C19b; the world engine drives `MonitorUpdatingPersister` over it).
pub mod faultstore;
