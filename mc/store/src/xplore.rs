//! Preemption-bounded enumeration of schedules (iterative context bounding) over the scenarios.
//!
//! Stateless: every schedule is a fresh execution (fresh directory, fresh store, fresh threads). An
//! execution replays a decision prefix and continues with default decisions; every alternative that
//! was available beyond the prefix and fits the budget becomes a child task. Each complete schedule
//! is therefore executed exactly once per round. Rounds are iterative deepening on the number of
//! deviations (preemptions + injected faults): round b enumerates depth-first (bounded memory) all
//! schedules with at most b deviations and *records* (oracles, statistics) those with exactly b; the
//! executions with fewer deviations are re-run only to find their children ("re-expansions"). So
//! "bound completed" is meaningful when a wall cap hits.
use crate::conc::{run_execution, ExecResult, Scenario, Workdir};
use crate::sched::{Action, Policy};
use mc_common::par::WorkQueue;
use mc_common::{json, Value};
use std::collections::{BTreeMap, BTreeSet};
use std::sync::{Arc, Mutex};
use std::time::Instant;

pub struct XConfig {
	/// Maximum number of deviations (preemptions + faults) per schedule.
	pub k: u8,
	/// Maximum number of injected faults per schedule.
	pub max_faults: u8,
	pub threads: usize,
	pub deadline: Option<Instant>,
	pub policy: Policy,
	/// Re-execute one passing execution in `det_sample` (by schedule hash) and compare digests.
	pub det_sample: u64,
}

struct Task {
	scn: usize,
	base: Arc<Vec<Action>>,
	cut: usize,
	alt: Option<Action>,
	used_p: u8,
	used_f: u8,
}

#[derive(Clone, Debug)]
pub struct XViolation {
	pub scn: usize,
	pub oracle: String,
	pub detail: String,
	pub schedule: Vec<Action>,
	pub deviations: u8,
	pub history: Vec<String>,
}

#[derive(Default, Clone, Debug)]
pub struct FamStats {
	pub scenarios: u64,
	pub executions: u64,
	pub interleaved: u64,
	pub faulted: u64,
	pub max_decisions: u64,
}

#[derive(Default)]
pub struct XStats {
	pub scenarios: u64,
	pub executions: u64,
	pub reexpansions: u64,
	pub new_decisions: u64,
	pub replayed_decisions: u64,
	pub executions_per_level: Vec<u64>,
	pub bound_requested: u8,
	pub bound_completed: Option<u8>,
	pub capped: bool,
	pub interleaved: u64,
	pub faulted: u64,
	pub faulted_by_kind: BTreeMap<String, u64>,
	pub preempted_by_kind: BTreeMap<String, u64>,
	pub failed_ops_observed: u64,
	pub lockmap_leftover_execs: u64,
	pub lockmap_leftover_faultfree_execs: u64,
	pub lockmap_leftover_sample: Option<Value>,
	pub lockmap_leftover_faultfree_sample: Option<Value>,
	pub final_states: BTreeSet<u64>,
	pub labels: BTreeSet<u64>,
	pub per_family: BTreeMap<String, FamStats>,
	pub max_depth: u64,
	pub det_checked: u64,
	pub det_mismatch: Vec<String>,
	pub samples: Vec<Value>,
	pub point_kinds: BTreeMap<String, u64>,
	pub deadlocks: u64,
}

struct Agg {
	st: XStats,
	viol: BTreeMap<String, XViolation>,
	viol_total: u64,
}

pub fn schedule_json(s: &[Action]) -> Value {
	Value::Array(s.iter().map(|a| Value::String(a.encode())).collect())
}

fn sched_string(s: &[Action]) -> String {
	s.iter().map(|a| a.encode()).collect::<Vec<_>>().join(",")
}

pub fn explore(scns: &[Arc<Scenario>], cfg: &XConfig, wd: &Workdir) -> (XStats, Vec<XViolation>) {
	let mut st = XStats { bound_requested: cfg.k, scenarios: scns.len() as u64, ..Default::default() };
	for s in scns {
		st.per_family.entry(s.family.clone()).or_default().scenarios += 1;
	}
	let agg = Mutex::new(Agg { st, viol: BTreeMap::new(), viol_total: 0 });
	let empty = Arc::new(Vec::new());
	for level in 0..=cfg.k {
		let mut tasks = Vec::new();
		for i in (0..scns.len()).rev() {
			tasks.push(Task { scn: i, base: empty.clone(), cut: 0, alt: None, used_p: 0, used_f: 0 });
		}
		let before = agg.lock().unwrap_or_else(|e| e.into_inner()).st.executions;
		let q = WorkQueue::new(tasks);
		let capped = q.run(cfg.threads, cfg.deadline, |t, q| {
			if let Err(p) = mc_common::par::guarded(|| run_task(scns, cfg, wd, &agg, level, t, q)) {
				let mut g = agg.lock().unwrap_or_else(|e| e.into_inner());
				if g.st.det_mismatch.len() < 5 {
					g.st.det_mismatch.push(format!("harness panic while running a schedule: {}", p));
				}
			}
		});
		let mut g = agg.lock().unwrap_or_else(|e| e.into_inner());
		if capped {
			g.st.capped = true;
		}
		let n = g.st.executions - before;
		g.st.executions_per_level.push(n);
		if g.st.capped {
			break;
		}
		g.st.bound_completed = Some(level);
	}
	let g = agg.into_inner().unwrap_or_else(|e| e.into_inner());
	let mut v: Vec<XViolation> = g.viol.into_values().collect();
	v.sort_by_key(|x| (x.deviations, x.schedule.len(), x.scn));
	(g.st, v)
}

fn run_task(scns: &[Arc<Scenario>], cfg: &XConfig, wd: &Workdir, agg: &Mutex<Agg>, level: u8, t: Task, q: &WorkQueue<Task>) {
	let scn = &scns[t.scn];
	let mut prefix: Vec<Action> = t.base[..t.cut].to_vec();
	if let Some(a) = t.alt {
		prefix.push(a);
	}
	let r: ExecResult = run_execution(scn, &prefix, &cfg.policy, wd);
	let full: Vec<Action> = r.decisions.iter().map(|d| d.chosen).collect();
	let full_arc = Arc::new(full.clone());
	// children: every alternative beyond the prefix that fits this round's budget
	let used = t.used_p + t.used_f;
	let mut children: Vec<Task> = Vec::new();
	for i in prefix.len()..r.decisions.len() {
		for (a, pc, fc) in &r.decisions[i].alts {
			let np = t.used_p + pc;
			let nf = t.used_f + fc;
			if nf > cfg.max_faults || np + nf > level {
				continue;
			}
			children.push(Task { scn: t.scn, base: full_arc.clone(), cut: i, alt: Some(*a), used_p: np, used_f: nf });
		}
	}
	if used < level {
		// already recorded in round `used`; re-run only to expand
		agg.lock().unwrap_or_else(|e| e.into_inner()).st.reexpansions += 1;
		q.push_all(children);
		return;
	}
	// determinism: every violating schedule twice more, a sample of the passing ones once more
	let key = mc_common::fnv64(format!("{}#{}", t.scn, sched_string(&full)).as_bytes());
	let mut det_checked = 0;
	let mut det_mismatch: Option<String> = None;
	let violating = !r.failures.is_empty();
	if violating || (cfg.det_sample > 0 && key % cfg.det_sample == 0) {
		for _ in 0..(if violating { 2 } else { 1 }) {
			let r2 = run_execution(scn, &full, &cfg.policy, wd);
			det_checked += 1;
			if r2.digest != r.digest {
				det_mismatch = Some(format!(
					"scenario `{}` schedule [{}]: digests {:016x} vs {:016x}; first history {:?} second {:?}",
					scn.short(),
					sched_string(&full),
					r.digest,
					r2.digest,
					r.history,
					r2.history
				));
			}
		}
	}
	{
		let mut g = agg.lock().unwrap_or_else(|e| e.into_inner());
		let st = &mut g.st;
		st.executions += 1;
		st.new_decisions += (r.decisions.len() - prefix.len().min(r.decisions.len())) as u64;
		st.replayed_decisions += prefix.len().min(r.decisions.len()) as u64;
		st.max_depth = st.max_depth.max(r.decisions.len() as u64);
		if r.interleaved {
			st.interleaved += 1;
		}
		if r.faults > 0 {
			st.faulted += 1;
			for e in r.events.iter().filter(|e| e.injected) {
				*st.faulted_by_kind.entry(e.kind.to_string()).or_insert(0) += 1;
			}
		}
		if r.history.iter().any(|h| h.contains("err")) {
			st.failed_ops_observed += 1;
		}
		if matches!(r.abort, Some(crate::sched::Abort::Deadlock(_))) {
			st.deadlocks += 1;
		}
		for d in r.decisions.iter().filter(|d| d.cost.0 > 0) {
			*st.preempted_by_kind.entry(d.at.to_string()).or_insert(0) += 1;
		}
		if r.lockmap_leftover > 0 {
			st.lockmap_leftover_execs += 1;
			let sample = || json!({"scenario": scn.to_json(), "schedule": sched_string(&full), "deviations": t.used_p + t.used_f, "entries": r.lockmap_leftover, "history": r.history});
			if r.faults == 0 {
				st.lockmap_leftover_faultfree_execs += 1;
				if st.lockmap_leftover_faultfree_sample.is_none() {
					st.lockmap_leftover_faultfree_sample = Some(sample());
				}
			} else if st.lockmap_leftover_sample.is_none() {
				st.lockmap_leftover_sample = Some(sample());
			}
		}
		if let Some(d) = r.final_digest {
			st.final_states.insert(d);
		}
		st.labels.insert(mc_common::fnv64(format!("{}|{}", t.scn, r.label).as_bytes()));
		for e in &r.events {
			*st.point_kinds.entry(e.kind.to_string()).or_insert(0) += 1;
		}
		let fam = st.per_family.entry(scn.family.clone()).or_default();
		fam.executions += 1;
		fam.max_decisions = fam.max_decisions.max(r.decisions.len() as u64);
		if r.interleaved {
			fam.interleaved += 1;
		}
		if r.faults > 0 {
			fam.faulted += 1;
		}
		st.det_checked += det_checked;
		if let Some(m) = det_mismatch {
			if st.det_mismatch.len() < 5 {
				st.det_mismatch.push(m);
			}
		}
		if st.samples.len() < 8 && (st.samples.len() < 2 || (level > 0 && r.interleaved && key % 7 == 0)) {
			st.samples.push(json!({"scenario": scn.short(), "schedule": sched_string(&full), "history": r.history}));
		}
		for f in &r.failures {
			g.viol_total += 1;
			let id = format!("{}|{}", f.oracle, scn.short());
			let cand = XViolation {
				scn: t.scn,
				oracle: f.oracle.to_string(),
				detail: f.detail.clone(),
				schedule: full.clone(),
				deviations: t.used_p + t.used_f,
				history: r.history.clone(),
			};
			let n = g.viol.len();
			match g.viol.get_mut(&id) {
				Some(old) => {
					if (cand.deviations, cand.schedule.len(), sched_string(&cand.schedule)) < (old.deviations, old.schedule.len(), sched_string(&old.schedule)) {
						*old = cand;
					}
				},
				None => {
					if n < 400 {
						g.viol.insert(id, cand);
					}
				},
			}
		}
	}
	q.push_all(children);
}
