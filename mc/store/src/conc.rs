//! C19a, concurrent part: scenarios, one controlled execution on the real store, the oracles.
use crate::lin::{self, HKind, HOp, HRes, NKEYS};
use crate::sched::{self, Abort, Action, Decision, Event, Exec, Policy};
use lightning::util::persist::{KVStoreSync, MigratableKVStoreSync};
use lightning_persister::fs_store::v1::FilesystemStore;
use lightning_persister::fs_store::v2::FilesystemStoreV2;
use lightning_persister::verif::VerifTicket;
use mc_common::{json, Value};
use std::path::{Path, PathBuf};
use std::sync::atomic::{AtomicU64, Ordering};
use std::sync::{Arc, Mutex};

// ---------------------------------------------------------------------------------------------
// store wrapper

pub enum AnyStore {
	V1(FilesystemStore),
	V2(FilesystemStoreV2),
}

impl AnyStore {
	pub fn new(v2: bool, dir: PathBuf) -> Result<AnyStore, String> {
		if v2 {
			FilesystemStoreV2::new(dir).map(AnyStore::V2).map_err(|e| format!("{}", e))
		} else {
			Ok(AnyStore::V1(FilesystemStore::new(dir)))
		}
	}
	pub fn kv(&self) -> &dyn KVStoreSync {
		match self {
			AnyStore::V1(s) => s,
			AnyStore::V2(s) => s,
		}
	}
	pub fn list_all_keys(&self) -> Result<Vec<(String, String, String)>, lightning::io::Error> {
		match self {
			AnyStore::V1(s) => s.list_all_keys(),
			AnyStore::V2(s) => s.list_all_keys(),
		}
	}
	pub fn begin(&self, pn: &str, sn: &str, key: &str, write: bool) -> Result<VerifTicket, lightning::io::Error> {
		match (self, write) {
			(AnyStore::V1(s), true) => s.verif_begin_write(pn, sn, key),
			(AnyStore::V1(s), false) => s.verif_begin_remove(pn, sn, key),
			(AnyStore::V2(s), true) => s.verif_begin_write(pn, sn, key),
			(AnyStore::V2(s), false) => s.verif_begin_remove(pn, sn, key),
		}
	}
	pub fn finish_write(&self, t: VerifTicket, buf: Vec<u8>) -> Result<(), lightning::io::Error> {
		match self {
			AnyStore::V1(s) => s.verif_finish_write(t, buf),
			AnyStore::V2(s) => s.verif_finish_write(t, buf),
		}
	}
	pub fn finish_remove(&self, t: VerifTicket, lazy: bool) -> Result<(), lightning::io::Error> {
		match self {
			AnyStore::V1(s) => s.verif_finish_remove(t, lazy),
			AnyStore::V2(s) => s.verif_finish_remove(t, lazy),
		}
	}
	pub fn state_size(&self) -> usize {
		match self {
			AnyStore::V1(s) => s.verif_state_size(),
			AnyStore::V2(s) => s.verif_state_size(),
		}
	}
}

// ---------------------------------------------------------------------------------------------
// scenarios

#[derive(Clone, Copy, Debug, PartialEq, Eq, PartialOrd, Ord)]
pub enum Variant {
	Plain,
	EmptySub,
	EmptyBoth,
	MaxLen,
}

impl Variant {
	pub fn name(&self) -> &'static str {
		match self {
			Variant::Plain => "plain",
			Variant::EmptySub => "empty-sub",
			Variant::EmptyBoth => "empty-both",
			Variant::MaxLen => "max-len",
		}
	}
	pub fn parse(s: &str) -> Option<Variant> {
		[Variant::Plain, Variant::EmptySub, Variant::EmptyBoth, Variant::MaxLen].into_iter().find(|v| v.name() == s)
	}
	/// (primary namespace, secondary namespace, the two keys)
	pub fn names(&self) -> (String, String, [String; NKEYS]) {
		match self {
			Variant::Plain => ("ns".into(), "sub".into(), ["k1".into(), "k2".into()]),
			Variant::EmptySub => ("ns".into(), "".into(), ["k1".into(), "k2".into()]),
			Variant::EmptyBoth => ("".into(), "".into(), ["k1".into(), "k2".into()]),
			Variant::MaxLen => ("p".repeat(120), "s".repeat(120), [format!("{}1", "a".repeat(119)), format!("{}2", "a".repeat(119))]),
		}
	}
}

#[derive(Clone, Copy, Debug, PartialEq, Eq, PartialOrd, Ord)]
pub enum Mutation {
	Write { key: u8, val: u8 },
	Remove { key: u8, lazy: bool },
}

#[derive(Clone, Copy, Debug, PartialEq, Eq, PartialOrd, Ord)]
pub enum Op {
	Mut(Mutation),
	Read { key: u8 },
	List,
	/// Asynchronous shape: take the version of ticket `t` (first half of `KVStore::write/remove`).
	Begin { ticket: u8 },
	/// Asynchronous shape: execute ticket `t` (what the future runs on the blocking pool).
	Finish { ticket: u8 },
}

impl Mutation {
	fn encode(&self) -> String {
		match self {
			Mutation::Write { key, val } => format!("W{}:{}", key, val),
			Mutation::Remove { key, lazy: false } => format!("X{}", key),
			Mutation::Remove { key, lazy: true } => format!("Z{}", key),
		}
	}
	fn decode(s: &str) -> Option<Mutation> {
		let (c, rest) = s.split_at(1);
		match c {
			"W" => {
				let (k, v) = rest.split_once(':')?;
				Some(Mutation::Write { key: k.parse().ok()?, val: v.parse().ok()? })
			},
			"X" => Some(Mutation::Remove { key: rest.parse().ok()?, lazy: false }),
			"Z" => Some(Mutation::Remove { key: rest.parse().ok()?, lazy: true }),
			_ => None,
		}
	}
}

impl Op {
	pub fn encode(&self) -> String {
		match self {
			Op::Mut(m) => m.encode(),
			Op::Read { key } => format!("R{}", key),
			Op::List => "L".into(),
			Op::Begin { ticket } => format!("B{}", ticket),
			Op::Finish { ticket } => format!("F{}", ticket),
		}
	}
	pub fn decode(s: &str) -> Option<Op> {
		if s.is_empty() {
			return None;
		}
		let (c, rest) = s.split_at(1);
		match c {
			"W" | "X" | "Z" => Mutation::decode(s).map(Op::Mut),
			"R" => Some(Op::Read { key: rest.parse().ok()? }),
			"L" => Some(Op::List),
			"B" => Some(Op::Begin { ticket: rest.parse().ok()? }),
			"F" => Some(Op::Finish { ticket: rest.parse().ok()? }),
			_ => None,
		}
	}
}

#[derive(Clone, Debug, PartialEq, Eq, PartialOrd, Ord)]
pub struct Scenario {
	pub family: String,
	pub v2: bool,
	pub variant: Variant,
	/// Keys that exist before the threads start (value id = 1 + key).
	pub init: Vec<u8>,
	/// Asynchronous shape: the mutations behind the tickets, in ticket order.
	pub tickets: Vec<Mutation>,
	/// Tickets `0..upfront` get their version (in order) before any thread starts; the others are
	/// begun by `Begin` operations inside the thread programs.
	pub upfront: u8,
	pub programs: Vec<Vec<Op>>,
}

impl Scenario {
	pub fn to_json(&self) -> Value {
		json!({
			"family": self.family,
			"store": if self.v2 { "v2" } else { "v1" },
			"variant": self.variant.name(),
			"init": self.init,
			"tickets": self.tickets.iter().map(|m| m.encode()).collect::<Vec<_>>(),
			"upfront": self.upfront,
			"programs": self.programs.iter().map(|p| p.iter().map(|o| o.encode()).collect::<Vec<_>>()).collect::<Vec<_>>(),
		})
	}
	pub fn from_json(v: &Value) -> Option<Scenario> {
		Some(Scenario {
			family: v["family"].as_str()?.to_string(),
			v2: v["store"].as_str()? == "v2",
			variant: Variant::parse(v["variant"].as_str()?)?,
			init: v["init"].as_array()?.iter().map(|x| x.as_u64().map(|x| x as u8)).collect::<Option<Vec<_>>>()?,
			tickets: v["tickets"].as_array()?.iter().map(|x| x.as_str().and_then(Mutation::decode)).collect::<Option<Vec<_>>>()?,
			upfront: v["upfront"].as_u64()? as u8,
			programs: v["programs"]
				.as_array()?
				.iter()
				.map(|p| p.as_array().and_then(|p| p.iter().map(|o| o.as_str().and_then(Op::decode)).collect::<Option<Vec<_>>>()))
				.collect::<Option<Vec<_>>>()?,
		})
	}
	pub fn short(&self) -> String {
		format!(
			"{} {} {} init={:?} tickets=[{}]/{} threads=[{}]",
			self.family,
			if self.v2 { "v2" } else { "v1" },
			self.variant.name(),
			self.init,
			self.tickets.iter().map(|m| m.encode()).collect::<Vec<_>>().join(","),
			self.upfront,
			self.programs.iter().map(|p| p.iter().map(|o| o.encode()).collect::<Vec<_>>().join(" ")).collect::<Vec<_>>().join(" | ")
		)
	}
}

pub fn value_bytes(id: u8) -> Vec<u8> {
	vec![id; 24 + (id as usize % 40)]
}
/// `Some(id)` if `b` is exactly a value that a write (or the initial population) produces.
pub fn value_id(b: &[u8]) -> Option<u8> {
	let id = *b.first()?;
	if b == &value_bytes(id)[..] {
		Some(id)
	} else {
		None
	}
}

// ---------------------------------------------------------------------------------------------
// one execution

#[derive(Clone, Debug)]
pub struct Failure {
	pub oracle: &'static str,
	pub detail: String,
}

#[derive(Clone, Debug)]
struct Rec {
	tid: usize,
	op_idx: usize,
	op: Op,
	call: u64,
	ret: u64,
	res: HRes,
	/// anything the oracles must complain about regardless of linearisability
	problem: Option<Failure>,
}

struct Shared {
	recs: Mutex<Vec<Rec>>,
	tickets: Mutex<Vec<Option<VerifTicket>>>,
	begin_call: Mutex<Vec<Option<(u64, u64)>>>, // (call stamp, version)
}

pub struct Workdir {
	pub base: PathBuf,
	counter: AtomicU64,
}

impl Workdir {
	pub fn new() -> Workdir {
		let root = if Path::new("/dev/shm").is_dir() { PathBuf::from("/dev/shm") } else { std::env::temp_dir() };
		// sweep scratch directories of runs that were killed
		if let Ok(rd) = std::fs::read_dir(&root) {
			for e in rd.flatten() {
				if let Some(pid) = e.file_name().to_str().and_then(|n| n.strip_prefix("mc-store-")).and_then(|p| p.parse::<u32>().ok()) {
					if !Path::new(&format!("/proc/{}", pid)).exists() {
						let _ = std::fs::remove_dir_all(e.path());
					}
				}
			}
		}
		let base = root.join(format!("mc-store-{}", std::process::id()));
		let _ = std::fs::remove_dir_all(&base);
		if let Err(e) = std::fs::create_dir_all(&base) {
			mc_common::cli::die(&format!("cannot create scratch directory {}: {}", base.display(), e));
		}
		Workdir { base, counter: AtomicU64::new(0) }
	}
	/// A fresh directory name. Every OS thread works below its own parent directory so that
	/// concurrent workers do not contend on one directory's inode lock.
	pub fn fresh(&self) -> PathBuf {
		thread_local! {
			static SLOT: std::cell::Cell<u64> = const { std::cell::Cell::new(u64::MAX) };
		}
		static NEXT_SLOT: AtomicU64 = AtomicU64::new(0);
		let slot = SLOT.with(|s| {
			if s.get() == u64::MAX {
				s.set(NEXT_SLOT.fetch_add(1, Ordering::Relaxed));
			}
			s.get()
		});
		let n = self.counter.fetch_add(1, Ordering::Relaxed);
		let parent = self.base.join(format!("w{}", slot));
		if !parent.is_dir() {
			let _ = std::fs::create_dir_all(&parent);
		}
		parent.join(format!("x{}", n))
	}
	pub fn cleanup(&self) {
		let _ = std::fs::remove_dir_all(&self.base);
	}
}


pub struct ExecResult {
	pub decisions: Vec<Decision>,
	pub events: Vec<Event>,
	pub abort: Option<Abort>,
	pub failures: Vec<Failure>,
	pub digest: u64,
	pub final_digest: Option<u64>,
	pub lockmap_leftover: usize,
	pub interleaved: bool,
	pub faults: usize,
	#[allow(dead_code)]
	pub preemptions: usize,
	pub history: Vec<String>,
	pub label: String,
}

fn classify_unit(r: Result<(), lightning::io::Error>) -> (HRes, Option<Failure>) {
	match r {
		Ok(()) => (HRes::Ok, None),
		Err(e) => {
			let msg = format!("{}", e);
			if msg.contains("_verif_hooks: injected failure") {
				(HRes::Failed, None)
			} else {
				(HRes::Failed, Some(Failure { oracle: "unexpected-error", detail: format!("mutation returned an error nobody injected: {:?} {}", e.kind(), msg) }))
			}
		},
	}
}

fn run_op(store: &AnyStore, names: &(String, String, [String; NKEYS]), scn: &Scenario, sh: &Shared, exec: &Exec, op: &Op) -> (HRes, Option<Failure>) {
	let (pn, sn, keys) = names;
	match op {
		Op::Mut(Mutation::Write { key, val }) => classify_unit(store.kv().write(pn, sn, &keys[*key as usize], value_bytes(*val))),
		Op::Mut(Mutation::Remove { key, lazy }) => classify_unit(store.kv().remove(pn, sn, &keys[*key as usize], *lazy)),
		Op::Read { key } => match store.kv().read(pn, sn, &keys[*key as usize]) {
			Ok(b) => match value_id(&b) {
				Some(id) => (HRes::Val(id), None),
				None => (
					HRes::Failed,
					Some(Failure {
						oracle: "torn-read",
						detail: format!("read returned {} bytes {:02x?}.. which no write ever wrote in full", b.len(), &b[..b.len().min(8)]),
					}),
				),
			},
			Err(e) if e.kind() == lightning::io::ErrorKind::NotFound => (HRes::NotFound, None),
			Err(e) => {
				let msg = format!("{}", e);
				if msg.contains("_verif_hooks: injected failure") {
					(HRes::Failed, None)
				} else {
					(HRes::Failed, Some(Failure { oracle: "unexpected-error", detail: format!("read failed: {:?} {}", e.kind(), msg) }))
				}
			},
		},
		Op::List => match store.kv().list(pn, sn) {
			Ok(ks) => {
				let mut present = [false; NKEYS];
				let mut problem = None;
				for k in &ks {
					match keys.iter().position(|x| x == k) {
						Some(i) if !present[i] => present[i] = true,
						Some(_) => problem = Some(Failure { oracle: "list-exact", detail: format!("list returned `{}` twice: {:?}", k, ks) }),
						None => problem = Some(Failure { oracle: "list-exact", detail: format!("list returned `{}` which was never a key: {:?}", k, ks) }),
					}
				}
				(HRes::Keys(present), problem)
			},
			Err(e) => {
				let msg = format!("{}", e);
				if msg.contains("_verif_hooks: injected failure") {
					(HRes::Failed, None)
				} else {
					(HRes::Failed, Some(Failure { oracle: "unexpected-error", detail: format!("list failed: {:?} {}", e.kind(), msg) }))
				}
			},
		},
		Op::Begin { ticket } => {
			let m = scn.tickets[*ticket as usize];
			let call = exec.stamp();
			let r = match m {
				Mutation::Write { key, .. } => store.begin(pn, sn, &keys[key as usize], true),
				Mutation::Remove { key, .. } => store.begin(pn, sn, &keys[key as usize], false),
			};
			match r {
				Ok(t) => {
					sh.begin_call.lock().unwrap()[*ticket as usize] = Some((call, t.version()));
					sh.tickets.lock().unwrap()[*ticket as usize] = Some(t);
					exec.set_ticket_ready(*ticket as usize);
					(HRes::Ok, None)
				},
				Err(e) => (HRes::Failed, Some(Failure { oracle: "unexpected-error", detail: format!("begin failed: {}", e) })),
			}
		},
		Op::Finish { ticket } => {
			let t = sh.tickets.lock().unwrap()[*ticket as usize].take();
			let t = match t {
				Some(t) => t,
				None => return (HRes::Failed, Some(Failure { oracle: "harness", detail: "ticket missing".into() })),
			};
			match scn.tickets[*ticket as usize] {
				Mutation::Write { val, .. } => classify_unit(store.finish_write(t, value_bytes(val))),
				Mutation::Remove { lazy, .. } => classify_unit(store.finish_remove(t, lazy)),
			}
		},
	}
}

type Job = Box<dyn FnOnce() + Send>;
struct Subject {
	tx: std::sync::mpsc::Sender<Job>,
	done: std::sync::mpsc::Receiver<()>,
}
thread_local! {
	static POOL: std::cell::RefCell<Vec<Subject>> = const { std::cell::RefCell::new(Vec::new()) };
}
fn spawn_subject() -> Subject {
	let (tx, rx) = std::sync::mpsc::channel::<Job>();
	let (dtx, drx) = std::sync::mpsc::channel::<()>();
	let r = std::thread::Builder::new().stack_size(512 * 1024).name("subject".into()).spawn(move || {
		for job in rx {
			job();
			if dtx.send(()).is_err() {
				break;
			}
		}
	});
	if let Err(e) = r {
		mc_common::cli::die(&format!("cannot spawn thread: {}", e));
	}
	Subject { tx, done: drx }
}

/// `run_op` on the controlling thread (read-back at quiescence): a panic is a finding, not a crash.
fn guarded_op(store: &AnyStore, names: &(String, String, [String; NKEYS]), scn: &Scenario, sh: &Shared, exec: &Exec, op: &Op) -> (HRes, Option<Failure>) {
	match mc_common::par::guarded(|| run_op(store, names, scn, sh, exec, op)) {
		Ok(x) => x,
		Err(m) => (HRes::Failed, Some(Failure { oracle: "no-panic", detail: format!("{} panicked: {}", op.encode(), m) })),
	}
}

fn thread_main(exec: Arc<Exec>, tid: usize, scn: Arc<Scenario>, store: Arc<AnyStore>, sh: Arc<Shared>) {
	sched::bind_thread(&exec, tid);
	let names = scn.variant.names();
	let _ = std::panic::catch_unwind(std::panic::AssertUnwindSafe(|| {
		for (i, op) in scn.programs[tid].iter().enumerate() {
			exec.set_cur_op(tid, i as u16);
			let need = match op {
				Op::Finish { ticket } => Some(*ticket as usize),
				_ => None,
			};
			exec.at_point(tid, "op-call", Path::new(""), 0, need);
			let call = exec.stamp();
			let r = mc_common::par::guarded(|| run_op(&store, &names, &scn, &sh, &exec, op));
			let (res, problem) = match r {
				Ok(x) => x,
				Err(msg) => {
					if exec.aborted() {
						std::panic::resume_unwind(Box::new(sched::AbortToken));
					}
					(HRes::Failed, Some(Failure { oracle: "no-panic", detail: format!("{} panicked: {}", op.encode(), msg) }))
				},
			};
			let ret = exec.stamp();
			sh.recs.lock().unwrap().push(Rec { tid, op_idx: i, op: *op, call, ret, res, problem });
		}
	}));
	sched::unbind_thread();
	exec.thread_exit(tid);
}

fn walk(dir: &Path, base: &Path, out: &mut Vec<(String, Vec<u8>)>) {
	if let Ok(rd) = std::fs::read_dir(dir) {
		let mut entries: Vec<PathBuf> = rd.filter_map(|e| e.ok().map(|e| e.path())).collect();
		entries.sort();
		for p in entries {
			if p.is_dir() {
				walk(&p, base, out);
			} else {
				let rel = p.strip_prefix(base).unwrap_or(&p).to_string_lossy().into_owned();
				out.push((rel, std::fs::read(&p).unwrap_or_default()));
			}
		}
	}
}

/// Where key `k` of the scenario's namespace lives on disk (relative to the data directory).
pub fn expected_rel_path(v2: bool, variant: Variant, k: usize) -> String {
	let (pn, sn, keys) = variant.names();
	let mut p = PathBuf::new();
	if v2 {
		p.push(if pn.is_empty() { "[empty]" } else { &pn });
		p.push(if sn.is_empty() { "[empty]" } else { &sn });
	} else {
		if !pn.is_empty() {
			p.push(&pn);
		}
		if !sn.is_empty() {
			p.push(&sn);
		}
	}
	p.push(&keys[k]);
	p.to_string_lossy().into_owned()
}

fn hres_short(r: &HRes) -> String {
	match r {
		HRes::Ok => "ok".into(),
		HRes::Val(v) => format!("={}", v),
		HRes::NotFound => "=none".into(),
		HRes::Keys(k) => format!("={{{}}}", (0..NKEYS).filter(|i| k[*i]).map(|i| format!("k{}", i)).collect::<Vec<_>>().join(",")),
		HRes::Failed => "err".into(),
	}
}

/// Runs `scn` once under the schedule `prefix` (continued with default decisions) and applies all
/// oracles.
pub fn run_execution(scn: &Arc<Scenario>, prefix: &[Action], policy: &Policy, wd: &Workdir) -> ExecResult {
	sched::install_hook();
	let dir = wd.fresh();
	let mut failures: Vec<Failure> = Vec::new();
	let names = scn.variant.names();
	let (pn, sn, keys) = (&names.0, &names.1, &names.2);
	let store = match AnyStore::new(scn.v2, dir.clone()) {
		Ok(s) => Arc::new(s),
		Err(e) => mc_common::cli::die(&format!("cannot create store: {}", e)),
	};
	// initial population (this thread is not bound to an execution: the hooks are no-ops)
	let mut init_state: lin::State = [None; NKEYS];
	for k in &scn.init {
		let id = 1 + *k;
		if let Err(e) = store.kv().write(pn, sn, &keys[*k as usize], value_bytes(id)) {
			mc_common::cli::die(&format!("initial write failed: {}", e));
		}
		init_state[*k as usize] = Some(id);
	}
	let n = scn.programs.len();
	let exec = Exec::new(n, scn.tickets.len(), prefix.to_vec(), dir.clone(), policy.clone());
	let sh = Arc::new(Shared {
		recs: Mutex::new(Vec::new()),
		tickets: Mutex::new((0..scn.tickets.len()).map(|_| None).collect()),
		begin_call: Mutex::new(vec![None; scn.tickets.len()]),
	});
	for t in 0..scn.upfront as usize {
		let call = exec.stamp();
		let r = match scn.tickets[t] {
			Mutation::Write { key, .. } => store.begin(pn, sn, &keys[key as usize], true),
			Mutation::Remove { key, .. } => store.begin(pn, sn, &keys[key as usize], false),
		};
		match r {
			Ok(tk) => {
				sh.begin_call.lock().unwrap()[t] = Some((call, tk.version()));
				sh.tickets.lock().unwrap()[t] = Some(tk);
				exec.set_ticket_ready(t);
			},
			Err(e) => mc_common::cli::die(&format!("upfront begin failed: {}", e)),
		}
	}
	// the subject threads are real OS threads, kept in a per-worker pool between executions
	let mut subjects: Vec<Subject> = POOL.with(|p| {
		let mut p = p.borrow_mut();
		let mut v = Vec::new();
		for _ in 0..n {
			v.push(p.pop().unwrap_or_else(spawn_subject));
		}
		v
	});
	for (tid, subj) in subjects.iter().enumerate() {
		let (e, s, st, shc) = (exec.clone(), scn.clone(), store.clone(), sh.clone());
		if subj.tx.send(Box::new(move || thread_main(e, tid, s, st, shc))).is_err() {
			mc_common::cli::die("subject thread died");
		}
	}
	exec.start();
	let abort = exec.wait_done();
	let hung = matches!(abort, Some(Abort::Hang(_)));
	if !hung {
		// wait until every subject thread has left the execution, then hand the threads back
		let mut ok = true;
		for subj in &subjects {
			if subj.done.recv().is_err() {
				ok = false;
			}
		}
		if ok {
			POOL.with(|p| p.borrow_mut().append(&mut subjects));
		}
	}
	// (after a hang the threads are abandoned: a blocked one can never be reused)
	drop(subjects);
	let (decisions, events, held) = exec.take_logs();
	let mut recs = std::mem::take(&mut *sh.recs.lock().unwrap());
	recs.sort_by_key(|r| r.call);
	match &abort {
		Some(Abort::Deadlock(d)) => failures.push(Failure { oracle: "no-deadlock", detail: format!("no enabled thread: {}", d) }),
		Some(Abort::Hang(d)) => failures.push(Failure { oracle: "no-hang", detail: d.clone() }),
		Some(Abort::Divergence(d)) => failures.push(Failure { oracle: "replay-divergence", detail: d.clone() }),
		None => {},
	}
	for r in &recs {
		if let Some(p) = &r.problem {
			failures.push(Failure { oracle: p.oracle, detail: format!("t{} op{} {}: {}", r.tid, r.op_idx, r.op.encode(), p.detail) });
		}
	}
	if abort.is_none() && held != 0 {
		failures.push(Failure { oracle: "harness", detail: format!("{} locks still held in the mirror at quiescence", held) });
	}

	// ----- history for the lineariser
	let mut hops: Vec<HOp> = Vec::new();
	let begin_call = sh.begin_call.lock().unwrap().clone();
	for r in &recs {
		let label = format!("t{}.{} {}{}", r.tid, r.op_idx, r.op.encode(), hres_short(&r.res));
		match r.op {
			Op::Mut(Mutation::Write { key, val }) => {
				hops.push(HOp { call: r.call, ret: r.ret, kind: HKind::Write { key: key as usize, val }, res: r.res.clone(), version: None, label })
			},
			Op::Mut(Mutation::Remove { key, .. }) => {
				hops.push(HOp { call: r.call, ret: r.ret, kind: HKind::Remove { key: key as usize }, res: r.res.clone(), version: None, label })
			},
			Op::Read { key } => hops.push(HOp { call: r.call, ret: r.ret, kind: HKind::Read { key: key as usize }, res: r.res.clone(), version: None, label }),
			Op::List => hops.push(HOp { call: r.call, ret: r.ret, kind: HKind::List, res: r.res.clone(), version: None, label }),
			Op::Begin { .. } => {},
			Op::Finish { ticket } => {
				let m = scn.tickets[ticket as usize];
				let (bcall, version) = begin_call[ticket as usize].unwrap_or((r.call, 0));
				let kind = match m {
					Mutation::Write { key, val } => HKind::Write { key: key as usize, val },
					Mutation::Remove { key, .. } => HKind::Remove { key: key as usize },
				};
				hops.push(HOp { call: bcall, ret: r.ret, kind, res: r.res.clone(), version: Some(version), label: format!("{}[{} v{}]", label, m.encode(), version) });
			},
		}
	}
	let mut final_digest = None;
	let mut lockmap_leftover = 0;
	let mut post_desc = String::new();
	if abort.is_none() {
		// the versions handed out must be in issue order (ticket order for upfront tickets)
		let mut last = 0u64;
		for t in 0..scn.upfront as usize {
			if let Some((_, v)) = begin_call[t] {
				if v <= last {
					failures.push(Failure { oracle: "version-order", detail: format!("ticket {} got version {} after version {}", t, v, last) });
				}
				last = v;
			}
		}
		// lock-map entries left behind by the threads (measured before the read-back below, which
		// would clean them up)
		lockmap_leftover = mc_common::par::guarded(|| store.state_size()).unwrap_or(usize::MAX);
		if lockmap_leftover == usize::MAX {
			failures.push(Failure { oracle: "no-panic", detail: "reading the lock-map size panicked (poisoned lock)".into() });
			lockmap_leftover = 0;
		}
		// ----- quiescence: read everything back through the API (sequentially, after everything)
		let mut clock = hops.iter().map(|h| h.ret).max().unwrap_or(0) + 10;
		for k in 0..NKEYS {
			let (res, problem) = guarded_op(&store, &names, scn, &sh, &exec, &Op::Read { key: k as u8 });
			if let Some(p) = problem {
				failures.push(Failure { oracle: p.oracle, detail: format!("final read of k{}: {}", k, p.detail) });
			}
			hops.push(HOp { call: clock, ret: clock + 1, kind: HKind::Read { key: k }, res: res.clone(), version: None, label: format!("final R{}{}", k, hres_short(&res)) });
			clock += 2;
		}
		let (res, problem) = guarded_op(&store, &names, scn, &sh, &exec, &Op::List);
		if let Some(p) = problem {
			failures.push(Failure { oracle: p.oracle, detail: format!("final list: {}", p.detail) });
		}
		hops.push(HOp { call: clock, ret: clock + 1, kind: HKind::List, res: res.clone(), version: None, label: format!("final L{}", hres_short(&res)) });
		// list_all_keys must agree with list
		if let (HRes::Keys(present), Ok(Ok(all))) = (&res, mc_common::par::guarded(|| store.list_all_keys())) {
			let mut want: Vec<(String, String, String)> = (0..NKEYS).filter(|k| present[*k]).map(|k| (pn.clone(), sn.clone(), keys[k].clone())).collect();
			want.sort();
			let mut got = all.clone();
			got.sort();
			if got != want {
				failures.push(Failure { oracle: "list-all-keys", detail: format!("list_all_keys at quiescence = {:?}, list says {:?}", got, want) });
			}
		}
		// ----- raw directory
		let mut files = Vec::new();
		walk(&dir, &dir, &mut files);
		let mut fd = String::new();
		for (rel, content) in &files {
			let id = value_id(content);
			fd.push_str(&format!("{}={:?};", rel, id));
			if rel.ends_with(".tmp") {
				failures.push(Failure { oracle: "no-leftover-tmp", detail: format!("temporary file `{}` left behind at quiescence", rel) });
				continue;
			}
			match (0..NKEYS).find(|k| expected_rel_path(scn.v2, scn.variant, *k) == *rel) {
				None => failures.push(Failure { oracle: "no-stray-file", detail: format!("unexpected file `{}` at quiescence", rel) }),
				Some(k) => {
					// must agree with the final read through the API
					let api = hops.iter().rev().find(|h| h.kind == HKind::Read { key: k } && h.label.starts_with("final")).map(|h| h.res.clone());
					let raw = match id {
						Some(id) => HRes::Val(id),
						None => HRes::Failed,
					};
					if api != Some(raw.clone()) {
						failures.push(Failure { oracle: "raw-matches-read", detail: format!("file `{}` holds {:?} but read returned {:?}", rel, raw, api) });
					}
				},
			}
		}
		for k in 0..NKEYS {
			let rel = expected_rel_path(scn.v2, scn.variant, k);
			let api = hops.iter().rev().find(|h| h.kind == HKind::Read { key: k } && h.label.starts_with("final")).map(|h| h.res.clone());
			if matches!(api, Some(HRes::Val(_))) && !files.iter().any(|(r, _)| *r == rel) {
				failures.push(Failure { oracle: "raw-matches-read", detail: format!("read returned a value but `{}` does not exist", rel) });
			}
		}
		final_digest = Some(mc_common::fnv64(format!("{}|{}|{}", scn.v2, scn.variant.name(), fd).as_bytes()));
		if mc_common::par::guarded(|| store.state_size()).unwrap_or(0) != 0 {
			failures.push(Failure { oracle: "harness", detail: "lock-map entries left after the sequential read-back".into() });
		}
		post_desc = format!("files[{}] lockmap={}", fd, lockmap_leftover);
		// ----- linearisability
		if hops.len() <= 30 {
			if lin::linearise(init_state, &hops).is_none() {
				let mut hs: Vec<String> = hops.iter().map(|h| format!("[{},{}] {}", h.call, h.ret, h.label)).collect();
				hs.sort();
				failures.push(Failure {
					oracle: "linearisable",
					detail: format!("no linearisation of the recorded history against a map (init {:?}): {}", init_state, hs.join("; ")),
				});
			}
		}
	}
	let _ = std::fs::remove_dir_all(&dir);

	// ----- witnesses
	let mut interleaved = false;
	{
		// per (tid, op): first and last index of a filesystem step on a destination path
		let mut spans: Vec<(u8, u16, String, usize, usize)> = Vec::new();
		for (i, e) in events.iter().enumerate() {
			if !sched::FS_STEPS.contains(&e.kind) {
				continue;
			}
			match spans.iter_mut().find(|s| s.0 == e.tid && s.1 == e.op && s.2 == e.path) {
				Some(s) => s.4 = i,
				None => spans.push((e.tid, e.op, e.path.clone(), i, i)),
			}
		}
		for (i, e) in events.iter().enumerate() {
			if !sched::FS_STEPS.contains(&e.kind) {
				continue;
			}
			if spans.iter().any(|s| s.0 != e.tid && s.2 == e.path && s.3 < i && i < s.4) {
				interleaved = true;
				break;
			}
		}
	}
	let faults = decisions.iter().filter(|d| d.chosen.fail).count();
	let preemptions = decisions.iter().map(|d| d.cost.0 as usize).sum();
	let history: Vec<String> = hops.iter().map(|h| format!("[{},{}] {}", h.call, h.ret, h.label)).collect();
	let mut dig = String::new();
	for h in &history {
		dig.push_str(h);
		dig.push('\n');
	}
	for e in &events {
		dig.push_str(&format!("{}.{} {} {} {}\n", e.tid, e.op, e.kind, e.path, e.injected));
	}
	for d in &decisions {
		dig.push_str(&d.chosen.encode());
	}
	dig.push_str(&post_desc);
	dig.push_str(&format!("{:?}", abort));
	let label = format!(
		"{}|{}",
		hops.iter().map(|h| hres_short(&h.res)).collect::<Vec<_>>().join(","),
		match &abort {
			None => "done",
			Some(Abort::Deadlock(_)) => "deadlock",
			Some(Abort::Hang(_)) => "hang",
			Some(Abort::Divergence(_)) => "divergence",
		}
	);
	ExecResult {
		decisions,
		events,
		abort,
		failures,
		digest: mc_common::fnv64(dig.as_bytes()),
		final_digest,
		lockmap_leftover,
		interleaved,
		faults,
		preemptions,
		history,
		label,
	}
}
