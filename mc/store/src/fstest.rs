//! Self-test of `faultstore` (store side of C19b): model equivalence for all sequences up to a
//! length, crash-image rebuilding for every prefix x every subset of lazy removals, and the single
//! failing operation at every position in both modes. The reference model below is an association
//! list written independently of the store's `BTreeMap` code.
use mc_common::{json, Value};
use mc_store::faultstore::{Call, Fault, FailMode, FaultStore, Outcome};
use lightning::util::persist::KVStoreSync;
use std::collections::BTreeSet;

pub const N_OPS: usize = 18;
const NS: [(&str, &str); 2] = [("ns", ""), ("ns", "sub")];
const KEYS: [&str; 2] = ["k1", "k2"];

pub fn op_code(i: usize) -> String {
	if i >= 16 {
		return format!("L{}", i - 16);
	}
	let slot = i / 4;
	format!("{}{}{}", ["W", "X", "Z", "R"][i % 4], slot / 2, slot % 2)
}
pub fn op_from_code(s: &str) -> Option<usize> {
	(0..N_OPS).find(|i| op_code(*i) == s)
}

/// Reference model: unordered association list.
#[derive(Clone, Default, PartialEq, Debug)]
struct Model(Vec<((usize, usize), Vec<u8>)>);

impl Model {
	fn get(&self, k: (usize, usize)) -> Option<&Vec<u8>> {
		self.0.iter().find(|e| e.0 == k).map(|e| &e.1)
	}
	fn put(&mut self, k: (usize, usize), v: Vec<u8>) {
		self.del(k);
		self.0.push((k, v));
	}
	fn del(&mut self, k: (usize, usize)) {
		self.0.retain(|e| e.0 != k);
	}
	fn keys(&self, ns: usize) -> Vec<String> {
		let mut v: Vec<String> = self.0.iter().filter(|e| e.0 .0 == ns).map(|e| KEYS[e.0 .1].to_string()).collect();
		v.sort();
		v
	}
	fn canon(&self) -> Vec<((String, String, String), Vec<u8>)> {
		let mut v: Vec<_> =
			self.0.iter().map(|((n, k), val)| ((NS[*n].0.to_string(), NS[*n].1.to_string(), KEYS[*k].to_string()), val.clone())).collect();
		v.sort();
		v
	}
}

fn value_for(pos: usize) -> Vec<u8> {
	vec![(pos + 1) as u8; pos + 1]
}

#[derive(Clone, Copy, PartialEq, Debug)]
enum Effect {
	Normal,
	FailNoEffect,
	FailWithEffect,
}

/// Applies op `op` (at position `pos`) to the store and checks the answer against the model.
fn step(store: &FaultStore, model: &mut Model, pos: usize, op: usize, eff: Effect) -> Result<(), String> {
	if op >= 16 {
		let n = op - 16;
		let r = store.list(NS[n].0, NS[n].1);
		return match (eff, r) {
			(Effect::Normal, Ok(mut got)) => {
				got.sort();
				if got == model.keys(n) {
					Ok(())
				} else {
					Err(format!("list returned {:?}, model {:?}", got, model.keys(n)))
				}
			},
			(Effect::Normal, Err(e)) => Err(format!("list failed: {}", e)),
			(_, Ok(_)) => Err("faulty list returned Ok".into()),
			(_, Err(_)) => Ok(()),
		};
	}
	let slot = op / 4;
	let k = (slot / 2, slot % 2);
	let (pn, sn, key) = (NS[k.0].0, NS[k.0].1, KEYS[k.1]);
	match op % 4 {
		0 => {
			let r = store.write(pn, sn, key, value_for(pos));
			match (eff, r) {
				(Effect::Normal, Ok(())) => model.put(k, value_for(pos)),
				(Effect::FailNoEffect, Err(_)) => {},
				(Effect::FailWithEffect, Err(_)) => model.put(k, value_for(pos)),
				(e, r) => return Err(format!("write: effect {:?} but result {:?}", e, r.is_ok())),
			}
		},
		1 | 2 => {
			let r = store.remove(pn, sn, key, op % 4 == 2);
			match (eff, r) {
				(Effect::Normal, Ok(())) => model.del(k),
				(Effect::FailNoEffect, Err(_)) => {},
				(Effect::FailWithEffect, Err(_)) => model.del(k),
				(e, r) => return Err(format!("remove: effect {:?} but result {:?}", e, r.is_ok())),
			}
		},
		_ => {
			let r = store.read(pn, sn, key);
			match (eff, r, model.get(k)) {
				(Effect::Normal, Ok(got), Some(want)) if &got == want => {},
				(Effect::Normal, Err(e), None) if e.kind() == lightning::io::ErrorKind::NotFound => {},
				(Effect::Normal, r, want) => return Err(format!("read returned {:?}, model {:?}", r.map_err(|e| e.kind()), want)),
				(_, Err(e), _) if e.kind() != lightning::io::ErrorKind::NotFound => {},
				(_, r, _) => return Err(format!("faulty read returned {:?}", r.map_err(|e| e.kind()))),
			}
		},
	}
	Ok(())
}

fn check_state(store: &FaultStore, model: &Model, what: &str) -> Result<(), String> {
	let got: Vec<_> = store.state().into_iter().collect();
	if got != model.canon() {
		return Err(format!("{}: store holds {:?}, model {:?}", what, got, model.canon()));
	}
	Ok(())
}

/// The independent crash model: state after `ops[..prefix]` when the lazy removals at the positions
/// in `lost` never happened.
fn crash_model(ops: &[usize], prefix: usize, lost: &BTreeSet<usize>) -> Model {
	let mut m = Model::default();
	for (pos, &op) in ops.iter().enumerate().take(prefix) {
		if op >= 16 {
			continue;
		}
		let slot = op / 4;
		let k = (slot / 2, slot % 2);
		match op % 4 {
			0 => m.put(k, value_for(pos)),
			1 => m.del(k),
			2 => {
				if !lost.contains(&pos) {
					m.del(k)
				}
			},
			_ => {},
		}
	}
	m
}

#[derive(Default, Debug, Clone)]
pub struct FsStats {
	pub sequences: u64,
	pub ops: u64,
	pub crash_images: u64,
	pub crash_images_with_lost_lazy: u64,
	pub images_differing_from_no_loss: u64,
	pub faulted_runs: u64,
	pub log_entries_checked: u64,
	pub max_pending_lazy: u64,
}

impl FsStats {
	pub fn merge(&mut self, o: &FsStats) {
		self.sequences += o.sequences;
		self.ops += o.ops;
		self.crash_images += o.crash_images;
		self.crash_images_with_lost_lazy += o.crash_images_with_lost_lazy;
		self.images_differing_from_no_loss += o.images_differing_from_no_loss;
		self.faulted_runs += o.faulted_runs;
		self.log_entries_checked += o.log_entries_checked;
		self.max_pending_lazy = self.max_pending_lazy.max(o.max_pending_lazy);
	}
	pub fn to_json(&self) -> Value {
		json!({
			"sequences": self.sequences, "ops": self.ops, "crash_images": self.crash_images,
			"crash_images_with_lost_lazy": self.crash_images_with_lost_lazy,
			"images_differing_from_no_loss": self.images_differing_from_no_loss,
			"faulted_runs": self.faulted_runs, "log_entries_checked": self.log_entries_checked,
			"max_pending_lazy": self.max_pending_lazy,
		})
	}
}

pub fn check_sequence(ops: &[usize], st: &mut FsStats) -> Result<(), String> {
	st.sequences += 1;
	// 1. model equivalence, log faithfulness
	let store = FaultStore::new();
	let mut model = Model::default();
	for (pos, &op) in ops.iter().enumerate() {
		st.ops += 1;
		step(&store, &mut model, pos, op, Effect::Normal).map_err(|e| format!("step {} {}: {}", pos, op_code(op), e))?;
		check_state(&store, &model, "after step")?;
	}
	let log = store.log();
	if log.len() != ops.len() {
		return Err(format!("log has {} entries for {} calls", log.len(), ops.len()));
	}
	for (pos, e) in log.iter().enumerate() {
		st.log_entries_checked += 1;
		let op = ops[pos];
		let ok = e.index == pos
			&& match (&e.call, op % 4, op >= 16) {
				(Call::List { .. }, _, true) => matches!(e.outcome, Outcome::Keys(_)),
				(Call::Write { value, .. }, 0, false) => *value == value_for(pos) && e.outcome == Outcome::Done,
				(Call::Remove { lazy, .. }, 1, false) => !*lazy && e.outcome == Outcome::Done,
				(Call::Remove { lazy, .. }, 2, false) => *lazy && e.outcome == Outcome::Done,
				(Call::Read { .. }, 3, false) => matches!(e.outcome, Outcome::Data(_) | Outcome::NotFound),
				_ => false,
			};
		if !ok {
			return Err(format!("log entry {} does not describe call {}: {:?}", pos, op_code(op), e));
		}
	}
	// 2. crash images: every prefix x every subset of the lazy removals in it
	for prefix in 0..=ops.len() {
		let lazies: Vec<usize> = (0..prefix).filter(|p| ops[*p] < 16 && ops[*p] % 4 == 2).collect();
		let no_loss = crash_model(ops, prefix, &BTreeSet::new());
		for mask in 0u32..(1 << lazies.len()) {
			let lost: BTreeSet<usize> = lazies.iter().enumerate().filter(|(i, _)| mask >> i & 1 == 1).map(|(_, p)| *p).collect();
			let img = FaultStore::rebuild(&log, prefix, &lost);
			let want = crash_model(ops, prefix, &lost);
			st.crash_images += 1;
			if !lost.is_empty() {
				st.crash_images_with_lost_lazy += 1;
			}
			if want != no_loss && want.canon() != no_loss.canon() {
				st.images_differing_from_no_loss += 1;
			}
			check_state(&img, &want, &format!("rebuild(prefix {}, lost {:?})", prefix, lost))?;
			if img.log_len() != 0 {
				return Err("rebuilt store has a non-empty log".into());
			}
		}
		// crash_images() must produce exactly the distinct images of the subsets above
		let pend = FaultStore::pending_lazy(&log, prefix);
		st.max_pending_lazy = st.max_pending_lazy.max(pend.len() as u64);
		let images = FaultStore::crash_images(&log, prefix, 6);
		if images.len() != 1 << pend.len() {
			return Err(format!("crash_images gave {} images for {} pending lazy removals", images.len(), pend.len()));
		}
		let got: BTreeSet<Vec<_>> = images.iter().map(|i| i.store.state().into_iter().collect::<Vec<_>>()).collect();
		let mut want_set: BTreeSet<Vec<_>> = BTreeSet::new();
		for mask in 0u32..(1 << lazies.len()) {
			let lost: BTreeSet<usize> = lazies.iter().enumerate().filter(|(i, _)| mask >> i & 1 == 1).map(|(_, p)| *p).collect();
			want_set.insert(crash_model(ops, prefix, &lost).canon());
		}
		if got != want_set {
			return Err(format!("crash_images(prefix {}) yields states {:?}, the subsets of all lazy removals yield {:?}", prefix, got, want_set));
		}
	}
	// 3. one failing operation at every position, both modes
	for at in 0..ops.len() {
		for mode in [FailMode::BeforeEffect, FailMode::AfterEffect] {
			st.faulted_runs += 1;
			let store = FaultStore::with_fault(Fault { at, mode });
			let mut model = Model::default();
			for (pos, &op) in ops.iter().enumerate() {
				let eff = if pos != at {
					Effect::Normal
				} else if mode == FailMode::AfterEffect {
					Effect::FailWithEffect
				} else {
					Effect::FailNoEffect
				};
				step(&store, &mut model, pos, op, eff).map_err(|e| format!("fault at {} {:?}, step {} {}: {}", at, mode, pos, op_code(op), e))?;
				check_state(&store, &model, "after faulted step")?;
			}
			let flog = store.log();
			let applied = matches!(flog[at].outcome, Outcome::Injected { applied: true });
			let is_mut = ops[at] < 16 && ops[at] % 4 != 3;
			if !matches!(flog[at].outcome, Outcome::Injected { .. }) || applied != (is_mut && mode == FailMode::AfterEffect) {
				return Err(format!("fault at {} {:?}: log entry {:?}", at, mode, flog[at]));
			}
			// the durable image of the whole faulted log equals the live state
			let img = FaultStore::rebuild(&flog, flog.len(), &BTreeSet::new());
			check_state(&img, &model, "rebuild of a faulted log")?;
		}
	}
	Ok(())
}

pub fn extra_checks() -> Result<(), String> {
	let s = FaultStore::new();
	let bad: [(&str, &str, &str); 5] = [("ns", "", ""), ("", "sub", "k"), ("n s", "", "k"), ("ns", "", "k/1"), ("ns", "", &"a".repeat(121))];
	for (p, sn, k) in bad {
		if s.write(p, sn, k, vec![1]).is_ok() || s.read(p, sn, k).is_ok() || s.remove(p, sn, k, false).is_ok() {
			return Err(format!("invalid arguments ({:?},{:?},{:?}) accepted", p, sn, k));
		}
	}
	if s.list("", "sub").is_ok() {
		return Err("list with empty primary and non-empty secondary accepted".into());
	}
	if !s.state().is_empty() {
		return Err("invalid calls changed the state".into());
	}
	if s.log().iter().any(|e| e.outcome != Outcome::Invalid) {
		return Err("invalid calls not logged as Invalid".into());
	}
	// > max_exhaustive pending lazy removals: extremes + singles
	let s = FaultStore::new();
	let keys: Vec<String> = (0..8).map(|i| format!("k{}", i)).collect();
	for k in &keys {
		s.write("ns", "", k, vec![7]).map_err(|e| e.to_string())?;
	}
	for k in &keys {
		s.remove("ns", "", k, true).map_err(|e| e.to_string())?;
	}
	let log = s.log();
	let pend = FaultStore::pending_lazy(&log, log.len());
	if pend.len() != 8 {
		return Err(format!("expected 8 pending lazy removals, got {:?}", pend));
	}
	let imgs = FaultStore::crash_images(&log, log.len(), 6);
	if imgs.len() != 2 + 8 + 8 {
		return Err(format!("expected 18 images (extremes + singles), got {}", imgs.len()));
	}
	let sizes: BTreeSet<usize> = imgs.iter().map(|i| i.store.state().len()).collect();
	if sizes != [0usize, 1, 7, 8].into_iter().collect() {
		return Err(format!("unexpected image sizes {:?}", sizes));
	}
	// a write after a lost lazy removal overrides it
	let s = FaultStore::new();
	s.write("ns", "", "k", vec![1]).unwrap();
	s.remove("ns", "", "k", true).unwrap();
	s.write("ns", "", "k", vec![2]).unwrap();
	let log = s.log();
	if !FaultStore::pending_lazy(&log, 3).is_empty() || FaultStore::pending_lazy(&log, 2) != vec![1] {
		return Err("pending_lazy does not account for the overriding write".into());
	}
	let img = FaultStore::rebuild(&log, 3, &[1usize].into_iter().collect());
	if img.state().values().next() != Some(&vec![2u8]) {
		return Err("lost lazy removal shadowed a later write".into());
	}
	Ok(())
}

pub struct FsOutcome {
	pub stats: FsStats,
	pub failures: Vec<(Vec<usize>, String)>,
}

pub fn enumerate(len: usize, threads: usize) -> FsOutcome {
	let heads: Vec<usize> = (0..N_OPS).collect();
	let results = mc_common::par::map(&heads, threads, |_, h| {
		let mut st = FsStats::default();
		let mut fails = Vec::new();
		let tail = len - 1;
		for c in 0..N_OPS.pow(tail as u32) {
			let mut ops = vec![*h];
			let mut x = c;
			for _ in 0..tail {
				ops.push(x % N_OPS);
				x /= N_OPS;
			}
			if let Err(e) = check_sequence(&ops, &mut st) {
				if fails.len() < 10 {
					fails.push((ops, e));
				}
			}
		}
		(st, fails)
	});
	let mut out = FsOutcome { stats: FsStats::default(), failures: Vec::new() };
	for (i, r) in results.into_iter().enumerate() {
		match r {
			Ok((st, f)) => {
				out.stats.merge(&st);
				out.failures.extend(f);
			},
			Err(p) => out.failures.push((vec![heads[i]], format!("panic: {}", p))),
		}
	}
	out
}
