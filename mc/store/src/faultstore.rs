//! A logging, fault-injecting, in-memory `KVStoreSync` (property C19, part b – the store side).
//!
//! * every call (`write`, `remove` with its `lazy` flag, `read`, `list`) is appended to a log with
//!   its arguments and its outcome;
//! * one call (the `at`-th call issued to this instance) can be made to fail, either before it took
//!   effect or after it (the caller sees an error but the data changed);
//! * [`FaultStore::rebuild`] constructs the *durable image* left behind by a crash after any prefix
//!   of a log, with any subset of the lazy removals in that prefix lost (a lazy removal "might get
//!   lost on crash after the method returns", `KVStoreSync::remove`);
//! * [`FaultStore::crash_images`] enumerates these images for one prefix (all subsets of the
//!   pending lazy removals up to a bound, else the two extremes and the singles).
//!
//! The store is an *atomic map by construction* (one mutex around a `BTreeMap`); it validates
//! namespaces and keys like the stores in `lightning-persister` but returns an error instead of
//! asserting.
use lightning::io;
use lightning::util::persist::{KVStoreSync, KVSTORE_NAMESPACE_KEY_ALPHABET, KVSTORE_NAMESPACE_KEY_MAX_LEN};
use std::collections::{BTreeMap, BTreeSet};
use std::sync::Mutex;

/// `(primary_namespace, secondary_namespace, key)`.
pub type FullKey = (String, String, String);

/// One call with its arguments.
#[derive(Clone, Debug, PartialEq, Eq)]
pub enum Call {
	Write { primary: String, secondary: String, key: String, value: Vec<u8> },
	Remove { primary: String, secondary: String, key: String, lazy: bool },
	Read { primary: String, secondary: String, key: String },
	List { primary: String, secondary: String },
}

impl Call {
	pub fn is_mutation(&self) -> bool {
		matches!(self, Call::Write { .. } | Call::Remove { .. })
	}
	/// The full key a `Write` / `Remove` / `Read` addresses.
	pub fn full_key(&self) -> Option<FullKey> {
		match self {
			Call::Write { primary, secondary, key, .. }
			| Call::Remove { primary, secondary, key, .. }
			| Call::Read { primary, secondary, key } => Some((primary.clone(), secondary.clone(), key.clone())),
			Call::List { .. } => None,
		}
	}
	pub fn short(&self) -> String {
		match self {
			Call::Write { primary, secondary, key, value } => format!("write({}/{}/{},{}B)", primary, secondary, key, value.len()),
			Call::Remove { primary, secondary, key, lazy } => {
				format!("remove({}/{}/{},{})", primary, secondary, key, if *lazy { "lazy" } else { "sync" })
			},
			Call::Read { primary, secondary, key } => format!("read({}/{}/{})", primary, secondary, key),
			Call::List { primary, secondary } => format!("list({}/{})", primary, secondary),
		}
	}
}

/// What the call returned.
#[derive(Clone, Debug, PartialEq, Eq)]
pub enum Outcome {
	/// `write` / `remove` returned `Ok(())`.
	Done,
	/// `read` returned these bytes.
	Data(Vec<u8>),
	/// `list` returned these keys (sorted).
	Keys(Vec<String>),
	/// `read` returned `ErrorKind::NotFound`.
	NotFound,
	/// Invalid namespace / key: `ErrorKind::Other`, nothing changed.
	Invalid,
	/// The injected fault hit this call. `applied` tells whether the mutation took effect anyway.
	Injected { applied: bool },
}

#[derive(Clone, Debug, PartialEq, Eq)]
pub struct LogEntry {
	/// Position in the log (= number of calls issued to the instance before this one).
	pub index: usize,
	pub call: Call,
	pub outcome: Outcome,
}

impl LogEntry {
	/// `true` if this entry changed (or, for a lost lazy removal, would have changed) the map.
	pub fn took_effect(&self) -> bool {
		self.call.is_mutation() && matches!(self.outcome, Outcome::Done | Outcome::Injected { applied: true })
	}
	pub fn is_lazy_remove(&self) -> bool {
		matches!(self.call, Call::Remove { lazy: true, .. })
	}
}

#[derive(Clone, Copy, Debug, PartialEq, Eq)]
pub enum FailMode {
	/// The call returns an error and nothing changed.
	BeforeEffect,
	/// The call returns an error although the mutation was applied (for `read` / `list` this is the
	/// same as `BeforeEffect`).
	AfterEffect,
}

/// "The `at`-th call issued to this instance fails."
#[derive(Clone, Copy, Debug, PartialEq, Eq)]
pub struct Fault {
	pub at: usize,
	pub mode: FailMode,
}

struct Inner {
	map: BTreeMap<FullKey, Vec<u8>>,
	log: Vec<LogEntry>,
	fault: Option<Fault>,
}

pub struct FaultStore {
	inner: Mutex<Inner>,
}

/// One durable image after a crash, see [`FaultStore::crash_images`].
pub struct CrashImage {
	/// Length of the log prefix that happened before the crash.
	pub prefix: usize,
	/// Log indices of the lazy removals (inside the prefix) that were lost.
	pub lost_lazy: BTreeSet<usize>,
	/// The rebuilt store (empty log, no fault armed).
	pub store: FaultStore,
}

fn valid_str(s: &str) -> bool {
	s.len() <= KVSTORE_NAMESPACE_KEY_MAX_LEN && s.chars().all(|c| KVSTORE_NAMESPACE_KEY_ALPHABET.contains(c))
}

/// The documented argument rules of `KVStoreSync` (the same ones `lightning-persister` checks).
pub fn valid_args(primary: &str, secondary: &str, key: Option<&str>) -> bool {
	if let Some(k) = key {
		if k.is_empty() || !valid_str(k) {
			return false;
		}
	}
	if primary.is_empty() && !secondary.is_empty() {
		return false;
	}
	valid_str(primary) && valid_str(secondary)
}

impl Default for FaultStore {
	fn default() -> Self {
		Self::new()
	}
}

impl FaultStore {
	pub fn new() -> Self {
		FaultStore { inner: Mutex::new(Inner { map: BTreeMap::new(), log: Vec::new(), fault: None }) }
	}

	/// A store that already holds `map` (empty log).
	pub fn from_map(map: BTreeMap<FullKey, Vec<u8>>) -> Self {
		FaultStore { inner: Mutex::new(Inner { map, log: Vec::new(), fault: None }) }
	}

	pub fn with_fault(fault: Fault) -> Self {
		let s = Self::new();
		s.set_fault(Some(fault));
		s
	}

	/// Arms (or disarms) the single fault. `at` counts the calls issued to this instance from its
	/// creation (i.e. it is an index into [`FaultStore::log`]).
	pub fn set_fault(&self, fault: Option<Fault>) {
		self.inner.lock().unwrap().fault = fault;
	}

	pub fn log(&self) -> Vec<LogEntry> {
		self.inner.lock().unwrap().log.clone()
	}

	pub fn log_len(&self) -> usize {
		self.inner.lock().unwrap().log.len()
	}

	/// The current contents.
	pub fn state(&self) -> BTreeMap<FullKey, Vec<u8>> {
		self.inner.lock().unwrap().map.clone()
	}

	/// The durable image after the first `prefix` entries of `log`, where the lazy removals whose log
	/// index is in `lost_lazy` never reached the disk. A later `write` to (or non-lazy `remove` of) the
	/// same key overrides a lost removal, as the trait documentation requires.
	pub fn rebuild(log: &[LogEntry], prefix: usize, lost_lazy: &BTreeSet<usize>) -> FaultStore {
		let mut map: BTreeMap<FullKey, Vec<u8>> = BTreeMap::new();
		for e in log.iter().take(prefix) {
			if !e.took_effect() {
				continue;
			}
			match &e.call {
				Call::Write { primary, secondary, key, value } => {
					map.insert((primary.clone(), secondary.clone(), key.clone()), value.clone());
				},
				Call::Remove { primary, secondary, key, lazy } => {
					if *lazy && lost_lazy.contains(&e.index) {
						continue;
					}
					map.remove(&(primary.clone(), secondary.clone(), key.clone()));
				},
				_ => {},
			}
		}
		FaultStore::from_map(map)
	}

	/// Indices (< `prefix`) of the lazy removals whose loss changes the durable image: the removal
	/// took effect on an existing key and no later write / non-lazy removal of that key inside the
	/// prefix overrides it.
	pub fn pending_lazy(log: &[LogEntry], prefix: usize) -> Vec<usize> {
		let mut map: BTreeSet<FullKey> = BTreeSet::new();
		let mut pending: BTreeMap<FullKey, Vec<usize>> = BTreeMap::new();
		for e in log.iter().take(prefix) {
			if !e.took_effect() {
				continue;
			}
			let fk = e.call.full_key().unwrap();
			match &e.call {
				Call::Write { .. } => {
					pending.remove(&fk);
					map.insert(fk);
				},
				Call::Remove { lazy, .. } => {
					if *lazy {
						// it matters if the key exists now, or if it would still exist because an earlier
						// lazy removal of it is itself pending
						if map.contains(&fk) || pending.contains_key(&fk) {
							pending.entry(fk.clone()).or_default().push(e.index);
						}
					} else {
						pending.remove(&fk);
					}
					map.remove(&fk);
				},
				_ => {},
			}
		}
		let mut v: Vec<usize> = pending.into_values().flatten().collect();
		v.sort();
		v
	}

	/// All durable images for a crash after `prefix` log entries: every subset of the pending lazy
	/// removals lost if there are at most `max_exhaustive` of them, otherwise none lost, all lost,
	/// each single one lost and each single one applied.
	pub fn crash_images(log: &[LogEntry], prefix: usize, max_exhaustive: usize) -> Vec<CrashImage> {
		let pend = Self::pending_lazy(log, prefix);
		let mut subsets: Vec<BTreeSet<usize>> = Vec::new();
		if pend.len() <= max_exhaustive {
			for m in 0u64..(1u64 << pend.len()) {
				subsets.push(pend.iter().enumerate().filter(|(i, _)| m >> i & 1 == 1).map(|(_, x)| *x).collect());
			}
		} else {
			subsets.push(BTreeSet::new());
			subsets.push(pend.iter().cloned().collect());
			for x in &pend {
				subsets.push([*x].into_iter().collect());
				subsets.push(pend.iter().cloned().filter(|y| y != x).collect());
			}
			subsets.sort();
			subsets.dedup();
		}
		subsets
			.into_iter()
			.map(|lost| CrashImage { prefix, store: Self::rebuild(log, prefix, &lost), lost_lazy: lost })
			.collect()
	}

	fn injected() -> io::Error {
		io::Error::new(io::ErrorKind::Other, "faultstore: injected failure")
	}
	fn invalid() -> io::Error {
		io::Error::new(io::ErrorKind::Other, "faultstore: invalid namespace or key")
	}
}

impl Inner {
	/// Returns the fault mode if the call about to be logged is the faulty one.
	fn fault_now(&self) -> Option<FailMode> {
		match self.fault {
			Some(f) if f.at == self.log.len() => Some(f.mode),
			_ => None,
		}
	}
	fn push(&mut self, call: Call, outcome: Outcome) {
		let index = self.log.len();
		self.log.push(LogEntry { index, call, outcome });
	}
}

impl KVStoreSync for FaultStore {
	fn read(&self, primary_namespace: &str, secondary_namespace: &str, key: &str) -> Result<Vec<u8>, io::Error> {
		let mut g = self.inner.lock().unwrap();
		let call = Call::Read { primary: primary_namespace.into(), secondary: secondary_namespace.into(), key: key.into() };
		if g.fault_now().is_some() {
			g.push(call, Outcome::Injected { applied: false });
			return Err(Self::injected());
		}
		if !valid_args(primary_namespace, secondary_namespace, Some(key)) {
			g.push(call, Outcome::Invalid);
			return Err(Self::invalid());
		}
		let fk = (primary_namespace.to_string(), secondary_namespace.to_string(), key.to_string());
		match g.map.get(&fk).cloned() {
			Some(v) => {
				g.push(call, Outcome::Data(v.clone()));
				Ok(v)
			},
			None => {
				g.push(call, Outcome::NotFound);
				Err(io::Error::new(io::ErrorKind::NotFound, "faultstore: key not found"))
			},
		}
	}

	fn write(&self, primary_namespace: &str, secondary_namespace: &str, key: &str, buf: Vec<u8>) -> Result<(), io::Error> {
		let mut g = self.inner.lock().unwrap();
		let call = Call::Write {
			primary: primary_namespace.into(),
			secondary: secondary_namespace.into(),
			key: key.into(),
			value: buf.clone(),
		};
		let fault = g.fault_now();
		if fault == Some(FailMode::BeforeEffect) {
			g.push(call, Outcome::Injected { applied: false });
			return Err(Self::injected());
		}
		if !valid_args(primary_namespace, secondary_namespace, Some(key)) {
			g.push(call, if fault.is_some() { Outcome::Injected { applied: false } } else { Outcome::Invalid });
			return Err(Self::invalid());
		}
		g.map.insert((primary_namespace.to_string(), secondary_namespace.to_string(), key.to_string()), buf);
		if fault.is_some() {
			g.push(call, Outcome::Injected { applied: true });
			return Err(Self::injected());
		}
		g.push(call, Outcome::Done);
		Ok(())
	}

	fn remove(&self, primary_namespace: &str, secondary_namespace: &str, key: &str, lazy: bool) -> Result<(), io::Error> {
		let mut g = self.inner.lock().unwrap();
		let call =
			Call::Remove { primary: primary_namespace.into(), secondary: secondary_namespace.into(), key: key.into(), lazy };
		let fault = g.fault_now();
		if fault == Some(FailMode::BeforeEffect) {
			g.push(call, Outcome::Injected { applied: false });
			return Err(Self::injected());
		}
		if !valid_args(primary_namespace, secondary_namespace, Some(key)) {
			g.push(call, if fault.is_some() { Outcome::Injected { applied: false } } else { Outcome::Invalid });
			return Err(Self::invalid());
		}
		g.map.remove(&(primary_namespace.to_string(), secondary_namespace.to_string(), key.to_string()));
		if fault.is_some() {
			g.push(call, Outcome::Injected { applied: true });
			return Err(Self::injected());
		}
		g.push(call, Outcome::Done);
		Ok(())
	}

	fn list(&self, primary_namespace: &str, secondary_namespace: &str) -> Result<Vec<String>, io::Error> {
		let mut g = self.inner.lock().unwrap();
		let call = Call::List { primary: primary_namespace.into(), secondary: secondary_namespace.into() };
		if g.fault_now().is_some() {
			g.push(call, Outcome::Injected { applied: false });
			return Err(Self::injected());
		}
		if !valid_args(primary_namespace, secondary_namespace, None) {
			g.push(call, Outcome::Invalid);
			return Err(Self::invalid());
		}
		let keys: Vec<String> = g
			.map
			.keys()
			.filter(|(p, s, _)| p == primary_namespace && s == secondary_namespace)
			.map(|(_, _, k)| k.clone())
			.collect();
		g.push(call, Outcome::Keys(keys.clone()));
		Ok(keys)
	}
}
