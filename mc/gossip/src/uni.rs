//! The message universe: 3 nodes (+ one channel-less node D, + a foreign key F), 2 announced
//! channels, valid / stale-relative / always-invalid gossip messages signed with real secp256k1
//! keys, an in-memory chain for the `UtxoLookup`, and *independently computed* facts about every
//! message (hand-written BOLT 7 encoders, signatures verified with secp256k1 directly).

use bitcoin::constants::ChainHash;
use bitcoin::hashes::sha256d::Hash as Sha256d;
use bitcoin::hashes::Hash;
use bitcoin::network::Network;
use bitcoin::opcodes;
use bitcoin::script::Builder;
use bitcoin::secp256k1::ecdsa::Signature;
use bitcoin::secp256k1::{All, Message, PublicKey, Secp256k1, SecretKey};
use bitcoin::{Amount, ScriptBuf, TxOut};

use lightning::ln::msgs::{
	ChannelAnnouncement, ChannelUpdate, NodeAnnouncement, SocketAddress, UnsignedChannelAnnouncement,
	UnsignedChannelUpdate, UnsignedNodeAnnouncement,
};
use lightning::routing::gossip::{NodeAlias, NodeId};
use lightning::routing::utxo::{UtxoLookup, UtxoLookupError, UtxoResult};
use lightning::types::features::{ChannelFeatures, NodeFeatures};
use lightning::util::ser::Writeable;
use lightning::util::wakers::Notifier;

use std::collections::BTreeMap;
use std::sync::Arc;

pub const DAY: u64 = 86_400;
/// BOLT 7 staleness horizon (gossip.rs STALE_CHANNEL_UPDATE_AGE_LIMIT_SECS).
pub const STALE: u64 = 14 * DAY;
/// gossip.rs REMOVED_ENTRIES_TRACKING_AGE_LIMIT_SECS.
pub const TRACK: u64 = 7 * DAY;
/// The harness assumes the real wall clock lies strictly between these two instants; every time
/// value it chooses lies outside [WALL_LO - STALE, WALL_HI + STALE] so no result depends on the
/// actual clock reading.
pub const WALL_LO: u64 = 1_600_000_000; // 2020
pub const WALL_HI: u64 = 3_000_000_000; // 2065
pub const MAX_VALUE_MSAT: u64 = 21_000_000_0000_0000_000;

pub type Pk33 = [u8; 33];

#[derive(Clone, Copy, PartialEq, Eq, Debug, PartialOrd, Ord)]
pub enum Era {
	/// update timestamps around 2001: stale directions are dropped, but a channel announced "now"
	/// is never old enough to be pruned.
	Past,
	/// update timestamps around 2096: every pruning instant is later than now + 14 d, so channels
	/// with a missing direction are pruned, and wall-clock tombstones expire.
	Future,
}

impl Era {
	pub fn t0(self) -> u32 {
		match self {
			Era::Past => 1_000_000_000,
			Era::Future => 4_000_000_000,
		}
	}
	pub fn name(self) -> &'static str {
		match self {
			Era::Past => "past",
			Era::Future => "future",
		}
	}
	pub fn parse(s: &str) -> Option<Era> {
		match s {
			"past" => Some(Era::Past),
			"future" => Some(Era::Future),
			_ => None,
		}
	}
}

#[derive(Clone)]
pub enum Wire {
	CA(ChannelAnnouncement),
	CU(ChannelUpdate),
	NA(NodeAnnouncement),
}

/// Facts computed without LDK's verification code.
#[derive(Clone, Debug)]
pub enum Facts {
	CA {
		scid: u64,
		n1: Pk33,
		n2: Pk33,
		b1: Pk33,
		b2: Pk33,
		chain_ok: bool,
		sigs_ok: [bool; 4],
		features_le: Vec<u8>,
		excess_len: usize,
	},
	CU {
		scid: u64,
		dir: u8,
		ts: u32,
		chain_ok: bool,
		disabled: bool,
		dont_forward: bool,
		cltv: u16,
		hmin: u64,
		hmax: u64,
		fee_base: u32,
		fee_prop: u32,
		/// every known public key under which the signature verifies
		verifies_under: Vec<Pk33>,
		excess_len: usize,
	},
	NA {
		node: Pk33,
		ts: u32,
		sig_ok: bool,
		features_le: Vec<u8>,
		rgb: [u8; 3],
		alias: [u8; 32],
		addrs: Vec<u8>,
		excess_len: usize,
	},
}

#[derive(Clone)]
pub struct Msg {
	pub label: String,
	/// "valid:ca", "valid:cu", "valid:na", "rel:cu_older", "rel:cu_equal", "rel:na_older",
	/// "rel:na_equal", "invalid:<class>"
	pub class: String,
	/// must be rejected at every position of every order
	pub always_invalid: bool,
	pub wire: Wire,
	pub facts: Facts,
	/// hand-encoded full message (signatures || contents), what LDK should retain for relay
	pub full: Vec<u8>,
}

pub struct ChainEntry {
	pub sats: u64,
	pub keys: [Pk33; 2], // sorted
	pub script: ScriptBuf,
}

/// In-memory chain, the `UtxoLookup` handed to `P2PGossipSync`.
pub struct Chain {
	pub chain_hash: ChainHash,
	pub utxos: BTreeMap<u64, ChainEntry>,
}

impl UtxoLookup for Chain {
	fn get_utxo(&self, chain_hash: &ChainHash, scid: u64, _n: Arc<Notifier>) -> UtxoResult {
		if *chain_hash != self.chain_hash {
			return UtxoResult::Sync(Err(UtxoLookupError::UnknownChain));
		}
		match self.utxos.get(&scid) {
			Some(e) => UtxoResult::Sync(Ok(TxOut { value: Amount::from_sat(e.sats), script_pubkey: e.script.clone() })),
			None => UtxoResult::Sync(Err(UtxoLookupError::UnknownTx)),
		}
	}
}

pub struct Universe {
	pub era: Era,
	pub secp: Secp256k1<All>,
	pub chain_hash: ChainHash,
	pub chain: Arc<Chain>,
	/// node ids sorted ascending: A < B < C
	pub nodes: [Pk33; 3],
	pub node_d: Pk33,
	pub msgs: Vec<Msg>,
	pub s1: u64,
	pub s2: u64,
	pub s3: u64,
	pub cap1: u64,
	#[allow(dead_code)]
	pub cap2: u64,
}

fn sk(b: u8) -> SecretKey {
	let mut a = [0x11u8; 32];
	a[0] = b;
	a[31] = b ^ 0x5a;
	SecretKey::from_slice(&a).unwrap()
}

fn pk33(secp: &Secp256k1<All>, k: &SecretKey) -> Pk33 {
	PublicKey::from_secret_key(secp, k).serialize()
}

fn sha256d(b: &[u8]) -> [u8; 32] {
	Sha256d::hash(b).to_byte_array()
}

fn sign(secp: &Secp256k1<All>, contents: &[u8], k: &SecretKey) -> Signature {
	secp.sign_ecdsa(&Message::from_digest(sha256d(contents)), k)
}

fn verifies(secp: &Secp256k1<All>, contents: &[u8], sig: &Signature, pk: &Pk33) -> bool {
	match PublicKey::from_slice(pk) {
		Ok(p) => secp.verify_ecdsa(&Message::from_digest(sha256d(contents)), sig, &p).is_ok(),
		Err(_) => false,
	}
}

fn features_wire(le: &[u8]) -> Vec<u8> {
	let mut v = (le.len() as u16).to_be_bytes().to_vec();
	v.extend(le.iter().rev());
	v
}

/// BOLT 7 channel_announcement contents (everything after the four signatures).
pub fn enc_ca(u: &UnsignedChannelAnnouncement) -> Vec<u8> {
	let mut v = features_wire(u.features.le_flags());
	v.extend_from_slice(u.chain_hash.as_bytes());
	v.extend_from_slice(&u.short_channel_id.to_be_bytes());
	v.extend_from_slice(u.node_id_1.as_slice());
	v.extend_from_slice(u.node_id_2.as_slice());
	v.extend_from_slice(u.bitcoin_key_1.as_slice());
	v.extend_from_slice(u.bitcoin_key_2.as_slice());
	v.extend_from_slice(&u.excess_data);
	v
}

/// BOLT 7 channel_update contents (everything after the signature).
pub fn enc_cu(u: &UnsignedChannelUpdate) -> Vec<u8> {
	let mut v = u.chain_hash.as_bytes().to_vec();
	v.extend_from_slice(&u.short_channel_id.to_be_bytes());
	v.extend_from_slice(&u.timestamp.to_be_bytes());
	v.push(u.message_flags);
	v.push(u.channel_flags);
	v.extend_from_slice(&u.cltv_expiry_delta.to_be_bytes());
	v.extend_from_slice(&u.htlc_minimum_msat.to_be_bytes());
	v.extend_from_slice(&u.fee_base_msat.to_be_bytes());
	v.extend_from_slice(&u.fee_proportional_millionths.to_be_bytes());
	v.extend_from_slice(&u.htlc_maximum_msat.to_be_bytes());
	v.extend_from_slice(&u.excess_data);
	v
}

fn enc_addrs(a: &[SocketAddress]) -> Vec<u8> {
	let mut v = Vec::new();
	for x in a {
		match x {
			SocketAddress::TcpIpV4 { addr, port } => {
				v.push(1);
				v.extend_from_slice(addr);
				v.extend_from_slice(&port.to_be_bytes());
			},
			_ => panic!("harness only uses IPv4 addresses"),
		}
	}
	v
}

/// BOLT 7 node_announcement contents (everything after the signature).
pub fn enc_na(u: &UnsignedNodeAnnouncement) -> Vec<u8> {
	let mut v = features_wire(u.features.le_flags());
	v.extend_from_slice(&u.timestamp.to_be_bytes());
	v.extend_from_slice(u.node_id.as_slice());
	v.extend_from_slice(&u.rgb);
	v.extend_from_slice(&u.alias.0);
	let a = enc_addrs(&u.addresses);
	v.extend_from_slice(&((a.len() + u.excess_address_data.len()) as u16).to_be_bytes());
	v.extend_from_slice(&a);
	v.extend_from_slice(&u.excess_address_data);
	v.extend_from_slice(&u.excess_data);
	v
}

pub fn funding_script(k1: &Pk33, k2: &Pk33) -> ScriptBuf {
	let (lo, hi) = if k1[..] < k2[..] { (k1, k2) } else { (k2, k1) };
	let ws = Builder::new()
		.push_opcode(opcodes::all::OP_PUSHNUM_2)
		.push_slice(lo)
		.push_slice(hi)
		.push_opcode(opcodes::all::OP_PUSHNUM_2)
		.push_opcode(opcodes::all::OP_CHECKMULTISIG)
		.into_script();
	ws.to_p2wsh()
}

struct Keys {
	node: [SecretKey; 3], // sorted by public key
	d: SecretKey,
	f: SecretKey,
	b_ch1: [SecretKey; 2], // bitcoin keys of channel 1, in node order (A's, B's)
	b_ch2: [SecretKey; 2],
	b_other: [SecretKey; 2],
}

impl Universe {
	pub fn node_name(&self, pk: &Pk33) -> String {
		for (i, n) in self.nodes.iter().enumerate() {
			if n == pk {
				return ["A", "B", "C"][i].to_string();
			}
		}
		if *pk == self.node_d {
			return "D".into();
		}
		mc_common::hex(&pk[..4])
	}

	pub fn find(&self, label: &str) -> Option<usize> {
		self.msgs.iter().position(|m| m.label == label)
	}

	pub fn idx(&self, label: &str) -> usize {
		self.find(label).unwrap_or_else(|| mc_common::cli::die(&format!("unknown message label {}", label)))
	}

	pub fn new(era: Era) -> Universe {
		let secp = Secp256k1::new();
		let mut nk = [sk(1), sk(2), sk(3)];
		nk.sort_by_key(|k| pk33(&secp, k));
		let keys = Keys {
			node: nk,
			d: sk(4),
			f: sk(5),
			b_ch1: [sk(11), sk(12)],
			b_ch2: [sk(13), sk(14)],
			b_other: [sk(15), sk(16)],
		};
		let nodes = [pk33(&secp, &keys.node[0]), pk33(&secp, &keys.node[1]), pk33(&secp, &keys.node[2])];
		assert!(nodes[0] < nodes[1] && nodes[1] < nodes[2]);
		let node_d = pk33(&secp, &keys.d);
		let chain_hash = ChainHash::using_genesis_block(Network::Testnet);
		let other_chain = ChainHash::using_genesis_block(Network::Bitcoin);
		let (s1, s2, s3) = ((500u64 << 40) | (1 << 16), (600u64 << 40) | (2 << 16) | 1, (700u64 << 40) | (3 << 16));
		let s8 = (800u64 << 40) | (4 << 16); // not on chain
		let s9 = (900u64 << 40) | (5 << 16); // never announced
		let (cap1, cap2) = (1_000_000u64, 2_000_000u64);
		let mut utxos = BTreeMap::new();
		for (scid, sats, bk) in [(s1, cap1, &keys.b_ch1), (s2, cap2, &keys.b_ch2)] {
			let (k1, k2) = (pk33(&secp, &bk[0]), pk33(&secp, &bk[1]));
			let mut ks = [k1, k2];
			ks.sort();
			utxos.insert(scid, ChainEntry { sats, keys: ks, script: funding_script(&k1, &k2) });
		}
		// S3 exists on chain too (used by the rapid-gossip-sync snapshots as a third channel A-C);
		// nobody announces it through P2P gossip.
		{
			let (k1, k2) = (pk33(&secp, &keys.b_other[0]), pk33(&secp, &keys.b_other[1]));
			let mut ks = [k1, k2];
			ks.sort();
			utxos.insert(s3, ChainEntry { sats: 3_000_000, keys: ks, script: funding_script(&k1, &k2) });
		}
		let chain = Arc::new(Chain { chain_hash, utxos });
		let mut u = Universe { era, secp, chain_hash, chain, nodes, node_d, msgs: Vec::new(), s1, s2, s3, cap1, cap2 };
		let t0 = era.t0();

		// ---- channel announcements -------------------------------------------------------
		// `signers`: the four secret keys producing node_sig_1, node_sig_2, bitcoin_sig_1, bitcoin_sig_2
		let ca = |u: &Universe, scid: u64, n: [&SecretKey; 2], b: [&SecretKey; 2], chain: ChainHash, feat: Vec<u8>| {
			let unsigned = UnsignedChannelAnnouncement {
				features: ChannelFeatures::from_le_bytes(feat),
				chain_hash: chain,
				short_channel_id: scid,
				node_id_1: NodeId::from_pubkey(&PublicKey::from_secret_key(&u.secp, n[0])),
				node_id_2: NodeId::from_pubkey(&PublicKey::from_secret_key(&u.secp, n[1])),
				bitcoin_key_1: NodeId::from_pubkey(&PublicKey::from_secret_key(&u.secp, b[0])),
				bitcoin_key_2: NodeId::from_pubkey(&PublicKey::from_secret_key(&u.secp, b[1])),
				// channel 2's announcement carries more unknown trailing data than LDK relays: it must be
				// applied but not retained as `announcement_message`
				excess_data: if scid == s2 { vec![0x55; 1025] } else { Vec::new() },
			};
			let c = enc_ca(&unsigned);
			ChannelAnnouncement {
				node_signature_1: sign(&u.secp, &c, n[0]),
				node_signature_2: sign(&u.secp, &c, n[1]),
				bitcoin_signature_1: sign(&u.secp, &c, b[0]),
				bitcoin_signature_2: sign(&u.secp, &c, b[1]),
				contents: unsigned,
			}
		};
		let (ka, kb, kc) = (keys.node[0], keys.node[1], keys.node[2]);
		let ca1 = ca(&u, s1, [&ka, &kb], [&keys.b_ch1[0], &keys.b_ch1[1]], chain_hash, vec![]);
		let ca2 = ca(&u, s2, [&kb, &kc], [&keys.b_ch2[0], &keys.b_ch2[1]], chain_hash, vec![0x02]);
		u.push_ca("ca1", "valid:ca", false, ca1.clone());
		u.push_ca("ca2", "valid:ca", false, ca2);
		for (i, name) in ["n1", "n2", "b1", "b2"].iter().enumerate() {
			// the i-th signature is a genuine signature over the same contents, but by the foreign key
			let mut m = ca1.clone();
			let c = enc_ca(&m.contents);
			let s = sign(&u.secp, &c, &keys.f);
			match i {
				0 => m.node_signature_1 = s,
				1 => m.node_signature_2 = s,
				2 => m.bitcoin_signature_1 = s,
				_ => m.bitcoin_signature_2 = s,
			}
			u.push_ca(&format!("ca1_badsig_{}", name), &format!("invalid:ca_badsig_{}", name), true, m);
		}
		{
			// signatures swapped between the two endpoints (each is valid, but for the other key)
			let mut m = ca1.clone();
			std::mem::swap(&mut m.node_signature_1, &mut m.node_signature_2);
			u.push_ca("ca1_sigswap", "invalid:ca_sigs_swapped", true, m);
		}
		{
			let m = ca(&u, s1, [&ka, &kb], [&keys.b_ch1[0], &keys.b_ch1[1]], other_chain, vec![]);
			u.push_ca("ca1_chain", "invalid:ca_wrong_chain", true, m);
		}
		{
			// correctly signed by keys that do not own the UTXO
			let m = ca(&u, s1, [&ka, &kb], [&keys.b_other[0], &keys.b_other[1]], chain_hash, vec![]);
			u.push_ca("ca1_script", "invalid:ca_utxo_script_mismatch", true, m);
		}
		{
			let m = ca(&u, s8, [&ka, &kc], [&keys.b_other[0], &keys.b_other[1]], chain_hash, vec![]);
			u.push_ca("ca8_noutxo", "invalid:ca_no_utxo", true, m);
		}
		{
			// equivocation by the owners of channel 1's funding keys: same outpoint, same bitcoin keys,
			// but node ids A and C. Every signature verifies and the script matches the chain.
			let m = ca(&u, s1, [&ka, &kc], [&keys.b_ch1[0], &keys.b_ch1[1]], chain_hash, vec![]);
			u.push_ca("ca1x", "conflict:ca_same_outpoint_other_nodes", false, m);
		}

		// ---- channel updates ---------------------------------------------------------------
		struct U {
			scid: u64,
			dir: u8,
			dt: u32,
			fee: u32,
			hmax: u64,
			disabled: bool,
		}
		let cu = |u: &Universe, p: &U, signer: &SecretKey, chain: ChainHash| {
			let unsigned = UnsignedChannelUpdate {
				chain_hash: chain,
				short_channel_id: p.scid,
				timestamp: t0 + p.dt,
				message_flags: 1,
				channel_flags: p.dir | if p.disabled { 2 } else { 0 },
				cltv_expiry_delta: 40 + p.fee as u16,
				htlc_minimum_msat: 1000 + p.fee as u64,
				htlc_maximum_msat: p.hmax,
				fee_base_msat: p.fee,
				fee_proportional_millionths: 10 * p.fee,
				// u2c2 (fee 8): applied, but `last_update_message` not retained
				excess_data: if p.fee == 8 { vec![0x66; 1025] } else { Vec::new() },
			};
			let c = enc_cu(&unsigned);
			ChannelUpdate { signature: sign(&u.secp, &c, signer), contents: unsigned }
		};
		let hm1 = cap1 * 1000; // exactly the capacity: the largest acceptable value
		let valid_cu: [(&str, U, &SecretKey); 8] = [
			("u1a1", U { scid: s1, dir: 0, dt: 10, fee: 1, hmax: 500_000_000, disabled: false }, &ka),
			("u1a2", U { scid: s1, dir: 0, dt: 20, fee: 2, hmax: hm1, disabled: false }, &ka),
			("u1b1", U { scid: s1, dir: 1, dt: 12, fee: 3, hmax: 400_000_000, disabled: false }, &kb),
			("u1b2", U { scid: s1, dir: 1, dt: 22, fee: 4, hmax: 400_000_001, disabled: true }, &kb),
			("u2b1", U { scid: s2, dir: 0, dt: 14, fee: 5, hmax: 600_000_000, disabled: false }, &kb),
			("u2b2", U { scid: s2, dir: 0, dt: 24, fee: 6, hmax: 600_000_001, disabled: false }, &kb),
			("u2c1", U { scid: s2, dir: 1, dt: 16, fee: 7, hmax: 700_000_000, disabled: false }, &kc),
			("u2c2", U { scid: s2, dir: 1, dt: 26, fee: 8, hmax: 700_000_001, disabled: false }, &kc),
		];
		for (l, p, k) in valid_cu.iter() {
			let m = cu(&u, p, k, chain_hash);
			u.push_cu(l, "valid:cu", false, m);
		}
		// relative classes: valid messages whose fate depends on what was delivered before
		let m = cu(&u, &U { scid: s1, dir: 0, dt: 5, fee: 9, hmax: 300_000_000, disabled: false }, &ka, chain_hash);
		u.push_cu("u1a0", "rel:cu_older", false, m);
		let m = cu(&u, &U { scid: s1, dir: 0, dt: 20, fee: 10, hmax: 300_000_001, disabled: false }, &ka, chain_hash);
		u.push_cu("u1a2e", "rel:cu_equal", false, m);
		// always-invalid updates; their timestamps are newer than every valid one so that only the
		// named defect can be the reason for rejection
		let m = cu(&u, &U { scid: s1, dir: 0, dt: 30, fee: 11, hmax: 1000, disabled: false }, &kb, chain_hash);
		u.push_cu("u1a_other", "invalid:cu_signed_by_other_endpoint", true, m);
		let m = cu(&u, &U { scid: s2, dir: 1, dt: 30, fee: 11, hmax: 1000, disabled: false }, &kb, chain_hash);
		u.push_cu("u2c_other", "invalid:cu_signed_by_other_endpoint", true, m);
		let m = cu(&u, &U { scid: s1, dir: 0, dt: 31, fee: 12, hmax: 1000, disabled: false }, &keys.f, chain_hash);
		u.push_cu("u1a_foreign", "invalid:cu_signed_by_foreign_key", true, m);
		let mut m = cu(&u, &U { scid: s1, dir: 0, dt: 32, fee: 13, hmax: 1000, disabled: false }, &ka, chain_hash);
		m.contents.fee_base_msat = 0; // altered after signing
		u.push_cu("u1a_tamper", "invalid:cu_tampered_after_signing", true, m);
		let m = cu(&u, &U { scid: s1, dir: 0, dt: 33, fee: 14, hmax: 1000, disabled: false }, &ka, other_chain);
		u.push_cu("u1a_chain", "invalid:cu_wrong_chain", true, m);
		let m = cu(&u, &U { scid: s1, dir: 0, dt: 34, fee: 15, hmax: hm1 + 1, disabled: false }, &ka, chain_hash);
		u.push_cu("u1a_overcap", "invalid:cu_htlc_max_above_capacity", true, m);
		let m = cu(&u, &U { scid: s1, dir: 0, dt: 36, fee: 17, hmax: MAX_VALUE_MSAT + 1, disabled: false }, &ka, chain_hash);
		u.push_cu("u1a_overmax", "invalid:cu_htlc_max_above_total_supply", true, m);
		let m = cu(&u, &U { scid: s9, dir: 0, dt: 35, fee: 16, hmax: 1000, disabled: false }, &ka, chain_hash);
		u.push_cu("u9_unknown", "invalid:cu_unknown_scid", true, m);

		// ---- node announcements ------------------------------------------------------------
		let na = |u: &Universe, k: &SecretKey, dt: u32, tag: u8| {
			let unsigned = UnsignedNodeAnnouncement {
				features: NodeFeatures::from_le_bytes(if tag % 2 == 0 { vec![] } else { vec![0x02] }),
				timestamp: t0 + dt,
				node_id: NodeId::from_pubkey(&PublicKey::from_secret_key(&u.secp, k)),
				rgb: [tag, 1, 2],
				alias: NodeAlias([tag; 32]),
				addresses: vec![SocketAddress::TcpIpV4 { addr: [127, 0, 0, tag], port: 9000 + tag as u16 }],
				excess_address_data: Vec::new(),
				// na_c2 (tag 6): applied as `NodeAnnouncementInfo::Local`
				excess_data: if tag == 6 { vec![0x77; 1025] } else { Vec::new() },
			};
			let c = enc_na(&unsigned);
			NodeAnnouncement { signature: sign(&u.secp, &c, k), contents: unsigned }
		};
		for (l, k, dt, tag) in [
			("na_a1", &ka, 11u32, 1u8),
			("na_a2", &ka, 21, 2),
			("na_b1", &kb, 13, 3),
			("na_b2", &kb, 23, 4),
			("na_c1", &kc, 15, 5),
			("na_c2", &kc, 25, 6),
		] {
			let m = na(&u, k, dt, tag);
			u.push_na(l, "valid:na", false, m);
		}
		let m = na(&u, &ka, 6, 7);
		u.push_na("na_a0", "rel:na_older", false, m);
		let m = na(&u, &ka, 21, 8);
		u.push_na("na_a2e", "rel:na_equal", false, m);
		{
			let mut m = na(&u, &ka, 40, 9);
			let c = enc_na(&m.contents);
			m.signature = sign(&u.secp, &c, &keys.f);
			u.push_na("na_a_foreign", "invalid:na_signed_by_foreign_key", true, m);
		}
		{
			let mut m = na(&u, &ka, 41, 10);
			m.contents.alias = NodeAlias([0xee; 32]);
			u.push_na("na_a_tamper", "invalid:na_tampered_after_signing", true, m);
		}
		{
			let m = na(&u, &keys.d, 42, 11);
			u.push_na("na_d_nochan", "invalid:na_node_without_channel", true, m);
		}
		u
	}

	fn all_keys(&self) -> Vec<Pk33> {
		let mut v = self.nodes.to_vec();
		v.push(self.node_d);
		v.push(pk33(&self.secp, &sk(5)));
		v
	}

	fn push_ca(&mut self, label: &str, class: &str, inv: bool, m: ChannelAnnouncement) {
		let c = enc_ca(&m.contents);
		if c != m.contents.encode() {
			mc_common::cli::die("hand-written channel_announcement encoder disagrees with LDK's");
		}
		let u = &m.contents;
		let g = |n: &NodeId| -> Pk33 { *n.as_array() };
		let facts = Facts::CA {
			scid: u.short_channel_id,
			n1: g(&u.node_id_1),
			n2: g(&u.node_id_2),
			b1: g(&u.bitcoin_key_1),
			b2: g(&u.bitcoin_key_2),
			chain_ok: u.chain_hash == self.chain_hash,
			sigs_ok: [
				verifies(&self.secp, &c, &m.node_signature_1, &g(&u.node_id_1)),
				verifies(&self.secp, &c, &m.node_signature_2, &g(&u.node_id_2)),
				verifies(&self.secp, &c, &m.bitcoin_signature_1, &g(&u.bitcoin_key_1)),
				verifies(&self.secp, &c, &m.bitcoin_signature_2, &g(&u.bitcoin_key_2)),
			],
			features_le: u.features.le_flags().to_vec(),
			excess_len: u.excess_data.len(),
		};
		let mut full = Vec::new();
		for s in [&m.node_signature_1, &m.node_signature_2, &m.bitcoin_signature_1, &m.bitcoin_signature_2] {
			full.extend_from_slice(&s.serialize_compact());
		}
		full.extend_from_slice(&c);
		if full != m.encode() {
			mc_common::cli::die("hand-written channel_announcement encoder disagrees with LDK's (full)");
		}
		self.msgs.push(Msg { label: label.into(), class: class.into(), always_invalid: inv, wire: Wire::CA(m), facts, full });
	}

	fn push_cu(&mut self, label: &str, class: &str, inv: bool, m: ChannelUpdate) {
		let c = enc_cu(&m.contents);
		if c != m.contents.encode() {
			mc_common::cli::die("hand-written channel_update encoder disagrees with LDK's");
		}
		let u = &m.contents;
		let facts = Facts::CU {
			scid: u.short_channel_id,
			dir: u.channel_flags & 1,
			ts: u.timestamp,
			chain_ok: u.chain_hash == self.chain_hash,
			disabled: u.channel_flags & 2 != 0,
			dont_forward: u.message_flags & 2 != 0,
			cltv: u.cltv_expiry_delta,
			hmin: u.htlc_minimum_msat,
			hmax: u.htlc_maximum_msat,
			fee_base: u.fee_base_msat,
			fee_prop: u.fee_proportional_millionths,
			verifies_under: self.all_keys().into_iter().filter(|k| verifies(&self.secp, &c, &m.signature, k)).collect(),
			excess_len: u.excess_data.len(),
		};
		let mut full = m.signature.serialize_compact().to_vec();
		full.extend_from_slice(&c);
		if full != m.encode() {
			mc_common::cli::die("hand-written channel_update encoder disagrees with LDK's (full)");
		}
		self.msgs.push(Msg { label: label.into(), class: class.into(), always_invalid: inv, wire: Wire::CU(m), facts, full });
	}

	fn push_na(&mut self, label: &str, class: &str, inv: bool, m: NodeAnnouncement) {
		let c = enc_na(&m.contents);
		if c != m.contents.encode() {
			mc_common::cli::die("hand-written node_announcement encoder disagrees with LDK's");
		}
		let u = &m.contents;
		let facts = Facts::NA {
			node: *u.node_id.as_array(),
			ts: u.timestamp,
			sig_ok: verifies(&self.secp, &c, &m.signature, u.node_id.as_array()),
			features_le: u.features.le_flags().to_vec(),
			rgb: u.rgb,
			alias: u.alias.0,
			addrs: enc_addrs(&u.addresses),
			excess_len: u.excess_data.len() + u.excess_address_data.len(),
		};
		let mut full = m.signature.serialize_compact().to_vec();
		full.extend_from_slice(&c);
		if full != m.encode() {
			mc_common::cli::die("hand-written node_announcement encoder disagrees with LDK's (full)");
		}
		self.msgs.push(Msg { label: label.into(), class: class.into(), always_invalid: inv, wire: Wire::NA(m), facts, full });
	}
}
