//! C17 – the network graph holds only authentic, current gossip, whatever the order.
//!
//! Bounded exhaustive enumeration of gossip delivery orders (with duplication, permanent-failure
//! reports, pruning and rapid-gossip-sync snapshots interleaved at every position) against the real
//! `NetworkGraph` / `P2PGossipSync` / `RapidGossipSync`, with an independent reference model.

mod asyncl;
mod enumr;
mod model;
mod real;
mod run;
mod uni;
mod unsigned;

use enumr::{dup_variants, extensions, plan, rgs_snapshots, with_ops, Pool};
use mc_common::cli::{self, die};
use mc_common::evidence::{Evidence, Level};
use mc_common::findings::{self, Violation};
use mc_common::{json, par, Value};
use model::{declarative, has_conflict, has_timestamp_ties, RgsSnapshot};
use run::{execute, steps_string, Stats, Step};
use std::collections::{BTreeMap, BTreeSet};
use std::sync::atomic::{AtomicBool, Ordering};
use std::time::{Duration, Instant};
use uni::{Era, Universe, STALE, WALL_HI, WALL_LO};

const PROPERTY: &str = "C17";

#[derive(Clone)]
struct RawViol {
	oracle: String,
	era: Era,
	steps: Vec<Step>,
	compare_with: Option<Vec<Step>>,
	detail: String,
}

struct World {
	us: [Universe; 2],
	rgs: [Vec<RgsSnapshot>; 2],
}

impl World {
	fn u(&self, e: Era) -> &Universe {
		&self.us[if e == Era::Past { 0 } else { 1 }]
	}
	fn r(&self, e: Era) -> &[RgsSnapshot] {
		&self.rgs[if e == Era::Past { 0 } else { 1 }]
	}
}

/// Runs one execution with all per-step oracles; a panic in LDK becomes a `no-panic` failure.
fn checked(w: &World, era: Era, steps: &[Step], st: &mut Stats, keep: bool) -> (Option<run::Outcome>, Vec<(String, String)>) {
	let u = w.u(era);
	match par::guarded(|| execute(u, w.r(era), steps, st, keep)) {
		Ok(o) => {
			let f = o.fails.iter().map(|f| (f.oracle.clone(), format!("step {} of [{}]: {}", f.step, steps_string(u, steps), f.detail))).collect();
			(Some(o), f)
		},
		Err(p) => (None, vec![("no-panic".to_string(), format!("panic while executing [{}]: {}", steps_string(u, steps), p))]),
	}
}

struct PoolRef {
	exts: Vec<Vec<usize>>,
	/// for pools where order must not matter: canonical bytes of the final graph of the first
	/// order, and that graph re-read from the canonical bytes
	inv: Option<(Vec<u8>, real::Graph, Vec<Step>, Vec<u8>)>,
}

struct JobResult {
	family: &'static str,
	stats: Stats,
	viols: Vec<RawViol>,
	finals: BTreeSet<u128>,
	invariance_checked: u64,
	declarative_checked: u64,
	skipped_orders: u64,
	sample: Option<Value>,
}

fn run_job(w: &World, pool: &Pool, pr: &PoolRef, range: (usize, usize), deadline: Instant, capped: &AtomicBool) -> JobResult {
	let u = w.u(pool.era);
	let mut jr = JobResult {
		family: pool.family,
		stats: Stats::default(),
		viols: Vec::new(),
		finals: BTreeSet::new(),
		invariance_checked: 0,
		declarative_checked: 0,
		skipped_orders: 0,
		sample: None,
	};
	let mut per_oracle: BTreeMap<String, usize> = BTreeMap::new();
	let mut nexec = 0u64;
	let conflict = has_conflict(u, &pool.msgs);
	for ei in range.0..range.1 {
		if Instant::now() >= deadline {
			capped.store(true, Ordering::Relaxed);
			jr.skipped_orders += (range.1 - ei) as u64;
			break;
		}
		for seq in dup_variants(&pr.exts[ei], pool.dup) {
			let mut f = |steps: &[Step]| {
				let (out, fails) = checked(w, pool.era, steps, &mut jr.stats, false);
				let mut push = |oracle: String, detail: String, cmp: Option<Vec<Step>>| {
					let c = per_oracle.entry(oracle.clone()).or_insert(0);
					if *c < 3 {
						*c += 1;
						jr.viols.push(RawViol { oracle, era: pool.era, steps: steps.to_vec(), compare_with: cmp, detail });
					}
				};
				for (o, d) in fails {
					push(o, d, None);
				}
				if let Some(out) = out {
					jr.finals.insert(mc_common::digest128(&out.final_n1));
					let plain = steps.iter().all(|s| !s.is_op());
					if plain && pool.constrained && !conflict {
						jr.declarative_checked += 1;
						let d = declarative(u, &seq);
						if d != out.final_snap {
							push(
								"final-graph-is-not-latest-valid-per-key".into(),
								format!("[{}]: real {} | expected {}", steps_string(u, steps), out.final_snap.describe(u), d.describe(u)),
								None,
							);
						}
						if let Some((ref_n1, ref_graph, ref_steps, ref_n0s)) = &pr.inv {
							jr.invariance_checked += 1;
							if out.final_n1 == *ref_n1 && out.final_n0s != *ref_n0s {
								// informational: equal graphs whose stored node channel lists are in a different order
								jr.stats.wit("info_final_graphs_differ_only_in_node_channel_list_order");
								if let (Ok(a), Ok(b)) = (real::read_graph(&out.final_n0s), real::read_graph(ref_n0s)) {
									if a != b {
										jr.stats.wit("info_networkgraph_eq_false_only_because_of_node_channel_list_order");
									}
								}
							}
							if out.final_n1 != *ref_n1 {
								push(
									"order-dependent-final-graph".into(),
									format!("[{}] and [{}] deliver the same valid messages but end in different graphs: {}", steps_string(u, steps), steps_string(u, ref_steps), out.final_snap.describe(u)),
									Some(ref_steps.clone()),
								);
							}
							match real::read_graph(&out.final_n1) {
								Ok(g) => {
									if g != *ref_graph {
										push("order-dependent-final-graph-eq".into(), format!("[{}] vs [{}]: NetworkGraph == says the final graphs differ", steps_string(u, steps), steps_string(u, ref_steps)), Some(ref_steps.clone()));
									}
								},
								Err(e) => push("canonical-encoding-unreadable".into(), format!("[{}]: {}", steps_string(u, steps), e), None),
							}
						}
					}
				}
				nexec += 1;
				if range.0 == 0 && (nexec == 1 || nexec == 38) {
					jr.sample = Some(json!({"pool": pool.name(u), "steps": steps.iter().map(|s| s.to_json(u)).collect::<Vec<_>>()}));
				}
			};
			with_ops(&seq, &pool.ops, pool.max_ops, true, &mut f);
		}
	}
	jr
}

fn replay_json(u: &Universe, v: &RawViol) -> Value {
	json!({
		"era": v.era.name(),
		"steps": v.steps.iter().map(|s| s.to_json(u)).collect::<Vec<_>>(),
		"compare_with": v.compare_with.as_ref().map(|c| c.iter().map(|s| s.to_json(u)).collect::<Vec<_>>()),
	})
}

/// Re-evaluates one recorded input; returns the oracles that fire.
fn evaluate(w: &World, era: Era, steps: &[Step], cmp: Option<&[Step]>) -> Vec<(String, String)> {
	let u = w.u(era);
	let mut st = Stats::default();
	let (out, mut fails) = checked(w, era, steps, &mut st, false);
	if let Some(out) = out {
		let plain: Vec<usize> = steps.iter().filter_map(|s| if let Step::Msg(i) = s { Some(*i) } else { None }).collect();
		if plain.len() == steps.len() {
			// announcement-before-update respected?
			let mut seen = Stats::default();
			let _ = &mut seen;
			let respects = {
				let mut m = model::Model::new();
				let mut ok = true;
				for &i in &plain {
					let acc = m.deliver(u, &u.msgs[i]);
					if !acc && !u.msgs[i].always_invalid {
						if let uni::Facts::CU { scid, .. } = &u.msgs[i].facts {
							ok &= m.snap.channels.contains_key(scid);
						}
						if let uni::Facts::NA { node, .. } = &u.msgs[i].facts {
							ok &= m.snap.nodes.contains_key(node);
						}
					}
				}
				ok
			};
			if respects && !has_conflict(u, &plain) {
				let d = declarative(u, &plain);
				if d != out.final_snap {
					fails.push(("final-graph-is-not-latest-valid-per-key".into(), format!("real {} | expected {}", out.final_snap.describe(u), d.describe(u))));
				}
			}
		}
		if let Some(c) = cmp {
			let (o2, f2) = checked(w, era, c, &mut st, false);
			fails.extend(f2);
			if let Some(o2) = o2 {
				if o2.final_n1 != out.final_n1 {
					fails.push(("order-dependent-final-graph".into(), format!("{} vs {}", out.final_snap.describe(u), o2.final_snap.describe(u))));
				}
				if let (Ok(a), Ok(b)) = (real::read_graph(&out.final_n1), real::read_graph(&o2.final_n1)) {
					if a != b {
						fails.push(("order-dependent-final-graph-eq".into(), "NetworkGraph == says the final graphs differ".into()));
					}
				}
			}
		}
	}
	fails
}

/// Greedy step deletion while the same oracle keeps firing.
fn shrink(w: &World, v: &RawViol) -> RawViol {
	let mut best = v.clone();
	if v.compare_with.is_some() {
		return best;
	}
	loop {
		let mut improved = false;
		let mut k = 0;
		while k < best.steps.len() {
			let mut s = best.steps.clone();
			s.remove(k);
			let f = evaluate(w, best.era, &s, None);
			if let Some((_, d)) = f.iter().find(|(o, _)| *o == best.oracle) {
				best.steps = s;
				best.detail = d.clone();
				improved = true;
			} else {
				k += 1;
			}
		}
		if !improved {
			break;
		}
	}
	best
}

fn self_check(u: &Universe) {
	use uni::Facts;
	for m in &u.msgs {
		let all_sigs = match &m.facts {
			Facts::CA { sigs_ok, .. } => sigs_ok.iter().all(|x| *x),
			Facts::CU { verifies_under, .. } => !verifies_under.is_empty(),
			Facts::NA { sig_ok, .. } => *sig_ok,
		};
		let expect_bad_sig = m.class.contains("badsig") || m.class.contains("swapped") || m.class.contains("tampered") || m.class == "invalid:na_signed_by_foreign_key";
		if all_sigs == expect_bad_sig {
			die(&format!("universe self-check: {} ({}) signature status is not what its class says", m.label, m.class));
		}
		if let Facts::CA { sigs_ok, .. } = &m.facts {
			for (i, n) in ["n1", "n2", "b1", "b2"].iter().enumerate() {
				if m.class == format!("invalid:ca_badsig_{}", n) {
					let want: Vec<bool> = (0..4).map(|j| j != i).collect();
					if sigs_ok.to_vec() != want {
						die(&format!("universe self-check: {} should have exactly signature {} wrong", m.label, n));
					}
				}
			}
		}
	}
}

fn main() {
	let args = cli::parse();
	if args.replay.is_none() && args.property != PROPERTY {
		die(&format!("mc-gossip checks {} only", PROPERTY));
	}
	par::install_quiet_panic_hook();
	let now = std::time::SystemTime::now().duration_since(std::time::UNIX_EPOCH).map(|d| d.as_secs()).unwrap_or(0);
	if now <= WALL_LO || now + STALE + 86_400 >= WALL_HI {
		die("the system clock is outside 2020..2065; the harness' separation of chosen times from the wall clock does not hold");
	}
	let us = [Universe::new(Era::Past), Universe::new(Era::Future)];
	let rgs = [rgs_snapshots(&us[0]), rgs_snapshots(&us[1])];
	for u in &us {
		self_check(u);
	}
	let w = World { us, rgs };

	if let Some(path) = &args.replay {
		let text = std::fs::read_to_string(path).unwrap_or_else(|e| die(&format!("cannot read {}: {}", path.display(), e)));
		let v: Value = mc_common::serde_json::from_str(&text).unwrap_or_else(|e| die(&format!("{} does not parse: {}", path.display(), e)));
		let r = if v.get("replay").is_some() { &v["replay"] } else { &v };
		if let Some(a) = r.get("async_steps") {
			let era = r.get("era").and_then(|e| e.as_str()).and_then(Era::parse).unwrap_or_else(|| die("replay: era missing"));
			let u = w.u(era);
			let steps = asyncl::steps_from_json(u, a).unwrap_or_else(|| die("replay: bad async steps"));
			let (problems, _, _) = asyncl::judge(u, &steps);
			for (o, d) in problems.iter() {
				println!("REPLAY: VIOLATION oracle={} {}", o, d);
			}
			if problems.is_empty() {
				println!("REPLAY: no oracle fires");
			}
			std::process::exit(if problems.is_empty() { 0 } else { 1 });
		}
		if r.get("unsigned_sweep").is_some() {
			// the sweep is small: re-run it and report what it finds
			let mut found = 0;
			for u in w.us.iter() {
				let o = unsigned::sweep(u, 3);
				for (oracle, id, detail) in o.problems.iter().take(5) {
					println!("REPLAY: VIOLATION oracle={} {} {}", oracle, id, detail);
					found += 1;
				}
			}
			if found == 0 {
				println!("REPLAY: no oracle fires");
			}
			std::process::exit(if found == 0 { 0 } else { 1 });
		}
		let era = r.get("era").and_then(|e| e.as_str()).and_then(Era::parse).unwrap_or_else(|| die("replay: era missing"));
		let u = w.u(era);
		let parse = |a: &Value| -> Vec<Step> {
			a.as_array().unwrap_or_else(|| die("replay: steps must be an array")).iter().map(|s| Step::from_json(u, s).unwrap_or_else(|| die(&format!("replay: bad step {}", s)))).collect()
		};
		let steps = parse(&r["steps"]);
		let cmp = r.get("compare_with").filter(|c| c.is_array()).map(|c| parse(c));
		println!("replaying era={} [{}]", era.name(), steps_string(u, &steps));
		let mut st = Stats::default();
		if let (Some(o), _) = checked(&w, era, &steps, &mut st, false) {
			for (l, ok) in &o.trace {
				println!("  {:<16} {}", l, if *ok { "accepted" } else { "rejected" });
			}
			println!("  final graph: {}", o.final_snap.describe(u));
		}
		let fails = evaluate(&w, era, &steps, cmp.as_deref());
		if fails.is_empty() {
			println!("REPLAY: no oracle fires");
			std::process::exit(0);
		}
		for (o, d) in &fails {
			println!("REPLAY: VIOLATION oracle={} {}", o, d);
		}
		std::process::exit(1);
	}

	let mut ev = Evidence::new(PROPERTY, args.tier, args.seed, Level::ModelChecking);
	let cap_s = if args.wall_cap_s > 0 { args.wall_cap_s } else if args.tier.is_thorough() { 2400 } else { 50 };
	let start = Instant::now();
	let deadline = start + Duration::from_secs(cap_s);
	let pl = plan(&w.us, args.tier);
	let only = args.opt("family").map(|s| s.to_string());
	let pools: Vec<Pool> = pl.pools.into_iter().filter(|p| only.as_ref().map(|o| p.family == o).unwrap_or(true)).collect();

	// all admissible orders of every pool + the invariance reference of pools where order must not matter
	let refs: Vec<PoolRef> = par::map(&pools, args.threads, |_, p| {
		let u = w.u(p.era);
		let exts = extensions(u, p);
		let inv = if p.constrained && !has_timestamp_ties(u, &p.msgs) && !has_conflict(u, &p.msgs) && !exts.is_empty() {
			let steps: Vec<Step> = exts[0].iter().map(|i| Step::Msg(*i)).collect();
			let mut st = Stats::default();
			let o = execute(u, w.r(p.era), &steps, &mut st, false);
			let g = real::read_graph(&o.final_n1).unwrap_or_else(|e| die(&format!("canonical encoding unreadable: {}", e)));
			Some((o.final_n1, g, steps, o.final_n0s))
		} else {
			None
		};
		PoolRef { exts, inv }
	})
	.into_iter()
	.map(|r| r.unwrap_or_else(|e| die(&format!("panic while preparing a pool: {}", e))))
	.collect();

	if args.opt("plan_only").is_some() {
		let mut fam: BTreeMap<&'static str, (u64, u64, u64)> = BTreeMap::new();
		for (pi, pr) in refs.iter().enumerate() {
			let p = &pools[pi];
			let e = fam.entry(p.family).or_insert((0, 0, 0));
			e.0 += 1;
			e.1 += pr.exts.len() as u64;
			if let Some(o) = pr.exts.first() {
				let mut n = 0u64;
				for seq in dup_variants(o, p.dup) {
					with_ops(&seq, &p.ops, p.max_ops, true, &mut |_| n += 1);
				}
				e.2 += n * pr.exts.len() as u64;
			}
		}
		let mut tot = 0;
		for (f, (np, no, ne)) in &fam {
			println!("{:<32} pools {:>6} orders {:>9} executions {:>11}", f, np, no, ne);
			tot += ne;
		}
		println!("total executions {}", tot);
		std::process::exit(0);
	}

	// jobs: (pool, range of orders)
	let mut jobs: Vec<(usize, (usize, usize))> = Vec::new();
	for (pi, pr) in refs.iter().enumerate() {
		let p = &pools[pi];
		let per_order = (if p.dup { 1 + p.msgs.len() * (p.msgs.len() + 1) / 2 } else { 1 }) * match p.max_ops {
			0 => 1,
			1 => 1 + p.ops.len() * (p.msgs.len() + 2),
			_ => 1 + (p.ops.len() * (p.msgs.len() + 2)).pow(2) / 2,
		};
		let chunk = (2000 / per_order.max(1)).clamp(1, 64);
		let mut a = 0;
		while a < pr.exts.len() {
			let b = (a + chunk).min(pr.exts.len());
			jobs.push((pi, (a, b)));
			a = b;
		}
	}
	let capped = AtomicBool::new(false);
	let results = par::map(&jobs, args.threads, |_, (pi, range)| run_job(&w, &pools[*pi], &refs[*pi], *range, deadline, &capped));

	// ---- merge ---------------------------------------------------------------------------------
	let mut stats = Stats::default();
	let mut raw: Vec<RawViol> = Vec::new();
	let mut finals: BTreeSet<u128> = BTreeSet::new();
	let (mut inv_checked, mut decl_checked, mut skipped) = (0u64, 0u64, 0u64);
	let mut fam_exec: BTreeMap<&'static str, u64> = BTreeMap::new();
	let mut fam_skipped: BTreeMap<&'static str, u64> = BTreeMap::new();
	let mut fam_sampled: BTreeSet<&'static str> = BTreeSet::new();
	for (ji, r) in results.into_iter().enumerate() {
		let r = match r {
			Ok(r) => r,
			Err(e) => die(&format!("harness panic in job {}: {}", ji, e)),
		};
		*fam_exec.entry(r.family).or_insert(0) += r.stats.executions;
		stats.merge(r.stats);
		raw.extend(r.viols);
		finals.extend(r.finals);
		inv_checked += r.invariance_checked;
		decl_checked += r.declarative_checked;
		skipped += r.skipped_orders;
		*fam_skipped.entry(r.family).or_insert(0) += r.skipped_orders;
		if let Some(s) = r.sample {
			if fam_sampled.insert(r.family) {
				ev.sample(s, 40);
			}
		}
	}
	let is_capped = capped.load(Ordering::Relaxed);
	let total_orders: u64 = refs.iter().map(|r| r.exts.len() as u64).sum();
	let inv_pools = refs.iter().filter(|r| r.inv.is_some() && r.exts.len() > 1).count() as u64;

	// ---- violations: per oracle the smallest few, shrunk -----------------------------------------
	raw.sort_by(|a, b| (a.oracle.as_str(), a.steps.len(), a.era, &a.steps).cmp(&(b.oracle.as_str(), b.steps.len(), b.era, &b.steps)));
	let mut violations: Vec<Violation> = Vec::new();
	let mut per: BTreeMap<String, usize> = BTreeMap::new();
	let mut ids: BTreeSet<String> = BTreeSet::new();
	for v in &raw {
		let c = per.entry(v.oracle.clone()).or_insert(0);
		if *c >= 2 {
			continue;
		}
		*c += 1;
		let mut s = shrink(&w, v);
		if s.era == Era::Future && s.steps.iter().all(|x| !x.is_op()) && s.compare_with.as_ref().map(|c| c.iter().all(|x| !x.is_op())).unwrap_or(true) {
			// without operations the eras behave identically: report under one identity
			let f = evaluate(&w, Era::Past, &s.steps, s.compare_with.as_deref());
			if let Some((_, d)) = f.iter().find(|(o, _)| *o == s.oracle) {
				s.era = Era::Past;
				s.detail = d.clone();
			}
		}
		let u = w.u(s.era);
		let identity = format!(
			"{}|{}|{}{}",
			s.oracle,
			s.era.name(),
			steps_string(u, &s.steps),
			s.compare_with.as_ref().map(|c| format!("|vs|{}", steps_string(u, c))).unwrap_or_default()
		);
		if !ids.insert(identity.clone()) {
			continue;
		}
		violations.push(Violation { property: PROPERTY.into(), oracle: s.oracle.clone(), identity, detail: s.detail.clone(), replay: replay_json(u, &s) });
	}
	let raw_oracles: BTreeMap<String, u64> = raw.iter().fold(BTreeMap::new(), |mut m, v| {
		*m.entry(v.oracle.clone()).or_insert(0) += 1;
		m
	});

	// ---- vacuity guards ----------------------------------------------------------------------------
	if violations.is_empty() && !is_capped && only.is_none() {
		let mut missing: Vec<String> = Vec::new();
		let classes: BTreeSet<String> = w.us[0].msgs.iter().map(|m| m.class.clone()).collect();
		for c in &classes {
			let acc = stats.accepted.get(c).cloned().unwrap_or(0);
			let rej = stats.rejected.get(c).cloned().unwrap_or(0);
			if c.starts_with("invalid:") && rej == 0 {
				missing.push(format!("{} never rejected", c));
			}
			if (c.starts_with("valid:") || c.starts_with("rel:") || c.starts_with("conflict:")) && acc == 0 {
				missing.push(format!("{} never accepted", c));
			}
			if c.starts_with("rel:") && rej == 0 {
				missing.push(format!("{} never rejected", c));
			}
		}
		for wname in [
			"update_replaced_by_newer",
			"node_announcement_replaced_by_newer",
			"update_before_announcement_rejected",
			"node_announcement_before_channel_rejected",
			"htlc_max_equal_capacity_accepted",
			"permanent_channel_failure_removed_channel",
			"permanent_channel_failure_removed_node",
			"permanent_node_failure_removed_node",
			"permanent_node_failure_removed_channel",
			"pruning_dropped_stale_direction_only",
			"pruning_removed_channel",
			"pruning_removed_node",
			"pruning_removed_some_kept_some",
			"pruning_kept_everything",
			"announcement_rejected_while_tombstoned",
			"channel_reannounced_after_removal",
			"channel_replaced_by_conflicting_announcement",
			"oversized_message_applied_without_retention",
			"rgs_applied",
			"rgs_rejected",
			"rgs_added_channel",
			"rgs_replaced_direction",
			"rgs_left_direction_alone",
			"pruning_kept_snapshot_channel_lacking_a_direction",
			"pruning_removed_snapshot_channel_lacking_a_direction",
		] {
			if stats.witnesses.get(wname).cloned().unwrap_or(0) == 0 {
				missing.push(format!("witness {} never observed", wname));
			}
		}
		if inv_checked == 0 || inv_pools == 0 {
			missing.push("no order-invariance comparison was made".into());
		}
		if finals.len() < 10 {
			missing.push("fewer than 10 distinct final graphs".into());
		}
		if !missing.is_empty() {
			die(&format!("vacuity guard: {}", missing.join("; ")));
		}
	}

	// ---- evidence --------------------------------------------------------------------------------------
	ev.set("states", stats.states.len() as u64);
	ev.set("transitions", stats.transitions);
	ev.set("traces_validated_against_impl", stats.executions);
	ev.set("distinct_final_graphs", finals.len() as u64);
	ev.set("pools", pools.len() as u64);
	ev.set("admissible_orders_of_all_pools", total_orders);
	ev.set("orders_skipped_by_cap", skipped);
	ev.set("capped", is_capped);
	ev.set("cap_s", cap_s);
	ev.set("exhaustive", !is_capped);
	ev.set("bounds", pl.bounds.clone());
	ev.set("roundtrips_checked", stats.roundtrips);
	ev.set("order_invariance_comparisons", inv_checked);
	ev.set("pools_with_order_invariance", inv_pools);
	ev.set("latest_valid_per_key_comparisons", decl_checked);
	ev.set("executions_per_family", json!(fam_exec));
	ev.set("orders_skipped_by_cap_per_family", json!(fam_skipped.iter().filter(|(_, v)| **v > 0).collect::<BTreeMap<_, _>>()));
	ev.set("families_fully_enumerated", json!(fam_skipped.iter().filter(|(_, v)| **v == 0).map(|(k, _)| *k).collect::<Vec<_>>()));
	ev.set("accepted_per_class", json!(stats.accepted));
	ev.set("rejected_per_class", json!(stats.rejected));
	ev.set("witnesses", json!(stats.witnesses));
	ev.set("raw_violations_per_oracle", json!(raw_oracles));
	ev.set("threads", args.threads as u64);
	ev.set(
		"normalisation",
		"cross-order comparisons use the NetworkGraph encoding with (a) map entries sorted by key (the maps are hash maps written in iteration order), (b) ChannelInfo TLV 1 announcement_received_time removed (wall clock), (c) each NodeInfo channel-id list sorted (a set kept in insertion order; `witnesses.info_node_channel_list_in_non_ascending_order` counts states where the raw list order was order-dependent). Round-trip comparisons use (a) only plus NetworkGraph's own ==.",
	);
	ev.assume("secp256k1 (signing and verification) and SHA-256 behave to spec; the reference verifies every signature by calling secp256k1 directly on hand-written BOLT 7 encodings that are cross-checked against LDK's encoders at start-up");
	ev.assume("_test_utils build: update_channel_internal's wall-clock checks (channel_update older than two weeks / more than a day in the future) are compiled out (cfg not(feature = \"_test_utils\")), so update timestamps from 2001 and 2096 are accepted; production builds reject them before any other rule applies");
	ev.assume("std build: announcement_received_time, and the removal time recorded by channel_failed_permanent / node_failed_permanent, come from SystemTime::now(); all chosen pruning instants lie more than two weeks outside 2020..2065 so no verdict depends on the clock reading (checked at start-up); the non-std / fuzzing variants (removal time filled in by the next pruning call) are not exercised");
	ev.assume("the main families use a UtxoLookup that answers synchronously; asynchronous lookups (utxo::PendingChecks) are covered by the differential async sweep (small pools, every admissible order, lookups answered at every position) whose reference is the synchronous run of the same order");
	ev.assume("rapid-gossip-sync snapshots are wire format version 1 built by the harness; version 2 node details are not exercised; a snapshot re-adds a channel that was reported permanently failed (add_channel_from_partial_announcement does not consult the removal records) - modelled as such, not judged");
	ev.assume("a channel announcement for a chain-verified outpoint with different node ids replaces the stored channel (documented reorg handling); such conflicting announcements are outside the enumerated pools");
	// ---- unsigned entry points: ordering rules hold whichever entry point stores / delivers -------------
	if only.is_none() || only.as_deref() == Some("unsigned") {
		let depth = if args.tier.is_thorough() { 3 } else { 2 };
		let (mut ex, mut del, mut refused, mut made) = (0u64, 0u64, 0u64, 0u64);
		for u in w.us.iter() {
			match par::guarded(|| unsigned::sweep(u, depth)) {
				Ok(o) => {
					ex += o.executions;
					del += o.deliveries;
					refused += o.replacements_refused;
					made += o.replacements_made;
					let mut seen: BTreeSet<String> = BTreeSet::new();
					for (oracle, id, detail) in o.problems {
						let identity = format!("{}|{}", oracle, id);
						if seen.insert(identity.clone()) && !violations.iter().any(|v| v.identity == identity) {
							violations.push(Violation { property: PROPERTY.into(), oracle, identity, detail: detail.clone(), replay: json!({"unsigned_sweep": detail}) });
						}
					}
				},
				Err(p) => violations.push(Violation { property: PROPERTY.into(), oracle: "no-panic".into(), identity: "no-panic|unsigned-sweep".into(), detail: format!("panic in the unsigned-entry-point sweep: {}", p), replay: json!({"unsigned_sweep": "panic"}) }),
			}
		}
		ev.set("unsigned_sweep_depth", depth as u64);
		ev.set("unsigned_sweep_executions", ex);
		ev.set("unsigned_sweep_deliveries_judged", del);
		ev.set("unsigned_sweep_replacements_refused", refused);
		ev.set("unsigned_sweep_replacements_made", made);
		if refused == 0 || made == 0 {
			die("vacuity guard: the unsigned-entry-point sweep never saw a refused and an accepted replacement");
		}
	}
	// ---- asynchronous UTXO lookups: held messages, replay on resolution (differential against synchronous lookups)
	if only.is_none() || only.as_deref() == Some("async") {
		let (mut ex, mut orders, mut held, mut nonempty) = (0u64, 0u64, 0u64, 0u64);
		for u in w.us.iter() {
			let o = asyncl::sweep(u, args.tier.is_thorough(), args.threads);
			ex += o.executions;
			orders += o.orders;
			held += o.held_while_pending;
			nonempty += o.nonempty_finals;
			let mut per: BTreeMap<String, usize> = BTreeMap::new();
			for (oracle, detail, steps) in o.problems {
				let c = per.entry(oracle.clone()).or_insert(0);
				*c += 1;
				if *c > 3 {
					continue;
				}
				let identity = format!("{}|{}|{}", oracle, u.era.name(), asyncl::steps_string(u, &steps));
				violations.push(Violation { property: PROPERTY.into(), oracle, identity, detail, replay: json!({"era": u.era.name(), "async_steps": asyncl::steps_to_json(u, &steps)}) });
			}
		}
		ev.set("async_sweep_executions", ex);
		ev.set("async_sweep_orders", orders);
		ev.set("async_sweep_messages_held_while_lookup_pending", held);
		ev.set("async_sweep_executions_ending_in_a_non_empty_graph", nonempty);
		if held == 0 || nonempty == 0 {
			die("vacuity guard: the async-lookup sweep never held a message / never ended in a non-empty graph");
		}
	}
	let code = findings::conclude(PROPERTY, &violations, &mut ev);
	eprintln!(
		"C17 {}: {} pools, {} orders, {} executions, {} transitions, {} states, {} final graphs, {} invariance comparisons, {:.1}s{}",
		args.tier.name(),
		pools.len(),
		total_orders,
		stats.executions,
		stats.transitions,
		stats.states.len(),
		finals.len(),
		inv_checked,
		start.elapsed().as_secs_f64(),
		if is_capped { " CAPPED" } else { "" }
	);
	std::process::exit(code);
}
