//! The unsigned entry points of `NetworkGraph` (`update_node_from_unsigned_announcement`,
//! `update_channel_unsigned`): used for announcements synthesised by rapid gossip sync, for the
//! replay of messages held back during an asynchronous UTXO lookup, and by direct callers. They skip
//! signature verification but not the ordering rules: information is never replaced by a message
//! with an older or equal timestamp, whichever entry point stored it and whichever delivers the next.
//!
//! Exhaustive over all sequences of up to `depth` deliveries drawn from every well-signed
//! node_announcement / channel_update of the universe, each through the signed or the unsigned entry
//! point, after the valid channel announcements; the oracle is the rule itself, evaluated on the
//! observable graph after every delivery.
use crate::model::{NodeAnnSnap, Snap};
use crate::real;
use crate::uni::{Facts, Universe, Wire};
use lightning::ln::msgs::RoutingMessageHandler;

pub struct Out {
	pub executions: u64,
	pub deliveries: u64,
	pub replacements_refused: u64,
	pub replacements_made: u64,
	pub problems: Vec<(String, String, String)>,
}

fn node_ann(s: &Snap, node: &[u8; 33]) -> Option<NodeAnnSnap> {
	s.nodes.get(node).and_then(|n| n.ann.clone())
}

pub fn sweep(u: &Universe, depth: usize) -> Out {
	let mut out = Out { executions: 0, deliveries: 0, replacements_refused: 0, replacements_made: 0, problems: Vec::new() };
	let cas: Vec<usize> = u.msgs.iter().enumerate().filter(|(_, m)| m.class == "valid:ca").map(|(i, _)| i).collect();
	// well-signed node announcements and channel updates (valid, older, equal-timestamp variants)
	let pool: Vec<usize> = u
		.msgs
		.iter()
		.enumerate()
		.filter(|(_, m)| matches!(m.class.as_str(), "valid:na" | "rel:na_older" | "rel:na_equal" | "valid:cu" | "rel:cu_older" | "rel:cu_equal"))
		.map(|(i, _)| i)
		.collect();
	// deliveries: (message, unsigned?)
	let alphabet: Vec<(usize, bool)> = pool.iter().flat_map(|i| [(*i, false), (*i, true)]).collect();
	let mut seq: Vec<(usize, bool)> = Vec::new();
	fn rec(u: &Universe, cas: &[usize], alphabet: &[(usize, bool)], seq: &mut Vec<(usize, bool)>, depth: usize, out: &mut Out) {
		if !seq.is_empty() {
			run_one(u, cas, seq, out);
		}
		if seq.len() < depth {
			for a in alphabet {
				seq.push(*a);
				rec(u, cas, alphabet, seq, depth, out);
				seq.pop();
			}
		}
	}
	fn run_one(u: &Universe, cas: &[usize], seq: &[(usize, bool)], out: &mut Out) {
		// only complete sequences are judged at their last step (prefixes were judged before)
		let (g, sync) = real::new_graph(u);
		for i in cas {
			if let Wire::CA(x) = &u.msgs[*i].wire {
				let _ = sync.handle_channel_announcement(None, x);
			}
		}
		out.executions += 1;
		for (k, (mi, unsigned)) in seq.iter().enumerate() {
			let m = &u.msgs[*mi];
			let (before, _) = real::observe(&g);
			let res = match (&m.wire, *unsigned) {
				(Wire::NA(x), false) => sync.handle_node_announcement(None, x).map(|_| ()).map_err(|e| e.err),
				(Wire::NA(x), true) => g.update_node_from_unsigned_announcement(&x.contents).map_err(|e| e.err),
				(Wire::CU(x), false) => sync.handle_channel_update(None, x).map(|_| ()).map_err(|e| e.err),
				(Wire::CU(x), true) => g.update_channel_unsigned(&x.contents).map(|_| ()).map_err(|e| e.err),
				_ => Ok(()),
			};
			if k + 1 != seq.len() {
				continue;
			}
			out.deliveries += 1;
			let (after, _) = real::observe(&g);
			let label = || seq.iter().map(|(i, un)| format!("{}{}", u.msgs[*i].label, if *un { "/unsigned" } else { "" })).collect::<Vec<_>>().join(",");
			match &m.facts {
				Facts::NA { node, ts, .. } => {
					let (b, a) = (node_ann(&before, node), node_ann(&after, node));
					if let Some(b) = &b {
						if *ts <= b.ts {
							if a.as_ref() != Some(b) {
								out.problems.push((
									"older-or-equal-timestamp-replaces".into(),
									format!("node_announcement|{}", if *unsigned { "unsigned" } else { "signed" }),
									format!("[{}] a node_announcement with timestamp {} replaced stored information with timestamp {} (accepted: {})", label(), ts, b.ts, res.is_ok()),
								));
							} else {
								out.replacements_refused += 1;
							}
						} else if a.as_ref().map(|x| x.ts) == Some(*ts) {
							out.replacements_made += 1;
						}
					}
				},
				Facts::CU { scid, dir, ts, .. } => {
					let get = |s: &Snap| s.channels.get(scid).and_then(|c| c.dirs[*dir as usize].clone());
					let (b, a) = (get(&before), get(&after));
					if let Some(b) = &b {
						if *ts <= b.ts {
							if a.as_ref() != Some(b) {
								out.problems.push((
									"older-or-equal-timestamp-replaces".into(),
									format!("channel_update|{}", if *unsigned { "unsigned" } else { "signed" }),
									format!("[{}] a channel_update with timestamp {} replaced stored information with timestamp {} (accepted: {})", label(), ts, b.ts, res.is_ok()),
								));
							} else {
								out.replacements_refused += 1;
							}
						} else if a.as_ref().map(|x| x.ts) == Some(*ts) {
							out.replacements_made += 1;
						}
					}
				},
				_ => {},
			}
		}
	}
	rec(u, &cas, &alphabet, &mut seq, depth, &mut out);
	out
}
