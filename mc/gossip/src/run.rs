//! One execution: a sequence of steps applied to a fresh real graph and to the reference model,
//! with all per-step oracles.

use crate::model::{Model, RgsSnapshot, Snap};
use crate::real::{self, Graph};
use crate::uni::{Facts, Pk33, Universe, Wire};

use bitcoin::secp256k1::PublicKey;
use lightning::ln::msgs::RoutingMessageHandler;
use lightning::util::ser::Writeable;
use lightning_rapid_gossip_sync::RapidGossipSync;
use mc_common::{json, Value};
use std::collections::{BTreeMap, BTreeSet};
use std::sync::Arc;

#[derive(Clone, Debug, PartialEq, Eq, PartialOrd, Ord)]
pub enum Step {
	/// deliver universe message #i through `P2PGossipSync`'s `RoutingMessageHandler`
	Msg(usize),
	FailChan(u64),
	/// index into [A, B, C, D]
	FailNode(usize),
	Prune(u64),
	/// snapshot index, optional current time
	Rgs(usize, Option<u64>),
}

impl Step {
	pub fn is_op(&self) -> bool {
		!matches!(self, Step::Msg(_))
	}
	pub fn to_json(&self, u: &Universe) -> Value {
		match self {
			Step::Msg(i) => json!({"m": u.msgs[*i].label}),
			Step::FailChan(s) => json!({"op": "channel_failed_permanent", "scid": s}),
			Step::FailNode(n) => {
				let name = ["A", "B", "C", "D"][*n];
				json!({"op": "node_failed_permanent", "node": name})
			},
			Step::Prune(t) => json!({"op": "remove_stale", "t": t}),
			Step::Rgs(i, t) => json!({"op": "rgs", "snapshot": i, "now": t}),
		}
	}
	pub fn from_json(u: &Universe, v: &Value) -> Option<Step> {
		if let Some(l) = v.get("m").and_then(|x| x.as_str()) {
			return u.find(l).map(Step::Msg);
		}
		match v.get("op")?.as_str()? {
			"channel_failed_permanent" => Some(Step::FailChan(v.get("scid")?.as_u64()?)),
			"node_failed_permanent" => ["A", "B", "C", "D"].iter().position(|n| Some(*n) == v.get("node").and_then(|x| x.as_str())).map(Step::FailNode),
			"remove_stale" => Some(Step::Prune(v.get("t")?.as_u64()?)),
			"rgs" => Some(Step::Rgs(v.get("snapshot")?.as_u64()? as usize, v.get("now").and_then(|x| x.as_u64()))),
			_ => None,
		}
	}
	pub fn short(&self, u: &Universe) -> String {
		match self {
			Step::Msg(i) => u.msgs[*i].label.clone(),
			Step::FailChan(s) => format!("failchan({})", s >> 40),
			Step::FailNode(n) => format!("failnode({})", ["A", "B", "C", "D"][*n]),
			Step::Prune(t) => format!("prune({:+})", *t as i64 - u.era.t0() as i64 - crate::uni::STALE as i64),
			Step::Rgs(i, t) => format!("rgs({},{:?})", i, t.map(|t| t as i64 - u.era.t0() as i64)),
		}
	}
}

pub fn steps_string(u: &Universe, steps: &[Step]) -> String {
	steps.iter().map(|s| s.short(u)).collect::<Vec<_>>().join(",")
}

#[derive(Clone, Debug)]
pub struct Fail {
	pub oracle: String,
	pub step: usize,
	pub detail: String,
}

#[derive(Default, Clone)]
pub struct Stats {
	pub executions: u64,
	pub transitions: u64,
	pub states: BTreeSet<u128>,
	pub accepted: BTreeMap<String, u64>,
	pub rejected: BTreeMap<String, u64>,
	pub witnesses: BTreeMap<String, u64>,
	pub roundtrips: u64,
}

impl Stats {
	pub fn wit(&mut self, k: &str) {
		*self.witnesses.entry(k.to_string()).or_insert(0) += 1;
	}
	pub fn merge(&mut self, o: Stats) {
		self.executions += o.executions;
		self.transitions += o.transitions;
		self.roundtrips += o.roundtrips;
		self.states.extend(o.states);
		for (k, v) in o.accepted {
			*self.accepted.entry(k).or_insert(0) += v;
		}
		for (k, v) in o.rejected {
			*self.rejected.entry(k).or_insert(0) += v;
		}
		for (k, v) in o.witnesses {
			*self.witnesses.entry(k).or_insert(0) += v;
		}
	}
}

pub struct Outcome {
	pub fails: Vec<Fail>,
	/// canonical (n1) encoding of the final graph
	pub final_n1: Vec<u8>,
	/// the same with node channel lists left in stored order
	pub final_n0s: Vec<u8>,
	pub final_snap: Snap,
	#[allow(dead_code)]
	pub final_graph: Option<Arc<Graph>>,
	/// labels of the messages accepted, in order
	pub trace: Vec<(String, bool)>,
}

fn node_pk(u: &Universe, n: usize) -> Pk33 {
	if n < 3 {
		u.nodes[n]
	} else {
		u.node_d
	}
}

/// Executes `steps` on fresh real objects and on a fresh reference model. `keep_graph` returns the
/// final real graph (for `==` comparisons across executions).
pub fn execute(u: &Universe, rgs: &[RgsSnapshot], steps: &[Step], st: &mut Stats, keep_graph: bool) -> Outcome {
	let (g, sync) = real::new_graph(u);
	let mut model = Model::new();
	let mut fails: Vec<Fail> = Vec::new();
	let mut trace = Vec::new();
	let mut fail = |o: &str, step: usize, d: String| {
		if fails.len() < 8 {
			fails.push(Fail { oracle: o.to_string(), step, detail: d });
		}
	};
	st.executions += 1;
	let bytes0 = g.encode();
	let mut prev_canon = match real::canon(&bytes0) {
		Ok(c) => c,
		Err(e) => mc_common::cli::die(&format!("cannot parse the encoding of an empty graph: {}", e)),
	};
	let (mut prev_snap, _) = real::observe(&g);
	let mut ca_accepted: BTreeSet<u64> = BTreeSet::new();
	st.states.insert(mc_common::digest128(&prev_canon.n1));

	for (si, step) in steps.iter().enumerate() {
		st.transitions += 1;
		// ---- the real call (a panic inside LDK is caught by the caller's `guarded`) ----------
		let mut real_ok: Option<bool> = None;
		let mut model_ok: Option<bool> = None;
		match step {
			Step::Msg(i) => {
				let m = &u.msgs[*i];
				let r = match &m.wire {
					Wire::CA(x) => sync.handle_channel_announcement(None, x).map(|_| ()),
					Wire::CU(x) => sync.handle_channel_update(None, x).map(|_| ()),
					Wire::NA(x) => sync.handle_node_announcement(None, x).map(|_| ()),
				};
				real_ok = Some(r.is_ok());
				model_ok = Some(model.deliver(u, m));
			},
			Step::FailChan(s) => {
				g.channel_failed_permanent(*s);
				model.channel_failed_permanent(*s);
			},
			Step::FailNode(n) => {
				let pk = node_pk(u, *n);
				g.node_failed_permanent(&PublicKey::from_slice(&pk).unwrap());
				model.node_failed_permanent(&pk);
			},
			Step::Prune(t) => {
				g.remove_stale_channels_and_tracking_with_time(*t);
				model.prune(*t);
			},
			Step::Rgs(i, now) => {
				let snap = &rgs[*i];
				let rs = RapidGossipSync::new(Arc::clone(&g), Arc::new(real::NullLogger));
				let r = rs.update_network_graph_no_std(&real::rgs_bytes(u, snap), *now);
				real_ok = Some(r.is_ok());
				model_ok = Some(model.rgs(snap, *now));
			},
		}
		if model.clock_dependent {
			mc_common::cli::die(&format!("harness bug: outcome of {} depends on the wall clock", steps_string(u, steps)));
		}

		// ---- observation --------------------------------------------------------------------
		let bytes = g.encode();
		let canon = match real::canon(&bytes) {
			Ok(c) => c,
			Err(e) => {
				fail("encoding-layout", si, format!("NetworkGraph encoding does not follow its documented layout: {}", e));
				break;
			},
		};
		let (snap, errs) = real::observe(&g);
		for e in errs {
			fail("graph-cross-references", si, e);
		}
		let changed = snap != prev_snap;
		let label = step.short(u);

		// ---- direct oracles (no reference model involved) -------------------------------------
		if let Step::Msg(i) = step {
			let m = &u.msgs[*i];
			let ok = real_ok.unwrap();
			trace.push((m.label.clone(), ok));
			let cls = m.class.clone();
			if ok {
				*st.accepted.entry(cls.clone()).or_insert(0) += 1;
			} else {
				*st.rejected.entry(cls.clone()).or_insert(0) += 1;
			}
			if ok && m.always_invalid {
				fail("invalid-message-accepted", si, format!("{} ({}) was accepted", m.label, m.class));
			}
			if ok {
				// accepted => every signature verifies under the announced keys (secp256k1 directly)
				let verified = match &m.facts {
					Facts::CA { sigs_ok, .. } => sigs_ok.iter().all(|x| *x),
					Facts::NA { sig_ok, .. } => *sig_ok,
					Facts::CU { scid, dir, verifies_under, .. } => match prev_snap.channels.get(scid) {
						Some(c) => verifies_under.contains(if *dir == 0 { &c.n1 } else { &c.n2 }),
						None => false,
					},
				};
				if !verified {
					fail("accepted-without-valid-signature", si, format!("{} was accepted but its signature does not verify under the announced key", m.label));
				}
				if let Facts::CU { scid, hmax, .. } = &m.facts {
					match prev_snap.channels.get(scid) {
						None => fail("update-for-unknown-channel-accepted", si, format!("{} accepted for a channel not in the graph", m.label)),
						Some(c) => {
							if let Some(cap) = c.cap {
								if *hmax > cap * 1000 {
									fail("htlc-max-above-capacity-accepted", si, format!("{}: htlc_maximum_msat {} > capacity {} sat", m.label, hmax, cap));
								}
							}
						},
					}
				}
				match &m.facts {
					Facts::CU { chain_ok, .. } | Facts::CA { chain_ok, .. } if !*chain_ok => fail("wrong-chain-accepted", si, format!("{} accepted", m.label)),
					_ => {},
				}
			} else if canon.n0 != prev_canon.n0 || changed {
				fail("rejected-message-changed-graph", si, format!("{} was rejected but the graph changed: {} -> {}", m.label, prev_snap.describe(u), snap.describe(u)));
			}
			if ok {
				let ex = match &m.facts {
					Facts::CA { excess_len, .. } | Facts::CU { excess_len, .. } | Facts::NA { excess_len, .. } => *excess_len,
				};
				if ex > 1024 {
					st.wit("oversized_message_applied_without_retention");
				}
			}
			if ok && !changed {
				// an accepted message is by construction different from what is stored
				fail("accepted-message-without-effect", si, format!("{} returned Ok but the graph is unchanged", m.label));
			}
		}
		// no stored update / node announcement is ever replaced by one with timestamp <= stored
		for (scid, c) in &snap.channels {
			if let Some(pc) = prev_snap.channels.get(scid) {
				if pc.n1 != c.n1 || pc.n2 != c.n2 {
					continue; // a different channel took the id
				}
				for d in 0..2 {
					if let (Some(a), Some(b)) = (&pc.dirs[d], &c.dirs[d]) {
						if a != b {
							if b.ts <= a.ts {
								fail("replaced-by-older-or-equal", si, format!("{}: direction {} of channel {} went from ts {} to ts {}", label, d, scid >> 40, a.ts, b.ts));
							} else {
								st.wit("update_replaced_by_newer");
							}
						}
					}
				}
			}
		}
		for (id, n) in &snap.nodes {
			if let (Some(a), Some(b)) = (prev_snap.nodes.get(id).and_then(|p| p.ann.as_ref()), n.ann.as_ref()) {
				if a != b {
					if b.ts <= a.ts {
						fail("replaced-by-older-or-equal", si, format!("{}: node announcement of {} went from ts {} to ts {}", label, u.node_name(id), a.ts, b.ts));
					} else {
						st.wit("node_announcement_replaced_by_newer");
					}
				}
			}
		}

		// ---- against the reference --------------------------------------------------------------
		if real_ok != model_ok {
			fail(
				if real_ok == Some(true) { "accepted-but-reference-rejects" } else { "rejected-but-reference-accepts" },
				si,
				format!("{}: real {:?}, reference {:?}; graph before: {}", label, real_ok, model_ok, prev_snap.describe(u)),
			);
		}
		if snap != model.snap {
			fail("graph-differs-from-reference", si, format!("after {}: real {} | reference {}", label, snap.describe(u), model.snap.describe(u)));
		}

		// ---- serialisation round trip at every reached state -----------------------------------
		st.roundtrips += 1;
		match real::read_graph(&bytes) {
			Err(e) => fail("roundtrip-read", si, format!("the graph's own encoding does not read back: {}", e)),
			Ok(g2) => {
				if g2 != *g {
					fail("roundtrip-eq", si, format!("read(write(g)) != g after {}", label));
				}
				match real::canon(&g2.encode()) {
					Ok(c2) if c2.n0 == canon.n0 => {},
					_ => fail("roundtrip-bytes", si, format!("write(read(write(g))) differs from write(g) after {}", label)),
				}
				if g2.get_last_rapid_gossip_sync_timestamp() != g.get_last_rapid_gossip_sync_timestamp() {
					fail("roundtrip-eq", si, "last_rapid_gossip_sync_timestamp lost".to_string());
				}
			},
		}

		// ---- witnesses ------------------------------------------------------------------------
		match step {
			Step::Msg(i) => {
				if let Facts::CU { scid, .. } = &u.msgs[*i].facts {
					if !u.msgs[*i].always_invalid && !ca_accepted.contains(scid) && real_ok == Some(false) {
						st.wit("update_before_announcement_rejected");
					}
				}
				if let Facts::NA { node, .. } = &u.msgs[*i].facts {
					if !u.msgs[*i].always_invalid && !prev_snap.nodes.contains_key(node) && real_ok == Some(false) {
						st.wit("node_announcement_before_channel_rejected");
					}
				}
				if let Facts::CU { hmax, scid, .. } = &u.msgs[*i].facts {
					if real_ok == Some(true) && prev_snap.channels.get(scid).and_then(|c| c.cap).map(|c| c * 1000 == *hmax).unwrap_or(false) {
						st.wit("htlc_max_equal_capacity_accepted");
					}
				}
				if let Facts::CA { scid, .. } = &u.msgs[*i].facts {
					if real_ok == Some(true) && !ca_accepted.insert(*scid) {
						if prev_snap.channels.contains_key(scid) {
							st.wit("channel_replaced_by_conflicting_announcement");
						} else {
							st.wit("channel_reannounced_after_removal");
						}
					}
					if real_ok == Some(false) && !u.msgs[*i].always_invalid && !prev_snap.channels.contains_key(scid) {
						st.wit("announcement_rejected_while_tombstoned");
					}
				}
			},
			Step::FailChan(_) => {
				if snap.channels.len() < prev_snap.channels.len() {
					st.wit("permanent_channel_failure_removed_channel");
				}
				if snap.nodes.len() < prev_snap.nodes.len() {
					st.wit("permanent_channel_failure_removed_node");
				}
			},
			Step::FailNode(_) => {
				if snap.nodes.len() < prev_snap.nodes.len() {
					st.wit("permanent_node_failure_removed_node");
				}
				if snap.channels.len() < prev_snap.channels.len() {
					st.wit("permanent_node_failure_removed_channel");
				}
			},
			Step::Prune(_) => {
				let dirs = |s: &Snap| s.channels.values().map(|c| c.dirs.iter().filter(|d| d.is_some()).count()).sum::<usize>();
				if snap.channels.len() == prev_snap.channels.len() && dirs(&snap) < dirs(&prev_snap) {
					st.wit("pruning_dropped_stale_direction_only");
				}
				if snap.channels.len() < prev_snap.channels.len() {
					st.wit("pruning_removed_channel");
				}
				for (scid, c) in &prev_snap.channels {
					// channels announced by a snapshot carry an explicit (backdated) receipt time
					if c.cap.is_none() && c.ann.is_none() && c.dirs.iter().any(|d| d.is_none()) {
						if snap.channels.contains_key(scid) {
							st.wit("pruning_kept_snapshot_channel_lacking_a_direction");
						} else {
							st.wit("pruning_removed_snapshot_channel_lacking_a_direction");
						}
					}
				}
				if snap.nodes.len() < prev_snap.nodes.len() {
					st.wit("pruning_removed_node");
				}
				if !changed && !prev_snap.channels.is_empty() {
					st.wit("pruning_kept_everything");
				}
				if !snap.channels.is_empty() && snap.channels.len() < prev_snap.channels.len() {
					st.wit("pruning_removed_some_kept_some");
				}
			},
			Step::Rgs(..) => {
				if real_ok == Some(true) {
					st.wit("rgs_applied");
				} else {
					st.wit("rgs_rejected");
				}
				if snap.channels.len() > prev_snap.channels.len() {
					st.wit("rgs_added_channel");
				}
				for (scid, c) in &snap.channels {
					if let Some(pc) = prev_snap.channels.get(scid) {
						for d in 0..2 {
							match (&pc.dirs[d], &c.dirs[d]) {
								(Some(a), Some(b)) if a != b => st.wit("rgs_replaced_direction"),
								(Some(a), Some(b)) if a == b && real_ok == Some(true) => st.wit("rgs_left_direction_alone"),
								_ => {},
							}
						}
					}
				}
			},
		}
		if canon.node_list_unsorted {
			st.wit("info_node_channel_list_in_non_ascending_order");
		}
		st.states.insert(mc_common::digest128(&canon.n1));
		prev_snap = snap;
		prev_canon = canon;
	}
	let final_snap = prev_snap;
	Outcome { fails, final_n1: prev_canon.n1, final_n0s: prev_canon.n0s, final_snap, final_graph: if keep_graph { Some(g) } else { None }, trace }
}
