//! The real side: graph construction, observation through the public API, canonical forms of the
//! `NetworkGraph` encoding, and serialisation of rapid-gossip-sync snapshots.

use crate::model::{ChanSnap, DirSnap, NodeAnnSnap, NodeSnap, RgsSnapshot, Snap};
use crate::uni::{Chain, Universe};

use bitcoin::network::Network;
use lightning::routing::gossip::{ChannelUpdateInfo, NetworkGraph, P2PGossipSync};
use lightning::util::logger::{Logger, Record};
use lightning::util::ser::{ReadableArgs, Writeable};
use std::sync::Arc;

pub struct NullLogger;
impl Logger for NullLogger {
	fn log(&self, _record: Record) {}
}

pub type Graph = NetworkGraph<Arc<NullLogger>>;
pub type Sync = P2PGossipSync<Arc<Graph>, Arc<Chain>, Arc<NullLogger>>;

pub fn new_graph(u: &Universe) -> (Arc<Graph>, Sync) {
	let logger = Arc::new(NullLogger);
	// Testnet: no 63 000-entry pre-allocation
	let g = Arc::new(NetworkGraph::new(Network::Testnet, Arc::clone(&logger)));
	let s = P2PGossipSync::new(Arc::clone(&g), Some(Arc::clone(&u.chain)), logger);
	(g, s)
}

pub fn read_graph(bytes: &[u8]) -> Result<Graph, String> {
	let mut cur = lightning::io::Cursor::new(bytes);
	let g = <Graph as ReadableArgs<Arc<NullLogger>>>::read(&mut cur, Arc::new(NullLogger)).map_err(|e| format!("{:?}", e))?;
	if cur.position() as usize != bytes.len() {
		return Err(format!("{} trailing bytes", bytes.len() - cur.position() as usize));
	}
	Ok(g)
}

fn dir_snap(d: &Option<ChannelUpdateInfo>) -> Option<DirSnap> {
	d.as_ref().map(|d| DirSnap {
		enabled: d.enabled,
		ts: d.last_update,
		cltv: d.cltv_expiry_delta,
		hmin: d.htlc_minimum_msat,
		hmax: d.htlc_maximum_msat,
		fee_base: d.fees.base_msat,
		fee_prop: d.fees.proportional_millionths,
		msg: d.last_update_message.as_ref().map(|m| m.encode()),
	})
}

/// Everything `read_only()` exposes, in the model's vocabulary. Also returns whether every node's
/// channel list was already sorted (it is a set; the list order is reported, not judged) and the
/// structural consistency errors found (node<->channel cross references).
pub fn observe(g: &Graph) -> (Snap, Vec<String>) {
	let ro = g.read_only();
	let mut s = Snap::default();
	let mut errs = Vec::new();
	for (scid, c) in ro.channels().unordered_iter() {
		s.channels.insert(
			*scid,
			ChanSnap {
				features_le: c.features.le_flags().to_vec(),
				n1: *c.node_one.as_array(),
				n2: *c.node_two.as_array(),
				cap: c.capacity_sats,
				dirs: [dir_snap(&c.one_to_two), dir_snap(&c.two_to_one)],
				ann: c.announcement_message.as_ref().map(|m| m.encode()),
			},
		);
		for n in [&c.node_one, &c.node_two] {
			match ro.node(n) {
				Some(ni) if ni.channels.iter().filter(|x| **x == *scid).count() == 1 => {},
				Some(_) => errs.push(format!("node of channel {} does not list it exactly once", scid)),
				None => errs.push(format!("channel {} points to a node that is not in the graph", scid)),
			}
		}
	}
	for (id, n) in ro.nodes().unordered_iter() {
		let mut chans = n.channels.clone();
		chans.sort();
		for c in &chans {
			match ro.channel(*c) {
				Some(ci) if ci.node_one == *id || ci.node_two == *id => {},
				Some(_) => errs.push(format!("node lists channel {} it is not an endpoint of", c)),
				None => errs.push(format!("node lists channel {} that is not in the graph", c)),
			}
		}
		if chans.is_empty() {
			errs.push("node without channels is in the graph".to_string());
		}
		let ann = n.announcement_info.as_ref().map(|a| {
			let mut addrs = Vec::new();
			for x in a.addresses() {
				addrs.extend_from_slice(&x.encode());
			}
			NodeAnnSnap {
				features_le: a.features().le_flags().to_vec(),
				ts: a.last_update(),
				rgb: a.rgb(),
				alias: a.alias().0,
				addrs,
				msg: a.announcement_message().map(|m| m.encode()),
			}
		});
		s.nodes.insert(*id.as_array(), NodeSnap { channels: chans, ann });
	}
	s.rgs_ts = g.get_last_rapid_gossip_sync_timestamp();
	(s, errs)
}

// ---------------------------------------------------------------------------------------------
// Canonical forms of the NetworkGraph encoding.

fn big(b: &[u8], p: &mut usize) -> Result<u64, String> {
	let e = || "short read".to_string();
	let f = *b.get(*p).ok_or_else(e)?;
	*p += 1;
	let n = match f {
		0xfd => 2,
		0xfe => 4,
		0xff => 8,
		_ => return Ok(f as u64),
	};
	let s = b.get(*p..*p + n).ok_or_else(e)?;
	*p += n;
	let mut v = 0u64;
	for x in s {
		v = (v << 8) | *x as u64;
	}
	Ok(v)
}

pub fn put_big(v: &mut Vec<u8>, x: u64) {
	if x < 0xfd {
		v.push(x as u8);
	} else if x <= 0xffff {
		v.push(0xfd);
		v.extend_from_slice(&(x as u16).to_be_bytes());
	} else if x <= 0xffff_ffff {
		v.push(0xfe);
		v.extend_from_slice(&(x as u32).to_be_bytes());
	} else {
		v.push(0xff);
		v.extend_from_slice(&x.to_be_bytes());
	}
}

type Tlvs = Vec<(u64, Vec<u8>)>;

fn tlv_stream(b: &[u8], p: &mut usize) -> Result<Tlvs, String> {
	let len = big(b, p)? as usize;
	let end = *p + len;
	if end > b.len() {
		return Err("tlv stream overruns".into());
	}
	let mut out = Vec::new();
	while *p < end {
		let t = big(b, p)?;
		let l = big(b, p)? as usize;
		let v = b.get(*p..*p + l).ok_or("tlv value overruns")?.to_vec();
		*p += l;
		out.push((t, v));
	}
	if *p != end {
		return Err("tlv stream misaligned".into());
	}
	Ok(out)
}

fn put_tlvs(v: &mut Vec<u8>, t: &Tlvs) {
	let mut body = Vec::new();
	for (ty, val) in t {
		put_big(&mut body, *ty);
		put_big(&mut body, val.len() as u64);
		body.extend_from_slice(val);
	}
	put_big(v, body.len() as u64);
	v.extend_from_slice(&body);
}

pub struct Canon {
	/// map entries sorted by key, nothing else touched
	pub n0: Vec<u8>,
	/// n0 with `announcement_received_time` (wall clock, ChannelInfo TLV 1) removed and every
	/// node's channel-id list (NodeInfo TLV 4, a set kept as a list) sorted
	pub n1: Vec<u8>,
	/// n0 with only `announcement_received_time` removed (node channel lists in stored order)
	pub n0s: Vec<u8>,
	/// true if some node's channel list was not in ascending order in the raw encoding
	pub node_list_unsorted: bool,
}

/// Parses the documented layout of `NetworkGraph::write` and rebuilds it canonically.
pub fn canon(bytes: &[u8]) -> Result<Canon, String> {
	let mut p = 0usize;
	let head = bytes.get(0..34).ok_or("short header")?.to_vec();
	p += 34;
	let rd_u64 = |p: &mut usize| -> Result<u64, String> {
		let s = bytes.get(*p..*p + 8).ok_or("short u64")?;
		*p += 8;
		Ok(u64::from_be_bytes(s.try_into().unwrap()))
	};
	let nch = rd_u64(&mut p)?;
	let mut chans: Vec<(u64, Tlvs)> = Vec::new();
	for _ in 0..nch {
		let scid = rd_u64(&mut p)?;
		chans.push((scid, tlv_stream(bytes, &mut p)?));
	}
	let nn = rd_u64(&mut p)?;
	let mut nodes: Vec<(Vec<u8>, Tlvs)> = Vec::new();
	for _ in 0..nn {
		let id = bytes.get(p..p + 33).ok_or("short node id")?.to_vec();
		p += 33;
		nodes.push((id, tlv_stream(bytes, &mut p)?));
	}
	let trailer = tlv_stream(bytes, &mut p)?;
	if p != bytes.len() {
		return Err("trailing bytes".into());
	}
	chans.sort_by_key(|c| c.0);
	nodes.sort_by(|a, b| a.0.cmp(&b.0));
	let mut unsorted = false;
	let build = |strip: bool, sort_lists: bool, unsorted: &mut bool| {
		let mut v = head.clone();
		v.extend_from_slice(&nch.to_be_bytes());
		for (scid, t) in &chans {
			v.extend_from_slice(&scid.to_be_bytes());
			let t2: Tlvs = t.iter().filter(|(ty, _)| !(strip && *ty == 1)).cloned().collect();
			put_tlvs(&mut v, &t2);
		}
		v.extend_from_slice(&nn.to_be_bytes());
		for (id, t) in &nodes {
			v.extend_from_slice(id);
			let mut t2 = t.clone();
			if sort_lists {
				for (ty, val) in t2.iter_mut() {
					if *ty == 4 && val.len() % 8 == 0 {
						let mut ids: Vec<[u8; 8]> = val.chunks(8).map(|c| c.try_into().unwrap()).collect();
						let before = ids.clone();
						ids.sort();
						if ids != before {
							*unsorted = true;
						}
						*val = ids.concat();
					}
				}
			}
			put_tlvs(&mut v, &t2);
		}
		put_tlvs(&mut v, &trailer);
		v
	};
	let n0 = build(false, false, &mut unsorted);
	let n0s = build(true, false, &mut unsorted);
	let n1 = build(true, true, &mut unsorted);
	Ok(Canon { n0, n1, n0s, node_list_unsorted: unsorted })
}

// ---------------------------------------------------------------------------------------------
// Rapid gossip sync, wire format version 1.

pub fn rgs_bytes(u: &Universe, s: &RgsSnapshot) -> Vec<u8> {
	let mut v = vec![76, 68, 75, 1];
	v.extend_from_slice(u.chain_hash.as_bytes());
	v.extend_from_slice(&s.latest_seen.to_be_bytes());
	v.extend_from_slice(&(s.node_ids.len() as u32).to_be_bytes());
	for n in &s.node_ids {
		v.extend_from_slice(n);
	}
	v.extend_from_slice(&(s.anns.len() as u32).to_be_bytes());
	let mut prev = 0u64;
	for (scid, i1, i2, feat) in &s.anns {
		v.extend_from_slice(&(feat.len() as u16).to_be_bytes());
		v.extend(feat.iter().rev());
		assert!(*scid >= prev);
		put_big(&mut v, scid - prev);
		prev = *scid;
		put_big(&mut v, *i1 as u64);
		put_big(&mut v, *i2 as u64);
	}
	v.extend_from_slice(&(s.updates.len() as u32).to_be_bytes());
	if s.updates.is_empty() {
		return v;
	}
	v.extend_from_slice(&s.defaults.0.to_be_bytes());
	v.extend_from_slice(&s.defaults.1.to_be_bytes());
	v.extend_from_slice(&s.defaults.2.to_be_bytes());
	v.extend_from_slice(&s.defaults.3.to_be_bytes());
	v.extend_from_slice(&s.defaults.4.to_be_bytes());
	let mut prev = 0u64;
	for up in &s.updates {
		assert!(up.scid >= prev);
		put_big(&mut v, up.scid - prev);
		prev = up.scid;
		let mut flags = up.dir | if up.disabled { 2 } else { 0 };
		if up.incremental {
			flags |= 0x80;
		}
		if up.cltv.is_some() {
			flags |= 0x40;
		}
		if up.hmin.is_some() {
			flags |= 0x20;
		}
		if up.fee_base.is_some() {
			flags |= 0x10;
		}
		if up.fee_prop.is_some() {
			flags |= 0x08;
		}
		if up.hmax.is_some() {
			flags |= 0x04;
		}
		v.push(flags);
		if let Some(x) = up.cltv {
			v.extend_from_slice(&x.to_be_bytes());
		}
		if let Some(x) = up.hmin {
			v.extend_from_slice(&x.to_be_bytes());
		}
		if let Some(x) = up.fee_base {
			v.extend_from_slice(&x.to_be_bytes());
		}
		if let Some(x) = up.fee_prop {
			v.extend_from_slice(&x.to_be_bytes());
		}
		if let Some(x) = up.hmax {
			v.extend_from_slice(&x.to_be_bytes());
		}
	}
	v
}
