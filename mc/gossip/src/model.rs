//! Reference model of the routing graph: "latest valid message per key" plus the documented removal
//! rules. It never calls LDK's verification or update code; signature validity comes from
//! `uni::Facts` (secp256k1 called directly on hand-encoded contents).

use crate::uni::{Facts, Msg, Pk33, Universe, MAX_VALUE_MSAT, STALE, TRACK, WALL_HI, WALL_LO};
use std::collections::{BTreeMap, BTreeSet};

#[derive(Clone, PartialEq, Eq, Debug)]
pub struct DirSnap {
	pub enabled: bool,
	pub ts: u32,
	pub cltv: u16,
	pub hmin: u64,
	pub hmax: u64,
	pub fee_base: u32,
	pub fee_prop: u32,
	/// encoded `last_update_message`
	pub msg: Option<Vec<u8>>,
}

#[derive(Clone, PartialEq, Eq, Debug)]
pub struct ChanSnap {
	pub features_le: Vec<u8>,
	pub n1: Pk33,
	pub n2: Pk33,
	pub cap: Option<u64>,
	pub dirs: [Option<DirSnap>; 2],
	/// encoded `announcement_message`
	pub ann: Option<Vec<u8>>,
}

#[derive(Clone, PartialEq, Eq, Debug)]
pub struct NodeAnnSnap {
	pub features_le: Vec<u8>,
	pub ts: u32,
	pub rgb: [u8; 3],
	pub alias: [u8; 32],
	pub addrs: Vec<u8>,
	pub msg: Option<Vec<u8>>,
}

#[derive(Clone, PartialEq, Eq, Debug)]
pub struct NodeSnap {
	/// sorted (the in-memory list order is not information)
	pub channels: Vec<u64>,
	pub ann: Option<NodeAnnSnap>,
}

/// Everything observable of a graph through `read_only()`.
#[derive(Clone, PartialEq, Eq, Debug, Default)]
pub struct Snap {
	pub channels: BTreeMap<u64, ChanSnap>,
	pub nodes: BTreeMap<Pk33, NodeSnap>,
	pub rgs_ts: Option<u32>,
}

impl Snap {
	pub fn describe(&self, u: &Universe) -> String {
		let mut s = String::new();
		for (scid, c) in &self.channels {
			let d = |x: &Option<DirSnap>| match x {
				Some(d) => format!("ts{}{}fee{}{}", d.ts as i64 - u.era.t0() as i64, if d.enabled { "" } else { "!" }, d.fee_base, if d.msg.is_some() { "m" } else { "" }),
				None => "-".into(),
			};
			s.push_str(&format!(
				"ch{}[{}-{} cap{:?} {} {}{}] ",
				scid >> 40,
				u.node_name(&c.n1),
				u.node_name(&c.n2),
				c.cap,
				d(&c.dirs[0]),
				d(&c.dirs[1]),
				if c.ann.is_some() { " ann" } else { "" }
			));
		}
		for (n, i) in &self.nodes {
			s.push_str(&format!(
				"{}{{{:?} {}}} ",
				u.node_name(n),
				i.channels.iter().map(|c| c >> 40).collect::<Vec<_>>(),
				match &i.ann {
					Some(a) => format!("ts{}{}", a.ts as i64 - u.era.t0() as i64, if a.msg.is_some() { "m" } else { "" }),
					None => "-".into(),
				}
			));
		}
		if let Some(t) = self.rgs_ts {
			s.push_str(&format!("rgs{}", t));
		}
		s
	}
}

#[derive(Clone, Copy, PartialEq, Eq, Debug)]
pub enum When {
	/// stamped by LDK from the wall clock
	Wall,
	At(u64),
}

/// A rapid-gossip-sync snapshot in abstract form (`real.rs` serialises it to the v1 wire format).
#[derive(Clone, Debug)]
pub struct RgsUpdate {
	pub scid: u64,
	pub dir: u8,
	pub disabled: bool,
	/// incremental: start from the stored direction, else from the snapshot defaults
	pub incremental: bool,
	pub cltv: Option<u16>,
	pub hmin: Option<u64>,
	pub fee_base: Option<u32>,
	pub fee_prop: Option<u32>,
	pub hmax: Option<u64>,
}

#[derive(Clone, Debug)]
pub struct RgsSnapshot {
	#[allow(dead_code)]
	pub name: String,
	pub latest_seen: u32,
	pub node_ids: Vec<Pk33>,
	/// (scid, index of node 1, index of node 2, features le), ascending scid
	pub anns: Vec<(u64, usize, usize, Vec<u8>)>,
	pub defaults: (u16, u64, u32, u32, u64), // cltv, hmin, fee_base, fee_prop, hmax
	/// ascending (scid, dir)
	pub updates: Vec<RgsUpdate>,
}

#[derive(Clone, Default)]
pub struct Model {
	pub snap: Snap,
	recv: BTreeMap<u64, When>,
	tomb_ch: BTreeMap<u64, When>,
	tomb_node: BTreeMap<Pk33, When>,
	/// set when a question was asked whose answer depends on the real clock reading
	pub clock_dependent: bool,
}

impl Model {
	pub fn new() -> Model {
		Model::default()
	}

	/// "was `w` earlier than `min`?"
	fn earlier(&mut self, w: When, min: u64) -> bool {
		match w {
			When::At(x) => x < min,
			When::Wall => {
				if min <= WALL_LO {
					false
				} else if min >= WALL_HI {
					true
				} else {
					self.clock_dependent = true;
					false
				}
			},
		}
	}

	fn keep_tracking(&mut self, w: When, now: u64) -> bool {
		match w {
			When::At(x) => now.saturating_sub(x) < TRACK,
			When::Wall => {
				if now <= WALL_LO + TRACK - 1 {
					// now - wall < TRACK for every wall > WALL_LO
					true
				} else if now >= WALL_HI + TRACK {
					false
				} else {
					self.clock_dependent = true;
					true
				}
			},
		}
	}

	fn unlink(&mut self, node: &Pk33, scid: u64) {
		let mut gone = false;
		if let Some(n) = self.snap.nodes.get_mut(node) {
			n.channels.retain(|c| *c != scid);
			gone = n.channels.is_empty();
		}
		if gone {
			self.snap.nodes.remove(node);
		}
	}

	/// Removes a channel and every node left without channels.
	fn remove_channel(&mut self, scid: u64) -> bool {
		match self.snap.channels.remove(&scid) {
			Some(c) => {
				self.recv.remove(&scid);
				self.unlink(&c.n1, scid);
				self.unlink(&c.n2, scid);
				true
			},
			None => false,
		}
	}

	fn insert_channel(&mut self, scid: u64, c: ChanSnap, recv: When) {
		for n in [c.n1, c.n2] {
			let e = self.snap.nodes.entry(n).or_insert(NodeSnap { channels: Vec::new(), ann: None });
			e.channels.push(scid);
			e.channels.sort();
		}
		self.snap.channels.insert(scid, c);
		self.recv.insert(scid, recv);
	}

	/// Delivers one gossip message; returns whether the reference accepts it.
	pub fn deliver(&mut self, u: &Universe, m: &Msg) -> bool {
		match &m.facts {
			Facts::CA { scid, n1, n2, b1, b2, chain_ok, sigs_ok, features_le, excess_len } => {
				if !(n1 < n2) || b1 == b2 || !*chain_ok {
					return false;
				}
				if let Some(c) = self.snap.channels.get(scid) {
					// already known and verified against the chain: a duplicate
					if c.cap.is_some() && c.n1 == *n1 && c.n2 == *n2 {
						return false;
					}
				}
				if sigs_ok.iter().any(|s| !*s) {
					return false;
				}
				if self.tomb_ch.contains_key(scid) || self.tomb_node.contains_key(n1) || self.tomb_node.contains_key(n2) {
					return false;
				}
				let utxo = match u.chain.utxos.get(scid) {
					Some(e) => e,
					None => return false,
				};
				let mut ks = [*b1, *b2];
				ks.sort();
				if ks != utxo.keys {
					return false;
				}
				// a differing entry for the same (chain-verified) outpoint replaces the old one
				self.remove_channel(*scid);
				self.insert_channel(
					*scid,
					ChanSnap {
						features_le: features_le.clone(),
						n1: *n1,
						n2: *n2,
						cap: Some(utxo.sats),
						dirs: [None, None],
						ann: if *excess_len <= 1024 { Some(m.full.clone()) } else { None },
					},
					When::Wall,
				);
				true
			},
			Facts::CU { scid, dir, ts, chain_ok, disabled, dont_forward, cltv, hmin, hmax, fee_base, fee_prop, verifies_under, excess_len } => {
				if *dont_forward || !*chain_ok {
					return false;
				}
				let signer_ok = match self.snap.channels.get(scid) {
					Some(c) => verifies_under.contains(if *dir == 0 { &c.n1 } else { &c.n2 }),
					None => return false,
				};
				let d = DirSnap {
					enabled: !*disabled,
					ts: *ts,
					cltv: *cltv,
					hmin: *hmin,
					hmax: *hmax,
					fee_base: *fee_base,
					fee_prop: *fee_prop,
					msg: if *excess_len <= 1024 { Some(m.full.clone()) } else { None },
				};
				signer_ok && self.apply_update(*scid, *dir, d)
			},
			Facts::NA { node, ts, sig_ok, features_le, rgb, alias, addrs, excess_len } => {
				if !*sig_ok {
					return false;
				}
				let n = match self.snap.nodes.get_mut(node) {
					Some(n) => n,
					None => return false,
				};
				if let Some(a) = &n.ann {
					if a.ts >= *ts {
						return false;
					}
				}
				n.ann = Some(NodeAnnSnap {
					features_le: features_le.clone(),
					ts: *ts,
					rgb: *rgb,
					alias: *alias,
					addrs: addrs.clone(),
					msg: if *excess_len <= 1024 { Some(m.full.clone()) } else { None },
				});
				true
			},
		}
	}

	/// The signature-independent part of the channel_update rule.
	fn apply_update(&mut self, scid: u64, dir: u8, d: DirSnap) -> bool {
		if d.hmax > MAX_VALUE_MSAT {
			return false;
		}
		let c = match self.snap.channels.get_mut(&scid) {
			Some(c) => c,
			None => return false,
		};
		if let Some(cap) = c.cap {
			if cap > MAX_VALUE_MSAT / 1000 || d.hmax > cap * 1000 {
				return false;
			}
		}
		if let Some(old) = &c.dirs[dir as usize] {
			if old.ts >= d.ts {
				return false;
			}
		}
		c.dirs[dir as usize] = Some(d);
		true
	}

	pub fn channel_failed_permanent(&mut self, scid: u64) {
		if self.remove_channel(scid) {
			self.tomb_ch.insert(scid, When::Wall);
		}
	}

	pub fn node_failed_permanent(&mut self, node: &Pk33) {
		let scids = match self.snap.nodes.get(node) {
			Some(n) => n.channels.clone(),
			None => return,
		};
		for s in scids {
			if self.remove_channel(s) {
				self.tomb_ch.insert(s, When::Wall);
			}
		}
		self.snap.nodes.remove(node);
		self.tomb_node.insert(*node, When::Wall);
	}

	/// `remove_stale_channels_and_tracking_with_time`: directions whose update is older than
	/// `now - 14 d` are dropped; a channel lacking a direction whose announcement was received
	/// before `now - 14 d` is removed (and remembered), with the nodes it leaves channel-less;
	/// removal records older than 7 d are forgotten.
	pub fn prune(&mut self, now: u64) {
		if now > u32::MAX as u64 || now < STALE {
			return;
		}
		let min = now - STALE;
		let scids: Vec<u64> = self.snap.channels.keys().cloned().collect();
		for s in scids {
			let missing = {
				let c = self.snap.channels.get_mut(&s).unwrap();
				for d in c.dirs.iter_mut() {
					if d.as_ref().map(|d| (d.ts as u64) < min).unwrap_or(false) {
						*d = None;
					}
				}
				c.dirs.iter().any(|d| d.is_none())
			};
			if missing {
				let w = self.recv[&s];
				if self.earlier(w, min) {
					self.remove_channel(s);
					self.tomb_ch.insert(s, When::At(now));
				}
			}
		}
		let t: Vec<(u64, When)> = self.tomb_ch.iter().map(|(k, v)| (*k, *v)).collect();
		for (k, w) in t {
			if !self.keep_tracking(w, now) {
				self.tomb_ch.remove(&k);
			}
		}
		let t: Vec<(Pk33, When)> = self.tomb_node.iter().map(|(k, v)| (*k, *v)).collect();
		for (k, w) in t {
			if !self.keep_tracking(w, now) {
				self.tomb_node.remove(&k);
			}
		}
	}

	/// Applies a rapid-gossip-sync snapshot; returns whether the reference expects `Ok`.
	pub fn rgs(&mut self, s: &RgsSnapshot, now: Option<u64>) -> bool {
		if let Some(t) = now {
			if (s.latest_seen as u64) < t.saturating_sub(STALE) {
				return false;
			}
		}
		let backdated = s.latest_seen.saturating_sub((7 * crate::uni::DAY) as u32);
		for (scid, i1, i2, feat) in &s.anns {
			let (n1, n2) = (s.node_ids[*i1], s.node_ids[*i2]);
			if !(n1 < n2) {
				return false;
			}
			if self.snap.channels.contains_key(scid) {
				continue; // duplicate, ignored
			}
			self.insert_channel(
				*scid,
				ChanSnap { features_le: feat.clone(), n1, n2, cap: None, dirs: [None, None], ann: None },
				When::At(backdated as u64),
			);
		}
		for up in &s.updates {
			let mut d = DirSnap {
				enabled: !up.disabled,
				ts: backdated,
				cltv: s.defaults.0,
				hmin: s.defaults.1,
				fee_base: s.defaults.2,
				fee_prop: s.defaults.3,
				hmax: s.defaults.4,
				msg: None,
			};
			if up.incremental {
				match self.snap.channels.get(&up.scid).and_then(|c| c.dirs[up.dir as usize].as_ref()) {
					Some(old) => {
						d.cltv = old.cltv;
						d.hmin = old.hmin;
						d.hmax = old.hmax;
						d.fee_base = old.fee_base;
						d.fee_prop = old.fee_prop;
					},
					None => continue,
				}
			}
			if let Some(x) = up.cltv {
				d.cltv = x;
			}
			if let Some(x) = up.hmin {
				d.hmin = x;
			}
			if let Some(x) = up.fee_base {
				d.fee_base = x;
			}
			if let Some(x) = up.fee_prop {
				d.fee_prop = x;
			}
			if let Some(x) = up.hmax {
				d.hmax = x;
			}
			self.apply_update(up.scid, up.dir, d);
		}
		self.snap.rgs_ts = Some(s.latest_seen);
		if let Some(t) = now {
			self.prune(t);
		}
		true
	}
}

/// The declarative reference for a run without removals: latest valid message per key, computed
/// from the *set* of delivered messages plus, for equal timestamps, the delivery order (the first
/// accepted wins). Only defined when every update / node announcement comes after an accepted
/// announcement it refers to.
pub fn declarative(u: &Universe, order: &[usize]) -> Snap {
	let mut s = Snap::default();
	// channels: the unique fully valid announcement per scid
	for &i in order {
		if let Facts::CA { scid, n1, n2, b1, b2, chain_ok, sigs_ok, features_le, excess_len } = &u.msgs[i].facts {
			let mut ks = [*b1, *b2];
			ks.sort();
			let ok = n1 < n2 && b1 != b2 && *chain_ok && sigs_ok.iter().all(|x| *x) && u.chain.utxos.get(scid).map(|e| e.keys == ks).unwrap_or(false);
			if ok && !s.channels.contains_key(scid) {
				let cap = u.chain.utxos[scid].sats;
				s.channels.insert(*scid, ChanSnap { features_le: features_le.clone(), n1: *n1, n2: *n2, cap: Some(cap), dirs: [None, None], ann: if *excess_len <= 1024 { Some(u.msgs[i].full.clone()) } else { None } });
				for n in [n1, n2] {
					let e = s.nodes.entry(*n).or_insert(NodeSnap { channels: vec![], ann: None });
					e.channels.push(*scid);
					e.channels.sort();
				}
			}
		}
	}
	for &i in order {
		match &u.msgs[i].facts {
			Facts::CU { scid, dir, ts, chain_ok, disabled, dont_forward, cltv, hmin, hmax, fee_base, fee_prop, verifies_under, excess_len } => {
				if let Some(c) = s.channels.get_mut(scid) {
					let key = if *dir == 0 { c.n1 } else { c.n2 };
					let valid = *chain_ok && !*dont_forward && *hmax <= MAX_VALUE_MSAT && *hmax <= c.cap.unwrap() * 1000 && verifies_under.contains(&key);
					let newer = c.dirs[*dir as usize].as_ref().map(|d| d.ts < *ts).unwrap_or(true);
					if valid && newer {
						c.dirs[*dir as usize] = Some(DirSnap { enabled: !*disabled, ts: *ts, cltv: *cltv, hmin: *hmin, hmax: *hmax, fee_base: *fee_base, fee_prop: *fee_prop, msg: if *excess_len <= 1024 { Some(u.msgs[i].full.clone()) } else { None } });
					}
				}
			},
			Facts::NA { node, ts, sig_ok, features_le, rgb, alias, addrs, excess_len } => {
				if let Some(n) = s.nodes.get_mut(node) {
					let newer = n.ann.as_ref().map(|a| a.ts < *ts).unwrap_or(true);
					if *sig_ok && newer {
						n.ann = Some(NodeAnnSnap { features_le: features_le.clone(), ts: *ts, rgb: *rgb, alias: *alias, addrs: addrs.clone(), msg: if *excess_len <= 1024 { Some(u.msgs[i].full.clone()) } else { None } });
					}
				}
			},
			_ => {},
		}
	}
	s
}

/// Whether the pool contains a channel announcement that conflicts with another one.
pub fn has_conflict(u: &Universe, pool: &[usize]) -> bool {
	pool.iter().any(|i| u.msgs[*i].class.starts_with("conflict:"))
}

/// Whether the final graph could legitimately depend on the order through equal timestamps.
pub fn has_timestamp_ties(u: &Universe, pool: &[usize]) -> bool {
	let mut seen: BTreeSet<(u8, Vec<u8>, u32)> = BTreeSet::new();
	for &i in pool {
		let k = match &u.msgs[i].facts {
			Facts::CU { scid, dir, ts, .. } => {
				let mut v = scid.to_be_bytes().to_vec();
				v.push(*dir);
				(0u8, v, *ts)
			},
			Facts::NA { node, ts, .. } => (1u8, node.to_vec(), *ts),
			_ => continue,
		};
		if u.msgs[i].always_invalid {
			continue;
		}
		if !seen.insert(k) {
			return true;
		}
	}
	false
}
