//! What is enumerated: pools of messages, every admissible delivery order of a pool, at most one
//! duplication, and environment operations inserted at every position.

use crate::model::{RgsSnapshot, RgsUpdate};
use crate::run::Step;
use crate::uni::{Era, Facts, Universe, DAY, STALE};
use mc_common::cli::Tier;
use std::collections::BTreeSet;

#[derive(Clone)]
pub struct Pool {
	pub family: &'static str,
	pub era: Era,
	pub msgs: Vec<usize>,
	/// keep each announcement before the updates / node announcements referring to it
	pub constrained: bool,
	/// additionally every order with one message delivered twice (second copy at any later position)
	pub dup: bool,
	pub ops: Vec<Step>,
	/// number of operations inserted (0, 1 or 2), each at every position
	pub max_ops: usize,
}

impl Pool {
	pub fn name(&self, u: &Universe) -> String {
		format!(
			"{}:{}:[{}]{}{}{}",
			self.family,
			self.era.name(),
			self.msgs.iter().map(|i| u.msgs[*i].label.clone()).collect::<Vec<_>>().join(","),
			if self.constrained { "" } else { ":unconstrained" },
			if self.dup { ":dup" } else { "" },
			if self.max_ops > 0 { format!(":ops{}x{}", self.max_ops, self.ops.len()) } else { String::new() }
		)
	}
}

/// For each pool member the pool positions of which at least one must come earlier (empty: free).
fn needs(u: &Universe, pool: &Pool) -> Vec<Vec<usize>> {
	let valid_ca = |i: usize| u.msgs[i].class == "valid:ca";
	pool.msgs
		.iter()
		.map(|&i| {
			if !pool.constrained || u.msgs[i].always_invalid {
				return vec![];
			}
			match &u.msgs[i].facts {
				Facts::CA { .. } => vec![],
				Facts::CU { scid, .. } => pool
					.msgs
					.iter()
					.enumerate()
					.filter(|(_, &j)| valid_ca(j) && matches!(&u.msgs[j].facts, Facts::CA{scid: s, ..} if s == scid))
					.map(|(p, _)| p)
					.collect(),
				Facts::NA { node, .. } => pool
					.msgs
					.iter()
					.enumerate()
					.filter(|(_, &j)| valid_ca(j) && matches!(&u.msgs[j].facts, Facts::CA{n1, n2, ..} if n1 == node || n2 == node))
					.map(|(p, _)| p)
					.collect(),
			}
		})
		.collect()
}

/// All admissible orders of the pool (as universe indices), in lexicographic order of pool position.
pub fn extensions(u: &Universe, pool: &Pool) -> Vec<Vec<usize>> {
	let need = needs(u, pool);
	let n = pool.msgs.len();
	let mut out = Vec::new();
	let mut cur: Vec<usize> = Vec::new();
	let mut used = vec![false; n];
	fn rec(n: usize, need: &[Vec<usize>], used: &mut Vec<bool>, cur: &mut Vec<usize>, out: &mut Vec<Vec<usize>>) {
		if cur.len() == n {
			out.push(cur.clone());
			return;
		}
		for p in 0..n {
			if used[p] {
				continue;
			}
			if !need[p].is_empty() && !need[p].iter().any(|q| used[*q]) {
				continue;
			}
			used[p] = true;
			cur.push(p);
			rec(n, need, used, cur, out);
			cur.pop();
			used[p] = false;
		}
	}
	rec(n, &need, &mut used, &mut cur, &mut out);
	out.into_iter().map(|o| o.into_iter().map(|p| pool.msgs[p]).collect()).collect()
}

/// The message sequences derived from one order: the order itself, then (if `dup`) every sequence
/// with one message delivered a second time at a later position.
pub fn dup_variants(order: &[usize], dup: bool) -> Vec<Vec<usize>> {
	let mut v = vec![order.to_vec()];
	if dup {
		for i in 0..order.len() {
			for j in i + 1..=order.len() {
				let mut o = order.to_vec();
				o.insert(j, order[i]);
				v.push(o);
			}
		}
	}
	v
}

/// Calls `f` with every step sequence obtained by inserting up to `max_ops` operations.
pub fn with_ops(seq: &[usize], ops: &[Step], max_ops: usize, include_plain: bool, f: &mut dyn FnMut(&[Step])) {
	let base: Vec<Step> = seq.iter().map(|i| Step::Msg(*i)).collect();
	if include_plain {
		f(&base);
	}
	if max_ops == 0 {
		return;
	}
	let n = base.len();
	for p in 0..=n {
		for op in ops {
			let mut s = base.clone();
			s.insert(p, op.clone());
			f(&s);
			if max_ops >= 2 {
				// second operation at any position after the first
				for p2 in p + 1..=n + 1 {
					for op2 in ops {
						let mut s2 = s.clone();
						s2.insert(p2, op2.clone());
						f(&s2);
					}
				}
			}
		}
	}
}

/// Environment operations relevant to a pool.
pub fn ops_for(u: &Universe, msgs: &[usize], extra: bool) -> Vec<Step> {
	let mut scids = BTreeSet::new();
	let mut nodes = BTreeSet::new();
	let mut ts = BTreeSet::new();
	for &i in msgs {
		match &u.msgs[i].facts {
			Facts::CA { scid, n1, n2, .. } if u.msgs[i].class == "valid:ca" || u.msgs[i].class.starts_with("conflict:") => {
				scids.insert(*scid);
				for n in [n1, n2] {
					nodes.insert(u.nodes.iter().position(|x| x == n).unwrap());
				}
			},
			Facts::CU { ts: t, .. } if !u.msgs[i].always_invalid => {
				ts.insert(*t as u64);
			},
			_ => {},
		}
	}
	let mut v = Vec::new();
	for s in scids {
		v.push(Step::FailChan(s));
	}
	for n in nodes {
		v.push(Step::FailNode(n));
	}
	// around the staleness boundary of every update timestamp in the pool: an update with
	// timestamp X is stale at time t iff X < t - 14 d
	let mut times = BTreeSet::new();
	for t in &ts {
		times.insert(t + STALE); // X is not yet stale
		times.insert(t + STALE + 1); // X has just become stale
	}
	if ts.is_empty() {
		times.insert(u.era.t0() as u64 + STALE);
	}
	if extra {
		times.insert(STALE - 1); // documented early return
		times.insert(STALE);
		times.insert(u32::MAX as u64 + 1); // documented early return
		times.insert(u.era.t0() as u64 + STALE + 8 * DAY); // everything stale, tombstones of earlier prunes expire
		v.push(Step::FailChan((900u64 << 40) | (5 << 16))); // unknown channel
		v.push(Step::FailNode(3)); // unknown node D
	}
	for t in times {
		v.push(Step::Prune(t));
	}
	v
}

pub fn rgs_snapshots(u: &Universe) -> Vec<RgsSnapshot> {
	let t0 = u.era.t0();
	let w = (7 * DAY) as u32;
	let s9 = (900u64 << 40) | (5 << 16);
	let ids = vec![u.nodes[0], u.nodes[1], u.nodes[2]];
	let mk = |name: &str, dt: u32, hmax_s1: u64, hmax_s3: u64| RgsSnapshot {
		name: name.to_string(),
		latest_seen: t0 + dt + w,
		node_ids: ids.clone(),
		anns: vec![(u.s1, 0, 1, vec![]), (u.s3, 0, 2, vec![0x02])],
		defaults: (144, 1, 1000, 100, 800_000_000),
		updates: vec![
			RgsUpdate { scid: u.s1, dir: 0, disabled: false, incremental: false, cltv: None, hmin: None, fee_base: Some(70), fee_prop: None, hmax: Some(hmax_s1) },
			RgsUpdate { scid: u.s1, dir: 1, disabled: true, incremental: true, cltv: Some(99), hmin: None, fee_base: Some(71), fee_prop: None, hmax: None },
			RgsUpdate { scid: u.s3, dir: 0, disabled: false, incremental: false, cltv: None, hmin: Some(5), fee_base: None, fee_prop: Some(7), hmax: Some(hmax_s3) },
			RgsUpdate { scid: u.s3, dir: 1, disabled: false, incremental: true, cltv: None, hmin: None, fee_base: Some(72), fee_prop: None, hmax: None },
			RgsUpdate { scid: s9, dir: 0, disabled: false, incremental: false, cltv: None, hmin: None, fee_base: None, fee_prop: None, hmax: None },
		],
	};
	vec![
		mk("equal_to_u1a2", 20, 900_000_000, 100_000_000),
		mk("newer_than_u1a2", 21, 900_000_000, 100_000_000),
		mk("between_u1a1_u1b1", 11, 900_000_000, 100_000_000),
		// above channel 1's capacity (known from the chain) and above channel 3's (unknown to a v1 snapshot)
		mk("htlc_max_above_capacity", 30, u.cap1 * 1000 + 1, 3_000_000_001_000),
	]
}

fn l(u: &Universe, labels: &[&str]) -> Vec<usize> {
	labels.iter().map(|x| u.idx(x)).collect()
}

/// Closed subsets (every update's / node announcement's channel announcement is in the subset) of
/// exactly `n` of the given valid messages.
fn closed_subsets(u: &Universe, base: &[usize], n: usize) -> Vec<Vec<usize>> {
	let mut out = Vec::new();
	let m = base.len();
	for mask in 0u32..(1 << m) {
		if mask.count_ones() as usize != n {
			continue;
		}
		let sel: Vec<usize> = (0..m).filter(|b| mask & (1 << b) != 0).map(|b| base[b]).collect();
		let has_ca = |f: &dyn Fn(&Facts) -> bool| sel.iter().any(|&j| u.msgs[j].class == "valid:ca" && f(&u.msgs[j].facts));
		let closed = sel.iter().all(|&i| match &u.msgs[i].facts {
			Facts::CA { .. } => true,
			Facts::CU { scid, .. } => has_ca(&|f| matches!(f, Facts::CA{scid: s, ..} if s == scid)),
			Facts::NA { node, .. } => has_ca(&|f| matches!(f, Facts::CA{n1, n2, ..} if n1 == node || n2 == node)),
		});
		if closed {
			out.push(sel);
		}
	}
	out
}

pub struct Plan {
	pub pools: Vec<Pool>,
	pub bounds: String,
}

/// The pools of a tier. `us` = the universes of era Past and Future (same labels, same indices,
/// different timestamps).
pub fn plan(us: &[Universe; 2], tier: Tier) -> Plan {
	let u = &us[0];
	let ops_for = |_: &Universe, m: &[usize], extra: bool, e: Era| ops_for(&us[if e == Era::Past { 0 } else { 1 }], m, extra);
	let th = tier.is_thorough();
	let mut pools: Vec<Pool> = Vec::new();
	let eras = [Era::Past, Era::Future];
	let invalid: Vec<usize> = (0..u.msgs.len()).filter(|i| u.msgs[*i].always_invalid).collect();

	// F1: systematic closed subsets of the valid messages
	let vs = l(u, &["ca1", "ca2", "u1a1", "u1a2", "u1b1", "u2b1", "u2c1", "na_a1", "na_a2", "na_b1", "na_c1"]);
	let (max_dup, max_op1, max_prod) = if th { (8, 6, 5) } else { (5, 4, 3) };
	for n in 1..=max_dup {
		for s in closed_subsets(u, &vs, n) {
			pools.push(Pool { family: "valid-subsets-dup", era: Era::Past, msgs: s.clone(), constrained: true, dup: true, ops: vec![], max_ops: 0 });
			if n <= max_op1 {
				for e in eras {
					pools.push(Pool { family: "valid-subsets-op", era: e, msgs: s.clone(), constrained: true, dup: false, ops: ops_for(u, &s, false, e), max_ops: 1 });
				}
			}
			if n <= max_prod {
				for e in eras {
					pools.push(Pool { family: "valid-subsets-dup-x-op", era: e, msgs: s.clone(), constrained: true, dup: true, ops: ops_for(u, &s, false, e), max_ops: 1 });
				}
			}
		}
	}

	// F2: each invalid class inside an otherwise valid context, free to be delivered anywhere
	for &x in &invalid {
		let on_ch2 = matches!(&u.msgs[x].facts, Facts::CU{scid, ..} if *scid == u.s2);
		let ctx: Vec<usize> = if on_ch2 { l(u, &["ca2", "u2c1", "u2b1", "na_c1"]) } else { l(u, &["ca1", "u1a1", "u1b1", "na_a1"]) };
		let mut m = ctx.clone();
		m.push(x);
		pools.push(Pool { family: "one-invalid-dup", era: Era::Past, msgs: m.clone(), constrained: true, dup: true, ops: vec![], max_ops: 0 });
		let mut small = vec![ctx[0], ctx[1], ctx[3], x];
		for e in eras {
			pools.push(Pool { family: "one-invalid-op", era: e, msgs: small.clone(), constrained: true, dup: false, ops: ops_for(u, &small, false, e), max_ops: 1 });
		}
		if th {
			small.push(ctx[2]);
			for e in eras {
				pools.push(Pool { family: "one-invalid-dup-x-op", era: e, msgs: small.clone(), constrained: true, dup: true, ops: ops_for(u, &small, false, e), max_ops: 1 });
			}
		}
	}
	if th {
		// pairs of invalid messages
		for a in 0..invalid.len() {
			for b in a + 1..invalid.len() {
				let mut m = l(u, &["ca1", "u1a1", "na_a1"]);
				m.push(invalid[a]);
				m.push(invalid[b]);
				pools.push(Pool { family: "two-invalid-dup", era: Era::Past, msgs: m, constrained: true, dup: true, ops: vec![], max_ops: 0 });
			}
		}
		// all invalid channel announcements / all invalid updates at once
		let cas: Vec<usize> = invalid.iter().cloned().filter(|i| matches!(u.msgs[*i].facts, Facts::CA { .. })).take(6).collect();
		let mut m = l(u, &["ca1", "u1a1"]);
		m.extend(cas);
		pools.push(Pool { family: "many-invalid", era: Era::Past, msgs: m, constrained: true, dup: false, ops: vec![], max_ops: 0 });
		let cus: Vec<usize> = invalid.iter().cloned().filter(|i| matches!(u.msgs[*i].facts, Facts::CU { .. })).take(6).collect();
		let mut m = l(u, &["ca1", "u1a1"]);
		m.extend(cus);
		pools.push(Pool { family: "many-invalid", era: Era::Past, msgs: m, constrained: true, dup: false, ops: vec![], max_ops: 0 });
	}

	// F3: older / equal timestamps
	for s in [
		vec!["ca1", "u1a0", "u1a1", "u1a2", "u1a2e"],
		vec!["ca1", "na_a0", "na_a1", "na_a2", "na_a2e"],
		vec!["ca1", "u1a1", "u1a2", "u1a2e", "na_a2", "na_a2e"],
		vec!["ca1", "u1a0", "u1a2", "na_a0", "na_a2"],
	] {
		let m = l(u, &s);
		pools.push(Pool { family: "older-equal-dup", era: Era::Past, msgs: m.clone(), constrained: true, dup: true, ops: vec![], max_ops: 0 });
		for e in eras {
			pools.push(Pool { family: "older-equal-op", era: e, msgs: m.clone(), constrained: true, dup: false, ops: ops_for(u, &m, false, e), max_ops: 1 });
		}
	}

	// F3b: two fully valid announcements for the same outpoint naming different nodes: the later one
	// replaces the earlier (documented reorg handling); judged against the reference only
	{
		let m = l(u, &["ca1", "ca1x", "u1a1", "u1b1", "na_b1"]);
		pools.push(Pool { family: "conflicting-announcement-dup", era: Era::Past, msgs: m.clone(), constrained: true, dup: true, ops: vec![], max_ops: 0 });
		for e in eras {
			pools.push(Pool { family: "conflicting-announcement-op", era: e, msgs: m.clone(), constrained: true, dup: false, ops: ops_for(u, &m, false, e), max_ops: 1 });
		}
		if th {
			let m = l(u, &["ca1", "ca1x", "ca2", "u1a1", "u1b1", "na_b1", "na_c1"]);
			pools.push(Pool { family: "conflicting-announcement-dup", era: Era::Past, msgs: m, constrained: true, dup: true, ops: vec![], max_ops: 0 });
		}
	}

	// F4: no ordering constraint at all (updates and node announcements before their announcement)
	let mut unc = vec![vec!["ca1", "u1a1", "u1a2", "na_a1"], vec!["ca1", "ca2", "u1a1", "u2c1", "na_b1"]];
	if th {
		unc.push(vec!["ca1", "ca2", "u1a1", "u1b1", "u2b1", "na_b1", "na_c1"]);
	}
	for s in unc {
		let m = l(u, &s);
		pools.push(Pool { family: "unconstrained-dup", era: Era::Past, msgs: m.clone(), constrained: false, dup: true, ops: vec![], max_ops: 0 });
		if m.len() <= 5 {
			for e in eras {
				pools.push(Pool { family: "unconstrained-op", era: e, msgs: m.clone(), constrained: false, dup: false, ops: ops_for(u, &m, false, e), max_ops: 1 });
			}
		}
	}

	// F5: removal followed by more removal / expiry of the removal record / re-announcement
	for e in eras {
		let m = l(u, &["ca1", "u1a1", "na_a1"]);
		pools.push(Pool { family: "two-ops-dup", era: e, msgs: m.clone(), constrained: true, dup: true, ops: ops_for(u, &m, true, e), max_ops: 2 });
		let m = l(u, &["ca1", "ca2", "u1a1", "u2b1"]);
		pools.push(Pool { family: "two-ops", era: e, msgs: m.clone(), constrained: true, dup: false, ops: ops_for(u, &m, false, e), max_ops: 2 });
		let m = l(u, &["ca1", "ca2", "u1a1", "u1b1", "u2b1", "na_b1"]);
		pools.push(Pool { family: "six-op", era: e, msgs: m.clone(), constrained: true, dup: false, ops: ops_for(u, &m, true, e), max_ops: 1 });
		if th {
			let m = l(u, &["ca1", "ca2", "u1a1", "u1b1", "u2b1", "u2c1", "na_b1"]);
			pools.push(Pool { family: "seven-op", era: e, msgs: m.clone(), constrained: true, dup: false, ops: ops_for(u, &m, false, e), max_ops: 1 });
			let m = l(u, &["ca1", "ca2", "u1a1", "u2b1", "na_b1"]);
			pools.push(Pool { family: "two-ops-dup", era: e, msgs: m.clone(), constrained: true, dup: true, ops: ops_for(u, &m, false, e), max_ops: 2 });
		}
	}

	// F6: large valid sets, every order with one duplication
	pools.push(Pool { family: "six-dup", era: Era::Past, msgs: l(u, &["ca1", "ca2", "u1b2", "u2c2", "na_b2", "na_c2"]), constrained: true, dup: true, ops: vec![], max_ops: 0 });
	if th {
		pools.push(Pool { family: "seven-dup", era: Era::Past, msgs: l(u, &["ca1", "ca2", "u1a1", "u1a2", "u1b1", "u2b1", "na_b1"]), constrained: true, dup: true, ops: vec![], max_ops: 0 });
		pools.push(Pool { family: "seven-dup", era: Era::Past, msgs: l(u, &["ca1", "u1a1", "u1a2", "u1b1", "u1b2", "na_a1", "na_a2"]), constrained: true, dup: true, ops: vec![], max_ops: 0 });
		pools.push(Pool { family: "eight-dup", era: Era::Past, msgs: l(u, &["ca1", "ca2", "u1a1", "u1a2", "u2c1", "u2c2", "na_b1", "na_b2"]), constrained: true, dup: true, ops: vec![], max_ops: 0 });
		pools.push(Pool { family: "eight", era: Era::Past, msgs: l(u, &["ca1", "ca2", "u1a1", "u1b1", "u2b1", "u2c1", "na_a1", "na_c1"]), constrained: true, dup: false, ops: vec![], max_ops: 0 });
	}

	// F7: a rapid-gossip-sync snapshot applied on top (and pruned / failed afterwards)
	for e in eras {
		let nsnap = 4;
		let w = 7 * DAY;
		let t0 = e.t0() as u64;
		let mut ops: Vec<Step> = (0..nsnap).map(|i| Step::Rgs(i, None)).collect();
		// snapshot 1 with a current time: exactly at the two-week limit (applied, then pruned at that
		// time), and one second past it (refused)
		let latest1 = t0 + 21 + w;
		ops.push(Step::Rgs(1, Some(latest1 + STALE)));
		ops.push(Step::Rgs(1, Some(latest1 + STALE + 1)));
		// the backdated receipt time of snapshot-announced channels is t0+dt: staleness boundary
		for dt in [20u64, 21] {
			ops.push(Step::Prune(t0 + dt + STALE));
			ops.push(Step::Prune(t0 + dt + STALE + 1));
		}
		ops.push(Step::FailChan(u.s1));
		ops.push(Step::FailChan(u.s3));
		ops.push(Step::FailNode(0));
		let m = l(u, if th { &["ca1", "u1a1", "u1a2", "u1b1", "na_a1"] } else { &["ca1", "u1a1", "u1a2", "u1b1"] });
		pools.push(Pool { family: "rgs-two-ops", era: e, msgs: m, constrained: true, dup: false, ops: ops.clone(), max_ops: 2 });
		let m = l(u, &["ca1", "ca2", "u1a2", "u1b2", "u2b1"]);
		pools.push(Pool { family: "rgs-one-op", era: e, msgs: m, constrained: true, dup: th, ops, max_ops: 1 });
	}

	// cheap, targeted families first; the systematic subsets (by far the largest) last and by size,
	// so that a wall-clock cap cuts the largest pools only
	pools.sort_by_key(|p| (p.family.starts_with("valid-subsets"), if p.family.starts_with("valid-subsets") { p.msgs.len() } else { 0 }));
	let bounds = format!(
		"3 nodes + 1 channel-less + 1 foreign key, 2 announced channels (+1 only in RGS snapshots); valid-subset pools of <= {} messages with one duplication, <= {} with one operation, <= {} with duplication x operation; largest pool {} messages; <= 2 operations per execution; 4 RGS v1 snapshots",
		max_dup,
		max_op1,
		max_prod,
		pools.iter().map(|p| p.msgs.len()).max().unwrap_or(0)
	);
	Plan { pools, bounds }
}
