//! Asynchronous UTXO lookups (`UtxoResult::Async`, `routing::utxo::PendingChecks`): a differential family.
//!
//! While the `channel_announcement` of a channel waits for its lookup, the channel must not be visible in the
//! graph, and the `channel_update`s / `node_announcement`s that arrive meanwhile are held and replayed when
//! the lookup resolves. Enumerated: every admissible order (announcement before the messages that refer to
//! it) of small pools of valid and invalid messages, with the lookups answered at every position (up to two
//! resolution points, plus one at the end). Oracle: the final graph is the one the same message order yields
//! with synchronous lookups (that run is itself judged against the reference model by the main families),
//! and no channel is visible while its lookup is pending.

use crate::real::{self, Graph, NullLogger};
use crate::uni::{Chain, Universe, Wire};
use bitcoin::constants::ChainHash;
use lightning::ln::msgs::{BaseMessageHandler, RoutingMessageHandler};
use lightning::routing::gossip::{NetworkGraph, P2PGossipSync};
use lightning::routing::utxo::{UtxoFuture, UtxoLookup, UtxoResult};
use lightning::util::ser::Writeable;
use lightning::util::wakers::Notifier;
use std::sync::{Arc, Mutex};

pub struct AsyncChain {
	inner: Arc<Chain>,
	pending: Mutex<Vec<(ChainHash, u64, UtxoFuture)>>,
}

impl UtxoLookup for AsyncChain {
	fn get_utxo(&self, chain_hash: &ChainHash, scid: u64, n: Arc<Notifier>) -> UtxoResult {
		let f = UtxoFuture::new(n);
		self.pending.lock().unwrap().push((*chain_hash, scid, f.clone()));
		UtxoResult::Async(f)
	}
}

type ASync = P2PGossipSync<Arc<Graph>, Arc<AsyncChain>, Arc<NullLogger>>;

#[derive(Clone, Debug, PartialEq, Eq)]
pub enum AStep {
	Msg(usize),
	/// every lookup started so far is answered (with what the chain really holds)
	Resolve,
}

pub fn steps_string(u: &Universe, steps: &[AStep]) -> String {
	steps.iter().map(|s| match s { AStep::Msg(i) => u.msgs[*i].label.clone(), AStep::Resolve => "RESOLVE".to_string() }).collect::<Vec<_>>().join(",")
}

fn scid_of(w: &Wire) -> Option<u64> {
	match w {
		Wire::CA(m) => Some(m.contents.short_channel_id),
		Wire::CU(m) => Some(m.contents.short_channel_id),
		Wire::NA(_) => None,
	}
}

/// Runs `steps` with asynchronous lookups; returns the canonical final graph and the problems seen on the way.
pub fn run_async(u: &Universe, steps: &[AStep]) -> (Vec<u8>, Vec<(String, String)>, u64) {
	let logger = Arc::new(NullLogger);
	let g: Arc<Graph> = Arc::new(NetworkGraph::new(bitcoin::network::Network::Testnet, Arc::clone(&logger)));
	let chain = Arc::new(AsyncChain { inner: Arc::clone(&u.chain), pending: Mutex::new(Vec::new()) });
	let sync: ASync = P2PGossipSync::new(Arc::clone(&g), Some(Arc::clone(&chain)), logger);
	let mut problems = Vec::new();
	let mut held_while_pending = 0u64;
	let mut all = steps.to_vec();
	all.push(AStep::Resolve);
	for (si, s) in all.iter().enumerate() {
		match s {
			AStep::Msg(i) => {
				let m = &u.msgs[*i];
				let pending_scids: Vec<u64> = chain.pending.lock().unwrap().iter().map(|p| p.1).collect();
				let _ = match &m.wire {
					Wire::CA(x) => sync.handle_channel_announcement(None, x).map(|_| ()),
					Wire::CU(x) => sync.handle_channel_update(None, x).map(|_| ()),
					Wire::NA(x) => sync.handle_node_announcement(None, x).map(|_| ()),
				};
				if let Some(sc) = scid_of(&m.wire) {
					if pending_scids.contains(&sc) {
						held_while_pending += 1;
					}
				}
			},
			AStep::Resolve => {
				let pend: Vec<(ChainHash, u64, UtxoFuture)> = std::mem::take(&mut *chain.pending.lock().unwrap());
				for (ch, scid, f) in pend {
					let n = Arc::new(Notifier::new());
					match chain.inner.get_utxo(&ch, scid, n) {
						UtxoResult::Sync(r) => f.resolve(r),
						UtxoResult::Async(_) => unreachable!(),
					}
				}
				// the message handler's poll is what notices resolved lookups
				let _ = sync.get_and_clear_pending_msg_events();
			},
		}
		// nothing of a channel is visible while its lookup is pending
		let pending_scids: Vec<u64> = chain.pending.lock().unwrap().iter().map(|p| p.1).collect();
		if !pending_scids.is_empty() {
			let (snap, _) = real::observe(&g);
			for sc in pending_scids {
				if snap.channels.contains_key(&sc) {
					problems.push((
						"channel-visible-while-lookup-pending".to_string(),
						format!("[{}] after step {}: channel {} is in the graph although its UTXO lookup has not been answered", steps_string(u, steps), si, sc >> 40),
					));
				}
			}
		}
	}
	let n1 = match real::canon(&g.encode()) {
		Ok(c) => c.n1,
		Err(e) => {
			problems.push(("encoding-layout".to_string(), e));
			Vec::new()
		},
	};
	(n1, problems, held_while_pending)
}

/// The same message order with synchronous lookups.
pub fn run_sync(u: &Universe, steps: &[AStep]) -> Vec<u8> {
	let (g, sync) = real::new_graph(u);
	for s in steps {
		if let AStep::Msg(i) = s {
			let _ = match &u.msgs[*i].wire {
				Wire::CA(x) => sync.handle_channel_announcement(None, x).map(|_| ()),
				Wire::CU(x) => sync.handle_channel_update(None, x).map(|_| ()),
				Wire::NA(x) => sync.handle_node_announcement(None, x).map(|_| ()),
			};
		}
	}
	real::canon(&g.encode()).map(|c| c.n1).unwrap_or_default()
}

fn describe(u: &Universe, n1: &[u8]) -> String {
	match real::read_graph(n1) {
		Ok(g) => real::observe(&g).0.describe(u),
		Err(e) => format!("<unreadable: {}>", e),
	}
}

pub fn judge(u: &Universe, steps: &[AStep]) -> (Vec<(String, String)>, u64, bool) {
	let (a, mut problems, held) = run_async(u, steps);
	let s = run_sync(u, steps);
	let nonempty = !real::read_graph(&s).map(|g| real::observe(&g).0.channels.is_empty()).unwrap_or(true);
	if a != s {
		problems.push((
			"async-lookup-changes-final-graph".to_string(),
			format!("[{}]: with asynchronous UTXO lookups the graph ends as {} | with synchronous lookups as {}", steps_string(u, steps), describe(u, &a), describe(u, &s)),
		));
	}
	(problems, held, nonempty)
}

fn permutations(n: usize) -> Vec<Vec<usize>> {
	fn rec(cur: &mut Vec<usize>, used: &mut Vec<bool>, out: &mut Vec<Vec<usize>>) {
		if cur.len() == used.len() {
			out.push(cur.clone());
			return;
		}
		for i in 0..used.len() {
			if !used[i] {
				used[i] = true;
				cur.push(i);
				rec(cur, used, out);
				cur.pop();
				used[i] = false;
			}
		}
	}
	let mut out = Vec::new();
	rec(&mut Vec::new(), &mut vec![false; n], &mut out);
	out
}

/// announcement before the updates of its channel; a node announcement after an announcement naming the node
fn admissible(u: &Universe, order: &[usize]) -> bool {
	for (p, i) in order.iter().enumerate() {
		match &u.msgs[*i].wire {
			Wire::CA(_) => {},
			Wire::CU(m) => {
				let sc = m.contents.short_channel_id;
				if !order[..p].iter().any(|j| matches!(&u.msgs[*j].wire, Wire::CA(c) if c.contents.short_channel_id == sc)) {
					return false;
				}
			},
			Wire::NA(m) => {
				let id = m.contents.node_id;
				if !order[..p].iter().any(|j| matches!(&u.msgs[*j].wire, Wire::CA(c) if c.contents.node_id_1 == id || c.contents.node_id_2 == id)) {
					return false;
				}
			},
		}
	}
	true
}

pub struct Out {
	pub executions: u64,
	pub orders: u64,
	pub held_while_pending: u64,
	pub nonempty_finals: u64,
	pub problems: Vec<(String, String, Vec<AStep>)>,
}

pub const POOLS: &[&[&str]] = &[
	&["ca1", "u1a1", "u1a2", "u1b1", "na_a1"],
	&["ca1", "u1a2", "na_a1", "na_a2", "na_b1"],
	&["ca1", "ca2", "u1a2", "u2b1", "u2b2"],
	&["ca1", "u1a0", "u1a2", "u1a2e", "u1b2"],
	&["ca1_script", "u1a1", "u1a2", "na_a1"],
	&["ca1", "ca1", "u1a1", "u1a2"],
	// thorough only (six messages)
	&["ca1", "u1a1", "u1a2", "u1b1", "u1b2", "na_b2"],
	&["ca1", "ca2", "u1a1", "u1a2", "u2c1", "na_c1"],
];

pub fn sweep(u: &Universe, thorough: bool, threads: usize) -> Out {
	let mut jobs: Vec<Vec<AStep>> = Vec::new();
	let mut orders = 0u64;
	for pool in POOLS.iter() {
		if !thorough && pool.len() > 5 {
			continue;
		}
		let idx: Vec<usize> = pool.iter().map(|l| u.find(l).unwrap_or_else(|| mc_common::cli::die(&format!("async sweep: no message {}", l)))).collect();
		let mut seen: std::collections::BTreeSet<Vec<usize>> = Default::default();
		for perm in permutations(idx.len()) {
			let order: Vec<usize> = perm.iter().map(|p| idx[*p]).collect();
			if !admissible(u, &order) || !seen.insert(order.clone()) {
				continue;
			}
			orders += 1;
			let n = order.len();
			// resolution points: none (only the final one), one at any position, two at any two positions
			let mut cuts: Vec<Vec<usize>> = vec![vec![]];
			for a in 1..n {
				cuts.push(vec![a]);
				if thorough || n <= 4 {
					for b in (a + 1)..n {
						cuts.push(vec![a, b]);
					}
				}
			}
			for c in cuts {
				let mut steps = Vec::new();
				for (p, i) in order.iter().enumerate() {
					if c.contains(&p) {
						steps.push(AStep::Resolve);
					}
					steps.push(AStep::Msg(*i));
				}
				jobs.push(steps);
			}
		}
	}
	let results = mc_common::par::map(&jobs, threads, |_, steps| judge(u, steps));
	let mut out = Out { executions: 0, orders, held_while_pending: 0, nonempty_finals: 0, problems: Vec::new() };
	for (steps, r) in jobs.iter().zip(results.into_iter()) {
		out.executions += 1;
		match r {
			Ok((problems, held, nonempty)) => {
				out.held_while_pending += held;
				if nonempty {
					out.nonempty_finals += 1;
				}
				for (o, d) in problems {
					out.problems.push((o, d, steps.clone()));
				}
			},
			Err(p) => out.problems.push(("no-panic".into(), format!("[{}]: panic {}", steps_string(u, steps), p), steps.clone())),
		}
	}
	out
}

pub fn steps_to_json(u: &Universe, steps: &[AStep]) -> mc_common::Value {
	mc_common::json!(steps.iter().map(|s| match s { AStep::Msg(i) => u.msgs[*i].label.clone(), AStep::Resolve => "RESOLVE".to_string() }).collect::<Vec<_>>())
}

pub fn steps_from_json(u: &Universe, v: &mc_common::Value) -> Option<Vec<AStep>> {
	v.as_array()?.iter().map(|x| { let s = x.as_str()?; if s == "RESOLVE" { Some(AStep::Resolve) } else { u.find(s).map(AStep::Msg) } }).collect()
}
