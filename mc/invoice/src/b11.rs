//! BOLT-11: bounded-exhaustive builder enumeration, round-trip oracle, string mutations.
use crate::b32;
use crate::{Stats, Viol};
use bitcoin::hashes::{sha256, Hash};
use bitcoin::secp256k1::{PublicKey, Secp256k1, SecretKey};
use bitcoin::{PubkeyHash, ScriptHash, WitnessVersion};
use lightning_invoice::{
	Bolt11Invoice, Bolt11InvoiceDescriptionRef, Bolt11ParseError, Bolt11SemanticError, Currency,
	Fallback, InvoiceBuilder, ParseOrSemanticError, PaymentHash, PaymentSecret, RawBolt11Invoice,
	RouteHint, RouteHintHop, RoutingFees, SignedRawBolt11Invoice, MAX_TIMESTAMP,
};
use mc_common::{json, Value};
use std::time::Duration;

pub const NFACT: usize = 12;
pub const FACTOR_NAMES: [&str; NFACT] = [
	"currency", "amount", "timestamp", "expiry", "description", "fallbacks", "routes", "metadata",
	"cltv", "payee", "mpp", "order",
];
pub const FACTOR_SIZES: [usize; NFACT] = [5, 14, 6, 10, 6, 32, 10, 6, 5, 2, 2, 2];
pub type Cfg = [u8; NFACT];

const F_CUR: usize = 0;
const F_AMT: usize = 1;
const F_TS: usize = 2;
const F_EXP: usize = 3;
const F_DESC: usize = 4;
const F_FB: usize = 5;
const F_RT: usize = 6;
const F_META: usize = 7;
const F_CLTV: usize = 8;
const F_PAYEE: usize = 9;
const F_MPP: usize = 10;
const F_ORDER: usize = 11;

pub fn cfg_desc(c: &Cfg) -> String {
	let mut parts = Vec::new();
	for i in 0..NFACT {
		if c[i] != 0 {
			parts.push(format!("{}={}", FACTOR_NAMES[i], value_name(i, c[i])));
		}
	}
	if parts.is_empty() {
		"defaults".to_string()
	} else {
		parts.join(",")
	}
}

pub fn cfg_json(c: &Cfg) -> Value {
	json!(c.to_vec())
}

pub fn cfg_from_json(v: &Value) -> Option<Cfg> {
	let a = v.as_array()?;
	if a.len() != NFACT {
		return None;
	}
	let mut c = [0u8; NFACT];
	for i in 0..NFACT {
		let x = a[i].as_u64()? as usize;
		if x >= FACTOR_SIZES[i] {
			return None;
		}
		c[i] = x as u8;
	}
	Some(c)
}

fn currency(i: u8) -> Currency {
	match i {
		0 => Currency::Bitcoin,
		1 => Currency::BitcoinTestnet,
		2 => Currency::Regtest,
		3 => Currency::Simnet,
		_ => Currency::Signet,
	}
}

/// Amount in msat, `None` = amountless.
fn amount(i: u8) -> Option<u64> {
	match i {
		0 => None,
		1 => Some(1),                         // 10p: needs the pico multiplier
		2 => Some(0),                         // "0m"
		3 => Some(10),                        // 100p
		4 => Some(100),                       // 1n
		5 => Some(1_000),                     // 10n
		6 => Some(100_000),                   // 1u
		7 => Some(100_000_000),               // 1m
		8 => Some(250_000_000),               // 2500u
		9 => Some(1_234_567),                 // 12345670p
		10 => Some(2_100_000_000_000_000_000), // 21e6 BTC
		11 => Some(u64::MAX / 10),            // largest accepted (pico amount fits u64)
		12 => Some(u64::MAX / 10 + 1),        // rejected by the builder
		_ => Some(u64::MAX),                  // rejected by the builder
	}
}

fn timestamp(i: u8) -> Duration {
	match i {
		0 => Duration::from_secs(1_496_314_658),
		1 => Duration::from_secs(0),
		2 => Duration::from_secs(1),
		3 => Duration::from_secs(MAX_TIMESTAMP),
		4 => Duration::from_secs(MAX_TIMESTAMP + 1), // rejected
		_ => Duration::new(1_600_000_000, 999_999_999), // sub-second part is dropped by the builder
	}
}

fn expiry(i: u8) -> Option<Duration> {
	match i {
		0 => None,
		1 => Some(Duration::from_secs(0)),
		2 => Some(Duration::from_secs(1)),
		3 => Some(Duration::from_secs(31)),
		4 => Some(Duration::from_secs(32)),
		5 => Some(Duration::from_secs(3600)),
		6 => Some(Duration::from_secs(604_800)),
		7 => Some(Duration::from_secs(u32::MAX as u64 + 1)),
		8 => Some(Duration::from_secs(u64::MAX)),
		_ => Some(Duration::new(60, 999_999_999)),
	}
}

enum Desc {
	Direct(String),
	Hash([u8; 32]),
}

fn description(i: u8) -> Desc {
	match i {
		0 => Desc::Direct("ldk".to_string()),
		1 => Desc::Direct(String::new()),
		2 => Desc::Direct("caf\u{e9} \u{2615} \u{1F600} 1 cup".to_string()),
		3 => Desc::Direct("a".repeat(639)),
		4 => Desc::Hash([7u8; 32]),
		_ => Desc::Direct("b".repeat(640)), // rejected
	}
}

fn fallbacks(i: u8) -> Vec<Fallback> {
	let seg = |n: usize| -> Fallback {
		if n == 0 {
			Fallback::SegWitProgram { version: WitnessVersion::V0, program: vec![0x11; 20] }
		} else {
			Fallback::SegWitProgram { version: WitnessVersion::V1, program: (0..32u8).collect() }
		}
	};
	let pkh = |n: usize| Fallback::PubKeyHash(PubkeyHash::from_byte_array([0x20 + n as u8; 20]));
	let sh = |n: usize| Fallback::ScriptHash(ScriptHash::from_byte_array([0x30 + n as u8; 20]));
	let i = i as usize;
	if i < 27 {
		let (a, b, c) = (i % 3, (i / 3) % 3, i / 9);
		let mut v = Vec::new();
		for n in 0..a {
			v.push(seg(n));
		}
		for n in 0..b {
			v.push(pkh(n));
		}
		for n in 0..c {
			v.push(sh(n));
		}
		return v;
	}
	match i {
		27 => vec![Fallback::SegWitProgram { version: WitnessVersion::V16, program: vec![0xab, 0xcd] }],
		28 => vec![Fallback::SegWitProgram { version: WitnessVersion::V0, program: vec![0x5a; 40] }],
		29 => vec![Fallback::SegWitProgram { version: WitnessVersion::V0, program: vec![0xff; 32] }],
		30 => vec![Fallback::SegWitProgram { version: WitnessVersion::V0, program: vec![0x01] }],
		_ => vec![Fallback::SegWitProgram { version: WitnessVersion::V2, program: vec![0x02; 41] }],
	}
}

fn pk(b: u8) -> PublicKey {
	let secp = Secp256k1::signing_only();
	PublicKey::from_secret_key(&secp, &SecretKey::from_slice(&[b; 32]).unwrap())
}

fn hop(n: u8) -> RouteHintHop {
	RouteHintHop {
		src_node_id: pk(0x40 + n),
		short_channel_id: 0x0102030405060708u64.wrapping_mul(n as u64 + 1),
		fees: RoutingFees { base_msat: 1000 + n as u32, proportional_millionths: 20 * n as u32 },
		cltv_expiry_delta: 40 + n as u16,
		htlc_minimum_msat: None,
		htlc_maximum_msat: None,
	}
}

fn routes(i: u8) -> Vec<RouteHint> {
	match i {
		0 => vec![],
		1 => vec![RouteHint(vec![hop(0)])],
		2 => vec![RouteHint(vec![hop(0), hop(1)])],
		3 => vec![RouteHint(vec![hop(0)]), RouteHint(vec![hop(1), hop(2)])],
		4 => vec![RouteHint(vec![])],
		5 => vec![RouteHint((0..12).map(hop).collect())],
		6 => vec![RouteHint((0..13).map(hop).collect())], // rejected
		7 => {
			let mut h = hop(3);
			h.htlc_minimum_msat = Some(1);
			h.htlc_maximum_msat = Some(5_000_000);
			vec![RouteHint(vec![h])]
		},
		8 => vec![RouteHint(vec![hop(0)]), RouteHint(vec![hop(0)])],
		_ => vec![RouteHint(vec![RouteHintHop {
			src_node_id: pk(0x77),
			short_channel_id: u64::MAX,
			fees: RoutingFees { base_msat: u32::MAX, proportional_millionths: u32::MAX },
			cltv_expiry_delta: u16::MAX,
			htlc_minimum_msat: None,
			htlc_maximum_msat: None,
		}])],
	}
}

/// (bytes, required)
fn metadata(i: u8) -> Option<(Vec<u8>, bool)> {
	match i {
		0 => None,
		1 => Some((vec![1, 2, 3], true)),
		2 => Some((vec![1, 2, 3], false)),
		3 => Some((vec![], true)),
		4 => Some(((0..639u32).map(|x| x as u8).collect(), true)),
		_ => Some((vec![9; 640], true)), // rejected
	}
}

fn cltv(i: u8) -> u64 {
	match i {
		0 => 18,
		1 => 0,
		2 => 1,
		3 => 144,
		_ => u64::MAX,
	}
}

fn value_name(f: usize, v: u8) -> String {
	match f {
		F_CUR => format!("{:?}", currency(v)),
		F_AMT => format!("{:?}msat", amount(v)),
		F_TS => format!("{:?}", timestamp(v)),
		F_EXP => format!("{:?}", expiry(v)),
		F_DESC => match description(v) {
			Desc::Direct(s) => format!("direct[{}B]", s.len()),
			Desc::Hash(_) => "hash".into(),
		},
		F_FB => {
			let f = fallbacks(v);
			let mut s = Vec::new();
			for x in f {
				s.push(match x {
					Fallback::SegWitProgram { version, program } => {
						format!("segwit-v{}-{}B", version.to_num(), program.len())
					},
					Fallback::PubKeyHash(_) => "pkh".into(),
					Fallback::ScriptHash(_) => "sh".into(),
				});
			}
			format!("[{}]", s.join("+"))
		},
		F_RT => {
			let r = routes(v);
			let l: Vec<String> = r
				.iter()
				.map(|h| {
					format!(
						"{}hop{}",
						h.0.len(),
						if h.0.iter().any(|x| x.htlc_minimum_msat.is_some() || x.htlc_maximum_msat.is_some()) {
							"+htlc-min-max"
						} else {
							""
						}
					)
				})
				.collect();
			format!("[{}]#{}", l.join("+"), v)
		},
		F_META => match metadata(v) {
			None => "none".into(),
			Some((b, r)) => format!("{}B-{}", b.len(), if r { "required" } else { "optional" }),
		},
		F_CLTV => format!("{}", cltv(v)),
		F_PAYEE => if v == 0 { "recovered".into() } else { "explicit".into() },
		F_MPP => format!("{}", v),
		_ => if v == 0 { "secret-then-metadata".into() } else { "metadata-then-secret".into() },
	}
}

pub const PAYMENT_HASH: [u8; 32] = [0x42; 32];
pub const PAYMENT_SECRET: [u8; 32] = [0x21; 32];
pub const SIGNER_KEY: [u8; 32] = [
	0xe1, 0x26, 0xf6, 0x8f, 0x7e, 0xaf, 0xcc, 0x8b, 0x74, 0xf5, 0x4d, 0x26, 0x9f, 0xe2, 0x06, 0xbe,
	0x71, 0x50, 0x00, 0xf9, 0x4d, 0xac, 0x06, 0x7d, 0x1c, 0x04, 0xa8, 0xca, 0x3b, 0x2d, 0xb7, 0x34,
];

pub fn signer_pk() -> PublicKey {
	let secp = Secp256k1::signing_only();
	PublicKey::from_secret_key(&secp, &SecretKey::from_slice(&SIGNER_KEY).unwrap())
}

/// Builds through the public `InvoiceBuilder`; `Err(kind)` if the builder refuses the combination.
pub fn build(c: &Cfg) -> Result<Bolt11Invoice, String> {
	let secp = Secp256k1::signing_only();
	let sk = SecretKey::from_slice(&SIGNER_KEY).unwrap();
	let b = InvoiceBuilder::new(currency(c[F_CUR]));
	let b = match description(c[F_DESC]) {
		Desc::Direct(s) => b.description(s),
		Desc::Hash(h) => b.description_hash(sha256::Hash::from_byte_array(h)),
	};
	let b = b
		.payment_hash(PaymentHash(PAYMENT_HASH))
		.duration_since_epoch(timestamp(c[F_TS]))
		.min_final_cltv_expiry_delta(cltv(c[F_CLTV]));

	macro_rules! finish {
		($b: expr) => {{
			let mut b = $b;
			if c[F_PAYEE] == 1 {
				b = b.payee_pub_key(signer_pk());
			}
			if let Some(e) = expiry(c[F_EXP]) {
				b = b.expiry_time(e);
			}
			for f in fallbacks(c[F_FB]) {
				b = b.fallback(f);
			}
			for r in routes(c[F_RT]) {
				b = b.private_route(r);
			}
			if let Some(a) = amount(c[F_AMT]) {
				b = b.amount_milli_satoshis(a);
			}
			if c[F_MPP] == 1 {
				b = b.basic_mpp();
			}
			b.build_signed(|h| secp.sign_ecdsa_recoverable(h, &sk)).map_err(|e| format!("{:?}", e))
		}};
	}

	match metadata(c[F_META]) {
		None => finish!(b.payment_secret(PaymentSecret(PAYMENT_SECRET))),
		Some((m, required)) => {
			if c[F_ORDER] == 0 {
				let b = b.payment_secret(PaymentSecret(PAYMENT_SECRET));
				if required {
					finish!(b.payment_metadata(m))
				} else {
					finish!(b.optional_payment_metadata(m))
				}
			} else {
				if required {
					finish!(b.payment_metadata(m).payment_secret(PaymentSecret(PAYMENT_SECRET)))
				} else {
					finish!(b.optional_payment_metadata(m).payment_secret(PaymentSecret(PAYMENT_SECRET)))
				}
			}
		},
	}
}

fn expected_feature_bytes(c: &Cfg) -> Vec<u8> {
	let mut bits: Vec<usize> = vec![8, 14];
	if c[F_MPP] == 1 {
		bits.push(17);
	}
	if let Some((_, required)) = metadata(c[F_META]) {
		bits.push(if required { 48 } else { 49 });
	}
	let mut v = vec![0u8; 7];
	for b in bits {
		v[b / 8] |= 1 << (b % 8);
	}
	while v.last() == Some(&0) {
		v.pop();
	}
	v
}

fn trimmed(mut v: Vec<u8>) -> Vec<u8> {
	while v.last() == Some(&0) {
		v.pop();
	}
	v
}

/// Everything an invoice exposes, as one comparable string.
pub fn accessors(i: &Bolt11Invoice) -> String {
	let desc = match i.description() {
		Bolt11InvoiceDescriptionRef::Direct(d) => format!("direct:{:?}", d.as_inner().0),
		Bolt11InvoiceDescriptionRef::Hash(h) => format!("hash:{}", h.0),
	};
	format!(
		"cur={:?}\x1famt={:?}\x1fts={:?}\x1fexp={:?}\x1fexpires_at={:?}\x1fph={:?}\x1fps={:?}\x1fdesc={}\x1fpayee={:?}\x1fexplicit={:?}\x1frecovered={:?}\x1fmeta={:?}\x1ffeat={:?}\x1fcltv={}\x1ffb={:?}\x1froutes={:?}\x1fhash={:?}",
		i.currency(),
		i.amount_milli_satoshis(),
		i.duration_since_epoch(),
		i.expiry_time(),
		i.expires_at(),
		i.payment_hash(),
		i.payment_secret(),
		desc,
		i.get_payee_pub_key(),
		i.payee_pub_key(),
		i.recover_payee_pub_key(),
		i.payment_metadata(),
		i.features().map(|f| trimmed(f.le_flags().to_vec())),
		i.min_final_cltv_expiry_delta(),
		i.fallbacks(),
		i.route_hints(),
		i.signable_hash(),
	)
}

/// The part of the accessors that describes *what was signed* (no signature / key information).
pub fn content(i: &Bolt11Invoice) -> String {
	let desc = match i.description() {
		Bolt11InvoiceDescriptionRef::Direct(d) => format!("direct:{:?}", d.as_inner().0),
		Bolt11InvoiceDescriptionRef::Hash(h) => format!("hash:{}", h.0),
	};
	format!(
		"cur={:?}\x1famt={:?}\x1fts={:?}\x1fexp={:?}\x1fph={:?}\x1fps={:?}\x1fdesc={}\x1fexplicit={:?}\x1fmeta={:?}\x1ffeat={:?}\x1fcltv={}\x1ffb={:?}\x1froutes={:?}\x1fraw={:?}",
		i.currency(),
		i.amount_milli_satoshis(),
		i.duration_since_epoch(),
		i.expiry_time(),
		i.payment_hash(),
		i.payment_secret(),
		desc,
		i.payee_pub_key(),
		i.payment_metadata(),
		i.features().map(|f| trimmed(f.le_flags().to_vec())),
		i.min_final_cltv_expiry_delta(),
		i.fallbacks(),
		i.route_hints(),
		i.clone().into_signed_raw().raw_invoice(),
	)
}

/// Round-trip oracle for one configuration. `Ok(None)`: builder refused (kind in the string of
/// `Err`-less variant), `Ok(Some(string))`: round trip held, `Err((oracle, detail))`: it did not.
pub fn check_roundtrip(c: &Cfg) -> Result<Result<(Bolt11Invoice, String), String>, (&'static str, String)> {
	let inv = match build(c) {
		Ok(i) => i,
		Err(kind) => return Ok(Err(kind)),
	};
	let s = inv.to_string();
	// 1. string -> invoice
	let parsed: Bolt11Invoice = match s.parse() {
		Ok(p) => p,
		Err(e) => {
			return Err(("bolt11-roundtrip-parse", format!("built invoice {} does not parse: {:?}", s, e)))
		},
	};
	if parsed != inv {
		return Err(("bolt11-roundtrip-equal", format!("{} (string {})", crate::diff_detail(&accessors(&inv), &accessors(&parsed)), s)));
	}
	let (ab, ap) = (accessors(&inv), accessors(&parsed));
	if ab != ap {
		return Err(("bolt11-roundtrip-accessors", crate::diff_detail(&ab, &ap)));
	}
	if parsed.to_string() != s {
		return Err(("bolt11-roundtrip-reencode", format!("re-encoding differs: {} vs {}", s, parsed.to_string())));
	}
	// 2. independent expectations from the configuration
	let mut bad = Vec::new();
	if parsed.currency() != currency(c[F_CUR]) {
		bad.push("currency".to_string());
	}
	if parsed.amount_milli_satoshis() != amount(c[F_AMT]) {
		bad.push(format!("amount {:?} != {:?}", parsed.amount_milli_satoshis(), amount(c[F_AMT])));
	}
	if parsed.duration_since_epoch() != Duration::from_secs(timestamp(c[F_TS]).as_secs()) {
		bad.push(format!("timestamp {:?}", parsed.duration_since_epoch()));
	}
	let exp_expiry = Duration::from_secs(expiry(c[F_EXP]).map(|d| d.as_secs()).unwrap_or(3600));
	if parsed.expiry_time() != exp_expiry {
		bad.push(format!("expiry {:?} != {:?}", parsed.expiry_time(), exp_expiry));
	}
	if parsed.payment_hash() != PaymentHash(PAYMENT_HASH) {
		bad.push("payment_hash".into());
	}
	if *parsed.payment_secret() != PaymentSecret(PAYMENT_SECRET) {
		bad.push("payment_secret".into());
	}
	match (parsed.description(), description(c[F_DESC])) {
		(Bolt11InvoiceDescriptionRef::Direct(d), Desc::Direct(s)) if d.as_inner().0 == s => {},
		(Bolt11InvoiceDescriptionRef::Hash(h), Desc::Hash(x)) if h.0.to_byte_array() == x => {},
		_ => bad.push("description".into()),
	}
	let fbs = fallbacks(c[F_FB]);
	if parsed.fallbacks().into_iter().cloned().collect::<Vec<_>>() != fbs {
		bad.push(format!("fallbacks {:?} != {:?}", parsed.fallbacks(), fbs));
	}
	let exp_routes: Vec<RouteHint> = routes(c[F_RT]);
	if parsed.route_hints() != exp_routes {
		bad.push(format!("route hints {:?} != {:?}", parsed.route_hints(), exp_routes));
	}
	if parsed.payment_metadata().cloned() != metadata(c[F_META]).map(|m| m.0) {
		bad.push("payment_metadata".into());
	}
	let feat = parsed.features().map(|f| trimmed(f.le_flags().to_vec())).unwrap_or_default();
	if feat != expected_feature_bytes(c) {
		bad.push(format!("features {:?} != {:?}", feat, expected_feature_bytes(c)));
	}
	if parsed.min_final_cltv_expiry_delta() != cltv(c[F_CLTV]) {
		bad.push("min_final_cltv_expiry_delta".into());
	}
	let spk = signer_pk();
	if parsed.get_payee_pub_key() != spk || parsed.recover_payee_pub_key() != Some(spk) {
		bad.push(format!("payee key {:?} / recovered {:?} != signer {:?}", parsed.get_payee_pub_key(), parsed.recover_payee_pub_key(), spk));
	}
	if parsed.payee_pub_key().is_some() != (c[F_PAYEE] == 1) {
		bad.push("explicit payee key presence".into());
	}
	if !bad.is_empty() {
		return Err(("bolt11-roundtrip-expected", format!("{} exposes values other than those given to the builder: {}", s, bad.join("; "))));
	}
	// 3. SignedRawBolt11Invoice / RawBolt11Invoice round trips
	let signed: SignedRawBolt11Invoice = match s.parse() {
		Ok(x) => x,
		Err(e) => return Err(("bolt11-signedraw-parse", format!("{:?}", e))),
	};
	if signed != inv.clone().into_signed_raw() || signed.to_string() != s {
		return Err(("bolt11-signedraw-roundtrip", format!("SignedRawBolt11Invoice round trip differs for {}", s)));
	}
	if !signed.check_signature() || signed.recover_payee_pub_key().ok().map(|k| k.0) != Some(spk) {
		return Err(("bolt11-signedraw-signature", format!("signature / recovered key wrong for {}", s)));
	}
	match Bolt11Invoice::from_signed(signed.clone()) {
		Ok(x) if x == inv => {},
		o => return Err(("bolt11-from-signed", format!("from_signed gives {:?}", o.map(|i| i.to_string())))),
	}
	let (rh, rd) = signed.raw_invoice().to_raw();
	match RawBolt11Invoice::from_raw(&rh, &rd) {
		Ok(r) if &r == signed.raw_invoice() && r.signable_hash() == *signed.signable_hash() => {},
		o => return Err(("bolt11-raw-roundtrip", format!("RawBolt11Invoice::from_raw gives {:?}", o))),
	}
	// 4. upper-case form parses to the same invoice
	match s.to_uppercase().parse::<Bolt11Invoice>() {
		Ok(u) if u == inv => {},
		o => return Err(("bolt11-uppercase", format!("upper-case string gives {:?}", o.map(|i| i.to_string())))),
	}
	Ok(Ok((inv, s)))
}

/// Delta-minimises a failing configuration: resets factors to their default while the same oracle
/// still fires.
pub fn minimise(c: &Cfg, oracle: &str) -> Cfg {
	let mut cur = *c;
	loop {
		let mut changed = false;
		for i in 0..NFACT {
			if cur[i] == 0 {
				continue;
			}
			let mut t = cur;
			t[i] = 0;
			let fails = match mc_common::par::guarded(|| check_roundtrip(&t)) {
				Ok(Err((o, _))) => o == oracle,
				Err(_) => oracle == "no-panic",
				_ => false,
			};
			if fails {
				cur = t;
				changed = true;
			}
		}
		if !changed {
			return cur;
		}
	}
}

pub fn err_kind_b11(e: &ParseOrSemanticError) -> String {
	match e {
		ParseOrSemanticError::ParseError(p) => {
			let d = format!("{:?}", p);
			let head = d.split(|c| c == '(' || c == ' ' || c == '{').next().unwrap_or("").to_string();
			if let Bolt11ParseError::Bech32Error(inner) = p {
				let i = format!("{:?}", inner);
				let ih = i.split(|c| c == '(' || c == ' ' || c == '{').next().unwrap_or("").to_string();
				return format!("parse:Bech32Error:{}", ih);
			}
			format!("parse:{}", head)
		},
		ParseOrSemanticError::SemanticError(s) => format!("semantic:{:?}", s),
	}
}

fn is_checksum_err(e: &ParseOrSemanticError) -> bool {
	matches!(e, ParseOrSemanticError::ParseError(Bolt11ParseError::Bech32Error(_)))
}

/// Which part of the string position `pos` (byte offset) of invoice string `s` belongs to.
pub fn region_of(s: &str, pos: usize) -> String {
	let sep = s.rfind('1').unwrap();
	if pos < sep {
		return "hrp".into();
	}
	if pos == sep {
		return "separator".into();
	}
	let d = pos - sep - 1;
	let n = s.len() - sep - 1;
	if d >= n - 6 {
		return "checksum".into();
	}
	if d >= n - 6 - 104 {
		return "signature".into();
	}
	if d < 7 {
		return "timestamp".into();
	}
	// walk the tagged fields
	let bytes = s.as_bytes();
	let val = |k: usize| b32::char_to_val(bytes[sep + 1 + k]).unwrap() as usize;
	let mut k = 7;
	let end = n - 6 - 104;
	while k + 3 <= end {
		let tag = bytes[sep + 1 + k] as char;
		let len = val(k + 1) * 32 + val(k + 2);
		if d == k {
			return format!("field-{}-tag", tag);
		}
		if d == k + 1 || d == k + 2 {
			return format!("field-{}-len", tag);
		}
		if d < k + 3 + len {
			return format!("field-{}-data", tag);
		}
		k += 3 + len;
	}
	"tagged".into()
}

const ALNUM: &[u8; 36] = b"abcdefghijklmnopqrstuvwxyz0123456789";

/// All single-character substitutions (and single-character deletions) of `s` without fixing the
/// checksum: every one must fail to parse. Returns first violation per region.
pub fn check_char_mutations(c: &Cfg, inv: &Bolt11Invoice, s: &str, st: &mut Stats, out: &mut Vec<Viol>) {
	let _ = inv;
	let sep = s.rfind('1').unwrap();
	let bytes = s.as_bytes();
	let mut buf = bytes.to_vec();
	let (mut n_eval, mut n_checksum, mut n_bech32) = (0u64, 0u64, 0u64);
	for pos in 0..bytes.len() {
		let alphabet: &[u8] = if pos <= sep { &ALNUM[..] } else { &b32::CHARSET[..] };
		for &ch in alphabet.iter().chain(if pos > sep { [b'B', b'1', b'b'].iter() } else { [b'Q', b'L'].iter() }) {
			if ch == bytes[pos] {
				continue;
			}
			buf[pos] = ch;
			let m = std::str::from_utf8(&buf).unwrap();
			n_eval += 1;
			match m.parse::<Bolt11Invoice>() {
				Err(ParseOrSemanticError::ParseError(Bolt11ParseError::Bech32Error(
					bech32::primitives::decode::CheckedHrpstringError::Checksum(_),
				))) => n_checksum += 1,
				Err(e) => {
					if is_checksum_err(&e) {
						n_bech32 += 1;
					} else {
						st.add("b11.charsub.rejected_other", 1);
					}
					st.add(&format!("b11.charsub.err.{}", err_kind_b11(&e)), 1);
				},
				Ok(p) => {
					let region = region_of(s, pos);
					out.push(Viol {
						oracle: "bolt11-charsub-accepted",
						identity: format!("bolt11-charsub-accepted|region={}", region),
						detail: format!(
							"invoice string with character {} at offset {} replaced by {:?} parses (payee {:?}); original {}",
							bytes[pos] as char, pos, ch as char, p.get_payee_pub_key(), s
						),
						replay: json!({"fam": "b11-charsub", "cfg": cfg_json(c), "pos": pos, "ch": (ch as char).to_string()}),
						rank: pos as u64,
					});
				},
			}
		}
		buf[pos] = bytes[pos];
		// deletion of one character
		let mut del = bytes.to_vec();
		del.remove(pos);
		let m = std::str::from_utf8(&del).unwrap();
		st.add("b11.chardel.evaluations", 1);
		match m.parse::<Bolt11Invoice>() {
			Err(_) => st.add("b11.chardel.rejected", 1),
			Ok(_) => {
				// deleting one of two identical adjacent data symbols is still a different string
				out.push(Viol {
					oracle: "bolt11-chardel-accepted",
					identity: format!("bolt11-chardel-accepted|region={}", region_of(s, pos)),
					detail: format!("invoice string with the character at offset {} deleted parses; original {}", pos, s),
					replay: json!({"fam": "b11-chardel", "cfg": cfg_json(c), "pos": pos}),
					rank: pos as u64,
				});
			},
		}
	}
	st.add("b11.charsub.evaluations", n_eval);
	st.add("b11.charsub.rejected_checksum", n_checksum);
	st.add("b11.charsub.err.parse:Bech32Error:Checksum", n_checksum);
	st.add("b11.charsub.rejected_checksum_or_bech32", n_checksum + n_bech32);
}

/// Judges one checksum-correct mutant string `m` of the invoice `inv`.
/// Returns the outcome class or a violation detail.
pub struct Orig<'a> {
	pub inv: &'a Bolt11Invoice,
	pub s: &'a str,
	pub content: String,
	pub key: PublicKey,
	pub hash: [u8; 32],
}

impl<'a> Orig<'a> {
	pub fn new(inv: &'a Bolt11Invoice, s: &'a str) -> Self {
		Orig { inv, s, content: content(inv), key: inv.get_payee_pub_key(), hash: inv.signable_hash() }
	}
}

pub fn judge_fixed_mutant(o: &Orig, m: &str) -> Result<&'static str, String> {
	if m == o.s {
		return Ok("identical_string");
	}
	match m.parse::<Bolt11Invoice>() {
		Err(ParseOrSemanticError::SemanticError(Bolt11SemanticError::InvalidSignature)) => Ok("rejected_signature"),
		Err(ParseOrSemanticError::SemanticError(_)) => Ok("rejected_semantic"),
		Err(ParseOrSemanticError::ParseError(Bolt11ParseError::Bech32Error(_))) => Ok("rejected_bech32"),
		Err(ParseOrSemanticError::ParseError(Bolt11ParseError::MalformedSignature(_))) => Ok("rejected_malformed_signature"),
		Err(ParseOrSemanticError::ParseError(_)) => Ok("rejected_parse"),
		Ok(p) => {
			let pkey = p.get_payee_pub_key();
			let same_key = pkey == o.key;
			// LDK signs / verifies the hash of its own re-serialisation of the parsed content, so a
			// different hash means different content; an equal hash is confirmed field by field.
			let same_content = p.signable_hash() == o.hash
				&& content(&p) == o.content
				&& p.clone().into_signed_raw().raw_invoice() == o.inv.clone().into_signed_raw().raw_invoice();
			if same_content {
				if same_key {
					Ok("accepted_same_content_same_key")
				} else {
					Ok("accepted_same_content_other_key")
				}
			} else if !same_key {
				if o.inv.payee_pub_key().is_some() && p.payee_pub_key().is_some() {
					// both carry an explicit `n`: a different key means the n field itself was changed
					// to another valid key for which the signature verifies.
					Err(format!("explicit payee key changed to {:?} and signature still verifies", pkey))
				} else {
					Ok("accepted_different_key")
				}
			} else {
				Err(format!(
					"parses with the SAME payee key {:?} but different signed content: {{{}}} vs original {{{}}}",
					pkey, content(&p), o.content
				))
			}
		},
	}
}

/// Every single 5-bit symbol change of the data part (timestamp, tagged fields, signature) with
/// the checksum recomputed.
pub fn check_symbol_mutations(c: &Cfg, inv: &Bolt11Invoice, s: &str, st: &mut Stats, out: &mut Vec<Viol>) {
	let (hrp, data) = b32::split(s).expect("own string splits");
	let orig = Orig::new(inv, s);
	let sep = s.rfind('1').unwrap();
	let mut d = data.clone();
	for pos in 0..data.len() {
		for v in 0..32u8 {
			if v == data[pos] {
				continue;
			}
			d[pos] = v;
			let m = b32::encode(&hrp, &d);
			st.add("b11.symfix.evaluations", 1);
			match judge_fixed_mutant(&orig, &m) {
				Ok(class) => st.add(&format!("b11.symfix.{}", class), 1),
				Err(detail) => {
					let region = region_of(s, sep + 1 + pos);
					out.push(Viol {
						oracle: "bolt11-forged-symbol",
						identity: format!("bolt11-forged-symbol|region={}", region),
						detail: format!("data symbol {} set to {} with checksum recomputed: {}; mutant {} original {}", pos, v, detail, m, s),
						replay: json!({"fam": "b11-symfix", "cfg": cfg_json(c), "pos": pos, "val": v}),
						rank: pos as u64,
					});
				},
			}
		}
		d[pos] = data[pos];
	}
}

/// HRP edits with the checksum recomputed: amount digits, multipliers, currency.
pub fn hrp_variants(hrp: &str) -> Vec<String> {
	let mut v: Vec<String> = Vec::new();
	// split "ln" + currency + amount digits + multiplier
	let rest = &hrp[2..];
	let cur_end = rest.find(|ch: char| ch.is_ascii_digit()).unwrap_or(rest.len());
	let cur = &rest[..cur_end];
	let amt_part = &rest[cur_end..];
	let digits_end = amt_part.find(|ch: char| !ch.is_ascii_digit()).unwrap_or(amt_part.len());
	let digits = &amt_part[..digits_end];
	let mult = &amt_part[digits_end..];
	let mk = |cur: &str, digits: &str, mult: &str| format!("ln{}{}{}", cur, digits, mult);
	// currency edits
	for c2 in ["bc", "tb", "bcrt", "sb", "tbs", "", "xx"] {
		if c2 != cur {
			v.push(mk(c2, digits, mult));
		}
	}
	// multiplier edits
	for m2 in ["", "m", "u", "n", "p", "k"] {
		if m2 != mult {
			v.push(mk(cur, digits, m2));
		}
	}
	if digits.is_empty() {
		// add an amount to an amountless invoice
		for d2 in ["1", "10", "2500", "18446744073709551615", "18446744073709551616"] {
			for m2 in ["", "m", "u", "n", "p"] {
				v.push(mk(cur, d2, m2));
			}
		}
	} else {
		// drop the amount
		v.push(mk(cur, "", ""));
		v.push(mk(cur, "", mult));
		// every single digit changed to every other digit
		let db = digits.as_bytes();
		for i in 0..db.len() {
			for nd in b'0'..=b'9' {
				if nd != db[i] {
					let mut x = db.to_vec();
					x[i] = nd;
					v.push(mk(cur, std::str::from_utf8(&x).unwrap(), mult));
				}
			}
			// delete digit i
			let mut x = db.to_vec();
			x.remove(i);
			v.push(mk(cur, std::str::from_utf8(&x).unwrap(), mult));
			// insert a digit before i
			for nd in [b'0', b'1', b'9'] {
				let mut x = db.to_vec();
				x.insert(i, nd);
				v.push(mk(cur, std::str::from_utf8(&x).unwrap(), mult));
			}
		}
		// append digits
		for nd in ["0", "1", "9", "000"] {
			v.push(mk(cur, &format!("{}{}", digits, nd), mult));
		}
		// leading zero
		v.push(mk(cur, &format!("0{}", digits), mult));
		// equivalent re-encodings of the same value under another multiplier
		let order = ["m", "u", "n", "p"];
		if let Some(idx) = order.iter().position(|m| *m == mult) {
			if idx + 1 < order.len() {
				let mut dd = digits.to_string();
				for k in idx + 1..order.len() {
					dd.push_str("000");
					v.push(mk(cur, &dd, order[k]));
				}
			}
			let mut dd = digits.to_string();
			let mut k = idx;
			while k > 0 && dd.ends_with("000") && dd.len() > 3 {
				dd.truncate(dd.len() - 3);
				k -= 1;
				v.push(mk(cur, &dd, order[k]));
			}
		}
	}
	v.sort();
	v.dedup();
	v.retain(|x| x != hrp);
	v
}

pub fn check_hrp_mutations(c: &Cfg, inv: &Bolt11Invoice, s: &str, st: &mut Stats, out: &mut Vec<Viol>) {
	let (hrp, data) = b32::split(s).expect("own string splits");
	let orig = Orig::new(inv, s);
	for h2 in hrp_variants(&hrp) {
		let m = b32::encode(&h2, &data);
		st.add("b11.hrpfix.evaluations", 1);
		match judge_fixed_mutant(&orig, &m) {
			Ok(class) => st.add(&format!("b11.hrpfix.{}", class), 1),
			Err(detail) => out.push(Viol {
				oracle: "bolt11-forged-hrp",
				identity: "bolt11-forged-hrp|region=hrp".to_string(),
				detail: format!("HRP {} changed to {} with checksum recomputed: {}; mutant {} original {}", hrp, h2, detail, m, s),
				replay: json!({"fam": "b11-hrpfix", "cfg": cfg_json(c), "hrp": h2}),
				rank: 0,
			}),
		}
	}
}

/// Splits the tagged part of `data` (without timestamp and signature) into fields.
fn split_fields(data: &[u8]) -> Option<Vec<Vec<u8>>> {
	if data.len() < 7 + 104 {
		return None;
	}
	let tagged = &data[7..data.len() - 104];
	let mut out = Vec::new();
	let mut k = 0;
	while k < tagged.len() {
		if k + 3 > tagged.len() {
			return None;
		}
		let len = tagged[k + 1] as usize * 32 + tagged[k + 2] as usize;
		if k + 3 + len > tagged.len() {
			return None;
		}
		out.push(tagged[k..k + 3 + len].to_vec());
		k += 3 + len;
	}
	Some(out)
}

/// Structural edits with recomputed checksum but the ORIGINAL signature: remove / duplicate / swap
/// tagged fields, truncate the data part, change a field's declared length to every value.
pub fn check_structural_mutations(c: &Cfg, inv: &Bolt11Invoice, s: &str, st: &mut Stats, out: &mut Vec<Viol>) {
	let (hrp, data) = b32::split(s).expect("own string splits");
	let orig = Orig::new(inv, s);
	let fields = match split_fields(&data) {
		Some(f) => f,
		None => return,
	};
	let ts = &data[..7];
	let sig = &data[data.len() - 104..];
	let assemble = |fs: &[Vec<u8>]| -> Vec<u8> {
		let mut d = ts.to_vec();
		for f in fs {
			d.extend_from_slice(f);
		}
		d.extend_from_slice(sig);
		d
	};
	let mut mutants: Vec<(String, Vec<u8>)> = Vec::new();
	for i in 0..fields.len() {
		let mut f = fields.clone();
		f.remove(i);
		mutants.push((format!("remove-field-{}", i), assemble(&f)));
		let mut f = fields.clone();
		f.insert(i, fields[i].clone());
		mutants.push((format!("duplicate-field-{}", i), assemble(&f)));
		if i + 1 < fields.len() {
			let mut f = fields.clone();
			f.swap(i, i + 1);
			mutants.push((format!("swap-fields-{}", i), assemble(&f)));
		}
		// append an unknown field after field i
		let mut f = fields.clone();
		f.insert(i + 1, vec![2, 0, 1, 5]);
		mutants.push((format!("insert-unknown-after-{}", i), assemble(&f)));
	}
	// truncations of the whole data part (signature then slides into the fields)
	for n in 0..data.len() {
		mutants.push((format!("truncate-{}", n), data[..n].to_vec()));
	}
	// extension by one to three symbols
	for extra in [vec![0u8], vec![31u8], vec![0, 0, 0], vec![1, 0, 0]] {
		let mut d = data.clone();
		d.extend_from_slice(&extra);
		mutants.push((format!("extend-{:?}", extra), d));
		let mut d = data[..data.len() - 104].to_vec();
		d.extend_from_slice(&extra);
		d.extend_from_slice(sig);
		mutants.push((format!("extend-before-sig-{:?}", extra), d));
	}
	for (name, d) in mutants {
		let m = b32::encode(&hrp, &d);
		st.add("b11.struct.evaluations", 1);
		match judge_fixed_mutant(&orig, &m) {
			Ok(class) => st.add(&format!("b11.struct.{}", class), 1),
			Err(detail) => {
				let kind = name.rsplitn(2, '-').last().unwrap_or("").to_string();
				out.push(Viol {
					oracle: "bolt11-forged-structure",
					identity: format!("bolt11-forged-structure|edit={}", kind),
					detail: format!("{} with checksum recomputed: {}; mutant {} original {}", name, detail, m, s),
					replay: json!({"fam": "b11-struct", "cfg": cfg_json(c), "mutant": m}),
					rank: 0,
				});
			},
		}
	}
}

/// Replays one recorded mutation case; returns a violation detail if it still fails.
pub fn replay_mutation(r: &Value) -> Result<String, String> {
	let c = cfg_from_json(&r["cfg"]).ok_or("bad cfg")?;
	let (inv, s) = match check_roundtrip(&c) {
		Ok(Ok(x)) => x,
		Ok(Err(k)) => return Ok(format!("builder refuses the configuration now ({})", k)),
		Err((o, d)) => return Err(format!("{}: {}", o, d)),
	};
	let orig = Orig::new(&inv, &s);
	let fam = r["fam"].as_str().unwrap_or("");
	match fam {
		"b11-charsub" | "b11-chardel" => {
			let pos = r["pos"].as_u64().ok_or("pos")? as usize;
			let mut b = s.as_bytes().to_vec();
			if pos >= b.len() {
				return Ok("position out of range now".into());
			}
			if fam == "b11-charsub" {
				b[pos] = r["ch"].as_str().and_then(|x| x.bytes().next()).ok_or("ch")?;
			} else {
				b.remove(pos);
			}
			let m = String::from_utf8(b).map_err(|_| "utf8")?;
			match m.parse::<Bolt11Invoice>() {
				Ok(_) => Err(format!("mutant {} still parses", m)),
				Err(e) => Ok(format!("rejected: {:?}", e)),
			}
		},
		"b11-symfix" => {
			let (hrp, mut data) = b32::split(&s).ok_or("split")?;
			let pos = r["pos"].as_u64().ok_or("pos")? as usize;
			if pos >= data.len() {
				return Ok("position out of range now".into());
			}
			data[pos] = r["val"].as_u64().ok_or("val")? as u8;
			let m = b32::encode(&hrp, &data);
			judge_fixed_mutant(&orig, &m).map(|c| c.to_string())
		},
		"b11-hrpfix" => {
			let (_, data) = b32::split(&s).ok_or("split")?;
			let m = b32::encode(r["hrp"].as_str().ok_or("hrp")?, &data);
			judge_fixed_mutant(&orig, &m).map(|c| c.to_string())
		},
		"b11-struct" => {
			let m = r["mutant"].as_str().ok_or("mutant")?;
			judge_fixed_mutant(&orig, m).map(|c| c.to_string())
		},
		_ => Err(format!("unknown family {}", fam)),
	}
}

/// Re-signed structural corpus: tagged-field multisets that the builder cannot produce, signed with
/// the signer key through `RawBolt11Invoice::sign`, must parse without panic; if they parse, the
/// re-encoding must be stable. Returns strings for the no-panic corpus.
pub fn garbage_corpus() -> Vec<String> {
	let mut out = Vec::new();
	let hrps = [
		"lnbc", "lntb", "lnbcrt", "lnsb", "lntbs", "lnbc1p", "lnbc10n", "lnbc2500u", "lnbc20m",
		"lnbc18446744073709551615p", "lnbc18446744073709551616p", "lnbc18446744073709551615m", "lnbc99999999999999999999",
		"lnbc20000000", "lnbc1x", "lnbcm", "lnbc0", "lnbc00p", "lnxx", "ln", "l", "lnbc1", "lnbcrt1m", "lno", "lnr", "lni", "bc", "lnbc-1p",
	];
	let fillers: [fn(usize) -> u8; 4] = [|_| 0, |_| 31, |i| (i % 32) as u8, |i| ((i * 7 + 3) % 32) as u8];
	let sig_zero = vec![0u8; 104];
	let sig_ones = vec![31u8; 104];
	// a structurally valid signature (r = s = 1, recovery id 0)
	let mut sig_bytes = [0u8; 65];
	sig_bytes[31] = 1;
	sig_bytes[63] = 1;
	let sig_valid = b32::bytes_to_5(&sig_bytes);
	let mut sig_bad_recid = sig_bytes;
	sig_bad_recid[64] = 4;
	let sig_recid4 = b32::bytes_to_5(&sig_bad_recid);
	let sigs = [sig_zero, sig_ones, sig_valid, sig_recid4];
	let lens = [0usize, 1, 2, 3, 4, 7, 8, 32, 33, 51, 52, 53, 54, 82, 102, 103, 104, 105, 639, 1022, 1023];
	for hrp in hrps.iter() {
		// data parts shorter than anything sensible
		for n in [0usize, 1, 6, 7, 103, 104, 110, 111] {
			for f in fillers.iter().take(2) {
				let d: Vec<u8> = (0..n).map(|i| f(i)).collect();
				out.push(b32::encode(hrp, &d));
			}
		}
	}
	for hrp in ["lnbc", "lnbc10n", "lntbs1m"] {
		for tag in 0..32u8 {
			for &len in lens.iter() {
				for (fi, f) in fillers.iter().enumerate() {
					// keep the corpus bounded: the two patterned fillers only for short fields
					if fi >= 2 && len > 105 {
						continue;
					}
					for (si, sig) in sigs.iter().enumerate() {
						if si >= 2 && fi != 0 {
							continue;
						}
						let mut d = b32::int_to_5(1_496_314_658, 7);
						d.push(tag);
						d.extend_from_slice(&b32::int_to_5(len as u64, 2));
						d.extend((0..len).map(|i| f(i)));
						d.extend_from_slice(sig);
						out.push(b32::encode(hrp, &d));
						// declared length longer than what follows
						if len == 52 && fi == 0 && si == 0 {
							let mut d2 = b32::int_to_5(0, 7);
							d2.push(tag);
							d2.extend_from_slice(&b32::int_to_5(1023, 2));
							d2.extend_from_slice(sig);
							out.push(b32::encode(hrp, &d2));
						}
					}
				}
			}
		}
	}
	// no separator, several separators, mixed case, non-ascii, empty
	for s in [
		"", "1", "11", "ln", "lnbc", "LNBC1", "lnbc1", "lnbc1qqqqqq", "lnbc1QQQQqq", "Lnbc1qqqqqq", "lnbc\u{e9}1qqqqqq", "lnbc1qqq\u{1F600}qqq",
		"lnbc1b", "lnbc1i", "lnbc1o", " lnbc1qqqqqq", "lnbc1qqqqqq ", "lnbc1qqq+qqq", "\0", "lnbc1\0qqqqq", "lno1", "lno1q", "lno1qq", "lno1+", "lno1q+", "lno1q+ q",
		"lno1q+\nq", "+lno1q", "lno1q++q", "lno1 q", "LNO1Q", "LnO1q", "lnr1qqqq", "lni1qqqq", "lno1qcp4256ypq", "lno1pg", "lno1zcss9mk8y3wkklfvevcrszlmu23kfrxh49px20665dqwmn4p72pksese",
	] {
		out.push(s.to_string());
	}
	out.push("q".repeat(8000));
	out.push(format!("lnbc1{}", "q".repeat(7090)));
	out.push(format!("lno1{}", "q".repeat(70000)));
	out
}
