//! Independent bech32 helpers (BIP-173 polymod, charset, 5/8-bit regrouping). Nothing here calls
//! into the `bech32` crate or LDK, so it can serve as the oracle side for checksum handling.

pub const CHARSET: &[u8; 32] = b"qpzry9x8gf2tvdw0s3jn54khce6mua7l";

pub fn char_to_val(c: u8) -> Option<u8> {
	let c = c.to_ascii_lowercase();
	CHARSET.iter().position(|x| *x == c).map(|p| p as u8)
}

fn polymod(pre: u32, v: u8) -> u32 {
	const GEN: [u32; 5] = [0x3b6a57b2, 0x26508e6d, 0x1ea119fa, 0x3d4233dd, 0x2a1462b3];
	let b = pre >> 25;
	let mut chk = ((pre & 0x1ffffff) << 5) ^ (v as u32);
	for (i, g) in GEN.iter().enumerate() {
		if (b >> i) & 1 == 1 {
			chk ^= g;
		}
	}
	chk
}

/// The six checksum symbols for `hrp` (lower case) and `data` (5-bit values, without checksum).
pub fn checksum(hrp: &str, data: &[u8]) -> [u8; 6] {
	let mut chk = 1u32;
	for c in hrp.bytes() {
		chk = polymod(chk, c >> 5);
	}
	chk = polymod(chk, 0);
	for c in hrp.bytes() {
		chk = polymod(chk, c & 31);
	}
	for d in data {
		chk = polymod(chk, *d);
	}
	for _ in 0..6 {
		chk = polymod(chk, 0);
	}
	chk ^= 1;
	let mut out = [0u8; 6];
	for (i, o) in out.iter_mut().enumerate() {
		*o = ((chk >> (5 * (5 - i))) & 31) as u8;
	}
	out
}

/// hrp + '1' + data + checksum.
pub fn encode(hrp: &str, data: &[u8]) -> String {
	let mut s = String::with_capacity(hrp.len() + 1 + data.len() + 6);
	s.push_str(hrp);
	s.push('1');
	for d in data {
		s.push(CHARSET[*d as usize] as char);
	}
	for d in checksum(hrp, data) {
		s.push(CHARSET[d as usize] as char);
	}
	s
}

/// hrp + '1' + data, no checksum (BOLT-12 style).
pub fn encode_nochecksum(hrp: &str, data: &[u8]) -> String {
	let mut s = String::with_capacity(hrp.len() + 1 + data.len());
	s.push_str(hrp);
	s.push('1');
	for d in data {
		s.push(CHARSET[*d as usize] as char);
	}
	s
}

/// Splits a well-formed lower-case bech32 string with a six-symbol checksum into (hrp, data
/// values without the checksum). `None` if it is not of that shape.
pub fn split(s: &str) -> Option<(String, Vec<u8>)> {
	let sep = s.rfind('1')?;
	let hrp = &s[..sep];
	let rest = &s.as_bytes()[sep + 1..];
	if rest.len() < 6 {
		return None;
	}
	let mut data = Vec::with_capacity(rest.len());
	for c in rest {
		data.push(char_to_val(*c)?);
	}
	data.truncate(data.len() - 6);
	Some((hrp.to_string(), data))
}

/// 8-bit bytes to 5-bit groups, zero padded.
pub fn bytes_to_5(bytes: &[u8]) -> Vec<u8> {
	let mut out = Vec::with_capacity(bytes.len() * 8 / 5 + 1);
	let mut acc = 0u32;
	let mut bits = 0;
	for b in bytes {
		acc = (acc << 8) | *b as u32;
		bits += 8;
		while bits >= 5 {
			bits -= 5;
			out.push(((acc >> bits) & 31) as u8);
		}
	}
	if bits > 0 {
		out.push(((acc << (5 - bits)) & 31) as u8);
	}
	out
}

/// Big-endian integer in exactly `n` 5-bit groups.
pub fn int_to_5(mut v: u64, n: usize) -> Vec<u8> {
	let mut out = vec![0u8; n];
	for i in (0..n).rev() {
		out[i] = (v & 31) as u8;
		v >>= 5;
	}
	out
}
