//! Driver for the BOLT-11 families and the arbitrary-string family.
use crate::b11::{self, Cfg, FACTOR_SIZES, NFACT};
use crate::{b12, b32, Ctx, Stats, Viol};
use lightning_invoice::{Bolt11Invoice, SignedRawBolt11Invoice};
use mc_common::{json, par, Value};
use std::collections::BTreeSet;
use std::time::Instant;

fn one_factor() -> Vec<Cfg> {
	let mut v = vec![[0u8; NFACT]];
	for f in 0..NFACT {
		for x in 1..FACTOR_SIZES[f] {
			let mut c = [0u8; NFACT];
			c[f] = x as u8;
			v.push(c);
		}
	}
	v
}

fn pairs() -> Vec<Cfg> {
	let mut v = Vec::new();
	for f in 0..NFACT {
		for g in f + 1..NFACT {
			for x in 1..FACTOR_SIZES[f] {
				for y in 1..FACTOR_SIZES[g] {
					let mut c = [0u8; NFACT];
					c[f] = x as u8;
					c[g] = y as u8;
					v.push(c);
				}
			}
		}
	}
	v
}

/// Full product over the given (factor, values) lists, other factors default.
fn product(spec: &[(usize, Vec<u8>)]) -> Vec<Cfg> {
	let mut v = vec![[0u8; NFACT]];
	for (f, vals) in spec {
		let mut n = Vec::with_capacity(v.len() * vals.len());
		for c in v.iter() {
			for x in vals {
				let mut d = *c;
				d[*f] = *x;
				n.push(d);
			}
		}
		v = n;
	}
	v
}

fn all(f: usize) -> Vec<u8> {
	(0..FACTOR_SIZES[f] as u8).collect()
}

struct RtOut {
	stats: Stats,
	viols: Vec<Viol>,
	ok: Option<String>,
}

fn roundtrip_one(c: &Cfg) -> RtOut {
	let mut st = Stats::default();
	let mut viols = Vec::new();
	let mut ok = None;
	st.add("b11.roundtrip.evaluations", 1);
	match par::guarded(|| b11::check_roundtrip(c)) {
		Ok(Ok(Ok((_inv, s)))) => {
			st.add("b11.roundtrip.ok", 1);
			ok = Some(s);
		},
		Ok(Ok(Err(kind))) => {
			st.add("b11.builder_rejected", 1);
			st.add(&format!("b11.builder_rejected.{}", kind), 1);
		},
		Ok(Err((oracle, detail))) => {
			let m = b11::minimise(c, oracle);
			let dmin = match par::guarded(|| b11::check_roundtrip(&m)) {
				Ok(Err((o, d))) if o == oracle => d,
				_ => detail.clone(),
			};
			viols.push(Viol {
				oracle,
				identity: crate::rt_identity(oracle, "bolt11", &dmin, &b11::cfg_desc(&m)),
				detail: format!("[{}] {}", b11::cfg_desc(c), detail),
				replay: json!({"fam": "b11-rt", "cfg": b11::cfg_json(&m)}),
				rank: 0,
			});
		},
		Err(p) => {
			let m = b11::minimise(c, "no-panic");
			viols.push(Viol {
				oracle: "no-panic",
				identity: format!("no-panic|bolt11-build-roundtrip|{}|{}", p, b11::cfg_desc(&m)),
				detail: format!("panic while building / round-tripping [{}]: {}", b11::cfg_desc(c), p),
				replay: json!({"fam": "b11-rt", "cfg": b11::cfg_json(&m)}),
				rank: 0,
			});
		},
	}
	RtOut { stats: st, viols, ok }
}

pub fn run(cx: &mut Ctx) {
	// ---- configuration families -----------------------------------------------------------
	let thorough = cx.tier.is_thorough();
	let mut fams: Vec<(&str, Vec<Cfg>)> = Vec::new();
	fams.push(("one-factor", one_factor()));
	fams.push(("pairs", pairs()));
	// product A: what is signed in the HRP / timing fields
	fams.push(("product-amount-time", product(&[(1, all(1)), (2, all(2)), (3, all(3)), (4, all(4)), (9, all(9)), (10, all(10))])));
	// product B: variable-length tagged fields
	fams.push((
		"product-fields",
		product(&[
			// the values with known lossy / unparseable encodings (htlc min/max in a hint, segwit
			// programs of 1 or 41 bytes) stay in the one-factor and pair families so that they do not
			// end the checks of a whole product slice early
			(5, (0..30).collect()),
			(6, vec![0, 1, 2, 3, 4, 5, 6, 8, 9]),
			(7, all(7)),
			(8, if thorough { all(8) } else { vec![0] }),
			(9, all(9)),
			(1, vec![0, 1, 11]),
			(11, all(11)),
		]),
	));
	let mut seen: BTreeSet<Cfg> = BTreeSet::new();
	let mut cfgs: Vec<Cfg> = Vec::new();
	let mut fam_of: Vec<usize> = Vec::new();
	for (fi, (name, list)) in fams.iter().enumerate() {
		let mut n = 0u64;
		for c in list {
			if seen.insert(*c) {
				cfgs.push(*c);
				fam_of.push(fi);
				n += 1;
			}
		}
		cx.stats.add(&format!("b11.family.{}.configs", name), n);
	}
	drop(seen);

	// ---- round trips ------------------------------------------------------------------------
	let deadline = cx.deadline;
	let mut built: Vec<(usize, Cfg)> = Vec::new();
	// batches keep the transient per-configuration results small (the thorough product has millions)
	const BATCH: usize = 100_000;
	let mut base = 0usize;
	while base < cfgs.len() {
		let end = (base + BATCH).min(cfgs.len());
		let res = par::map(&cfgs[base..end], cx.threads, |_, c| {
			if Instant::now() >= deadline {
				return None;
			}
			Some(roundtrip_one(c))
		});
		for (k, r) in res.into_iter().enumerate() {
			let i = base + k;
			match r {
				Ok(Some(o)) => {
					cx.stats.merge(&o.stats);
					for v in o.viols {
						cx.push(i as u64, v);
					}
					if let Some(s) = o.ok {
						cx.nontrivial(s.as_bytes());
						if cx.samples.len() < 6 && (i % 97 == 0) {
							cx.samples.push(json!({"family": "bolt11-roundtrip", "config": b11::cfg_desc(&cfgs[i]), "string": s}));
						}
						if fam_of[i] <= 3 {
							built.push((i, cfgs[i]));
						}
					}
				},
				Ok(None) => cx.capped = true,
				Err(p) => cx.push(i as u64, Viol {
					oracle: "no-panic",
					identity: format!("no-panic|bolt11-harness|{}", p),
					detail: format!("panic outside guarded region for [{}]: {}", b11::cfg_desc(&cfgs[i]), p),
					replay: json!({"fam": "b11-rt", "cfg": b11::cfg_json(&cfgs[i])}),
					rank: 0,
				}),
			}
		}
		base = end;
	}

	cx.lap("b11.roundtrip");
	// ---- mutations --------------------------------------------------------------------------
	// quick: deterministic subset; thorough: every built invoice of the non-wide families.
	let n_small = fams[0].1.len(); // one-factor configs come first in `cfgs`
	let len_of = |c: &Cfg| b11::build(c).map(|i| i.to_string().len()).unwrap_or(0);
	let charsub_sel: Vec<(usize, Cfg)> = built
		.iter()
		.filter(|(i, _)| if thorough { fam_of[*i] <= 3 } else { *i < n_small || (fam_of[*i] == 1 && *i % 16 == 0) || (fam_of[*i] >= 2 && *i % 1024 == 0) })
		.cloned()
		.collect();
	// checksum-recomputed mutants cost one signature recovery each: quick takes the one-factor
	// invoices of moderate length, thorough all one-factor and pair invoices plus a stride of the products
	let fixed_sel: Vec<(usize, Cfg)> = built
		.iter()
		.filter(|(i, c)| {
			if thorough {
				fam_of[*i] <= 1 || (fam_of[*i] <= 3 && *i % 64 == 0)
			} else {
				*i < n_small && len_of(c) <= 420
			}
		})
		.cloned()
		.collect();
	cx.stats.add("b11.charsub.invoices_selected", charsub_sel.len() as u64);
	cx.stats.add("b11.fixed.invoices_selected", fixed_sel.len() as u64);

	let now = Instant::now();
	let charsub_deadline = if deadline > now { now + (deadline - now).mul_f64(0.5) } else { now };
	let res = par::map(&charsub_sel, cx.threads, |_, (_, c)| {
		if Instant::now() >= charsub_deadline {
			return None;
		}
		let mut st = Stats::default();
		let mut out = Vec::new();
		if let Ok(inv) = b11::build(c) {
			let s = inv.to_string();
			b11::check_char_mutations(c, &inv, &s, &mut st, &mut out);
			st.add("b11.charsub.invoices_done", 1);
		}
		crate::dedup_by_identity(&mut out);
		Some((st, out))
	});
	merge(cx, &charsub_sel, res, "bolt11-charsub");
	cx.lap("b11.charsub");

	let res = par::map(&fixed_sel, cx.threads, |_, (_, c)| {
		if Instant::now() >= deadline {
			return None;
		}
		let mut st = Stats::default();
		let mut out = Vec::new();
		if let Ok(inv) = b11::build(c) {
			let s = inv.to_string();
			b11::check_hrp_mutations(c, &inv, &s, &mut st, &mut out);
			b11::check_structural_mutations(c, &inv, &s, &mut st, &mut out);
			b11::check_symbol_mutations(c, &inv, &s, &mut st, &mut out);
			st.add("b11.fixed.invoices_done", 1);
		}
		crate::dedup_by_identity(&mut out);
		Some((st, out))
	});
	merge(cx, &fixed_sel, res, "bolt11-fixed");
	cx.lap("b11.fixed");
}

fn merge(cx: &mut Ctx, sel: &[(usize, Cfg)], res: Vec<Result<Option<(Stats, Vec<Viol>)>, String>>, what: &str) {
	for (k, r) in res.into_iter().enumerate() {
		match r {
			Ok(Some((st, out))) => {
				cx.stats.merge(&st);
				for v in out {
					cx.push(sel[k].0 as u64, v);
				}
			},
			Ok(None) => cx.capped = true,
			Err(p) => cx.push(sel[k].0 as u64, Viol {
				oracle: "no-panic",
				identity: format!("no-panic|{}|{}", what, p),
				detail: format!("panic during {} mutations of [{}]: {}", what, b11::cfg_desc(&sel[k].1), p),
				replay: json!({"fam": "b11-rt", "cfg": b11::cfg_json(&sel[k].1)}),
				rank: 0,
			}),
		}
	}
}

/// Feeds one string to every string parser; returns how many accepted it.
fn parse_everything(s: &str) -> u32 {
	let mut ok = 0;
	ok += s.parse::<Bolt11Invoice>().is_ok() as u32;
	ok += s.parse::<SignedRawBolt11Invoice>().is_ok() as u32;
	ok += b12::parse_all_strs(s);
	ok
}

pub fn run_arbitrary(cx: &mut Ctx) {
	// all strings of <= 3 bech32 characters after each HRP, with and without the separator
	let hrps = ["lnbc", "lntb", "lnbcrt", "lno", "lnr", "lni"];
	let mut tails: Vec<String> = vec![String::new()];
	let cs = b32::CHARSET;
	for a in cs.iter() {
		tails.push((*a as char).to_string());
		for b in cs.iter() {
			tails.push(format!("{}{}", *a as char, *b as char));
			for c in cs.iter() {
				tails.push(format!("{}{}{}", *a as char, *b as char, *c as char));
			}
		}
	}
	let mut jobs: Vec<(String, usize)> = Vec::new();
	for h in hrps {
		for sep in ["1", ""] {
			let prefix = format!("{}{}", h, sep);
			// chunk the tails so that a panic is localised and the map is not too fine grained
			for chunk in 0..(tails.len() + 1023) / 1024 {
				jobs.push((prefix.clone(), chunk));
			}
		}
	}
	let tails_ref = &tails;
	let res = par::map(&jobs, cx.threads, |_, (prefix, chunk)| {
		let mut st = Stats::default();
		let mut out: Vec<Viol> = Vec::new();
		for t in tails_ref[chunk * 1024..((chunk + 1) * 1024).min(tails_ref.len())].iter() {
			let s = format!("{}{}", prefix, t);
			st.add("arb.str.evaluations", 1);
			match par::guarded(|| parse_everything(&s)) {
				Ok(0) => st.add("arb.str.rejected", 1),
				Ok(_) => st.add("arb.str.accepted", 1),
				Err(p) => out.push(Viol {
					oracle: "no-panic",
					identity: format!("no-panic|parse-str|{}", p),
					detail: format!("parsing {:?} panics: {}", s, p),
					replay: json!({"fam": "arb-str", "s": s}),
					rank: 0,
				}),
			}
		}
		(st, out)
	});
	for (k, r) in res.into_iter().enumerate() {
		if let Ok((st, out)) = r {
			cx.stats.merge(&st);
			for v in out {
				cx.push(k as u64, v);
			}
		}
	}
	// a 3-character tail cannot be a valid invoice or offer
	if cx.stats.get("arb.str.accepted") > 0 {
		cx.push(0, Viol {
			oracle: "arbitrary-short-accepted",
			identity: "arbitrary-short-accepted".into(),
			detail: "a string of at most three data characters was accepted by a payment-request parser".into(),
			replay: json!({"fam": "arb-str", "s": "lnbc1"}),
			rank: 0,
		});
	}

	// structured garbage corpus
	let corpus = b11::garbage_corpus();
	let res = par::map(&corpus, cx.threads, |_, s| par::guarded(|| parse_everything(s)));
	for (k, r) in res.into_iter().enumerate() {
		cx.stats.add("arb.corpus.evaluations", 1);
		match r {
			Ok(Ok(0)) => cx.stats.add("arb.corpus.rejected", 1),
			Ok(Ok(_)) => cx.stats.add("arb.corpus.accepted", 1),
			Ok(Err(p)) | Err(p) => {
				let s = &corpus[k];
				cx.push(k as u64, Viol {
					oracle: "no-panic",
					identity: format!("no-panic|parse-str|{}", p),
					detail: format!("parsing {:?} panics: {}", &s[..s.len().min(300)], p),
					replay: json!({"fam": "arb-str", "s": s}),
					rank: 0,
				});
			},
		}
	}
	if cx.samples.len() < 24 {
		cx.samples.push(json!({"family": "arbitrary-strings", "example": corpus[corpus.len() / 2]}));
	}
}

pub fn replay(fam: &str, r: &Value) -> Result<String, String> {
	match fam {
		"b11-rt" => {
			let c = b11::cfg_from_json(&r["cfg"]).ok_or("bad cfg")?;
			match b11::check_roundtrip(&c) {
				Ok(Ok((_, s))) => Ok(format!("round trip holds for {}", s)),
				Ok(Err(k)) => Ok(format!("builder refuses: {}", k)),
				Err((o, d)) => Err(format!("{}: {}", o, d)),
			}
		},
		"arb-str" => {
			let s = r["s"].as_str().ok_or("s")?;
			let n = parse_everything(s);
			if n > 0 && s.len() < 12 {
				Err(format!("{:?} accepted by {} parsers", s, n))
			} else {
				Ok(format!("no panic, accepted by {} parsers", n))
			}
		},
		_ => b11::replay_mutation(r),
	}
}

/// Thorough only: a wide cross product of all factors (round trip only), run last.
pub fn run_wide(cx: &mut Ctx) {
	let cfgs = product(&[
				(0, vec![0, 2]),
				(1, vec![0, 1, 2, 4, 6, 7, 8, 9, 10, 11, 12]),
				(2, vec![0, 1, 3]),
				(3, vec![0, 1, 4, 5, 8]),
				(4, vec![0, 1, 3, 4]),
				(5, (0..27).collect()),
				(6, vec![0, 2, 3, 5]),
				(7, vec![0, 1, 2]),
				(8, vec![0, 1, 4]),
				(9, all(9)),
				(10, all(10)),
			]);
	cx.stats.add("b11.family.product-wide.configs", cfgs.len() as u64);
	let deadline = cx.deadline;
	const BATCH: usize = 100_000;
	let mut base = 0usize;
	while base < cfgs.len() {
		let end = (base + BATCH).min(cfgs.len());
		let res = par::map(&cfgs[base..end], cx.threads, |_, c| {
			if Instant::now() >= deadline {
				return None;
			}
			Some(roundtrip_one(c))
		});
		for (k, r) in res.into_iter().enumerate() {
			let i = base + k;
			match r {
				Ok(Some(o)) => {
					cx.stats.merge(&o.stats);
					for v in o.viols {
						cx.push((12u64 << 32) + i as u64, v);
					}
					if let Some(s) = o.ok {
						cx.nontrivial(s.as_bytes());
						cx.stats.add("b11.family.product-wide.roundtrip_ok", 1);
					}
				},
				Ok(None) => {
					cx.capped = true;
					cx.stats.add("b11.family.product-wide.skipped_by_cap", 1);
				},
				Err(p) => cx.push(i as u64, Viol {
					oracle: "no-panic",
					identity: format!("no-panic|bolt11-harness|{}", p),
					detail: format!("panic outside guarded region for [{}]: {}", b11::cfg_desc(&cfgs[i]), p),
					replay: json!({"fam": "b11-rt", "cfg": b11::cfg_json(&cfgs[i])}),
					rank: 0,
				}),
			}
		}
		base = end;
	}
	cx.lap("b11.product-wide");
}
