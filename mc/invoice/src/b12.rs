//! BOLT-12: offers, invoice requests, invoices, refunds, static invoices through the public
//! builders; round-trip oracle, single-bit flips of signed streams, metadata verification.
use crate::b32;
use crate::{Stats, Viol};
use bitcoin::constants::ChainHash;
use bitcoin::hashes::Hash;
use bitcoin::key::TweakedPublicKey;
use bitcoin::network::Network;
use bitcoin::secp256k1::{self, Keypair, PublicKey, Secp256k1, SecretKey, XOnlyPublicKey};
use bitcoin::{WPubkeyHash, WScriptHash};
use lightning::blinded_path::message::BlindedMessagePath;
use lightning::blinded_path::payment::{BlindedPayInfo, BlindedPaymentPath};
use lightning::blinded_path::BlindedHop;
use lightning::ln::channelmanager::PaymentId;
use lightning::ln::inbound_payment::ExpandedKey;
use lightning::offers::invoice::{Bolt12Invoice, UnsignedBolt12Invoice};
use lightning::offers::invoice_request::{InvoiceRequest, InvoiceRequestVerifiedFromOffer};
use lightning::offers::nonce::Nonce;
use lightning::offers::offer::{Amount, Offer, OfferBuilder, Quantity};
use lightning::offers::refund::{Refund, RefundBuilder};
use lightning::offers::static_invoice::{StaticInvoice, StaticInvoiceBuilder};
use lightning::onion_message::dns_resolution::HumanReadableName;
use lightning::sign::EntropySource;
use lightning::types::features::BlindedHopFeatures;
use lightning::types::payment::PaymentHash;
use lightning::util::ser::Writeable;
use mc_common::{hex, json, Value};
use std::num::NonZeroU64;
use std::time::Duration;

pub const MAX_VALUE_MSAT: u64 = 21_000_000_0000_0000_000;
pub const FAR_FUTURE: u64 = 1 << 40;

pub struct Fix {
	pub secp: Secp256k1<secp256k1::All>,
	pub recipient_key: ExpandedKey,
	pub payer_key: ExpandedKey,
	pub other_key: ExpandedKey,
	pub recipient_keys: Keypair,
	pub payer_node: Keypair,
	pub refundee_keys: Keypair,
}

pub fn fix() -> Fix {
	let secp = Secp256k1::new();
	let kp = |b: u8| Keypair::from_secret_key(&secp, &SecretKey::from_slice(&[b; 32]).unwrap());
	Fix {
		recipient_key: ExpandedKey::new([0xa1; 32]),
		payer_key: ExpandedKey::new([0xb2; 32]),
		other_key: ExpandedKey::new([0xc3; 32]),
		recipient_keys: kp(43),
		payer_node: kp(42),
		refundee_keys: kp(44),
		secp,
	}
}

pub fn nonce(b: u8) -> Nonce {
	Nonce::try_from(&[b; 16][..]).unwrap()
}
pub const OFFER_NONCE: u8 = 0x11;
pub const OTHER_NONCE: u8 = 0x22;
pub const PAYER_NONCE: u8 = 0x33;
pub const PAYMENT_ID: [u8; 32] = [0x55; 32];
pub const PAYMENT_HASH: [u8; 32] = [0x66; 32];

struct FixedEntropy(u8);
impl EntropySource for FixedEntropy {
	fn get_secure_random_bytes(&self) -> [u8; 32] {
		[self.0; 32]
	}
}

fn pk(b: u8) -> PublicKey {
	let secp = Secp256k1::signing_only();
	PublicKey::from_secret_key(&secp, &SecretKey::from_slice(&[b; 32]).unwrap())
}

pub fn message_path(i: u8) -> BlindedMessagePath {
	BlindedMessagePath::from_blinded_path(
		pk(40 + i),
		pk(41),
		vec![
			BlindedHop { blinded_node_id: pk(50 + i), encrypted_payload: vec![i; 43] },
			BlindedHop { blinded_node_id: pk(60 + i), encrypted_payload: vec![0; 44 + i as usize] },
		],
	)
}

pub fn payment_path(i: u8) -> BlindedPaymentPath {
	BlindedPaymentPath::from_blinded_path_and_payinfo(
		pk(70 + i),
		pk(71),
		vec![
			BlindedHop { blinded_node_id: pk(80 + i), encrypted_payload: vec![1; 43] },
			BlindedHop { blinded_node_id: pk(90 + i), encrypted_payload: vec![2; 44] },
		],
		if i == 0 {
			BlindedPayInfo {
				fee_base_msat: 1,
				fee_proportional_millionths: 1_000,
				cltv_expiry_delta: 42,
				htlc_minimum_msat: 100,
				htlc_maximum_msat: 1_000_000_000_000,
				features: BlindedHopFeatures::empty(),
			}
		} else {
			BlindedPayInfo {
				fee_base_msat: u32::MAX,
				fee_proportional_millionths: 0,
				cltv_expiry_delta: u16::MAX,
				htlc_minimum_msat: 0,
				htlc_maximum_msat: u64::MAX,
				features: BlindedHopFeatures::empty(),
			}
		},
	)
}

// ---------------------------------------------------------------------------------------------
// independent TLV walker

#[derive(Clone, Debug)]
pub struct Rec {
	pub typ: u64,
	pub start: usize,
	pub val: usize,
	pub end: usize,
}

fn read_bigsize(b: &[u8], p: usize) -> Option<(u64, usize)> {
	let f = *b.get(p)?;
	match f {
		0xfd => Some((u16::from_be_bytes(b.get(p + 1..p + 3)?.try_into().ok()?) as u64, p + 3)),
		0xfe => Some((u32::from_be_bytes(b.get(p + 1..p + 5)?.try_into().ok()?) as u64, p + 5)),
		0xff => Some((u64::from_be_bytes(b.get(p + 1..p + 9)?.try_into().ok()?), p + 9)),
		x => Some((x as u64, p + 1)),
	}
}

pub fn tlv_records(b: &[u8]) -> Option<Vec<Rec>> {
	let mut out = Vec::new();
	let mut p = 0;
	while p < b.len() {
		let (t, p1) = read_bigsize(b, p)?;
		let (l, p2) = read_bigsize(b, p1)?;
		let end = p2.checked_add(l as usize)?;
		if end > b.len() {
			return None;
		}
		out.push(Rec { typ: t, start: p, val: p2, end });
		p = end;
	}
	Some(out)
}

pub fn region_of(b: &[u8], bit: usize) -> String {
	let byte = bit / 8;
	match tlv_records(b) {
		Some(recs) => {
			for r in recs {
				if byte >= r.start && byte < r.end {
					let part = if byte < r.val { "header" } else { "value" };
					return format!("tlv{}-{}", r.typ, part);
				}
			}
			"outside".into()
		},
		None => "malformed".into(),
	}
}

// ---------------------------------------------------------------------------------------------
// offers

pub const ONF: usize = 8;
pub const OFFER_FACTOR_NAMES: [&str; ONF] =
	["keymode", "paths", "amount", "quantity", "chains", "expiry", "description", "issuer"];
pub const OFFER_FACTOR_SIZES: [usize; ONF] = [4, 3, 6, 5, 5, 5, 3, 2];
pub type OCfg = [u8; ONF];

pub fn ocfg_desc(c: &OCfg) -> String {
	let mut p = Vec::new();
	for i in 0..ONF {
		if c[i] != 0 {
			p.push(format!("{}={}", OFFER_FACTOR_NAMES[i], c[i]));
		}
	}
	if p.is_empty() {
		"defaults".into()
	} else {
		p.join(",")
	}
}

fn arr_from_json<const N: usize>(v: &Value, sizes: &[usize; N]) -> Option<[u8; N]> {
	let a = v.as_array()?;
	if a.len() != N {
		return None;
	}
	let mut c = [0u8; N];
	for i in 0..N {
		let x = a[i].as_u64()? as usize;
		if x >= sizes[i] {
			return None;
		}
		c[i] = x as u8;
	}
	Some(c)
}

pub fn ocfg_from_json(v: &Value) -> Option<OCfg> {
	arr_from_json(v, &OFFER_FACTOR_SIZES)
}

fn o_amount(i: u8) -> Option<u64> {
	match i {
		0 => None,
		1 => Some(1),
		2 => Some(1000),
		3 => Some(MAX_VALUE_MSAT),
		4 => Some(0),                  // rejected
		_ => Some(MAX_VALUE_MSAT + 1), // rejected
	}
}
fn o_quantity(i: u8) -> Quantity {
	match i {
		0 => Quantity::One,
		1 => Quantity::Bounded(NonZeroU64::new(1).unwrap()),
		2 => Quantity::Bounded(NonZeroU64::new(10).unwrap()),
		3 => Quantity::Bounded(NonZeroU64::new(u64::MAX).unwrap()),
		_ => Quantity::Unbounded,
	}
}
fn o_chains(i: u8) -> Vec<Network> {
	match i {
		0 => vec![],
		1 => vec![Network::Bitcoin],
		2 => vec![Network::Testnet],
		3 => vec![Network::Bitcoin, Network::Testnet],
		_ => vec![Network::Testnet, Network::Bitcoin, Network::Signet, Network::Testnet],
	}
}
fn o_expiry(i: u8) -> Option<Duration> {
	match i {
		0 => None,
		1 => Some(Duration::from_secs(FAR_FUTURE)),
		2 => Some(Duration::from_secs(0)),
		3 => Some(Duration::from_secs(u64::MAX)),
		_ => Some(Duration::new(FAR_FUTURE, 500_000_000)),
	}
}
fn o_description(i: u8) -> Option<String> {
	match i {
		0 => None,
		1 => Some(String::new()),
		_ => Some("caf\u{e9} \u{2615}".to_string()),
	}
}

pub fn offer_is_live(c: &OCfg) -> bool {
	matches!(c[5], 0 | 1 | 3 | 4)
}

pub fn build_offer(fx: &Fix, c: &OCfg) -> Result<Offer, String> {
	macro_rules! common {
		($b: expr) => {{
			let mut b = $b;
			for p in 0..c[1] {
				b = b.path(message_path(p));
			}
			if let Some(a) = o_amount(c[2]) {
				b = b.amount_msats(a);
			}
			b = b.supported_quantity(o_quantity(c[3]));
			for n in o_chains(c[4]) {
				b = b.chain(n);
			}
			if let Some(e) = o_expiry(c[5]) {
				b = b.absolute_expiry(e);
			}
			if let Some(d) = o_description(c[6]) {
				b = b.description(d);
			}
			if c[7] == 1 {
				b = b.issuer("issuer@example.com".to_string());
			}
			b.build().map_err(|e| format!("{:?}", e))
		}};
	}
	let node_id = fx.recipient_keys.public_key();
	match c[0] {
		0 => common!(OfferBuilder::new(node_id)),
		1 => common!(OfferBuilder::new(node_id).metadata(vec![0xde, 0xad, 0xbe, 0xef]).unwrap()),
		2 => common!(OfferBuilder::new(node_id).metadata(vec![]).unwrap()),
		_ => common!(OfferBuilder::deriving_signing_pubkey(node_id, &fx.recipient_key, nonce(OFFER_NONCE), &fx.secp)),
	}
}

pub fn offer_accessors(o: &Offer) -> String {
	format!(
		"chains={:?}\x1fmetadata={:?}\x1famount={:?}\x1fdescription={:?}\x1ffeatures={:?}\x1fexpiry={:?}\x1fissuer={:?}\x1fpaths={:?}\x1fquantity={:?}\x1fsigning_pubkey={:?}\x1fid={:?}\x1fexpects_quantity={}",
		o.chains(),
		o.metadata(),
		o.amount(),
		o.description().map(|d| d.0.to_string()),
		o.offer_features(),
		o.absolute_expiry(),
		o.issuer().map(|d| d.0.to_string()),
		o.paths(),
		o.supported_quantity(),
		o.issuer_signing_pubkey(),
		o.id(),
		o.expects_quantity(),
	)
}

type CheckErr = (&'static str, String);

/// Offer round trip (bytes and bech32) + expectations from the configuration.
pub fn check_offer(fx: &Fix, c: &OCfg) -> Result<Result<Offer, String>, CheckErr> {
	let offer = match build_offer(fx, c) {
		Ok(o) => o,
		Err(k) => return Ok(Err(k)),
	};
	let bytes: Vec<u8> = offer.as_ref().to_vec();
	let mut enc = Vec::new();
	offer.write(&mut enc).unwrap();
	if enc != bytes {
		return Err(("bolt12-offer-encode", "Writeable encoding differs from AsRef bytes".into()));
	}
	let parsed = match Offer::try_from(bytes.clone()) {
		Ok(p) => p,
		Err(e) => return Err(("bolt12-offer-roundtrip-parse", format!("built offer {} does not parse: {:?}", hex(&bytes), e))),
	};
	if parsed != offer || parsed.as_ref() != &bytes[..] {
		return Err(("bolt12-offer-roundtrip-equal", format!("parsed offer differs for {}", hex(&bytes))));
	}
	let (ab, ap) = (offer_accessors(&offer), offer_accessors(&parsed));
	if ab != ap {
		return Err(("bolt12-offer-roundtrip-accessors", crate::diff_detail(&ab, &ap)));
	}
	let s = offer.to_string();
	match s.parse::<Offer>() {
		Ok(p) if p == offer && offer_accessors(&p) == ab => {},
		o => return Err(("bolt12-offer-roundtrip-bech32", format!("{} -> {:?}", s, o.map(|x| hex(x.as_ref()))))),
	}
	// independent bech32 encoding of the bytes must be what Display produced, and the '+' split form parses
	let mine = b32::encode_nochecksum("lno", &b32::bytes_to_5(&bytes));
	if mine != s {
		return Err(("bolt12-offer-bech32-encoding", format!("Display gives {} but the bytes encode to {}", s, mine)));
	}
	if s.len() > 12 {
		let split = format!("{}+\n  {}+{}", &s[..5], &s[5..9], &s[9..]);
		match split.parse::<Offer>() {
			Ok(p) if p == offer => {},
			o => return Err(("bolt12-offer-roundtrip-continuation", format!("{:?} -> {:?}", split, o.map(|x| hex(x.as_ref()))))),
		}
	}
	// expectations from the configuration
	let mut bad = Vec::new();
	if parsed.amount() != o_amount(c[2]).map(|a| Amount::Bitcoin { amount_msats: a }) {
		bad.push(format!("amount {:?}", parsed.amount()));
	}
	if parsed.absolute_expiry() != o_expiry(c[5]) {
		bad.push(format!("absolute_expiry {:?} != {:?}", parsed.absolute_expiry(), o_expiry(c[5])));
	}
	let exp_paths: Vec<BlindedMessagePath> = (0..c[1]).map(message_path).collect();
	if parsed.paths() != &exp_paths[..] {
		bad.push("paths".into());
	}
	if parsed.supported_quantity() != o_quantity(c[3]) {
		bad.push("quantity".into());
	}
	let mut exp_chains: Vec<ChainHash> = Vec::new();
	for n in o_chains(c[4]) {
		let h = ChainHash::using_genesis_block(n);
		if !exp_chains.contains(&h) {
			exp_chains.push(h);
		}
	}
	if exp_chains.is_empty() {
		exp_chains.push(ChainHash::using_genesis_block(Network::Bitcoin));
	}
	if parsed.chains() != exp_chains {
		bad.push("chains".into());
	}
	let exp_desc = match (o_description(c[6]), o_amount(c[2])) {
		(Some(d), _) => Some(d),
		(None, Some(_)) => Some(String::new()),
		(None, None) => None,
	};
	if parsed.description().map(|d| d.0.to_string()) != exp_desc {
		bad.push("description".into());
	}
	if parsed.issuer().map(|d| d.0.to_string()) != if c[7] == 1 { Some("issuer@example.com".to_string()) } else { None } {
		bad.push("issuer".into());
	}
	let node_id = fx.recipient_keys.public_key();
	match c[0] {
		0 => {
			if parsed.metadata().is_some() || parsed.issuer_signing_pubkey() != Some(node_id) {
				bad.push("metadata/signing key (explicit)".into());
			}
		},
		1 => {
			if parsed.metadata() != Some(&vec![0xde, 0xad, 0xbe, 0xef]) || parsed.issuer_signing_pubkey() != Some(node_id) {
				bad.push("metadata/signing key (explicit metadata)".into());
			}
		},
		2 => {
			if parsed.metadata() != Some(&vec![]) || parsed.issuer_signing_pubkey() != Some(node_id) {
				bad.push("metadata/signing key (empty metadata)".into());
			}
		},
		_ => {
			if c[1] == 0 {
				if parsed.metadata().map(|m| m.len()) != Some(48) || parsed.issuer_signing_pubkey() != Some(node_id) {
					bad.push("derived metadata / node id".into());
				}
			} else if parsed.metadata().is_some() || parsed.issuer_signing_pubkey() == Some(node_id) || parsed.issuer_signing_pubkey().is_none() {
				bad.push("derived signing pubkey".into());
			}
		},
	}
	if !bad.is_empty() {
		return Err(("bolt12-offer-roundtrip-expected", format!("offer {} exposes other values than given to the builder: {}", hex(&bytes), bad.join("; "))));
	}
	Ok(Ok(offer))
}

// ---------------------------------------------------------------------------------------------
// invoice requests

pub const RNF: usize = 5;
pub const REQ_FACTOR_SIZES: [usize; RNF] = [3, 4, 5, 2, 2];
pub type RCfg = [u8; RNF];

pub fn rcfg_from_json(v: &Value) -> Option<RCfg> {
	arr_from_json(v, &REQ_FACTOR_SIZES)
}

fn r_quantity(i: u8) -> Option<u64> {
	match i {
		0 => None,
		1 => Some(1),
		2 => Some(2),
		3 => Some(10),
		_ => Some(11),
	}
}

fn r_amount(oc: &OCfg, rc: &RCfg) -> Option<u64> {
	let base = o_amount(oc[2]).unwrap_or(1000).saturating_mul(r_quantity(rc[2]).unwrap_or(1));
	match rc[1] {
		0 => None,
		1 => Some(base),
		2 => Some(base.saturating_add(1)),
		_ => Some(base.saturating_sub(1)),
	}
}

fn r_chain(i: u8) -> Option<Network> {
	match i {
		0 => None,
		1 => Some(Network::Testnet),
		_ => Some(Network::Bitcoin),
	}
}

pub fn build_request(fx: &Fix, offer: &Offer, oc: &OCfg, rc: &RCfg) -> Result<InvoiceRequest, String> {
	let e = |e| format!("{:?}", e);
	let mut b = offer
		.request_invoice(&fx.payer_key, nonce(PAYER_NONCE), &fx.secp, PaymentId(PAYMENT_ID))
		.map_err(e)?;
	if let Some(n) = r_chain(rc[0]) {
		b = b.chain(n).map_err(e)?;
	}
	if let Some(q) = r_quantity(rc[2]) {
		b = b.quantity(q).map_err(e)?;
	}
	if let Some(a) = r_amount(oc, rc) {
		b = b.amount_msats(a).map_err(e)?;
	}
	if rc[3] == 1 {
		b = b.payer_note("thanks \u{2615}".to_string());
	}
	if rc[4] == 1 {
		b = b.sourced_from_human_readable_name(HumanReadableName::new("matt", "mattcorallo.com").unwrap());
	}
	b.build_and_sign().map_err(e)
}

pub fn request_accessors(r: &InvoiceRequest) -> String {
	format!(
		"chains={:?}\x1fmetadata={:?}\x1famount={:?}\x1fdescription={:?}\x1ffeatures={:?}\x1fexpiry={:?}\x1fissuer={:?}\x1fpaths={:?}\x1fquantity={:?}\x1fsigning_pubkey={:?}\x1fpayer_metadata={}\x1fchain={:?}\x1famount_msats={:?}\x1fhas_amount={}\x1freq_features={:?}\x1fquantity={:?}\x1fpayer={:?}\x1fnote={:?}\x1fhrn={:?}\x1fsig={:?}",
		r.chains(),
		r.metadata(),
		r.amount(),
		r.description().map(|d| d.0.to_string()),
		r.offer_features(),
		r.absolute_expiry(),
		r.issuer().map(|d| d.0.to_string()),
		r.paths(),
		r.supported_quantity(),
		r.issuer_signing_pubkey(),
		hex(r.payer_metadata()),
		r.chain(),
		r.amount_msats(),
		r.has_amount_msats(),
		r.invoice_request_features(),
		r.quantity(),
		r.payer_signing_pubkey(),
		r.payer_note().map(|d| d.0.to_string()),
		r.offer_from_hrn(),
		r.signature(),
	)
}

pub fn check_request(fx: &Fix, offer: &Offer, oc: &OCfg, rc: &RCfg) -> Result<Result<InvoiceRequest, String>, CheckErr> {
	let req = match build_request(fx, offer, oc, rc) {
		Ok(r) => r,
		Err(k) => return Ok(Err(k)),
	};
	let bytes = req.encode();
	let parsed = match InvoiceRequest::try_from(bytes.clone()) {
		Ok(p) => p,
		Err(e) => return Err(("bolt12-invreq-roundtrip-parse", format!("built invoice request {} does not parse: {:?}", hex(&bytes), e))),
	};
	if parsed != req || parsed.encode() != bytes {
		return Err(("bolt12-invreq-roundtrip-equal", format!("parsed invoice request differs for {}", hex(&bytes))));
	}
	let (ab, ap) = (request_accessors(&req), request_accessors(&parsed));
	if ab != ap {
		return Err(("bolt12-invreq-roundtrip-accessors", crate::diff_detail(&ab, &ap)));
	}
	let mut bad = Vec::new();
	let q = r_quantity(rc[2]);
	if parsed.quantity() != q {
		bad.push("quantity".to_string());
	}
	let exp_amount = match r_amount(oc, rc) {
		Some(a) => Some(a),
		None => o_amount(oc[2]).map(|a| a * q.unwrap_or(1)),
	};
	if parsed.amount_msats() != exp_amount || parsed.has_amount_msats() != r_amount(oc, rc).is_some() {
		bad.push(format!("amount_msats {:?} != {:?}", parsed.amount_msats(), exp_amount));
	}
	let exp_chain = ChainHash::using_genesis_block(r_chain(rc[0]).unwrap_or(Network::Bitcoin));
	if parsed.chain() != exp_chain {
		bad.push("chain".into());
	}
	if parsed.payer_note().map(|d| d.0.to_string()) != if rc[3] == 1 { Some("thanks \u{2615}".to_string()) } else { None } {
		bad.push("payer_note".into());
	}
	if parsed.offer_from_hrn().is_some() != (rc[4] == 1) {
		bad.push("hrn".into());
	}
	if parsed.payer_metadata().len() != 48 {
		bad.push("payer metadata length".into());
	}
	// the offer part is reflected unchanged
	if parsed.paths() != offer.paths() || parsed.amount() != offer.amount() || parsed.absolute_expiry() != offer.absolute_expiry()
		|| parsed.issuer_signing_pubkey() != offer.issuer_signing_pubkey() || parsed.metadata() != offer.metadata()
		|| parsed.chains() != offer.chains() || parsed.supported_quantity() != offer.supported_quantity()
	{
		bad.push("reflected offer fields".into());
	}
	if !bad.is_empty() {
		return Err(("bolt12-invreq-roundtrip-expected", format!("invoice request {} exposes other values than given: {}", hex(&bytes), bad.join("; "))));
	}
	Ok(Ok(req))
}

/// Recipient-side stateless verification of a (parsed) request for an offer of key mode `oc[0]`,
/// paths `oc[1]`. Genuine must be accepted under the recipient's key + nonce and under nothing else.
pub fn check_request_verification(fx: &Fix, offer: &Offer, oc: &OCfg, req: &InvoiceRequest, st: &mut Stats) -> Result<(), CheckErr> {
	let vm = |k: &ExpandedKey| req.clone().verify_using_metadata(k, &fx.secp);
	let vr = |n: u8, k: &ExpandedKey| req.clone().verify_using_recipient_data(nonce(n), k, &fx.secp);
	let derived = oc[0] == 3;
	let id_ok = |v: &InvoiceRequestVerifiedFromOffer| v.offer_id() == offer.id();
	if derived && oc[1] == 0 {
		match vm(&fx.recipient_key) {
			Ok(v) if id_ok(&v) && matches!(v, InvoiceRequestVerifiedFromOffer::ExplicitKeys(_)) => st.add("b12.verify.invreq.metadata.genuine_accepted", 1),
			Ok(_) => return Err(("bolt12-verify-invreq-wrong-result", "verify_using_metadata accepted with wrong offer id / key kind".into())),
			Err(()) => return Err(("bolt12-verify-invreq-genuine-refused", "verify_using_metadata refuses a genuine request".into())),
		}
	} else if derived {
		match vr(OFFER_NONCE, &fx.recipient_key) {
			Ok(InvoiceRequestVerifiedFromOffer::DerivedKeys(v)) if v.offer_id == offer.id() && Some(v.issuer_signing_pubkey().unwrap()) == offer.issuer_signing_pubkey() => {
				st.add("b12.verify.invreq.recipient_data.genuine_accepted", 1)
			},
			Ok(_) => return Err(("bolt12-verify-invreq-wrong-result", "verify_using_recipient_data accepted with wrong offer id / key kind".into())),
			Err(()) => return Err(("bolt12-verify-invreq-genuine-refused", "verify_using_recipient_data refuses a genuine request".into())),
		}
		if vr(OTHER_NONCE, &fx.recipient_key).is_ok() {
			return Err(("bolt12-verify-invreq-other-nonce", "verify_using_recipient_data accepts under a different nonce".into()));
		}
		st.add("b12.verify.invreq.refused_other_nonce", 1);
		if vm(&fx.recipient_key).is_ok() {
			return Err(("bolt12-verify-invreq-wrong-method", "verify_using_metadata accepts a request for an offer without metadata".into()));
		}
		st.add("b12.verify.invreq.refused_wrong_method", 1);
	} else {
		// explicit offers were not derived from any ExpandedKey
		if vm(&fx.recipient_key).is_ok() || vr(OFFER_NONCE, &fx.recipient_key).is_ok() {
			return Err(("bolt12-verify-invreq-not-derived", "verification accepts a request for an offer that was not derived from the key".into()));
		}
		st.add("b12.verify.invreq.refused_not_derived", 1);
	}
	if derived && oc[1] == 0 && vr(OFFER_NONCE, &fx.recipient_key).is_ok() {
		return Err(("bolt12-verify-invreq-wrong-method", "verify_using_recipient_data accepts a metadata-verified offer's request".into()));
	}
	// another node's key material
	if vm(&fx.other_key).is_ok() || vr(OFFER_NONCE, &fx.other_key).is_ok() || vm(&fx.payer_key).is_ok() || vr(PAYER_NONCE, &fx.payer_key).is_ok() {
		return Err(("bolt12-verify-invreq-other-key", "request verification accepts under another node's ExpandedKey".into()));
	}
	st.add("b12.verify.invreq.refused_other_key", 1);
	Ok(())
}

// ---------------------------------------------------------------------------------------------
// invoices

pub const INF: usize = 5;
pub const INV_FACTOR_SIZES: [usize; INF] = [2, 4, 5, 2, 4];
pub type ICfg = [u8; INF];
pub fn icfg_from_json(v: &Value) -> Option<ICfg> {
	arr_from_json(v, &INV_FACTOR_SIZES)
}

fn i_paths(i: u8) -> Vec<BlindedPaymentPath> {
	(0..=i).map(payment_path).collect()
}
fn i_rel_expiry(i: u8) -> Option<u32> {
	match i {
		0 => None,
		1 => Some(0),
		2 => Some(3600),
		_ => Some(u32::MAX),
	}
}
fn i_created_at(i: u8) -> Duration {
	match i {
		0 => Duration::from_secs(1_700_000_000),
		1 => Duration::from_secs(0),
		2 => Duration::from_secs(u64::MAX),
		_ => Duration::new(1_700_000_000, 123_456_789),
	}
}

macro_rules! apply_invoice_opts {
	($b: expr, $ic: expr) => {{
		let mut b = $b;
		if let Some(e) = i_rel_expiry($ic[1]) {
			b = b.relative_expiry(e);
		}
		let wsh = WScriptHash::from_byte_array([0x71; 32]);
		let wpkh = WPubkeyHash::from_byte_array([0x72; 20]);
		let tr = TweakedPublicKey::dangerous_assume_tweaked(XOnlyPublicKey::from_slice(&pk(0x73).serialize()[1..]).unwrap());
		match $ic[2] {
			1 => b = b.fallback_v0_p2wsh(&wsh),
			2 => b = b.fallback_v0_p2wpkh(&wpkh),
			3 => b = b.fallback_v1_p2tr_tweaked(&tr),
			4 => b = b.fallback_v0_p2wsh(&wsh).fallback_v0_p2wpkh(&wpkh).fallback_v1_p2tr_tweaked(&tr),
			_ => {},
		}
		if $ic[3] == 1 {
			b = b.allow_mpp();
		}
		b
	}};
}

fn sign_with<'a>(secp: &'a Secp256k1<secp256k1::All>, keys: &'a Keypair) -> impl Fn(&UnsignedBolt12Invoice) -> Result<secp256k1::schnorr::Signature, ()> + 'a {
	move |m: &UnsignedBolt12Invoice| Ok(secp.sign_schnorr_no_aux_rand(m.as_ref().as_digest(), keys))
}

/// Builds the invoice the recipient would send for a (parsed, genuine) request.
pub fn build_invoice(fx: &Fix, oc: &OCfg, req: &InvoiceRequest, ic: &ICfg) -> Result<Bolt12Invoice, String> {
	let e = |e| format!("{:?}", e);
	let paths = i_paths(ic[0]);
	let hash = PaymentHash(PAYMENT_HASH);
	let at = i_created_at(ic[4]);
	if oc[0] == 3 {
		let verified = if oc[1] == 0 {
			req.clone().verify_using_metadata(&fx.recipient_key, &fx.secp)
		} else {
			req.clone().verify_using_recipient_data(nonce(OFFER_NONCE), &fx.recipient_key, &fx.secp)
		}
		.map_err(|()| "verification failed".to_string())?;
		match verified {
			InvoiceRequestVerifiedFromOffer::DerivedKeys(v) => {
				let b = v.respond_using_derived_keys_no_std(paths, hash, at).map_err(e)?;
				apply_invoice_opts!(b, ic).build_and_sign(&fx.secp).map_err(e)
			},
			InvoiceRequestVerifiedFromOffer::ExplicitKeys(v) => {
				let b = v.respond_with_no_std(paths, hash, at).map_err(e)?;
				let u = apply_invoice_opts!(b, ic).build().map_err(e)?;
				u.sign(sign_with(&fx.secp, &fx.recipient_keys)).map_err(|e| format!("{:?}", e))
			},
		}
	} else {
		let b = req.respond_with_no_std(paths, hash, at).map_err(e)?;
		let u = apply_invoice_opts!(b, ic).build().map_err(e)?;
		u.sign(sign_with(&fx.secp, &fx.recipient_keys)).map_err(|e| format!("{:?}", e))
	}
}

pub fn invoice_accessors(i: &Bolt12Invoice) -> String {
	format!(
		"paths={:?}\x1fcreated_at={:?}\x1frelative_expiry={:?}\x1ffallbacks={:?}\x1ffeatures={:?}\x1fsigning_pubkey={:?}\x1ffor_refund={}\x1foffer_chains={:?}\x1fchain={:?}\x1fmetadata={:?}\x1famount={:?}\x1foffer_features={:?}\x1fdescription={:?}\x1fabsolute_expiry={:?}\x1fissuer={:?}\x1fmessage_paths={:?}\x1fsupported_quantity={:?}\x1fissuer_signing_pubkey={:?}\x1fpayer_metadata={}\x1freq_features={:?}\x1fquantity={:?}\x1fpayer={:?}\x1fnote={:?}\x1fpayment_hash={:?}\x1famount_msats={}\x1fsig={:?}\x1fhash={}\x1foffer_id={:?}",
		i.payment_paths(),
		i.created_at(),
		i.relative_expiry(),
		i.fallbacks(),
		i.invoice_features(),
		i.signing_pubkey(),
		i.is_for_refund(),
		i.offer_chains(),
		i.chain(),
		i.metadata(),
		i.amount(),
		i.offer_features(),
		i.description().map(|d| d.0.to_string()),
		i.absolute_expiry(),
		i.issuer().map(|d| d.0.to_string()),
		i.message_paths(),
		i.supported_quantity(),
		i.issuer_signing_pubkey(),
		hex(i.payer_metadata()),
		i.invoice_request_features(),
		i.quantity(),
		i.payer_signing_pubkey(),
		i.payer_note().map(|d| d.0.to_string()),
		i.payment_hash(),
		i.amount_msats(),
		i.signature(),
		hex(&i.signable_hash()),
		i.offer_id(),
	)
}

fn expected_fallback_count(ic: &ICfg) -> usize {
	match ic[2] {
		0 => 0,
		4 => 3,
		_ => 1,
	}
}

/// Round trip of a built invoice + expectations; `exp_amount` is what the request / refund fixes.
pub fn check_invoice_roundtrip(inv: &Bolt12Invoice, ic: &ICfg, exp_amount: u64, exp_signer: Option<PublicKey>) -> Result<Vec<u8>, CheckErr> {
	let bytes = inv.encode();
	let parsed = match Bolt12Invoice::try_from(bytes.clone()) {
		Ok(p) => p,
		Err(e) => return Err(("bolt12-invoice-roundtrip-parse", format!("built invoice {} does not parse: {:?}", hex(&bytes), e))),
	};
	if parsed != *inv || parsed.encode() != bytes {
		return Err(("bolt12-invoice-roundtrip-equal", format!("parsed invoice differs for {}", hex(&bytes))));
	}
	let (ab, ap) = (invoice_accessors(inv), invoice_accessors(&parsed));
	if ab != ap {
		return Err(("bolt12-invoice-roundtrip-accessors", crate::diff_detail(&ab, &ap)));
	}
	let mut bad = Vec::new();
	if parsed.amount_msats() != exp_amount {
		bad.push(format!("amount_msats {} != {}", parsed.amount_msats(), exp_amount));
	}
	if parsed.created_at() != i_created_at(ic[4]) {
		bad.push(format!("created_at {:?} != {:?}", parsed.created_at(), i_created_at(ic[4])));
	}
	let exp_rel = Duration::from_secs(i_rel_expiry(ic[1]).map(|x| x as u64).unwrap_or(7200));
	if parsed.relative_expiry() != exp_rel {
		bad.push(format!("relative_expiry {:?} != {:?}", parsed.relative_expiry(), exp_rel));
	}
	if parsed.payment_hash() != PaymentHash(PAYMENT_HASH) {
		bad.push("payment_hash".into());
	}
	if parsed.payment_paths() != &i_paths(ic[0])[..] {
		bad.push("payment_paths".into());
	}
	if parsed.invoice_features().supports_basic_mpp() != (ic[3] == 1) || parsed.invoice_features().requires_unknown_bits() {
		bad.push("features".into());
	}
	if parsed.fallbacks().len() != expected_fallback_count(ic) {
		bad.push(format!("fallbacks {:?}", parsed.fallbacks()));
	}
	if let Some(k) = exp_signer {
		if parsed.signing_pubkey() != k {
			bad.push("signing_pubkey".into());
		}
	}
	if !bad.is_empty() {
		return Err(("bolt12-invoice-roundtrip-expected", format!("invoice {} exposes other values than given: {}", hex(&bytes), bad.join("; "))));
	}
	Ok(bytes)
}

/// Payer-side stateless verification of a (genuine, parsed) invoice.
pub fn check_invoice_verification(fx: &Fix, inv: &Bolt12Invoice, st: &mut Stats, what: &str) -> Result<(), CheckErr> {
	match inv.verify_using_metadata(&fx.payer_key, &fx.secp) {
		Ok(id) if id.0 == PAYMENT_ID => st.add(&format!("b12.verify.{}.genuine_accepted", what), 1),
		Ok(id) => return Err(("bolt12-verify-invoice-wrong-payment-id", format!("verify_using_metadata returns payment id {}", hex(&id.0)))),
		Err(()) => return Err(("bolt12-verify-invoice-genuine-refused", "Bolt12Invoice::verify_using_metadata refuses a genuine invoice".into())),
	}
	for k in [&fx.other_key, &fx.recipient_key] {
		if inv.verify_using_metadata(k, &fx.secp).is_ok() {
			return Err(("bolt12-verify-invoice-other-key", "Bolt12Invoice::verify_using_metadata accepts under another node's ExpandedKey".into()));
		}
	}
	st.add(&format!("b12.verify.{}.refused_other_key", what), 1);
	match inv.derive_payer_signing_keys(&fx.payer_key, &fx.secp) {
		Ok(k) if k.public_key() == inv.payer_signing_pubkey() => {},
		Ok(_) => return Err(("bolt12-verify-invoice-derive-keys", "derive_payer_signing_keys returns a key other than the payer signing pubkey".into())),
		Err(()) => {
			// only derived payer keys can be recovered (refund without paths uses the node id)
			st.add(&format!("b12.verify.{}.payer_keys_not_derivable", what), 1);
		},
	}
	if inv.derive_payer_signing_keys(&fx.other_key, &fx.secp).is_ok() {
		return Err(("bolt12-verify-invoice-other-key", "derive_payer_signing_keys succeeds under another node's ExpandedKey".into()));
	}
	Ok(())
}

// ---------------------------------------------------------------------------------------------
// refunds

pub const FNF: usize = 8;
pub const REFUND_FACTOR_SIZES: [usize; FNF] = [3, 3, 5, 3, 4, 5, 2, 2];
pub const REFUND_FACTOR_NAMES: [&str; FNF] = ["keymode", "paths", "amount", "chain", "quantity", "expiry", "note", "issuer"];
pub type FCfg = [u8; FNF];
pub fn fcfg_from_json(v: &Value) -> Option<FCfg> {
	arr_from_json(v, &REFUND_FACTOR_SIZES)
}
pub fn fcfg_desc(c: &FCfg) -> String {
	let mut p = Vec::new();
	for i in 0..FNF {
		if c[i] != 0 {
			p.push(format!("{}={}", REFUND_FACTOR_NAMES[i], c[i]));
		}
	}
	if p.is_empty() {
		"defaults".into()
	} else {
		p.join(",")
	}
}

fn f_amount(i: u8) -> u64 {
	match i {
		0 => 1000,
		1 => 0,
		2 => 1,
		3 => MAX_VALUE_MSAT,
		_ => MAX_VALUE_MSAT + 1, // rejected
	}
}
fn f_chain(i: u8) -> Option<Network> {
	match i {
		0 => None,
		1 => Some(Network::Bitcoin),
		_ => Some(Network::Testnet),
	}
}
fn f_quantity(i: u8) -> Option<u64> {
	match i {
		0 => None,
		1 => Some(0),
		2 => Some(1),
		_ => Some(u64::MAX),
	}
}
pub fn refund_is_live(c: &FCfg) -> bool {
	matches!(c[5], 0 | 1 | 3 | 4)
}

pub fn build_refund(fx: &Fix, c: &FCfg) -> Result<Refund, String> {
	let e = |e| format!("{:?}", e);
	macro_rules! common {
		($b: expr) => {{
			let mut b = $b;
			for p in 0..c[1] {
				b = b.path(message_path(p));
			}
			if let Some(n) = f_chain(c[3]) {
				b = b.chain(n);
			}
			if let Some(q) = f_quantity(c[4]) {
				b = b.quantity(q);
			}
			if let Some(x) = o_expiry(c[5]) {
				b = b.absolute_expiry(x);
			}
			if c[6] == 1 {
				b = b.payer_note("refund note".to_string()).description("refund for \u{2615}".to_string());
			}
			if c[7] == 1 {
				b = b.issuer("issuer".to_string());
			}
			b.build().map_err(e)
		}};
	}
	let node = fx.payer_node.public_key();
	match c[0] {
		0 => common!(RefundBuilder::new(vec![1; 32], node, f_amount(c[2])).map_err(e)?),
		1 => common!(RefundBuilder::new(vec![], node, f_amount(c[2])).map_err(e)?),
		_ => common!(RefundBuilder::deriving_signing_pubkey(node, &fx.payer_key, nonce(PAYER_NONCE), &fx.secp, f_amount(c[2]), PaymentId(PAYMENT_ID)).map_err(e)?),
	}
}

pub fn refund_accessors(r: &Refund) -> String {
	format!(
		"description={:?}\x1fexpiry={:?}\x1fissuer={:?}\x1fpaths={:?}\x1fpayer_metadata={}\x1fchain={:?}\x1famount_msats={}\x1ffeatures={:?}\x1fquantity={:?}\x1fpayer={:?}\x1fnote={:?}",
		r.description().0,
		r.absolute_expiry(),
		r.issuer().map(|d| d.0.to_string()),
		r.paths(),
		hex(r.payer_metadata()),
		r.chain(),
		r.amount_msats(),
		r.features(),
		r.quantity(),
		r.payer_signing_pubkey(),
		r.payer_note().map(|d| d.0.to_string()),
	)
}

pub fn check_refund(fx: &Fix, c: &FCfg) -> Result<Result<Refund, String>, CheckErr> {
	let refund = match build_refund(fx, c) {
		Ok(r) => r,
		Err(k) => return Ok(Err(k)),
	};
	let bytes: Vec<u8> = refund.as_ref().to_vec();
	if refund.encode() != bytes {
		return Err(("bolt12-refund-encode", "Writeable encoding differs from AsRef bytes".into()));
	}
	let parsed = match Refund::try_from(bytes.clone()) {
		Ok(p) => p,
		Err(e) => return Err(("bolt12-refund-roundtrip-parse", format!("built refund {} does not parse: {:?}", hex(&bytes), e))),
	};
	if parsed != refund || parsed.as_ref() != &bytes[..] {
		return Err(("bolt12-refund-roundtrip-equal", format!("parsed refund differs for {}", hex(&bytes))));
	}
	let (ab, ap) = (refund_accessors(&refund), refund_accessors(&parsed));
	if ab != ap {
		return Err(("bolt12-refund-roundtrip-accessors", crate::diff_detail(&ab, &ap)));
	}
	let s = refund.to_string();
	match s.parse::<Refund>() {
		Ok(p) if p == refund && refund_accessors(&p) == ab => {},
		o => return Err(("bolt12-refund-roundtrip-bech32", format!("{} -> {:?}", s, o.map(|x| hex(x.as_ref()))))),
	}
	if b32::encode_nochecksum("lnr", &b32::bytes_to_5(&bytes)) != s {
		return Err(("bolt12-refund-bech32-encoding", format!("Display gives {}", s)));
	}
	let mut bad = Vec::new();
	if parsed.amount_msats() != f_amount(c[2]) {
		bad.push("amount_msats".to_string());
	}
	if parsed.absolute_expiry() != o_expiry(c[5]) {
		bad.push(format!("absolute_expiry {:?} != {:?}", parsed.absolute_expiry(), o_expiry(c[5])));
	}
	if parsed.chain() != ChainHash::using_genesis_block(f_chain(c[3]).unwrap_or(Network::Bitcoin)) {
		bad.push("chain".into());
	}
	if parsed.quantity() != f_quantity(c[4]) {
		bad.push("quantity".into());
	}
	let exp_paths: Vec<BlindedMessagePath> = (0..c[1]).map(message_path).collect();
	if parsed.paths() != &exp_paths[..] {
		bad.push("paths".into());
	}
	if parsed.payer_note().map(|d| d.0.to_string()) != if c[6] == 1 { Some("refund note".to_string()) } else { None } {
		bad.push("payer_note".into());
	}
	if parsed.description().0 != if c[6] == 1 { "refund for \u{2615}" } else { "" } {
		bad.push("description".into());
	}
	let node = fx.payer_node.public_key();
	match c[0] {
		0 => {
			if parsed.payer_metadata() != &[1u8; 32][..] || parsed.payer_signing_pubkey() != node {
				bad.push("payer metadata / key".into());
			}
		},
		1 => {
			if !parsed.payer_metadata().is_empty() || parsed.payer_signing_pubkey() != node {
				bad.push("payer metadata / key".into());
			}
		},
		_ => {
			if c[1] == 0 {
				if parsed.payer_metadata().len() != 32 + 16 + 32 || parsed.payer_signing_pubkey() != node {
					bad.push("derived payer metadata".into());
				}
			} else if parsed.payer_metadata().len() != 48 || parsed.payer_signing_pubkey() == node {
				bad.push("derived payer key".into());
			}
		},
	}
	if !bad.is_empty() {
		return Err(("bolt12-refund-roundtrip-expected", format!("refund {} exposes other values than given: {}", hex(&bytes), bad.join("; "))));
	}
	Ok(Ok(refund))
}

/// The invoice the refundee sends for a refund; `derived` uses `respond_using_derived_keys_no_std`.
pub fn build_refund_invoice(fx: &Fix, refund: &Refund, ic: &ICfg, derived: bool) -> Result<Bolt12Invoice, String> {
	let e = |e| format!("{:?}", e);
	let paths = i_paths(ic[0]);
	let hash = PaymentHash(PAYMENT_HASH);
	let at = i_created_at(ic[4]);
	if derived {
		let b = refund.respond_using_derived_keys_no_std(paths, hash, at, &fx.recipient_key, FixedEntropy(0x99)).map_err(e)?;
		apply_invoice_opts!(b, ic).build_and_sign(&fx.secp).map_err(e)
	} else {
		let b = refund.respond_with_no_std(paths, hash, fx.refundee_keys.public_key(), at).map_err(e)?;
		let u = apply_invoice_opts!(b, ic).build().map_err(e)?;
		u.sign(sign_with(&fx.secp, &fx.refundee_keys)).map_err(|e| format!("{:?}", e))
	}
}

// ---------------------------------------------------------------------------------------------
// static invoices

pub fn build_static_invoice(fx: &Fix, offer: &Offer, ic: &ICfg, n_held: u8) -> Result<StaticInvoice, String> {
	let e = |e| format!("{:?}", e);
	let held: Vec<BlindedMessagePath> = (0..n_held).map(|i| message_path(10 + i)).collect();
	let b = StaticInvoiceBuilder::for_offer_using_derived_keys(
		offer,
		i_paths(ic[0]),
		held,
		i_created_at(ic[4]),
		&fx.recipient_key,
		nonce(OFFER_NONCE),
		&fx.secp,
	)
	.map_err(e)?;
	apply_invoice_opts!(b, ic).build_and_sign(&fx.secp).map_err(e)
}

pub fn static_accessors(i: &StaticInvoice) -> String {
	format!(
		"paths={:?}\x1fcreated_at={:?}\x1frelative_expiry={:?}\x1ffallbacks={:?}\x1ffeatures={:?}\x1fsigning_pubkey={:?}\x1fchain={:?}\x1fmetadata={:?}\x1famount={:?}\x1foffer_features={:?}\x1fdescription={:?}\x1fabsolute_expiry={:?}\x1fissuer={:?}\x1fmessage_paths={:?}\x1fheld={:?}\x1fquantity={:?}\x1fissuer_signing_pubkey={:?}\x1fsig={:?}\x1foffer_id={:?}",
		i.payment_paths(),
		i.created_at(),
		i.relative_expiry(),
		i.fallbacks(),
		i.invoice_features(),
		i.signing_pubkey(),
		i.chain(),
		i.metadata(),
		i.amount(),
		i.offer_features(),
		i.description().map(|d| d.0.to_string()),
		i.absolute_expiry(),
		i.issuer().map(|d| d.0.to_string()),
		i.offer_message_paths(),
		i.held_htlc_available_paths(),
		i.supported_quantity(),
		i.issuer_signing_pubkey(),
		i.signature(),
		i.offer_id(),
	)
}

pub fn check_static_roundtrip(offer: &Offer, inv: &StaticInvoice, ic: &ICfg, n_held: u8) -> Result<Vec<u8>, CheckErr> {
	let bytes = inv.encode();
	let parsed = match StaticInvoice::try_from(bytes.clone()) {
		Ok(p) => p,
		Err(e) => return Err(("bolt12-static-roundtrip-parse", format!("built static invoice {} does not parse: {:?}", hex(&bytes), e))),
	};
	if parsed != *inv || parsed.encode() != bytes {
		return Err(("bolt12-static-roundtrip-equal", format!("parsed static invoice differs for {}", hex(&bytes))));
	}
	let (ab, ap) = (static_accessors(inv), static_accessors(&parsed));
	if ab != ap {
		return Err(("bolt12-static-roundtrip-accessors", crate::diff_detail(&ab, &ap)));
	}
	let mut bad = Vec::new();
	if parsed.created_at() != i_created_at(ic[4]) {
		bad.push(format!("created_at {:?} != {:?}", parsed.created_at(), i_created_at(ic[4])));
	}
	let exp_rel = Duration::from_secs(i_rel_expiry(ic[1]).map(|x| x as u64).unwrap_or(3600 * 24 * 14));
	if parsed.relative_expiry() != exp_rel {
		bad.push("relative_expiry".to_string());
	}
	if parsed.payment_paths() != &i_paths(ic[0])[..] {
		bad.push("payment_paths".into());
	}
	let held: Vec<BlindedMessagePath> = (0..n_held).map(|i| message_path(10 + i)).collect();
	if parsed.held_htlc_available_paths() != &held[..] {
		bad.push("held_htlc_available_paths".into());
	}
	if parsed.invoice_features().supports_basic_mpp() != (ic[3] == 1) {
		bad.push("features".into());
	}
	if parsed.fallbacks().len() != expected_fallback_count(ic) {
		bad.push("fallbacks".into());
	}
	if Some(parsed.signing_pubkey()) != offer.issuer_signing_pubkey() || parsed.offer_id() != offer.id() || parsed.amount() != offer.amount()
		|| parsed.offer_message_paths() != offer.paths() || parsed.absolute_expiry() != offer.absolute_expiry()
	{
		bad.push("reflected offer fields".into());
	}
	if !bad.is_empty() {
		return Err(("bolt12-static-roundtrip-expected", format!("static invoice {} exposes other values than given: {}", hex(&bytes), bad.join("; "))));
	}
	Ok(bytes)
}

// ---------------------------------------------------------------------------------------------
// bit flips

#[derive(Clone, Copy, Debug, PartialEq, Eq)]
pub enum Kind {
	InvoiceRequest,
	Invoice,
	StaticInvoice,
	Offer,
	Refund,
}

impl Kind {
	pub fn name(&self) -> &'static str {
		match self {
			Kind::InvoiceRequest => "invreq",
			Kind::Invoice => "invoice",
			Kind::StaticInvoice => "static",
			Kind::Offer => "offer",
			Kind::Refund => "refund",
		}
	}
	pub fn from_name(s: &str) -> Option<Kind> {
		Some(match s {
			"invreq" => Kind::InvoiceRequest,
			"invoice" => Kind::Invoice,
			"static" => Kind::StaticInvoice,
			"offer" => Kind::Offer,
			"refund" => Kind::Refund,
			_ => return None,
		})
	}
	pub fn signed(&self) -> bool {
		matches!(self, Kind::InvoiceRequest | Kind::Invoice | Kind::StaticInvoice)
	}
}

pub fn err_kind_b12(e: &lightning::offers::parse::Bolt12ParseError) -> String {
	let d = format!("{:?}", e);
	let mut parts = d.split(|c| c == '(' || c == ')').filter(|s| !s.is_empty());
	let a = parts.next().unwrap_or("");
	let b = parts.next().unwrap_or("");
	let b = b.split(|c: char| c == ' ' || c == '{').next().unwrap_or("");
	if b.is_empty() {
		a.to_string()
	} else {
		format!("{}:{}", a, b)
	}
}

/// Parses `bytes` as `kind`; `Ok(Some(reencoded))` if it parsed.
pub fn parse_kind(kind: Kind, bytes: Vec<u8>) -> Result<Vec<u8>, String> {
	match kind {
		Kind::InvoiceRequest => InvoiceRequest::try_from(bytes).map(|x| x.encode()).map_err(|e| err_kind_b12(&e)),
		Kind::Invoice => Bolt12Invoice::try_from(bytes).map(|x| x.encode()).map_err(|e| err_kind_b12(&e)),
		Kind::StaticInvoice => StaticInvoice::try_from(bytes).map(|x| x.encode()).map_err(|e| err_kind_b12(&e)),
		Kind::Offer => Offer::try_from(bytes).map(|x| x.as_ref().to_vec()).map_err(|e| err_kind_b12(&e)),
		Kind::Refund => Refund::try_from(bytes).map(|x| x.as_ref().to_vec()).map_err(|e| err_kind_b12(&e)),
	}
}

/// Every single-bit flip of `bytes`. Signed kinds: must not parse. Unsigned kinds (offer, refund):
/// must not panic and, if it parses, must re-encode to exactly the flipped bytes.
pub fn check_bit_flips(kind: Kind, bytes: &[u8], spec: &Value, st: &mut Stats, out: &mut Vec<Viol>) {
	let mut b = bytes.to_vec();
	for bit in 0..bytes.len() * 8 {
		b[bit / 8] ^= 1 << (bit % 8);
		st.add(&format!("b12.flip.{}.evaluations", kind.name()), 1);
		let r = mc_common::par::guarded(|| parse_kind(kind, b.clone()));
		match r {
			Err(p) => out.push(Viol {
				oracle: "no-panic",
				identity: format!("no-panic|bolt12-{}-parse|{}", kind.name(), p),
				detail: format!("parsing {} panics: {}", hex(&b), p),
				replay: json!({"fam": "b12-flip", "kind": kind.name(), "spec": spec, "bit": bit, "bytes": hex(bytes)}),
				rank: bit as u64,
			}),
			Ok(Err(k)) => {
				st.add(&format!("b12.flip.{}.rejected", kind.name()), 1);
				st.add(&format!("b12.flip.{}.err.{}", kind.name(), k), 1);
			},
			Ok(Ok(re)) => {
				if kind.signed() {
					out.push(Viol {
						oracle: "bolt12-bitflip-accepted",
						identity: format!("bolt12-bitflip-accepted|{}|region={}", kind.name(), region_of(bytes, bit)),
						detail: format!("signed {} with bit {} flipped still parses: {} (original {})", kind.name(), bit, hex(&b), hex(bytes)),
						replay: json!({"fam": "b12-flip", "kind": kind.name(), "spec": spec, "bit": bit, "bytes": hex(bytes)}),
						rank: bit as u64,
					});
				} else if re != b {
					out.push(Viol {
						oracle: "bolt12-parse-reencode",
						identity: format!("bolt12-parse-reencode|{}|region={}", kind.name(), region_of(bytes, bit)),
						detail: format!("{} parsed from {} re-encodes to {}", kind.name(), hex(&b), hex(&re)),
						replay: json!({"fam": "b12-flip", "kind": kind.name(), "spec": spec, "bit": bit, "bytes": hex(bytes)}),
						rank: bit as u64,
					});
				} else {
					st.add(&format!("b12.flip.{}.parsed_identity", kind.name()), 1);
				}
			},
		}
		b[bit / 8] ^= 1 << (bit % 8);
	}
}

// ---------------------------------------------------------------------------------------------
// altered copies

/// All single-record alterations of a TLV stream restricted to records with type < `max_type`:
/// every bit flip inside such a record, removal of each record, an unknown odd record inserted
/// after each record. Returns (description, record type, bytes).
pub fn alterations(bytes: &[u8], max_type: u64) -> Vec<(String, u64, Vec<u8>)> {
	let recs = tlv_records(bytes).expect("own stream is well formed");
	let mut out = Vec::new();
	for (ri, r) in recs.iter().enumerate() {
		if r.typ >= max_type {
			continue;
		}
		for byte in r.start..r.end {
			for k in 0..8 {
				let mut b = bytes.to_vec();
				b[byte] ^= 1 << k;
				out.push((format!("flip-bit-{}", byte * 8 + k), r.typ, b));
			}
		}
		let mut b = bytes[..r.start].to_vec();
		b.extend_from_slice(&bytes[r.end..]);
		out.push((format!("remove-record-{}", r.typ), r.typ, b));
		// unknown odd record right after this one, if the type is free
		let next_typ = recs.get(ri + 1).map(|n| n.typ).unwrap_or(u64::MAX);
		let mut t = r.typ + 1;
		if t % 2 == 0 {
			t += 1;
		}
		if t < next_typ && t < max_type && t < 0xfd {
			let mut b = bytes[..r.end].to_vec();
			b.extend_from_slice(&[t as u8, 2, 0xaa, 0xbb]);
			b.extend_from_slice(&bytes[r.end..]);
			out.push((format!("insert-unknown-{}", t), r.typ, b));
		}
		// value extended / shortened by one byte (length fixed up) when the length is a single byte
		if r.val - r.start == 2 && bytes[r.start + 1] < 0xfc {
			let mut b = bytes[..r.end].to_vec();
			b.push(0);
			b.extend_from_slice(&bytes[r.end..]);
			b[r.start + 1] += 1;
			out.push((format!("extend-record-{}", r.typ), r.typ, b));
			if r.end > r.val {
				let mut b = bytes[..r.end - 1].to_vec();
				b.extend_from_slice(&bytes[r.end..]);
				b[r.start + 1] -= 1;
				out.push((format!("shorten-record-{}", r.typ), r.typ, b));
			}
		}
	}
	out
}

fn supported_network(o: &Offer) -> Option<Network> {
	for n in [Network::Bitcoin, Network::Testnet, Network::Signet, Network::Regtest] {
		if o.supports_chain(ChainHash::using_genesis_block(n)) {
			return Some(n);
		}
	}
	None
}

/// A valid request against an arbitrary (parsed) offer, choosing whatever the offer demands.
fn request_against(fx: &Fix, o: &Offer) -> Result<InvoiceRequest, String> {
	let e = |e| format!("{:?}", e);
	let mut b = o.request_invoice(&fx.payer_key, nonce(PAYER_NONCE), &fx.secp, PaymentId(PAYMENT_ID)).map_err(e)?;
	let n = supported_network(o).ok_or("no supported chain")?;
	if n != Network::Bitcoin {
		b = b.chain(n).map_err(e)?;
	}
	if o.expects_quantity() {
		b = b.quantity(1).map_err(e)?;
	}
	if o.amount().is_none() {
		b = b.amount_msats(1000).map_err(e)?;
	}
	b.build_and_sign().map_err(e)
}

/// (a) requests built against altered copies of a derived offer must be refused by the originator.
pub fn check_altered_offers(fx: &Fix, offer: &Offer, oc: &OCfg, st: &mut Stats, out: &mut Vec<Viol>) {
	let bytes: Vec<u8> = offer.as_ref().to_vec();
	let with_paths = oc[1] > 0;
	for (desc, typ, alt) in alterations(&bytes, u64::MAX) {
		st.add("b12.altered_offer.evaluations", 1);
		let r = mc_common::par::guarded(|| -> Result<bool, String> {
			let o = Offer::try_from(alt.clone()).map_err(|e| format!("offer-unparsable:{}", err_kind_b12(&e)))?;
			let req = request_against(fx, &o).map_err(|e| format!("request-unbuildable:{}", e))?;
			let parsed = InvoiceRequest::try_from(req.encode()).map_err(|e| format!("request-unparsable:{}", err_kind_b12(&e)))?;
			let accepted = if with_paths {
				parsed.clone().verify_using_recipient_data(nonce(OFFER_NONCE), &fx.recipient_key, &fx.secp).is_ok()
					|| parsed.verify_using_metadata(&fx.recipient_key, &fx.secp).is_ok()
			} else {
				parsed.clone().verify_using_metadata(&fx.recipient_key, &fx.secp).is_ok()
					|| parsed.verify_using_recipient_data(nonce(OFFER_NONCE), &fx.recipient_key, &fx.secp).is_ok()
			};
			Ok(accepted)
		});
		let mode = if with_paths { "recipient-data" } else { "metadata" };
		match r {
			Err(p) => out.push(Viol {
				oracle: "no-panic",
				identity: format!("no-panic|bolt12-altered-offer|{}", p),
				detail: format!("panic while requesting against altered offer {}: {}", hex(&alt), p),
				replay: json!({"fam": "b12-altered-offer", "ocfg": oc.to_vec(), "alt": hex(&alt)}),
				rank: 0,
			}),
			Ok(Err(why)) => {
				let k = why.split(':').next().unwrap_or("");
				st.add(&format!("b12.altered_offer.{}", k), 1);
				if k == "request-unparsable" {
					out.push(Viol {
						oracle: "bolt12-invreq-roundtrip-parse",
						identity: format!("bolt12-invreq-roundtrip-parse|altered-offer|tlv{}", typ),
						detail: format!("request built against parseable altered offer {} ({}) does not parse: {}", hex(&alt), desc, why),
						replay: json!({"fam": "b12-altered-offer", "ocfg": oc.to_vec(), "alt": hex(&alt)}),
						rank: 0,
					});
				}
			},
			Ok(Ok(false)) => {
				st.add("b12.altered_offer.refused", 1);
				st.add(&format!("b12.altered_offer.refused.{}.tlv{}", mode, typ), 1);
			},
			Ok(Ok(true)) => out.push(Viol {
				oracle: "bolt12-verify-accepts-altered-offer",
				identity: format!("bolt12-verify-accepts-altered-offer|{}|tlv{}|{}", mode, typ, desc.split('-').take(2).collect::<Vec<_>>().join("-")),
				detail: format!("request against offer altered by {} (record {}) verifies for the originator; altered offer {} original {}", desc, typ, hex(&alt), hex(&bytes)),
				replay: json!({"fam": "b12-altered-offer", "ocfg": oc.to_vec(), "alt": hex(&alt)}),
				rank: 0,
			}),
		}
	}
}

/// Strips the signature record(s) (types 240..=1000) from a signed stream.
pub fn strip_signature(bytes: &[u8]) -> Vec<u8> {
	let recs = tlv_records(bytes).expect("well formed");
	let mut out = Vec::new();
	for r in recs {
		if !(240..=1000).contains(&r.typ) {
			out.extend_from_slice(&bytes[r.start..r.end]);
		}
	}
	out
}

/// (a') invoices whose reflected request / refund part was altered and which were re-signed by the
/// (malicious) recipient must be refused by the payer's `verify_using_metadata`.
pub fn check_altered_invoice(fx: &Fix, inv_bytes: &[u8], signer: &Keypair, what: &str, spec: &Value, st: &mut Stats, out: &mut Vec<Viol>) {
	let unsigned = strip_signature(inv_bytes);
	for (desc, typ, alt) in alterations(&unsigned, 160) {
		st.add(&format!("b12.altered_{}.evaluations", what), 1);
		let r = mc_common::par::guarded(|| -> Result<bool, String> {
			let u = UnsignedBolt12Invoice::try_from(alt.clone()).map_err(|e| format!("unparsable:{}", err_kind_b12(&e)))?;
			let signed = u.sign(sign_with(&fx.secp, signer)).map_err(|e| format!("unsignable:{:?}", e))?;
			let parsed = Bolt12Invoice::try_from(signed.encode()).map_err(|e| format!("resigned-unparsable:{}", err_kind_b12(&e)))?;
			Ok(parsed.verify_using_metadata(&fx.payer_key, &fx.secp).is_ok() || parsed.derive_payer_signing_keys(&fx.payer_key, &fx.secp).is_ok())
		});
		match r {
			Err(p) => out.push(Viol {
				oracle: "no-panic",
				identity: format!("no-panic|bolt12-altered-{}|{}", what, p),
				detail: format!("panic while re-signing altered invoice {}: {}", hex(&alt), p),
				replay: json!({"fam": "b12-altered-invoice", "spec": spec, "alt": hex(&alt), "what": what}),
				rank: 0,
			}),
			Ok(Err(why)) => st.add(&format!("b12.altered_{}.{}", what, why.split(':').next().unwrap_or("")), 1),
			Ok(Ok(false)) => {
				st.add(&format!("b12.altered_{}.refused", what), 1);
				st.add(&format!("b12.altered_{}.refused.tlv{}", what, typ), 1);
			},
			Ok(Ok(true)) => out.push(Viol {
				oracle: "bolt12-verify-accepts-altered-invoice",
				identity: format!("bolt12-verify-accepts-altered-invoice|{}|tlv{}|{}", what, typ, desc.split('-').take(2).collect::<Vec<_>>().join("-")),
				detail: format!("invoice whose reflected record {} was altered ({}) and re-signed verifies for the payer; altered unsigned stream {}", typ, desc, hex(&alt)),
				replay: json!({"fam": "b12-altered-invoice", "spec": spec, "alt": hex(&alt), "what": what}),
				rank: 0,
			}),
		}
	}
}

/// Replay of one altered-offer case.
pub fn replay_altered_offer(fx: &Fix, r: &Value) -> Result<String, String> {
	let oc = ocfg_from_json(&r["ocfg"]).ok_or("ocfg")?;
	let alt = mc_common::unhex(r["alt"].as_str().ok_or("alt")?).ok_or("hex")?;
	let o = match Offer::try_from(alt) {
		Ok(o) => o,
		Err(e) => return Ok(format!("altered offer no longer parses: {:?}", e)),
	};
	let req = match request_against(fx, &o) {
		Ok(r) => r,
		Err(e) => return Ok(format!("request not buildable: {}", e)),
	};
	let parsed = InvoiceRequest::try_from(req.encode()).map_err(|e| format!("request built against altered offer does not parse: {:?}", e))?;
	let _ = oc;
	if parsed.clone().verify_using_metadata(&fx.recipient_key, &fx.secp).is_ok()
		|| parsed.verify_using_recipient_data(nonce(OFFER_NONCE), &fx.recipient_key, &fx.secp).is_ok()
	{
		Err("request against the altered offer still verifies for the originator".into())
	} else {
		Ok("refused".into())
	}
}

pub fn replay_altered_invoice(fx: &Fix, r: &Value) -> Result<String, String> {
	let alt = mc_common::unhex(r["alt"].as_str().ok_or("alt")?).ok_or("hex")?;
	let signer = if r["what"].as_str() == Some("refund_invoice") { &fx.refundee_keys } else { &fx.recipient_keys };
	let u = match UnsignedBolt12Invoice::try_from(alt) {
		Ok(u) => u,
		Err(e) => return Ok(format!("altered stream no longer parses: {:?}", e)),
	};
	let signed = match u.sign(sign_with(&fx.secp, signer)) {
		Ok(s) => s,
		Err(e) => return Ok(format!("cannot sign: {:?}", e)),
	};
	let parsed = Bolt12Invoice::try_from(signed.encode()).map_err(|e| format!("re-signed invoice does not parse: {:?}", e))?;
	if parsed.verify_using_metadata(&fx.payer_key, &fx.secp).is_ok() || parsed.derive_payer_signing_keys(&fx.payer_key, &fx.secp).is_ok() {
		Err("altered, re-signed invoice still verifies for the payer".into())
	} else {
		Ok("refused".into())
	}
}

/// No-panic on arbitrary bytes for every BOLT-12 parser.
pub fn parse_all_bytes(b: &[u8]) -> u32 {
	let mut ok = 0;
	ok += Offer::try_from(b.to_vec()).is_ok() as u32;
	ok += Refund::try_from(b.to_vec()).is_ok() as u32;
	ok += InvoiceRequest::try_from(b.to_vec()).is_ok() as u32;
	ok += Bolt12Invoice::try_from(b.to_vec()).is_ok() as u32;
	ok += StaticInvoice::try_from(b.to_vec()).is_ok() as u32;
	ok += UnsignedBolt12Invoice::try_from(b.to_vec()).is_ok() as u32;
	ok += lightning::offers::invoice_request::UnsignedInvoiceRequest::try_from(b.to_vec()).is_ok() as u32;
	ok
}

pub fn parse_all_strs(s: &str) -> u32 {
	let mut ok = 0;
	ok += s.parse::<Offer>().is_ok() as u32;
	ok += s.parse::<Refund>().is_ok() as u32;
	ok
}
