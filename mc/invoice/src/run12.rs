//! Driver for the BOLT-12 families.
use crate::b12::{self, Fix, Kind};
use crate::{Ctx, Stats, Viol};
use mc_common::{hex, json, par, Value};
use std::time::Instant;

type CaseResult = Result<Result<Vec<u8>, String>, (&'static str, String)>;

fn sizes(fam: &str) -> Vec<usize> {
	let mut v: Vec<usize> = Vec::new();
	match fam {
		"offer" => v.extend(b12::OFFER_FACTOR_SIZES),
		"invreq" => {
			v.extend(b12::OFFER_FACTOR_SIZES);
			v.extend(b12::REQ_FACTOR_SIZES);
		},
		"invoice" => {
			v.extend(b12::OFFER_FACTOR_SIZES);
			v.extend(b12::REQ_FACTOR_SIZES);
			v.extend(b12::INV_FACTOR_SIZES);
		},
		"refund" => v.extend(b12::REFUND_FACTOR_SIZES),
		"refund-invoice" => {
			v.extend(b12::REFUND_FACTOR_SIZES);
			v.extend(b12::INV_FACTOR_SIZES);
			v.push(2);
		},
		"static" => {
			v.extend(b12::OFFER_FACTOR_SIZES);
			v.extend(b12::INV_FACTOR_SIZES);
			v.push(3);
		},
		_ => {},
	}
	v
}

fn names(fam: &str) -> Vec<String> {
	let o: Vec<String> = b12::OFFER_FACTOR_NAMES.iter().map(|s| format!("offer.{}", s)).collect();
	let r: Vec<String> = ["chain", "amount", "quantity", "note", "hrn"].iter().map(|s| format!("request.{}", s)).collect();
	let i: Vec<String> = ["paths", "relative_expiry", "fallbacks", "mpp", "created_at"].iter().map(|s| format!("invoice.{}", s)).collect();
	let f: Vec<String> = b12::REFUND_FACTOR_NAMES.iter().map(|s| format!("refund.{}", s)).collect();
	match fam {
		"offer" => o,
		"invreq" => [o, r].concat(),
		"invoice" => [o, r, i].concat(),
		"refund" => f,
		"refund-invoice" => [f, i, vec!["derived_signing_keys".to_string()]].concat(),
		"static" => [o, i, vec!["held_htlc_paths".to_string()]].concat(),
		_ => vec![],
	}
}

fn desc(fam: &str, c: &[u8]) -> String {
	let n = names(fam);
	let p: Vec<String> = c.iter().enumerate().filter(|(_, v)| **v != 0).map(|(i, v)| format!("{}={}", n[i], v)).collect();
	if p.is_empty() {
		"defaults".into()
	} else {
		p.join(",")
	}
}

fn arr<const N: usize>(s: &[u8]) -> [u8; N] {
	let mut a = [0u8; N];
	a.copy_from_slice(&s[..N]);
	a
}

/// Runs one configuration of a family end to end: build, round trip, stateless verification.
fn run_case(fx: &Fix, fam: &str, c: &[u8], st: &mut Stats) -> CaseResult {
	match fam {
		"offer" => {
			let oc: b12::OCfg = arr(c);
			Ok(b12::check_offer(fx, &oc)?.map(|o| o.as_ref().to_vec()))
		},
		"invreq" => {
			let oc: b12::OCfg = arr(c);
			let rc: b12::RCfg = arr(&c[8..]);
			let offer = match b12::build_offer(fx, &oc) {
				Ok(o) => o,
				Err(k) => return Ok(Err(format!("offer:{}", k))),
			};
			let req = match b12::check_request(fx, &offer, &oc, &rc)? {
				Ok(r) => r,
				Err(k) => return Ok(Err(k)),
			};
			let bytes = lightning::util::ser::Writeable::encode(&req);
			let parsed = lightning::offers::invoice_request::InvoiceRequest::try_from(bytes.clone()).map_err(|e| ("bolt12-invreq-roundtrip-parse", format!("{:?}", e)))?;
			b12::check_request_verification(fx, &offer, &oc, &parsed, st)?;
			Ok(Ok(bytes))
		},
		"invoice" => {
			let oc: b12::OCfg = arr(c);
			let rc: b12::RCfg = arr(&c[8..]);
			let ic: b12::ICfg = arr(&c[13..]);
			let offer = match b12::build_offer(fx, &oc) {
				Ok(o) => o,
				Err(k) => return Ok(Err(format!("offer:{}", k))),
			};
			let req = match b12::build_request(fx, &offer, &oc, &rc) {
				Ok(r) => r,
				Err(k) => return Ok(Err(format!("request:{}", k))),
			};
			let inv = match b12::build_invoice(fx, &oc, &req, &ic) {
				Ok(i) => i,
				Err(k) => return Ok(Err(k)),
			};
			let exp_amount = req.amount_msats().unwrap_or(0);
			let bytes = b12::check_invoice_roundtrip(&inv, &ic, exp_amount, offer.issuer_signing_pubkey())?;
			let parsed = lightning::offers::invoice::Bolt12Invoice::try_from(bytes.clone()).map_err(|e| ("bolt12-invoice-roundtrip-parse", format!("{:?}", e)))?;
			if parsed.offer_id() != Some(offer.id()) {
				return Err(("bolt12-invoice-roundtrip-expected", "offer id differs".into()));
			}
			b12::check_invoice_verification(fx, &parsed, st, "invoice")?;
			Ok(Ok(bytes))
		},
		"refund" => {
			let fc: b12::FCfg = arr(c);
			Ok(b12::check_refund(fx, &fc)?.map(|r| r.as_ref().to_vec()))
		},
		"refund-invoice" => {
			let fc: b12::FCfg = arr(c);
			let ic: b12::ICfg = arr(&c[8..]);
			let derived = c[13] == 1;
			let refund = match b12::build_refund(fx, &fc) {
				Ok(r) => r,
				Err(k) => return Ok(Err(format!("refund:{}", k))),
			};
			let inv = match b12::build_refund_invoice(fx, &refund, &ic, derived) {
				Ok(i) => i,
				Err(k) => return Ok(Err(k)),
			};
			let signer = if derived { None } else { Some(fx.refundee_keys.public_key()) };
			let bytes = b12::check_invoice_roundtrip(&inv, &ic, refund.amount_msats(), signer)?;
			let parsed = lightning::offers::invoice::Bolt12Invoice::try_from(bytes.clone()).map_err(|e| ("bolt12-invoice-roundtrip-parse", format!("{:?}", e)))?;
			if !parsed.is_for_refund() || parsed.offer_id().is_some() {
				return Err(("bolt12-invoice-roundtrip-expected", "refund invoice not recognised as such".into()));
			}
			if fc[0] == 2 {
				b12::check_invoice_verification(fx, &parsed, st, "refund_invoice")?;
			} else {
				for k in [&fx.payer_key, &fx.other_key] {
					if parsed.verify_using_metadata(k, &fx.secp).is_ok() {
						return Err(("bolt12-verify-invoice-not-derived", "verify_using_metadata accepts an invoice for a refund that was not derived from the key".into()));
					}
				}
				st.add("b12.verify.refund_invoice.refused_not_derived", 1);
			}
			Ok(Ok(bytes))
		},
		"static" => {
			let oc: b12::OCfg = arr(c);
			let ic: b12::ICfg = arr(&c[8..]);
			let held = c[13];
			let offer = match b12::build_offer(fx, &oc) {
				Ok(o) => o,
				Err(k) => return Ok(Err(format!("offer:{}", k))),
			};
			let inv = match b12::build_static_invoice(fx, &offer, &ic, held) {
				Ok(i) => i,
				Err(k) => return Ok(Err(k)),
			};
			Ok(Ok(b12::check_static_roundtrip(&offer, &inv, &ic, held)?))
		},
		_ => Err(("machinery", format!("unknown family {}", fam))),
	}
}

fn minimise(fx: &Fix, fam: &str, c: &[u8], oracle: &str) -> Vec<u8> {
	let mut cur = c.to_vec();
	loop {
		let mut changed = false;
		for i in 0..cur.len() {
			if cur[i] == 0 {
				continue;
			}
			let mut t = cur.clone();
			t[i] = 0;
			let mut st = Stats::default();
			let fails = match par::guarded(|| run_case(fx, fam, &t, &mut st)) {
				Ok(Err((o, _))) => o == oracle,
				Err(_) => oracle == "no-panic",
				_ => false,
			};
			if fails {
				cur = t;
				changed = true;
			}
		}
		if !changed {
			return cur;
		}
	}
}

fn product(sizes: &[usize], restrict: &[(usize, Vec<u8>)]) -> Vec<Vec<u8>> {
	let mut v: Vec<Vec<u8>> = vec![vec![]];
	for (f, n) in sizes.iter().enumerate() {
		let vals: Vec<u8> = match restrict.iter().find(|(g, _)| *g == f) {
			Some((_, vals)) => vals.clone(),
			None => (0..*n as u8).collect(),
		};
		let mut nv = Vec::with_capacity(v.len() * vals.len());
		for c in v.iter() {
			for x in vals.iter() {
				let mut d = c.clone();
				d.push(*x);
				nv.push(d);
			}
		}
		v = nv;
	}
	v
}

/// Runs all configurations of a family in parallel; returns the serialisations of the ones that
/// were built and round-tripped (index aligned with `cfgs`).
fn run_family(cx: &mut Ctx, fx: &Fix, fam: &'static str, key: &str, cfgs: &[Vec<u8>], base_order: u64) -> Vec<Option<Vec<u8>>> {
	let deadline = cx.deadline;
	let chunk = 64usize;
	let jobs: Vec<usize> = (0..(cfgs.len() + chunk - 1) / chunk).collect();
	let res = par::map(&jobs, cx.threads, |_, j| {
		let mut st = Stats::default();
		let mut viols: Vec<(u64, Viol)> = Vec::new();
		let mut outs: Vec<Option<Vec<u8>>> = Vec::new();
		let mut skipped = false;
		for i in j * chunk..((j + 1) * chunk).min(cfgs.len()) {
			if Instant::now() >= deadline {
				skipped = true;
				outs.push(None);
				continue;
			}
			let c = &cfgs[i];
			st.add(&format!("b12.{}.evaluations", key), 1);
			let mut vst = Stats::default();
			match par::guarded(|| run_case(fx, fam, c, &mut vst)) {
				Ok(Ok(Ok(bytes))) => {
					st.add(&format!("b12.{}.roundtrip.ok", key), 1);
					st.merge(&vst);
					outs.push(Some(bytes));
				},
				Ok(Ok(Err(kind))) => {
					st.add(&format!("b12.{}.builder_rejected", key), 1);
					st.add(&format!("b12.{}.builder_rejected.{}", key, kind), 1);
					outs.push(None);
				},
				Ok(Err((oracle, detail))) => {
					let m = minimise(fx, fam, c, oracle);
					let mut st2 = Stats::default();
					let dmin = match par::guarded(|| run_case(fx, fam, &m, &mut st2)) {
						Ok(Err((o, d))) if o == oracle => d,
						_ => detail.clone(),
					};
					viols.push((base_order + i as u64, Viol {
						oracle,
						identity: crate::rt_identity(oracle, fam, &dmin, &desc(fam, &m)),
						detail: format!("[{} {}] {}", fam, desc(fam, c), detail),
						replay: json!({"fam": format!("b12-{}", fam), "cfg": m}),
						rank: 0,
					}));
					outs.push(None);
				},
				Err(p) => {
					let m = minimise(fx, fam, c, "no-panic");
					viols.push((base_order + i as u64, Viol {
						oracle: "no-panic",
						identity: format!("no-panic|bolt12-{}|{}|{}", fam, p, desc(fam, &m)),
						detail: format!("panic for [{} {}]: {}", fam, desc(fam, c), p),
						replay: json!({"fam": format!("b12-{}", fam), "cfg": m}),
						rank: 0,
					}));
					outs.push(None);
				},
			}
		}
		(st, viols, outs, skipped)
	});
	let mut all: Vec<Option<Vec<u8>>> = Vec::with_capacity(cfgs.len());
	for r in res {
		match r {
			Ok((st, viols, outs, skipped)) => {
				cx.stats.merge(&st);
				cx.viols.extend(viols);
				if skipped {
					cx.capped = true;
				}
				all.extend(outs);
			},
			Err(p) => cli_die(&format!("harness panic in family {}: {}", fam, p)),
		}
	}
	for (i, b) in all.iter().enumerate() {
		if let Some(b) = b {
			cx.nontrivial(b);
			if i % 1009 == 0 && cx.samples.len() < 20 {
				cx.samples.push(json!({"family": format!("bolt12-{}", key), "config": desc(fam, &cfgs[i]), "bytes": hex(b)}));
			}
		}
	}
	all
}

fn cli_die(m: &str) -> ! {
	mc_common::cli::die(m)
}

pub fn run(cx: &mut Ctx) {
	let fx = b12::fix();
	let fx = &fx;
	let thorough = cx.tier.is_thorough();

	// ---- offers: full product -------------------------------------------------------------
	// sub-second durations (offer / refund expiry index 4, created_at index 3) are probed by a few
	// dedicated configurations; the products use whole seconds so that one lossy field does not end
	// the checks of a whole slice early
	let mut offers = product(&sizes("offer"), &[(5, vec![0, 1, 2, 3])]);
	offers.push(vec![0, 0, 0, 0, 0, 4, 0, 0]);
	offers.push(vec![3, 1, 2, 2, 3, 4, 2, 1]);
	let offer_bytes = run_family(cx, fx, "offer", "offer", &offers, 1 << 32);
	cx.lap("b12.offer");

	// ---- invoice requests -----------------------------------------------------------------
	// offers that are not expired and valid; all request settings
	let req_cfgs = product(
		&sizes("invreq"),
		&[
			(2, vec![0, 1, 2, 3]),
			(3, if thorough { vec![0, 1, 2, 3, 4] } else { vec![0, 2, 4] }),
			(4, if thorough { vec![0, 1, 2, 3, 4] } else { vec![0, 3] }),
			(5, if thorough { vec![0, 1] } else { vec![0] }),
			(6, vec![0]),
			(7, vec![0]),
			(8, if thorough { vec![0, 1, 2] } else { vec![0, 1] }),
		],
	);
	let _ = run_family(cx, fx, "invreq", "invreq", &req_cfgs, 2 << 32);
	cx.lap("b12.invreq");

	// ---- invoices --------------------------------------------------------------------------
	// 12 key/path modes x {no amount, amount} x {one, bounded quantity} with a rich request
	let mut inv_cfgs: Vec<Vec<u8>> = Vec::new();
	for km in 0..4u8 {
		for paths in 0..3u8 {
			for amt in [0u8, 2] {
				for q in [0u8, 2] {
					let oc = vec![km, paths, amt, q, 0, 1, 2, 1];
					let rc = vec![0, if amt == 0 { 1 } else { 0 }, if q == 0 { 0 } else { 2 }, 1, 0];
					for ic in product(&b12::INV_FACTOR_SIZES, &[(4, vec![0, 1, 2])]) {
						inv_cfgs.push([oc.clone(), rc.clone(), ic].concat());
					}
				}
			}
		}
	}
	inv_cfgs.push(vec![0, 0, 2, 0, 0, 0, 0, 0, 0, 0, 0, 0, 0, 0, 0, 0, 0, 3]);
	inv_cfgs.push(vec![3, 2, 0, 2, 0, 1, 2, 1, 0, 1, 2, 1, 0, 1, 2, 4, 1, 3]);
	let inv_bytes = run_family(cx, fx, "invoice", "invoice", &inv_cfgs, 3 << 32);
	cx.lap("b12.invoice");

	// ---- refunds ---------------------------------------------------------------------------
	let mut refunds = product(&sizes("refund"), &[(5, vec![0, 1, 2, 3])]);
	refunds.push(vec![0, 0, 0, 0, 0, 4, 0, 0]);
	refunds.push(vec![2, 2, 3, 2, 3, 4, 1, 1]);
	let refund_bytes = run_family(cx, fx, "refund", "refund", &refunds, 4 << 32);
	cx.lap("b12.refund");
	// invoice options at positions 8.. : paths, relative expiry, fallbacks, mpp, created_at
	let ic_small: Vec<(usize, Vec<u8>)> =
		if thorough { vec![(12, vec![0, 1, 2])] } else { vec![(9, vec![0, 3]), (10, vec![0, 4]), (12, vec![0, 2])] };
	let mut r = vec![(2, vec![0, 1, 3]), (3, vec![0, 2]), (4, if thorough { vec![0, 3] } else { vec![0] }), (5, if thorough { vec![0, 1] } else { vec![0] }), (6, vec![1]), (7, vec![0])];
	r.extend(ic_small.clone());
	let rinv_cfgs = product(&sizes("refund-invoice"), &r);
	let mut rinv_cfgs = rinv_cfgs;
	rinv_cfgs.push(vec![2, 0, 0, 0, 0, 0, 1, 0, 0, 0, 0, 0, 3, 0]);
	rinv_cfgs.push(vec![2, 2, 0, 0, 0, 0, 1, 0, 1, 2, 4, 1, 3, 1]);
	let rinv_bytes = run_family(cx, fx, "refund-invoice", "refund_invoice", &rinv_cfgs, 5 << 32);
	cx.lap("b12.refund-invoice");

	// ---- static invoices --------------------------------------------------------------------
	let mut r = vec![
		(0, vec![3]),
		(1, if thorough { vec![0, 1, 2] } else { vec![1, 2] }),
		(2, vec![0, 2]),
		(3, if thorough { vec![0, 2] } else { vec![0] }),
		(4, if thorough { vec![0, 1, 2, 3] } else { vec![0, 2] }),
		(5, vec![0, 1]),
		(6, if thorough { vec![0, 2] } else { vec![0] }),
		(7, vec![0]),
	];
	r.extend(ic_small.clone());
	let st_cfgs = product(&sizes("static"), &r);
	let mut st_cfgs = st_cfgs;
	st_cfgs.push(vec![3, 1, 0, 0, 0, 0, 0, 0, 0, 0, 0, 0, 3, 1]);
	let st_bytes = run_family(cx, fx, "static", "static", &st_cfgs, 6 << 32);
	cx.lap("b12.static");

	// ---- single-bit flips --------------------------------------------------------------------
	let mut flip_jobs: Vec<(Kind, Vec<u8>, Value)> = Vec::new();
	let pick = |cfgs: &[Vec<u8>], bytes: &[Option<Vec<u8>>], fam: &str, kind: Kind, every: usize, jobs: &mut Vec<(Kind, Vec<u8>, Value)>| {
		let mut n = 0usize;
		for (i, b) in bytes.iter().enumerate() {
			if let Some(b) = b {
				if n % every == 0 {
					jobs.push((kind, b.clone(), json!({"family": fam, "cfg": cfgs[i]})));
				}
				n += 1;
			}
		}
	};
	// requests: rebuild a spread of them (run_family for invreq does not keep bytes to save memory)
	let mut req_sel: Vec<Vec<u8>> = Vec::new();
	for km in 0..4u8 {
		for paths in 0..3u8 {
			req_sel.push(vec![km, paths, 2, 2, 3, 1, 0, 0, 1, 2, 2, 1, 1]);
			if thorough {
				req_sel.push(vec![km, paths, 0, 0, 0, 0, 0, 0, 0, 1, 0, 0, 0]);
				req_sel.push(vec![km, paths, 3, 4, 2, 1, 0, 0, 1, 0, 3, 0, 1]);
			}
		}
	}
	for c in req_sel.iter() {
		let mut st = Stats::default();
		if let Ok(Ok(b)) = run_case(fx, "invreq", c, &mut st) {
			flip_jobs.push((Kind::InvoiceRequest, b, json!({"family": "invreq", "cfg": c})));
		}
	}
	let q = if thorough { 8 } else { 1 };
	pick(&inv_cfgs, &inv_bytes, "invoice", Kind::Invoice, if thorough { 97 } else { 1201 }, &mut flip_jobs);
	pick(&rinv_cfgs, &rinv_bytes, "refund-invoice", Kind::Invoice, if thorough { 997 } else { 577 }, &mut flip_jobs);
	pick(&st_cfgs, &st_bytes, "static", Kind::StaticInvoice, if thorough { 1499 } else { 97 }, &mut flip_jobs);
	pick(&offers, &offer_bytes, "offer", Kind::Offer, 2399 / q, &mut flip_jobs);
	pick(&refunds, &refund_bytes, "refund", Kind::Refund, 911 / q, &mut flip_jobs);
	// an offer denominated in a currency cannot be built through the public builder (the setter is
	// crate-private); splice a currency record into a built offer so that at least parsing and
	// re-encoding of such offers is covered
	{
		let oc: b12::OCfg = [0, 1, 2, 2, 0, 1, 2, 1];
		if let Ok(o) = b12::build_offer(fx, &oc) {
			let b: Vec<u8> = o.as_ref().to_vec();
			let recs = b12::tlv_records(&b).expect("well formed");
			let at = recs.iter().find(|r| r.typ >= 6).map(|r| r.start).unwrap_or(b.len());
			let mut c = b[..at].to_vec();
			c.extend_from_slice(&[6, 3, b'U', b'S', b'D']);
			c.extend_from_slice(&b[at..]);
			match b12::parse_kind(Kind::Offer, c.clone()) {
				Ok(re) if re == c => {
					cx.stats.add("b12.offer.currency_spliced.parsed_identity", 1);
					cx.nontrivial(&c);
					flip_jobs.push((Kind::Offer, c, json!({"family": "offer-currency-spliced", "cfg": oc.to_vec()})));
				},
				o => cx.push(7 << 32, Viol {
					oracle: "bolt12-parse-reencode",
					identity: "bolt12-parse-reencode|offer|currency-spliced".into(),
					detail: format!("offer with a spliced currency record {} gives {:?}", hex(&c), o.map(|x| hex(&x))),
					replay: json!({"fam": "b12-bytes", "bytes": hex(&c)}),
					rank: 0,
				}),
			}
		}
	}
	for (k, _, _) in flip_jobs.iter() {
		cx.stats.add(&format!("b12.flip.{}.objects", k.name()), 1);
	}
	let deadline = cx.deadline;
	let res = par::map(&flip_jobs, cx.threads, |_, (kind, bytes, spec)| {
		if Instant::now() >= deadline {
			return None;
		}
		let mut st = Stats::default();
		let mut out = Vec::new();
		b12::check_bit_flips(*kind, bytes, spec, &mut st, &mut out);
		crate::dedup_by_identity(&mut out);
		Some((st, out))
	});
	for (k, r) in res.into_iter().enumerate() {
		match r {
			Ok(Some((st, out))) => {
				cx.stats.merge(&st);
				for v in out {
					cx.push((7 << 32) + k as u64, v);
				}
			},
			Ok(None) => cx.capped = true,
			Err(p) => cli_die(&format!("harness panic in bit flips: {}", p)),
		}
	}
	cx.lap("b12.flips");
	if let Some((k, b, _)) = flip_jobs.iter().find(|(k, _, _)| *k == Kind::Invoice) {
		cx.samples.push(json!({"family": "bolt12-bitflip", "kind": k.name(), "original": hex(b), "flips": b.len() * 8}));
	}

	// ---- requests against altered offers -----------------------------------------------------
	let mut alt_offers: Vec<Vec<u8>> = vec![
		vec![3, 0, 2, 2, 3, 1, 2, 1], // metadata-derived, every record present
		vec![3, 2, 2, 2, 3, 1, 2, 1], // path-derived signing key, every record present
		vec![3, 0, 0, 0, 0, 0, 0, 0],
		vec![3, 1, 0, 0, 0, 0, 0, 0],
	];
	if thorough {
		alt_offers.push(vec![3, 1, 3, 4, 2, 1, 1, 0]);
		alt_offers.push(vec![3, 0, 1, 1, 4, 1, 0, 1]);
	}
	let res = par::map(&alt_offers, cx.threads, |_, c| {
		let oc: b12::OCfg = arr(c);
		let mut st = Stats::default();
		let mut out = Vec::new();
		match b12::build_offer(fx, &oc) {
			Ok(o) => b12::check_altered_offers(fx, &o, &oc, &mut st, &mut out),
			Err(e) => cli_die(&format!("altered-offer base offer not buildable: {}", e)),
		}
		crate::dedup_by_identity(&mut out);
		(st, out)
	});
	for (k, r) in res.into_iter().enumerate() {
		match r {
			Ok((st, out)) => {
				cx.stats.merge(&st);
				for v in out {
					cx.push((8 << 32) + k as u64, v);
				}
			},
			Err(p) => cli_die(&format!("harness panic in altered offers: {}", p)),
		}
	}

	cx.lap("b12.altered-offers");
	// ---- altered, re-signed invoices ----------------------------------------------------------
	let mut alt_inv: Vec<(&str, Vec<u8>)> = vec![
		("invoice", vec![0, 0, 2, 2, 0, 1, 2, 1, 0, 0, 2, 1, 0, 0, 2, 1, 1, 0]),
		("invoice", vec![1, 2, 0, 0, 3, 1, 0, 0, 1, 1, 0, 1, 1, 1, 0, 0, 0, 0]),
		("invoice", vec![3, 0, 2, 0, 0, 0, 0, 0, 0, 0, 0, 0, 0, 0, 0, 0, 0, 0]),
		("refund-invoice", vec![2, 0, 0, 2, 2, 1, 1, 1, 0, 2, 0, 0, 0, 0]),
		("refund-invoice", vec![2, 2, 0, 0, 0, 0, 0, 0, 1, 0, 1, 1, 0, 0]),
	];
	if !thorough {
		alt_inv.truncate(5);
	}
	let res = par::map(&alt_inv, cx.threads, |_, (fam, c)| {
		let mut st = Stats::default();
		let mut out = Vec::new();
		let mut vst = Stats::default();
		match run_case(fx, fam, c, &mut vst) {
			Ok(Ok(bytes)) => {
				let (signer, what) = if *fam == "invoice" { (&fx.recipient_keys, "invoice") } else { (&fx.refundee_keys, "refund_invoice") };
				b12::check_altered_invoice(fx, &bytes, signer, what, &json!({"family": fam, "cfg": c}), &mut st, &mut out);
			},
			o => cli_die(&format!("altered-invoice base {} {:?} not buildable: {:?}", fam, c, o.map(|x| x.map(|b| b.len())))),
		}
		crate::dedup_by_identity(&mut out);
		(st, out)
	});
	for (k, r) in res.into_iter().enumerate() {
		match r {
			Ok((st, out)) => {
				cx.stats.merge(&st);
				for v in out {
					cx.push((9 << 32) + k as u64, v);
				}
			},
			Err(p) => cli_die(&format!("harness panic in altered invoices: {}", p)),
		}
	}

	cx.lap("b12.altered-invoices");
	// ---- arbitrary byte streams ------------------------------------------------------------------
	// all byte strings of length <= 2 (thorough: <= 3) and every truncation of the selected objects
	let maxlen = if thorough { 3 } else { 2 };
	let firsts: Vec<u32> = (0..257).collect(); // 256 = the empty string / one-byte strings
	let res = par::map(&firsts, cx.threads, |_, f| {
		let mut st = Stats::default();
		let mut out: Vec<Viol> = Vec::new();
		let mut try_one = |b: &[u8]| {
			st.add("arb.bytes.evaluations", 1);
			match par::guarded(|| b12::parse_all_bytes(b)) {
				Ok(0) => st.add("arb.bytes.rejected", 1),
				Ok(_) => st.add("arb.bytes.accepted", 1),
				Err(p) => out.push(Viol {
					oracle: "no-panic",
					identity: format!("no-panic|parse-bytes|{}", p),
					detail: format!("parsing bytes {} panics: {}", hex(b), p),
					replay: json!({"fam": "b12-bytes", "bytes": hex(b)}),
					rank: 0,
				}),
			}
		};
		if *f == 256 {
			try_one(&[]);
			return (st, out);
		}
		let a = *f as u8;
		try_one(&[a]);
		for b in 0..=255u8 {
			try_one(&[a, b]);
			if maxlen >= 3 {
				for c in 0..=255u8 {
					try_one(&[a, b, c]);
				}
			}
		}
		(st, out)
	});
	for (k, r) in res.into_iter().enumerate() {
		if let Ok((st, out)) = r {
			cx.stats.merge(&st);
			for v in out {
				cx.push((10 << 32) + k as u64, v);
			}
		}
	}
	let res = par::map(&flip_jobs, cx.threads, |_, (_, bytes, _)| {
		let mut st = Stats::default();
		let mut out: Vec<Viol> = Vec::new();
		for n in 0..bytes.len() {
			for variant in 0..2 {
				let mut b = bytes[..n].to_vec();
				if variant == 1 {
					b.extend_from_slice(&[0xff, 0xff, 0xff]);
				}
				st.add("arb.bytes.evaluations", 1);
				match par::guarded(|| b12::parse_all_bytes(&b)) {
					Ok(0) => st.add("arb.bytes.rejected", 1),
					Ok(_) => st.add("arb.bytes.accepted", 1),
					Err(p) => out.push(Viol {
						oracle: "no-panic",
						identity: format!("no-panic|parse-bytes|{}", p),
						detail: format!("parsing bytes {} panics: {}", hex(&b), p),
						replay: json!({"fam": "b12-bytes", "bytes": hex(&b)}),
						rank: 0,
					}),
				}
			}
		}
		(st, out)
	});
	for (k, r) in res.into_iter().enumerate() {
		if let Ok((st, out)) = r {
			cx.stats.merge(&st);
			for v in out {
				cx.push((11 << 32) + k as u64, v);
			}
		}
	}
}

pub fn replay(fam: &str, r: &Value) -> Result<String, String> {
	let fx = b12::fix();
	match fam {
		"b12-flip" => {
			let kind = Kind::from_name(r["kind"].as_str().ok_or("kind")?).ok_or("kind")?;
			let mut b = mc_common::unhex(r["bytes"].as_str().ok_or("bytes")?).ok_or("hex")?;
			let bit = r["bit"].as_u64().ok_or("bit")? as usize;
			b[bit / 8] ^= 1 << (bit % 8);
			match b12::parse_kind(kind, b.clone()) {
				Ok(re) => {
					if kind.signed() {
						Err(format!("flipped {} still parses", kind.name()))
					} else if re != b {
						Err(format!("parsed {} re-encodes differently", kind.name()))
					} else {
						Ok("parses and re-encodes identically".into())
					}
				},
				Err(k) => Ok(format!("rejected: {}", k)),
			}
		},
		"b12-bytes" => {
			let b = mc_common::unhex(r["bytes"].as_str().ok_or("bytes")?).ok_or("hex")?;
			Ok(format!("no panic; accepted by {} parsers", b12::parse_all_bytes(&b)))
		},
		"b12-altered-offer" => b12::replay_altered_offer(&fx, r),
		"b12-altered-invoice" => b12::replay_altered_invoice(&fx, r),
		_ => {
			let f = fam.strip_prefix("b12-").ok_or("family")?;
			let sz = sizes(f);
			let a = r["cfg"].as_array().ok_or("cfg")?;
			if sz.is_empty() || a.len() != sz.len() {
				return Err(format!("bad cfg for family {}", f));
			}
			let mut c = Vec::new();
			for (i, x) in a.iter().enumerate() {
				let v = x.as_u64().ok_or("cfg value")? as usize;
				if v >= sz[i] {
					return Err("cfg value out of range".into());
				}
				c.push(v as u8);
			}
			let mut st = Stats::default();
			match run_case(&fx, f, &c, &mut st) {
				Ok(Ok(b)) => Ok(format!("holds ({} bytes)", b.len())),
				Ok(Err(k)) => Ok(format!("builder refuses: {}", k)),
				Err((o, d)) => Err(format!("{}: {}", o, d)),
			}
		},
	}
}
