//! C18 – payment requests round-trip and cannot be forged or altered (bounded-exhaustive input
//! enumeration, evidence level "exploration").
mod b11;
mod b12;
mod b32;
mod run11;
mod run12;

use mc_common::cli::{self, Tier};
use mc_common::evidence::{Evidence, Level};
use mc_common::findings::{self, Violation};
use mc_common::{json, Value};
use std::collections::BTreeMap;
use std::time::Instant;

pub const ID: &str = "C18";

/// Additive counters; merged deterministically (order independent).
#[derive(Default, Clone)]
pub struct Stats(pub BTreeMap<String, u64>);
impl Stats {
	pub fn add(&mut self, k: &str, n: u64) {
		*self.0.entry(k.to_string()).or_insert(0) += n;
	}
	pub fn merge(&mut self, o: &Stats) {
		for (k, v) in o.0.iter() {
			*self.0.entry(k.clone()).or_insert(0) += v;
		}
	}
	pub fn get(&self, k: &str) -> u64 {
		self.0.get(k).copied().unwrap_or(0)
	}
	pub fn sum_prefix(&self, p: &str) -> u64 {
		self.0.iter().filter(|(k, _)| k.starts_with(p)).map(|(_, v)| *v).sum()
	}
}

/// A violation before it is turned into `findings::Violation`; `rank` orders candidates that share
/// an identity so the reported replay is the same on every run.
#[derive(Clone, Debug)]
pub struct Viol {
	pub oracle: &'static str,
	pub identity: String,
	pub detail: String,
	pub replay: Value,
	pub rank: u64,
}

pub struct Ctx {
	pub tier: Tier,
	pub threads: usize,
	pub deadline: Instant,
	pub stats: Stats,
	pub viols: Vec<(u64, Viol)>, // (global order, violation)
	pub capped: bool,
	pub samples: Vec<Value>,
	pub distinct: std::collections::BTreeSet<u128>,
	pub last_lap: Instant,
	pub laps: Vec<(String, f64)>,
}

impl Ctx {
	pub fn expired(&self) -> bool {
		Instant::now() >= self.deadline
	}
	pub fn push(&mut self, order: u64, v: Viol) {
		self.viols.push((order, v));
	}
	pub fn lap(&mut self, name: &str) {
		let now = Instant::now();
		let d = now.duration_since(self.last_lap).as_secs_f64();
		self.last_lap = now;
		self.laps.push((name.to_string(), (d * 10.0).round() / 10.0));
	}
	pub fn nontrivial(&mut self, bytes: &[u8]) {
		self.distinct.insert(mc_common::digest128(bytes));
	}
}

fn replay(path: &std::path::Path) -> ! {
	let text = std::fs::read_to_string(path).unwrap_or_else(|e| cli::die(&format!("cannot read {}: {}", path.display(), e)));
	let v: Value = mc_common::serde_json::from_str(&text).unwrap_or_else(|e| cli::die(&format!("bad replay json: {}", e)));
	let r = &v["replay"];
	let fam = r["fam"].as_str().unwrap_or_else(|| cli::die("replay has no family"));
	mc_common::par::set_quiet(false);
	let res: Result<Result<String, String>, String> = mc_common::par::guarded(|| {
		if fam.starts_with("b11") || fam == "arb-str" {
			run11::replay(fam, r)
		} else {
			run12::replay(fam, r)
		}
	});
	match res {
		Ok(Ok(msg)) => {
			println!("REPLAY property={} oracle={} verdict=holds ({})", ID, v["oracle"].as_str().unwrap_or("?"), msg);
			std::process::exit(0)
		},
		Ok(Err(msg)) => {
			println!("REPLAY property={} oracle={} verdict=VIOLATION ({})", ID, v["oracle"].as_str().unwrap_or("?"), msg);
			std::process::exit(1)
		},
		Err(p) => {
			println!("REPLAY property={} oracle={} verdict=VIOLATION (panic: {})", ID, v["oracle"].as_str().unwrap_or("?"), p);
			std::process::exit(1)
		},
	}
}

fn main() {
	let args = cli::parse();
	if let Some(p) = &args.replay {
		replay(p);
	}
	if args.property != ID {
		cli::die(&format!("mc-invoice checks {} only", ID));
	}
	mc_common::par::install_quiet_panic_hook();
	let start = Instant::now();
	let mut ev = Evidence::new(ID, args.tier, args.seed, Level::Exploration);
	let cap = if args.wall_cap_s > 0 {
		args.wall_cap_s
	} else if args.tier.is_thorough() {
		1800
	} else {
		55
	};
	let mut cx = Ctx {
		tier: args.tier,
		threads: args.threads,
		deadline: start + std::time::Duration::from_secs(cap),
		stats: Stats::default(),
		viols: Vec::new(),
		capped: false,
		samples: Vec::new(),
		distinct: Default::default(),
		last_lap: start,
		laps: Vec::new(),
	};
	let only = args.opt("only").map(|s| s.to_string());
	let want = |n: &str| only.as_deref().map(|o| o.split(',').any(|x| x == n)).unwrap_or(true);

	let mut timings: Vec<(String, f64)> = Vec::new();
	macro_rules! phase {
		($name: expr, $f: expr) => {
			if want($name) {
				let t = Instant::now();
				$f;
				timings.push(($name.to_string(), t.elapsed().as_secs_f64()));
				eprintln!("[{}] {} done in {:.1}s (total {:.1}s)", ID, $name, t.elapsed().as_secs_f64(), start.elapsed().as_secs_f64());
			}
		};
	}
	// thorough: each phase gets a share of the wall cap so that a slow machine still reaches all of them
	let global_deadline = cx.deadline;
	let share = |cx: &mut Ctx, frac: f64| {
		let d = Instant::now() + std::time::Duration::from_secs_f64(cap as f64 * frac);
		cx.deadline = if args.tier.is_thorough() && d < global_deadline { d } else { global_deadline };
	};
	share(&mut cx, 0.45);
	phase!("b11", run11::run(&mut cx));
	share(&mut cx, 1.0);
	phase!("arb", run11::run_arbitrary(&mut cx));
	share(&mut cx, 0.30);
	phase!("b12", run12::run(&mut cx));
	share(&mut cx, 1.0);
	if args.tier.is_thorough() {
		phase!("b11-wide", run11::run_wide(&mut cx));
	}

	// ---------------------------------------------------------------------------------------
	for (k, v) in cx.stats.0.iter() {
		ev.set(k, *v);
	}
	let evaluations: u64 = cx.stats.0.iter().filter(|(k, _)| k.ends_with(".evaluations")).map(|(_, v)| *v).sum();
	ev.set("evaluations", evaluations);
	ev.set("distinct_nontrivial", cx.distinct.len() as u64);
	ev.set(
		"rule",
		"distinct serialisations (BOLT-11 strings, BOLT-12 TLV streams) that the builders produced and that parsed back successfully; every mutation / verification case is derived from one of them",
	);
	ev.set(
		"space",
		json!({
			"bolt11_factors": b11::FACTOR_NAMES.iter().zip(b11::FACTOR_SIZES.iter()).map(|(n, s)| json!([n, s])).collect::<Vec<_>>(),
			"bolt11_families": "one-factor, all pairs of factor values, full product amount x timestamp x expiry x description x payee x mpp, full product fallbacks x routes x metadata x cltv(thorough) x payee x amount{none,1msat,max} x order; thorough adds a wide product of all factors (run last, round trip only)",
			"bolt11_mutations": "per selected invoice: every character x every other character of [a-z0-9] (HRP) / bech32 alphabet + 3 foreign characters (data), every single-character deletion; with recomputed checksum: every data symbol x 31 values, HRP amount/multiplier/currency edits, remove/duplicate/swap/insert of tagged fields, all truncations",
			"bolt12_offer_factors": b12::OFFER_FACTOR_NAMES.iter().zip(b12::OFFER_FACTOR_SIZES.iter()).map(|(n, s)| json!([n, s])).collect::<Vec<_>>(),
			"bolt12_refund_factors": b12::REFUND_FACTOR_NAMES.iter().zip(b12::REFUND_FACTOR_SIZES.iter()).map(|(n, s)| json!([n, s])).collect::<Vec<_>>(),
			"bolt12_request_factors": [["chain", 3], ["amount", 4], ["quantity", 5], ["payer_note", 2], ["hrn", 2]],
			"bolt12_invoice_factors": [["payment_paths", 2], ["relative_expiry", 4], ["fallbacks", 5], ["mpp", 2], ["created_at", 4]],
			"bolt12_mutations": "every single-bit flip of selected signed streams (invoice request, invoice, refund invoice, static invoice) and of selected offers/refunds; every bit flip / record removal / unknown-record insertion / one-byte extension or shortening of each offer record (requests against the altered offer) and of each reflected record < 160 of invoices (re-signed by the recipient)",
			"arbitrary": "all strings of <= 3 bech32 characters after lnbc/lntb/lnbcrt/lno/lnr/lni with and without separator; structured corpus; all byte strings of length <= 2 (thorough 3); every truncation of the selected streams (+ 3 x 0xff)"
		}),
	);
	ev.set("capped", cx.capped);
	ev.set("exhaustive", !cx.capped && only.is_none());
	ev.set("wall_cap_s", cap);
	ev.set("timings_s", json!(timings.iter().map(|(n, t)| json!([n, (t * 10.0).round() / 10.0])).collect::<Vec<_>>()));
	ev.set("sub_phase_wall_s", json!(cx.laps.iter().map(|(n, t)| json!([n, t])).collect::<Vec<_>>()));
	eprintln!("[{}] sub-phases: {:?}", ID, cx.laps);
	for s in cx.samples.iter() {
		ev.sample(s.clone(), 24);
	}
	ev.assume("secp256k1 (ECDSA recovery, BIP-340 verification) and SHA-256 are trusted; forgery by breaking them is out of scope");
	ev.assume("BOLT-11 mutants that parse are compared on the parsed signed content (RawBolt11Invoice + accessors): LDK hashes its own re-serialisation of what it parsed, so encodings that parse to identical content (padding bits) count as 'exactly the signed content'");
	ev.assume("BOLT-12 builders consult the wall clock for offer/refund expiry; enumerated expiries are either absent, in the far future (2^40 s) or in 1970, so the outcome does not depend on the current time");
	ev.assume("the derived recipient signing secret of path-derived offers is not reachable from outside the crate; re-signed altered invoices use explicit-key and metadata-derived offers only");

	// one violation per identity: lowest (order, rank)
	cx.viols.sort_by(|a, b| (a.1.identity.as_str(), a.0, a.1.rank).cmp(&(b.1.identity.as_str(), b.0, b.1.rank)));
	let mut seen = std::collections::BTreeSet::new();
	let mut violations = Vec::new();
	for (_, v) in cx.viols.iter() {
		if seen.insert(v.identity.clone()) {
			violations.push(Violation {
				property: ID.to_string(),
				oracle: v.oracle.to_string(),
				identity: v.identity.clone(),
				detail: v.detail.replace('\x1f', " ").chars().take(3000).collect(),
				replay: v.replay.clone(),
			});
		}
	}
	// vacuity guards
	// (skipped when a mutation / verification / no-panic oracle fired: a defect that removes an outcome
	// class must surface as its violation, not as a machinery error; round-trip findings do not
	// remove outcome classes and do not disable the guards)
	if only.is_none() && !violations.iter().any(|v| !v.oracle.contains("roundtrip")) {
		let need = [
			"b11.roundtrip.ok",
			"b11.builder_rejected",
			"b11.charsub.rejected_checksum_or_bech32",
			"b11.chardel.rejected",
			"b11.symfix.rejected_parse",
			"b11.symfix.rejected_signature",
			"b11.symfix.accepted_different_key",
			"b11.symfix.accepted_same_content_same_key",
			"b11.symfix.rejected_malformed_signature",
			"b11.hrpfix.accepted_different_key",
			"b11.hrpfix.rejected_signature",
			"b11.hrpfix.rejected_parse",
			"b11.struct.accepted_different_key",
			"b11.struct.rejected_parse",
			"arb.str.rejected",
			"arb.corpus.rejected",
			"b12.offer.roundtrip.ok",
			"b12.offer.builder_rejected",
			"b12.invreq.roundtrip.ok",
			"b12.invreq.builder_rejected",
			"b12.invoice.roundtrip.ok",
			"b12.refund.roundtrip.ok",
			"b12.refund_invoice.roundtrip.ok",
			"b12.static.roundtrip.ok",
			"b12.flip.invreq.rejected",
			"b12.flip.invoice.rejected",
			"b12.flip.static.rejected",
			"b12.flip.invreq.err.InvalidSignature:IncorrectSignature",
			"b12.flip.invoice.err.InvalidSignature:IncorrectSignature",
			"b12.flip.static.err.InvalidSignature:IncorrectSignature",
			"b12.flip.offer.parsed_identity",
			"b12.verify.invreq.metadata.genuine_accepted",
			"b12.verify.invreq.recipient_data.genuine_accepted",
			"b12.verify.invreq.refused_other_key",
			"b12.verify.invreq.refused_other_nonce",
			"b12.verify.invreq.refused_not_derived",
			"b12.verify.invoice.genuine_accepted",
			"b12.verify.invoice.refused_other_key",
			"b12.verify.refund_invoice.genuine_accepted",
			"b12.verify.refund_invoice.refused_other_key",
			"b12.altered_offer.refused.metadata.tlv4",
			"b12.altered_offer.refused.metadata.tlv8",
			"b12.altered_offer.refused.metadata.tlv22",
			"b12.altered_offer.refused.recipient-data.tlv16",
			"b12.altered_offer.refused.recipient-data.tlv22",
			"b12.altered_offer.offer-unparsable",
			"b12.altered_invoice.refused",
			"b12.altered_refund_invoice.refused",
			"arb.bytes.rejected",
		];
		for k in need {
			if cx.stats.get(k) == 0 && !cx.capped {
				for (k, v) in cx.stats.0.iter() {
					eprintln!("  {} = {}", k, v);
				}
				cli::die(&format!("vacuity guard: outcome {} was never observed", k));
			}
		}
	}

	ev.set("violation_candidates", cx.viols.len() as u64);
	eprintln!(
		"[{}] tier={} evaluations={} distinct_nontrivial={} capped={} violations={} wall={:.1}s",
		ID,
		args.tier.name(),
		evaluations,
		cx.distinct.len(),
		cx.capped,
		violations.len(),
		start.elapsed().as_secs_f64()
	);
	std::process::exit(findings::conclude(ID, &violations, &mut ev));
}

/// Names of the accessor fields (unit-separator separated `name=value` dumps) that differ.
pub fn diff_fields(a: &str, b: &str) -> Vec<String> {
	let fa: Vec<&str> = a.split('\x1f').collect();
	let fb: Vec<&str> = b.split('\x1f').collect();
	let mut out = Vec::new();
	for i in 0..fa.len().max(fb.len()) {
		let x = fa.get(i).copied().unwrap_or("");
		let y = fb.get(i).copied().unwrap_or("");
		if x != y {
			out.push(x.split('=').next().unwrap_or("").to_string());
		}
	}
	out
}

/// `fields=a+b; built … parsed …` – the prefix is what violation identities are made of.
pub fn diff_detail(a: &str, b: &str) -> String {
	let d = diff_fields(a, b);
	let mut s = format!("fields={}; ", d.join("+"));
	for (x, y) in a.split('\x1f').zip(b.split('\x1f')) {
		if x != y {
			s.push_str(&format!("built {} / parsed {}; ", x, y));
		}
	}
	s
}

/// Identity for a round-trip violation: cause (differing fields) if known, else the minimal config.
pub fn rt_identity(oracle: &str, fam: &str, detail: &str, minimal: &str) -> String {
	if let Some(rest) = detail.strip_prefix("fields=") {
		let f = rest.split(';').next().unwrap_or("");
		format!("{}|{}|fields={}", oracle, fam, f)
	} else {
		format!("{}|{}|{}", oracle, fam, minimal)
	}
}

/// Keeps the first (lowest rank first) violation of each identity.
pub fn dedup_by_identity(v: &mut Vec<Viol>) {
	v.sort_by(|a, b| (a.identity.as_str(), a.rank).cmp(&(b.identity.as_str(), b.rank)));
	v.dedup_by(|b, a| a.identity == b.identity);
}
