use crate::evidence::Evidence;
use serde_json::{json, Value};
use std::collections::BTreeSet;

/// One violation of a property found by a check.
#[derive(Clone, Debug)]
pub struct Violation {
	pub property: String,
	/// Name of the oracle that fired (stable identifier, e.g. "commitment-conservation").
	pub oracle: String,
	/// Canonical identity of this violation (failing input / call site / minimal action list). It is
	/// what known_findings.json matches on, so a *different* violation of the same property is
	/// still reported.
	pub identity: String,
	/// Human-readable explanation.
	pub detail: String,
	/// Everything needed to replay it without the explorer.
	pub replay: Value,
}

pub struct KnownFinding {
	pub property: String,
	pub identity: String,
	pub what: String,
}

pub fn load_known() -> Vec<KnownFinding> {
	let p = crate::verif_dir().join("known_findings.json");
	let s = match std::fs::read_to_string(&p) {
		Ok(s) => s,
		Err(_) => return Vec::new(),
	};
	let v: Value = match serde_json::from_str(&s) {
		Ok(v) => v,
		Err(e) => crate::cli::die(&format!("known_findings.json does not parse: {}", e)),
	};
	let mut out = Vec::new();
	if let Some(a) = v.get("findings").and_then(|f| f.as_array()) {
		for f in a {
			out.push(KnownFinding {
				property: f["property"].as_str().unwrap_or("").to_string(),
				identity: f["identity"].as_str().unwrap_or("").to_string(),
				what: f["what"].as_str().unwrap_or("").to_string(),
			});
		}
	}
	out
}

/// Writes replay files and prints the VIOLATION / KNOWN-FINDING lines, finalises and writes the
/// evidence, returns the process exit code (0 or 1). Never modifies known_findings.json.
pub fn conclude(property: &str, violations: &[Violation], ev: &mut Evidence) -> i32 {
	let known = load_known();
	let mut unknown = 0u64;
	let mut known_hit: BTreeSet<String> = BTreeSet::new();
	let mut printed: BTreeSet<String> = BTreeSet::new();
	let dir = crate::verif_dir().join("replays");
	let _ = std::fs::create_dir_all(&dir);
	for v in violations {
		if let Some(k) = known.iter().find(|k| k.property == v.property && k.identity == v.identity) {
			if known_hit.insert(k.identity.clone()) {
				println!("KNOWN-FINDING: property={} {}", v.property, k.what);
			}
			continue;
		}
		unknown += 1;
		if !printed.insert(v.identity.clone()) || printed.len() > 20 {
			continue;
		}
		let body = json!({
			"property": v.property,
			"oracle": v.oracle,
			"identity": v.identity,
			"detail": v.detail,
			"replay": v.replay,
		});
		let text = serde_json::to_string_pretty(&body).unwrap();
		let name = format!("{}-{:016x}.json", v.property, crate::fnv64(v.identity.as_bytes()));
		let path = dir.join(name);
		let _ = std::fs::write(&path, text + "\n");
		eprintln!("violation [{}] {}: {}", v.property, v.oracle, v.detail);
		println!("VIOLATION property={} replay={}", v.property, path.display());
	}
	for k in known.iter().filter(|k| k.property == property) {
		if !known_hit.contains(&k.identity) {
			eprintln!("note: listed known finding did not fire on this run: {}", k.what);
		}
	}
	ev.violations = unknown;
	ev.set("known_findings_hit", known_hit.len() as u64);
	ev.write();
	if unknown > 0 {
		1
	} else {
		0
	}
}
