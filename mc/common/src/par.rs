//! Panic-isolating parallel helpers.
use std::cell::RefCell;
use std::panic::{catch_unwind, AssertUnwindSafe};
use std::sync::atomic::{AtomicBool, AtomicUsize, Ordering};
use std::sync::{Condvar, Mutex, Once};
use std::time::{Duration, Instant};

thread_local! {
	static LAST_PANIC: RefCell<Option<String>> = RefCell::new(None);
}
static HOOK: Once = Once::new();
static QUIET: AtomicBool = AtomicBool::new(true);

/// Installs a panic hook that records `message @ file:line` in a thread-local instead of printing
/// (explorations run millions of executions; a subject panic is a *finding*, reported with its
/// replay, not stderr noise).
pub fn install_quiet_panic_hook() {
	HOOK.call_once(|| {
		let default = std::panic::take_hook();
		std::panic::set_hook(Box::new(move |info| {
			let msg = if let Some(s) = info.payload().downcast_ref::<&str>() {
				s.to_string()
			} else if let Some(s) = info.payload().downcast_ref::<String>() {
				s.clone()
			} else {
				"<non-string panic>".to_string()
			};
			let loc = info.location().map(|l| format!("{}:{}", l.file(), l.line())).unwrap_or_default();
			LAST_PANIC.with(|p| *p.borrow_mut() = Some(format!("{} @ {}", msg, loc)));
			if !QUIET.load(Ordering::Relaxed) {
				default(info);
			}
		}));
	});
}

pub fn set_quiet(q: bool) {
	QUIET.store(q, Ordering::Relaxed);
}

/// Runs `f`, converting a panic into `Err(message @ location)`.
pub fn guarded<R>(f: impl FnOnce() -> R) -> Result<R, String> {
	install_quiet_panic_hook();
	LAST_PANIC.with(|p| *p.borrow_mut() = None);
	match catch_unwind(AssertUnwindSafe(f)) {
		Ok(r) => Ok(r),
		Err(_) => Err(LAST_PANIC.with(|p| p.borrow_mut().take()).unwrap_or_else(|| "panic".to_string())),
	}
}

/// Parallel map over `items` preserving order. `f` is run under `guarded`.
pub fn map<T: Sync, R: Send>(items: &[T], threads: usize, f: impl Fn(usize, &T) -> R + Sync) -> Vec<Result<R, String>> {
	let next = AtomicUsize::new(0);
	let out: Mutex<Vec<Option<Result<R, String>>>> = Mutex::new((0..items.len()).map(|_| None).collect());
	let threads = threads.max(1).min(items.len().max(1));
	std::thread::scope(|s| {
		for _ in 0..threads {
			s.spawn(|| loop {
				let i = next.fetch_add(1, Ordering::Relaxed);
				if i >= items.len() {
					break;
				}
				let r = guarded(|| f(i, &items[i]));
				out.lock().unwrap()[i] = Some(r);
			});
		}
	});
	out.into_inner().unwrap().into_iter().map(|x| x.unwrap()).collect()
}

/// A dynamic work queue: workers pop tasks and may push new ones. Terminates when the queue is
/// empty and no worker is busy, or when `deadline` passes (returns `true` if capped).
pub struct WorkQueue<T> {
	q: Mutex<(Vec<T>, usize)>, // (stack, busy workers)
	cv: Condvar,
	capped: AtomicBool,
}

impl<T: Send> WorkQueue<T> {
	pub fn new(initial: Vec<T>) -> Self {
		WorkQueue { q: Mutex::new((initial, 0)), cv: Condvar::new(), capped: AtomicBool::new(false) }
	}
	pub fn push(&self, t: T) {
		self.q.lock().unwrap().0.push(t);
		self.cv.notify_one();
	}
	pub fn push_all(&self, ts: Vec<T>) {
		if ts.is_empty() {
			return;
		}
		self.q.lock().unwrap().0.extend(ts);
		self.cv.notify_all();
	}
	/// Runs `worker(task, &queue)` on `threads` threads until exhaustion or deadline.
	/// Returns whether the run was capped (tasks left unexplored).
	pub fn run(&self, threads: usize, deadline: Option<Instant>, worker: impl Fn(T, &WorkQueue<T>) + Sync) -> bool {
		std::thread::scope(|s| {
			for _ in 0..threads.max(1) {
				s.spawn(|| loop {
					let task = {
						let mut g = self.q.lock().unwrap();
						loop {
							if self.capped.load(Ordering::Relaxed) {
								break None;
							}
							if let Some(d) = deadline {
								if Instant::now() >= d {
									if !g.0.is_empty() || g.1 > 0 {
										self.capped.store(true, Ordering::Relaxed);
									}
									self.cv.notify_all();
									break None;
								}
							}
							if let Some(t) = g.0.pop() {
								g.1 += 1;
								break Some(t);
							}
							if g.1 == 0 {
								self.cv.notify_all();
								break None;
							}
							let (ng, _) = self.cv.wait_timeout(g, Duration::from_millis(200)).unwrap();
							g = ng;
						}
					};
					match task {
						None => break,
						Some(t) => {
							worker(t, self);
							let mut g = self.q.lock().unwrap();
							g.1 -= 1;
							if g.1 == 0 && g.0.is_empty() {
								self.cv.notify_all();
							}
						},
					}
				});
			}
		});
		self.remaining() > 0
	}
	pub fn remaining(&self) -> usize {
		self.q.lock().unwrap().0.len()
	}
}
