use crate::cli::Tier;
use serde_json::{json, Map, Value};
use std::time::Instant;

#[derive(Clone, Copy, Debug, PartialEq, Eq)]
pub enum Level {
	Exploration,
	FaultEnumeration,
	ModelChecking,
}

impl Level {
	fn name(&self) -> &'static str {
		match self {
			Level::Exploration => "exploration",
			Level::FaultEnumeration => "fault_enumeration",
			Level::ModelChecking => "model_checking",
		}
	}
}

/// Evidence accumulator. All counters are measured by the caller; nothing is defaulted except
/// bookkeeping. `write()` refuses (machinery error) to emit a file that would not validate.
pub struct Evidence {
	pub property_id: String,
	pub tier: Tier,
	pub seed: u64,
	pub level: Level,
	pub coverage: Map<String, Value>,
	pub assumptions: Vec<String>,
	pub violations: u64,
	samples: Vec<Value>,
	start: Instant,
}

impl Evidence {
	pub fn new(property_id: &str, tier: Tier, seed: u64, level: Level) -> Self {
		Evidence {
			property_id: property_id.to_string(),
			tier,
			seed,
			level,
			coverage: Map::new(),
			assumptions: Vec::new(),
			violations: 0,
			samples: Vec::new(),
			start: Instant::now(),
		}
	}
	pub fn set(&mut self, k: &str, v: impl Into<Value>) -> &mut Self {
		self.coverage.insert(k.to_string(), v.into());
		self
	}
	/// Adds to an integer coverage counter (creating it at 0).
	pub fn add(&mut self, k: &str, n: u64) -> &mut Self {
		let cur = self.coverage.get(k).and_then(|v| v.as_u64()).unwrap_or(0);
		self.coverage.insert(k.to_string(), json!(cur + n));
		self
	}
	pub fn get_u64(&self, k: &str) -> u64 {
		self.coverage.get(k).and_then(|v| v.as_u64()).unwrap_or(0)
	}
	/// Keeps at most `max` samples overall.
	pub fn sample(&mut self, v: Value, max: usize) {
		if self.samples.len() < max {
			self.samples.push(v);
		}
	}
	pub fn assume(&mut self, s: &str) {
		if !self.assumptions.iter().any(|a| a == s) {
			self.assumptions.push(s.to_string());
		}
	}
	pub fn elapsed_s(&self) -> f64 {
		self.start.elapsed().as_secs_f64()
	}

	pub fn to_json(&self) -> Value {
		let mut cov = self.coverage.clone();
		cov.insert("samples".into(), Value::Array(self.samples.clone()));
		json!({
			"property_id": self.property_id,
			"tier": self.tier.name(),
			"seed": self.seed,
			"level": self.level.name(),
			"coverage": Value::Object(cov),
			"assumptions": self.assumptions,
			"wall_s": (self.start.elapsed().as_secs_f64() * 1000.0).round() / 1000.0,
			"violations": self.violations,
		})
	}

	/// Checks the per-level required keys of EVIDENCE.schema.json.
	pub fn validate(&self) -> Result<(), String> {
		let g = |k: &str| self.coverage.get(k).and_then(|v| v.as_u64());
		if self.samples.is_empty() {
			return Err("no samples recorded".into());
		}
		match self.level {
			Level::Exploration | Level::FaultEnumeration => {
				if g("evaluations").unwrap_or(0) < 1 {
					return Err("evaluations < 1".into());
				}
				if g("distinct_nontrivial").unwrap_or(0) < 2 {
					return Err("distinct_nontrivial < 2".into());
				}
				if !self.coverage.get("rule").map(|r| r.is_string()).unwrap_or(false) {
					return Err("rule missing".into());
				}
			},
			Level::ModelChecking => {
				if g("states").unwrap_or(0) < 1 || g("transitions").unwrap_or(0) < 1 {
					return Err("states/transitions < 1".into());
				}
				if g("traces_validated_against_impl").is_none() {
					return Err("traces_validated_against_impl missing".into());
				}
			},
		}
		Ok(())
	}

	pub fn write(&self) {
		if let Err(e) = self.validate() {
			crate::cli::die(&format!("evidence for {} would be invalid: {}", self.property_id, e));
		}
		let dir = crate::verif_dir().join("evidence");
		let _ = std::fs::create_dir_all(&dir);
		let path = dir.join(format!("{}.json", self.property_id));
		let tmp = dir.join(format!(".{}.json.tmp", self.property_id));
		let s = serde_json::to_string_pretty(&self.to_json()).unwrap();
		if std::fs::write(&tmp, s + "\n").and_then(|_| std::fs::rename(&tmp, &path)).is_err() {
			crate::cli::die(&format!("cannot write {}", path.display()));
		}
	}
}
