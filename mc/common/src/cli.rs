use std::path::PathBuf;

#[derive(Clone, Copy, Debug, PartialEq, Eq)]
pub enum Tier {
	Quick,
	Thorough,
}

impl Tier {
	pub fn name(&self) -> &'static str {
		match self {
			Tier::Quick => "quick",
			Tier::Thorough => "thorough",
		}
	}
	pub fn is_thorough(&self) -> bool {
		*self == Tier::Thorough
	}
}

#[derive(Clone, Debug)]
pub struct Args {
	/// Property id (first positional argument), e.g. "C13".
	pub property: String,
	pub tier: Tier,
	pub replay: Option<PathBuf>,
	pub seed: u64,
	pub threads: usize,
	/// Wall-clock cap in seconds for the engine (0 = engine default for the tier).
	pub wall_cap_s: u64,
	/// `--opt key=value` free-form options for a check.
	pub opts: Vec<(String, String)>,
}

impl Args {
	pub fn opt(&self, k: &str) -> Option<&str> {
		self.opts.iter().rev().find(|(a, _)| a == k).map(|(_, v)| v.as_str())
	}
	pub fn opt_u64(&self, k: &str) -> Option<u64> {
		self.opt(k).and_then(|v| v.parse().ok())
	}
}

/// Parses `<ID> [--tier quick|thorough] [--replay file] [--threads n] [--cap secs] [--opt k=v]...`.
/// `VERIF_TIER` and `VERIF_SEED` from the environment are honoured (the flag wins over the env).
pub fn parse() -> Args {
	let mut it = std::env::args().skip(1);
	let mut a = Args {
		property: String::new(),
		tier: match std::env::var("VERIF_TIER").ok().as_deref() {
			Some("thorough") => Tier::Thorough,
			_ => Tier::Quick,
		},
		replay: None,
		seed: std::env::var("VERIF_SEED").ok().and_then(|s| s.parse().ok()).unwrap_or(0),
		threads: std::env::var("VERIF_THREADS")
			.ok()
			.and_then(|s| s.parse().ok())
			.unwrap_or_else(|| std::thread::available_parallelism().map(|n| n.get()).unwrap_or(4)),
		wall_cap_s: 0,
		opts: Vec::new(),
	};
	while let Some(x) = it.next() {
		match x.as_str() {
			"--tier" => {
				a.tier = match it.next().as_deref() {
					Some("thorough") => Tier::Thorough,
					Some("quick") => Tier::Quick,
					o => die(&format!("bad --tier {:?}", o)),
				}
			},
			"--replay" => a.replay = Some(PathBuf::from(it.next().unwrap_or_else(|| die("--replay needs a path")))),
			"--threads" => a.threads = it.next().and_then(|s| s.parse().ok()).unwrap_or_else(|| die("--threads n")),
			"--cap" => a.wall_cap_s = it.next().and_then(|s| s.parse().ok()).unwrap_or_else(|| die("--cap secs")),
			"--opt" => {
				let kv = it.next().unwrap_or_else(|| die("--opt k=v"));
				match kv.split_once('=') {
					Some((k, v)) => a.opts.push((k.to_string(), v.to_string())),
					None => a.opts.push((kv, "1".to_string())),
				}
			},
			s if !s.starts_with('-') && a.property.is_empty() => a.property = s.to_string(),
			s => die(&format!("unknown argument {}", s)),
		}
	}
	if a.property.is_empty() && a.replay.is_none() {
		die("usage: <bin> <PROPERTY-ID> [--tier quick|thorough] [--replay file] [--threads n] [--cap s] [--opt k=v]");
	}
	a
}

/// Machinery failure: exit code 2 (never a verdict).
pub fn die(msg: &str) -> ! {
	eprintln!("MACHINERY-ERROR: {}", msg);
	std::process::exit(2)
}
