//! Shared machinery for the model-checking harnesses in /verif/mc.
//!
//! * `cli`      – uniform command line / environment (`--tier`, `--replay`, `VERIF_SEED`, `VERIF_TIER`)
//! * `evidence` – writes /verif/evidence/<id>.json per EVIDENCE.schema.json
//! * `findings` – known_findings.json handling, VIOLATION / KNOWN-FINDING lines, replay files
//! * `par`      – panic-isolating parallel work queue
//! * `explore`  – deviation-bounded stateless explorer over a `System`
pub mod cli;
pub mod evidence;
pub mod explore;
pub mod findings;
pub mod par;

pub use serde_json;
pub use serde_json::{json, Value};

use std::path::PathBuf;

/// Root of the verification tree (where evidence/, replays/, known_findings.json live).
pub fn verif_dir() -> PathBuf {
	if let Ok(d) = std::env::var("VERIF_DIR") {
		return PathBuf::from(d);
	}
	PathBuf::from("/verif")
}

/// 64-bit FNV-1a, used for cheap deterministic digests of observation strings.
pub fn fnv64(data: &[u8]) -> u64 {
	let mut h: u64 = 0xcbf29ce484222325;
	for b in data {
		h ^= *b as u64;
		h = h.wrapping_mul(0x100000001b3);
	}
	h
}

/// 128-bit digest built from two differently seeded FNV passes (collision probability is
/// negligible for the ≤ 10^8 states we ever hold).
pub fn digest128(data: &[u8]) -> u128 {
	let a = fnv64(data);
	let mut h: u64 = 0x9e3779b97f4a7c15;
	for b in data {
		h = (h ^ (*b as u64)).wrapping_mul(0xff51afd7ed558ccd);
		h ^= h >> 29;
	}
	((a as u128) << 64) | h as u128
}

pub fn hex(b: &[u8]) -> String {
	let mut s = String::with_capacity(b.len() * 2);
	for x in b {
		s.push_str(&format!("{:02x}", x));
	}
	s
}

pub fn unhex(s: &str) -> Option<Vec<u8>> {
	if s.len() % 2 != 0 {
		return None;
	}
	(0..s.len() / 2).map(|i| u8::from_str_radix(&s[2 * i..2 * i + 2], 16).ok()).collect()
}
