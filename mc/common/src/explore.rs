//! Deviation-bounded stateless explorer (iterative context bounding generalised to "environment
//! answers"): the default schedule takes `enabled()[0]` everywhere; every other choice costs
//! deviations; all executions with total cost <= K are enumerated level by level (cost 0, then 1,
//! ...), each run to quiescence so end-of-execution oracles apply to every one of them.
//!
//! States are rebuilt by replay on a fresh `System` (live objects cannot be cloned). An optional
//! fingerprint prunes an execution once it reaches a state already expanded with at least the same
//! remaining budget.
use crate::par::{guarded, WorkQueue};
use serde_json::{json, Value};
use std::collections::{BTreeMap, HashMap};
use std::sync::atomic::{AtomicU64, Ordering};
use std::sync::{Arc, Mutex};
use std::time::{Duration, Instant};

#[derive(Clone, Debug)]
pub struct Failure {
	pub oracle: String,
	pub detail: String,
}

impl Failure {
	pub fn new(oracle: &str, detail: impl Into<String>) -> Self {
		Failure { oracle: oracle.to_string(), detail: detail.into() }
	}
}

pub trait System {
	type Action: Clone + PartialEq + Send + Sync + 'static;
	/// Enabled actions with their deviation cost, in canonical order; element 0 is the default
	/// environment answer (its cost is ignored and treated as 0). Empty = quiescent (execution ends).
	fn enabled(&mut self) -> Vec<(Self::Action, u32)>;
	/// Executes one action on the real code and runs the per-step oracles.
	fn step(&mut self, a: &Self::Action) -> Result<(), Failure>;
	/// End-of-execution oracles. Returns a short outcome label (for distinct-outcome counting).
	fn finish(&mut self) -> Result<String, Failure>;
	/// Canonical digest of the *whole* state (subject + harness + oracle state) or None.
	fn fingerprint(&mut self) -> Option<u128> {
		None
	}
	fn encode(a: &Self::Action) -> String;
	fn decode(s: &str) -> Option<Self::Action>;
}

#[derive(Clone, Debug)]
pub struct Config {
	pub max_deviations: u32,
	/// Maximum number of steps in one execution (exceeding it is reported as oracle "horizon").
	pub horizon: usize,
	pub threads: usize,
	pub wall_cap: Option<Duration>,
	/// Stop collecting after this many violating executions (exploration continues to count).
	pub max_violations: usize,
	/// Keep exploring below a violating execution (needed when known findings are expected).
	pub branch_below_violations: bool,
}

impl Default for Config {
	fn default() -> Self {
		Config {
			max_deviations: 1,
			horizon: 400,
			threads: 16,
			wall_cap: None,
			max_violations: 50,
			branch_below_violations: false,
		}
	}
}

#[derive(Clone, Debug)]
pub struct FoundViolation {
	pub failure: Failure,
	/// Full action list (encoded) up to and including the failing step (or the whole execution for
	/// an end-oracle failure).
	pub actions: Vec<String>,
	pub deviations: u32,
}

#[derive(Clone, Debug, Default)]
pub struct Stats {
	pub executions: u64,
	pub transitions: u64,
	pub replayed_transitions: u64,
	pub distinct_states: u64,
	pub max_depth: u64,
	pub pruned_by_fingerprint: u64,
	pub deviation_bound_requested: u32,
	/// Highest k such that every execution with <= k deviations was run (None if even k=0 failed).
	pub deviation_bound_completed: Option<u32>,
	pub executions_per_level: Vec<u64>,
	pub capped: bool,
	pub outcomes: BTreeMap<String, u64>,
	pub samples: Vec<Vec<String>>,
}

impl Stats {
	pub fn to_json(&self) -> Value {
		json!({
			"executions": self.executions,
			"transitions": self.transitions,
			"replayed_transitions": self.replayed_transitions,
			"distinct_states": self.distinct_states,
			"max_depth": self.max_depth,
			"pruned_by_fingerprint": self.pruned_by_fingerprint,
			"deviation_bound_requested": self.deviation_bound_requested,
			"deviation_bound_completed": self.deviation_bound_completed,
			"executions_per_level": self.executions_per_level,
			"capped": self.capped,
			"distinct_outcomes": self.outcomes.len(),
			"outcomes": self.outcomes.iter().take(40).map(|(k, v)| json!([k, v])).collect::<Vec<_>>(),
		})
	}
	pub fn merge(&mut self, o: &Stats) {
		self.executions += o.executions;
		self.transitions += o.transitions;
		self.replayed_transitions += o.replayed_transitions;
		self.distinct_states += o.distinct_states;
		self.max_depth = self.max_depth.max(o.max_depth);
		self.pruned_by_fingerprint += o.pruned_by_fingerprint;
		self.capped |= o.capped;
		for (k, v) in &o.outcomes {
			*self.outcomes.entry(k.clone()).or_insert(0) += v;
		}
		for s in &o.samples {
			if self.samples.len() < 6 {
				self.samples.push(s.clone());
			}
		}
	}
}

struct Task<A> {
	base: Arc<Vec<A>>,
	cut: usize,
	alt: Option<A>,
	used: u32,
}

struct Shared<A> {
	next_levels: Mutex<BTreeMap<u32, Vec<Task<A>>>>,
	seen: Vec<Mutex<HashMap<u128, u32>>>,
	violations: Mutex<Vec<FoundViolation>>,
	outcomes: Mutex<BTreeMap<String, u64>>,
	samples: Mutex<Vec<Vec<String>>>,
	executions: AtomicU64,
	transitions: AtomicU64,
	replayed: AtomicU64,
	pruned: AtomicU64,
	max_depth: AtomicU64,
	histories: AtomicU64,
}

/// Explores `factory()` systems. The factory must be deterministic.
pub fn explore<S: System>(cfg: &Config, factory: &(dyn Fn() -> S + Sync)) -> (Stats, Vec<FoundViolation>) {
	let deadline = cfg.wall_cap.map(|d| Instant::now() + d);
	let sh: Shared<S::Action> = Shared {
		next_levels: Mutex::new(BTreeMap::new()),
		seen: (0..64).map(|_| Mutex::new(HashMap::new())).collect(),
		violations: Mutex::new(Vec::new()),
		outcomes: Mutex::new(BTreeMap::new()),
		samples: Mutex::new(Vec::new()),
		executions: AtomicU64::new(0),
		transitions: AtomicU64::new(0),
		replayed: AtomicU64::new(0),
		pruned: AtomicU64::new(0),
		max_depth: AtomicU64::new(0),
		histories: AtomicU64::new(0),
	};
	let mut stats = Stats { deviation_bound_requested: cfg.max_deviations, ..Default::default() };
	sh.next_levels.lock().unwrap().insert(0, vec![Task { base: Arc::new(Vec::new()), cut: 0, alt: None, used: 0 }]);
	let mut level = 0u32;
	stats.executions_per_level.push(0);
	loop {
		// zero-cost alternatives put new tasks on the level being processed: drain it repeatedly
		let tasks = sh.next_levels.lock().unwrap().remove(&level).unwrap_or_default();
		if tasks.is_empty() {
			stats.deviation_bound_completed = Some(level);
			let has_viol = !sh.violations.lock().unwrap().is_empty();
			if has_viol && !cfg.branch_below_violations {
				break;
			}
			if level >= cfg.max_deviations {
				break;
			}
			if sh.next_levels.lock().unwrap().is_empty() {
				// nothing deeper exists: the whole space is covered for any bound
				stats.deviation_bound_completed = Some(cfg.max_deviations);
				break;
			}
			level += 1;
			stats.executions_per_level.push(0);
			continue;
		}
		let before = sh.executions.load(Ordering::Relaxed);
		let q = WorkQueue::new(tasks);
		let capped = q.run(cfg.threads, deadline, |t, _q| run_one::<S>(cfg, factory, &sh, t));
		*stats.executions_per_level.last_mut().unwrap() += sh.executions.load(Ordering::Relaxed) - before;
		if capped {
			stats.capped = true;
			break;
		}
	}
	stats.executions = sh.executions.load(Ordering::Relaxed);
	stats.transitions = sh.transitions.load(Ordering::Relaxed);
	stats.replayed_transitions = sh.replayed.load(Ordering::Relaxed);
	stats.pruned_by_fingerprint = sh.pruned.load(Ordering::Relaxed);
	stats.max_depth = sh.max_depth.load(Ordering::Relaxed);
	let fp_states: u64 = sh.seen.iter().map(|m| m.lock().unwrap().len() as u64).sum();
	stats.distinct_states = if fp_states > 0 { fp_states } else { sh.histories.load(Ordering::Relaxed) };
	stats.outcomes = std::mem::take(&mut *sh.outcomes.lock().unwrap());
	stats.samples = std::mem::take(&mut *sh.samples.lock().unwrap());
	let mut v = std::mem::take(&mut *sh.violations.lock().unwrap());
	v.sort_by_key(|x| (x.deviations, x.actions.len()));
	(stats, v)
}

fn record_violation<S: System>(cfg: &Config, sh: &Shared<S::Action>, f: Failure, done: &[S::Action], used: u32) {
	let mut v = sh.violations.lock().unwrap();
	if v.len() < cfg.max_violations {
		v.push(FoundViolation { failure: f, actions: done.iter().map(|a| S::encode(a)).collect(), deviations: used });
	}
}

fn run_one<S: System>(cfg: &Config, factory: &(dyn Fn() -> S + Sync), sh: &Shared<S::Action>, t: Task<S::Action>) {
	let mut prefix: Vec<S::Action> = t.base[..t.cut].to_vec();
	if let Some(a) = &t.alt {
		prefix.push(a.clone());
	}
	let budget_left = cfg.max_deviations.saturating_sub(t.used);
	sh.executions.fetch_add(1, Ordering::Relaxed);
	let mut done: Vec<S::Action> = Vec::with_capacity(64);
	let mut children: Vec<(usize, S::Action, u32)> = Vec::new();
	let mut pruned = false;
	let res: Result<Result<Option<String>, Failure>, String> = guarded(|| {
		let mut sys = factory();
		// replay the prefix (divergence = machinery error, reported as a failure of oracle "replay-divergence")
		for (i, a) in prefix.iter().enumerate() {
			let en = sys.enabled();
			if !en.iter().any(|(x, _)| x == a) {
				return Err(Failure::new(
					"replay-divergence",
					format!("action {} `{}` not enabled while replaying prefix", i, S::encode(a)),
				));
			}
			done.push(a.clone());
			if i + 1 == prefix.len() {
				sh.transitions.fetch_add(1, Ordering::Relaxed);
				sh.histories.fetch_add(1, Ordering::Relaxed);
			} else {
				sh.replayed.fetch_add(1, Ordering::Relaxed);
			}
			sys.step(a)?;
		}
		loop {
			if let Some(fp) = sys.fingerprint() {
				let shard = &sh.seen[(fp as usize) & 63];
				let mut g = shard.lock().unwrap();
				match g.get(&fp) {
					Some(b) if *b >= budget_left && !done.is_empty() => {
						pruned = true;
						return Ok(None);
					},
					_ => {
						g.insert(fp, budget_left);
					},
				}
			}
			let en = sys.enabled();
			if en.is_empty() {
				break;
			}
			if done.len() >= cfg.horizon {
				return Err(Failure::new("horizon", format!("no quiescence after {} steps", done.len())));
			}
			for (a, c) in en.iter().skip(1) {
				let c = *c;
				if c <= budget_left {
					children.push((done.len(), a.clone(), c));
				}
			}
			let a = en[0].0.clone();
			done.push(a.clone());
			sh.transitions.fetch_add(1, Ordering::Relaxed);
			sh.histories.fetch_add(1, Ordering::Relaxed);
			sys.step(&a)?;
		}
		sys.finish().map(Some)
	});
	sh.max_depth.fetch_max(done.len() as u64, Ordering::Relaxed);
	let mut failed = false;
	match res {
		Ok(Ok(Some(outcome))) => {
			let mut o = sh.outcomes.lock().unwrap();
			if o.len() < 5000 || o.contains_key(&outcome) {
				*o.entry(outcome).or_insert(0) += 1;
			}
		},
		Ok(Ok(None)) => {
			sh.pruned.fetch_add(1, Ordering::Relaxed);
		},
		Ok(Err(f)) => {
			failed = true;
			record_violation::<S>(cfg, sh, f, &done, t.used);
		},
		Err(p) => {
			failed = true;
			record_violation::<S>(cfg, sh, Failure::new("no-panic", p), &done, t.used);
		},
	}
	{
		let mut s = sh.samples.lock().unwrap();
		if s.len() < 6 && (s.len() < 2 || t.used > 0) {
			s.push(done.iter().map(|a| S::encode(a)).collect());
		}
	}
	let _ = pruned;
	if failed && !cfg.branch_below_violations {
		return;
	}
	if children.is_empty() {
		return;
	}
	let base = Arc::new(done);
	let mut nl = sh.next_levels.lock().unwrap();
	for (cut, alt, c) in children {
		nl.entry(t.used + c).or_insert_with(Vec::new).push(Task { base: base.clone(), cut, alt: Some(alt), used: t.used + c });
	}
}

/// Replays an encoded action list on a fresh system, without the explorer. Returns the failure (if
/// any) and the observation log length. Used by `--replay` and by the "replay twice" determinism rule.
pub fn replay<S: System>(factory: &(dyn Fn() -> S + Sync), actions: &[String], run_to_end: bool) -> Result<Result<String, Failure>, String> {
	guarded(|| {
		let mut sys = factory();
		for (i, s) in actions.iter().enumerate() {
			let a = match S::decode(s) {
				Some(a) => a,
				None => return Err(Failure::new("replay-divergence", format!("cannot decode action {} `{}`", i, s))),
			};
			let en = sys.enabled();
			if !en.iter().any(|(x, _)| *x == a) {
				return Err(Failure::new("replay-divergence", format!("action {} `{}` not enabled", i, s)));
			}
			sys.step(&a)?;
		}
		if run_to_end {
			let mut n = actions.len();
			loop {
				let en = sys.enabled();
				if en.is_empty() {
					break;
				}
				n += 1;
				if n > 5000 {
					return Err(Failure::new("horizon", "no quiescence during replay"));
				}
				sys.step(&en[0].0.clone())?;
			}
		}
		sys.finish()
	})
}
