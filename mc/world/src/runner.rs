//! Runs a family of scenarios through the explorer and collates evidence + violations.
use crate::sys::WorldSys;
use mc_common::cli::Args;
use mc_common::evidence::{Evidence, Level};
use mc_common::explore::{self, Config, Stats};
use mc_common::findings::Violation;
use mc_common::{json, Value};
use std::time::Duration;

pub struct Scenario {
	pub name: String,
	pub cfg: Config,
	pub factory: Box<dyn Fn() -> WorldSys + Sync>,
	/// JSON description sufficient to rebuild the scenario for `--replay`
	pub desc: Value,
}

pub struct RunResult {
	pub stats: Stats,
	pub per_scenario: Vec<Value>,
	pub violations: Vec<Violation>,
}

pub fn run_scenarios(property: &str, args: &Args, scenarios: Vec<Scenario>, total_cap: Duration) -> RunResult {
	let start = std::time::Instant::now();
	let mut total = Stats::default();
	let mut per = Vec::new();
	let mut violations = Vec::new();
	let n = scenarios.len().max(1);
	for (i, sc) in scenarios.into_iter().enumerate() {
		let mut cfg = sc.cfg.clone();
		cfg.threads = args.threads;
		// the remaining wall budget is shared over the remaining scenarios, but a heavy scenario may use
		// up to half of what is left (most scenarios need far less than an even share)
		let left = total_cap.saturating_sub(start.elapsed());
		let share = (left / ((n - i) as u32)).max(left / 2);
		cfg.wall_cap = Some(match cfg.wall_cap {
			Some(c) => c.min(share),
			None => share,
		});
		let t0 = std::time::Instant::now();
		let (stats, found) = explore::explore::<WorldSys>(&cfg, &*sc.factory);
		let mut j = stats.to_json();
		j["scenario"] = json!(sc.name);
		j["wall_s"] = json!(t0.elapsed().as_secs_f64());
		j["violations"] = json!(found.len());
		eprintln!(
			"[{}] {}: executions={} transitions={} k<={:?} outcomes={} viol={} capped={} {:.1}s",
			property,
			sc.name,
			stats.executions,
			stats.transitions,
			stats.deviation_bound_completed,
			stats.outcomes.len(),
			found.len(),
			stats.capped,
			t0.elapsed().as_secs_f64()
		);
		per.push(j);
		total.merge(&stats);
		total.deviation_bound_completed = match (total.deviation_bound_completed, stats.deviation_bound_completed) {
			(None, x) if i == 0 => x,
			(Some(a), Some(b)) => Some(a.min(b)),
			_ => None,
		};
		// one representative per root cause (for self-identifying oracles), at most 3 otherwise
		let mut by_cause: Vec<mc_common::explore::FoundViolation> = Vec::new();
		let mut generic = 0;
		for f in found.into_iter() {
			if std::env::var("MC_ALL_VIOL").is_ok() {
				eprintln!("ALLVIOL [{}] {} {} :: {}", sc.name, f.failure.oracle, f.failure.detail, f.actions.join(","));
			}
			if f.failure.detail.starts_with("fields=") {
				let key = f.failure.detail.split(':').next().unwrap_or("").to_string();
				if !by_cause.iter().any(|g| g.failure.detail.starts_with(&key) && g.failure.oracle == f.failure.oracle) {
					by_cause.push(f);
				}
			} else if generic < 3 {
				generic += 1;
				by_cause.push(f);
			}
		}
		for f in by_cause.into_iter() {
			// determinism rule: a violation is reported only if its replay reproduces twice identically
			let r1 = explore::replay::<WorldSys>(&*sc.factory, &f.actions, false);
			let r2 = explore::replay::<WorldSys>(&*sc.factory, &f.actions, false);
			let d1 = format!("{:?}", r1.as_ref().map(|r| r.as_ref().map_err(|e| e.oracle.clone())));
			let d2 = format!("{:?}", r2.as_ref().map(|r| r.as_ref().map_err(|e| e.oracle.clone())));
			if d1 != d2 {
				mc_common::cli::die(&format!("NONDETERMINISM replaying {:?}: {} vs {}", f.actions, d1, d2));
			}
			// oracles that name the root cause themselves (detail starts with `fields=[..]:`) are identified
			// by it; all others by scenario + minimal action list
			let identity = if f.failure.detail.starts_with("fields=") {
				format!("{}|{}", f.failure.oracle, f.failure.detail.split(':').next().unwrap_or(""))
			} else {
				format!("{}|{}|{}", f.failure.oracle, sc.name, f.actions.join(","))
			};
			violations.push(Violation {
				property: property.to_string(),
				oracle: f.failure.oracle.clone(),
				identity,
				detail: format!("[{}] {} (after {} actions, {} deviations)", sc.name, f.failure.detail, f.actions.len(), f.deviations),
				replay: json!({"scenario": sc.desc, "scenario_name": sc.name, "actions": f.actions}),
			});
		}
	}
	RunResult { stats: total, per_scenario: per, violations }
}

pub fn fill_model_checking_evidence(ev: &mut Evidence, r: &RunResult) {
	assert!(ev.level == Level::ModelChecking || ev.level == Level::FaultEnumeration);
	ev.set("states", r.stats.distinct_states);
	ev.set("transitions", r.stats.transitions);
	ev.set("traces_validated_against_impl", r.stats.executions);
	ev.set("executions", r.stats.executions);
	ev.set("replayed_transitions", r.stats.replayed_transitions);
	ev.set("max_depth", r.stats.max_depth);
	ev.set("distinct_end_outcomes", r.stats.outcomes.len() as u64);
	ev.set("capped", r.stats.capped);
	ev.set("exhaustive_within_bounds", !r.stats.capped);
	ev.set("scenarios", Value::Array(r.per_scenario.clone()));
	for s in r.stats.samples.iter().take(4) {
		ev.sample(json!(s), 8);
	}
}

// ---- vacuity witnesses -------------------------------------------------------------------------
use std::collections::BTreeMap;
use std::sync::Mutex;
static WITNESS: Mutex<BTreeMap<String, u64>> = Mutex::new(BTreeMap::new());

/// Records that a situation the check relies on was actually reached.
pub fn witness(name: &str) {
	let mut g = WITNESS.lock().unwrap();
	*g.entry(name.to_string()).or_insert(0) += 1;
}
pub fn witness_n(name: &str, n: u64) {
	if n > 0 {
		let mut g = WITNESS.lock().unwrap();
		*g.entry(name.to_string()).or_insert(0) += n;
	}
}
pub fn witnesses() -> BTreeMap<String, u64> {
	WITNESS.lock().unwrap().clone()
}
/// Dies (exit 2) if a required witness was never observed – a check that could not have failed.
pub fn require_witnesses(ev: &mut Evidence, required: &[&str]) {
	let w = witnesses();
	ev.set("witnesses", json!(w));
	for r in required {
		if w.get(*r).copied().unwrap_or(0) == 0 {
			mc_common::cli::die(&format!("vacuity guard: witness `{}` never observed", r));
		}
	}
}
