use mc_common::cli;
use mc_world::checks;

fn main() {
	let args = cli::parse();
	mc_common::par::install_quiet_panic_hook();
	if let Some(path) = &args.replay {
		let text = std::fs::read_to_string(path).unwrap_or_else(|_| cli::die("cannot read replay file"));
		let v: mc_common::Value = mc_common::serde_json::from_str(&text).unwrap_or_else(|_| cli::die("replay file is not JSON"));
		let prop = v["property"].as_str().unwrap_or("").to_string();
		let name = v["replay"]["scenario_name"].as_str().unwrap_or("").to_string();
		let actions: Vec<String> = v["replay"]["actions"]
			.as_array()
			.map(|a| a.iter().filter_map(|x| x.as_str().map(|s| s.to_string())).collect())
			.unwrap_or_default();
		mc_common::par::set_quiet(false);
		let code = match prop.as_str() {
			"C01" => checks::c01::replay(&name, &actions),
			"C02" if v["replay"]["dust_case"].is_string() => checks::c02_dust::replay_case(v["replay"]["dust_case"].as_str().unwrap_or("")),
			"C02" => checks::c02::replay("C02", &name, &actions),
			"C03" => checks::c02::replay("C03", &name, &actions),
			"C05" => checks::c05::replay(&name, &actions),
			"C07" => checks::c07::replay(&name, &actions),
			"C09" => checks::c09::replay(&name, &actions),
			"C10" => checks::c10::replay(&name, &actions),
			"C04" => checks::c04::replay_case(v["replay"]["case"].as_str().unwrap_or("")),
			"C06" => checks::c06::replay_case(v["replay"]["case"].as_str().unwrap_or("")),
			"C08" => checks::c08::replay_case(v["replay"]["case"].as_str().unwrap_or("")),
			"C11" if v["replay"]["funding_reorg"].is_string() => checks::c11::replay_funding_reorg(v["replay"]["funding_reorg"].as_str().unwrap_or("")),
			"C11" => checks::c11::replay_script(v["replay"]["script"].as_str().unwrap_or("")),
			"C12" => checks::c12::replay(&v["replay"], &name, &actions),
			_ => cli::die("replay: unknown property"),
		};
		std::process::exit(code);
	}
	let code = match args.property.as_str() {
		"C01" => checks::c01::run(&args),
		"C02" => checks::c02::run(&args, "C02"),
		"C03" => checks::c02::run(&args, "C03"),
		"C04" => checks::c04::run(&args),
		"C05" => checks::c05::run(&args),
		"C06" => checks::c06::run(&args),
		"C07" => checks::c07::run(&args),
		"C08" => checks::c08::run(&args),
		"C09" => checks::c09::run(&args),
		"C10" => checks::c10::run(&args),
		"C11" => checks::c11::run(&args),
		"C12" => checks::c12::run(&args),
		p => cli::die(&format!("property {} is not served by mc-world", p)),
	};
	std::process::exit(code);
}
