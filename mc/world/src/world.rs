//! The closed world: 2–3 real nodes, FIFO links carrying individual wire messages, a chain
//! simulator, and the observation log consumed by the oracles.
use crate::base::{siglog_take, Broadcast, SigEv};
use crate::chain::ChainSim;
use crate::node::McNode;
use crate::persist::{PersistRec, Snapshot};
use bitcoin::absolute::LockTime;
use bitcoin::hashes::Hash;
use bitcoin::secp256k1::PublicKey;
use bitcoin::transaction::Version;
use bitcoin::{Amount, Transaction, TxOut};
use lightning::chain::Listen;
use lightning::events::{ClosureReason, Event, EventsProvider, ReplayEvent};
use lightning::ln::channel_state::ChannelDetails;
use lightning::ln::channelmanager::PaymentId;
use lightning::ln::msgs::{self, BaseMessageHandler, ChannelMessageHandler, ErrorAction, Init, MessageSendEvent};
use lightning::ln::outbound_payment::RecipientOnionFields;
use lightning::ln::types::ChannelId;
use lightning::routing::router::{Path, PaymentParameters, Route, RouteHop, RouteParameters};
use lightning::types::payment::{PaymentHash, PaymentPreimage, PaymentSecret};
use lightning::util::config::UserConfig;
use std::collections::{BTreeMap, VecDeque};

#[derive(Clone, Debug)]
pub enum Wire {
	Open(msgs::OpenChannel),
	Accept(msgs::AcceptChannel),
	FundingCreated(msgs::FundingCreated),
	FundingSigned(msgs::FundingSigned),
	ChannelReady(msgs::ChannelReady),
	AnnSigs(msgs::AnnouncementSignatures),
	Add(msgs::UpdateAddHTLC),
	Fulfill(msgs::UpdateFulfillHTLC),
	Fail(msgs::UpdateFailHTLC),
	FailMalformed(msgs::UpdateFailMalformedHTLC),
	Fee(msgs::UpdateFee),
	Commit(msgs::CommitmentSigned),
	Raa(msgs::RevokeAndACK),
	Reestablish(msgs::ChannelReestablish),
	Shutdown(msgs::Shutdown),
	ClosingSigned(msgs::ClosingSigned),
	Error(msgs::ErrorMessage),
	Warning(msgs::WarningMessage),
	ChannelUpdate(msgs::ChannelUpdate),
	/// quiescence / splicing / interactive transaction construction messages
	Stfu(msgs::Stfu),
	SpliceInit(msgs::SpliceInit),
	SpliceAck(msgs::SpliceAck),
	SpliceLocked(msgs::SpliceLocked),
	TxAddInput(msgs::TxAddInput),
	TxAddOutput(msgs::TxAddOutput),
	TxRemoveInput(msgs::TxRemoveInput),
	TxRemoveOutput(msgs::TxRemoveOutput),
	TxComplete(msgs::TxComplete),
	TxSignatures(msgs::TxSignatures),
	TxInitRbf(msgs::TxInitRbf),
	TxAckRbf(msgs::TxAckRbf),
	TxAbort(msgs::TxAbort),
	/// one `commitment_signed` per funding scope while a splice is pending (the real PeerManager
	/// frames them with `start_batch` and hands them over in one call)
	CommitBatch(Vec<msgs::CommitmentSigned>),
	/// The sender asked its PeerManager to drop the connection.
	DisconnectMarker,
}

impl Wire {
	pub fn kind(&self) -> &'static str {
		match self {
			Wire::Open(_) => "open_channel",
			Wire::Accept(_) => "accept_channel",
			Wire::FundingCreated(_) => "funding_created",
			Wire::FundingSigned(_) => "funding_signed",
			Wire::ChannelReady(_) => "channel_ready",
			Wire::AnnSigs(_) => "announcement_signatures",
			Wire::Add(_) => "update_add_htlc",
			Wire::Fulfill(_) => "update_fulfill_htlc",
			Wire::Fail(_) => "update_fail_htlc",
			Wire::FailMalformed(_) => "update_fail_malformed_htlc",
			Wire::Fee(_) => "update_fee",
			Wire::Commit(_) => "commitment_signed",
			Wire::Raa(_) => "revoke_and_ack",
			Wire::Reestablish(_) => "channel_reestablish",
			Wire::Shutdown(_) => "shutdown",
			Wire::ClosingSigned(_) => "closing_signed",
			Wire::Error(_) => "error",
			Wire::Warning(_) => "warning",
			Wire::ChannelUpdate(_) => "channel_update",
			Wire::Stfu(_) => "stfu",
			Wire::SpliceInit(_) => "splice_init",
			Wire::SpliceAck(_) => "splice_ack",
			Wire::SpliceLocked(_) => "splice_locked",
			Wire::TxAddInput(_) => "tx_add_input",
			Wire::TxAddOutput(_) => "tx_add_output",
			Wire::TxRemoveInput(_) => "tx_remove_input",
			Wire::TxRemoveOutput(_) => "tx_remove_output",
			Wire::TxComplete(_) => "tx_complete",
			Wire::TxSignatures(_) => "tx_signatures",
			Wire::TxInitRbf(_) => "tx_init_rbf",
			Wire::TxAckRbf(_) => "tx_ack_rbf",
			Wire::TxAbort(_) => "tx_abort",
			Wire::CommitBatch(_) => "commitment_signed_batch",
			Wire::DisconnectMarker => "disconnect",
		}
	}
	pub fn channel_id(&self) -> Option<ChannelId> {
		Some(match self {
			Wire::FundingSigned(m) => m.channel_id,
			Wire::ChannelReady(m) => m.channel_id,
			Wire::AnnSigs(m) => m.channel_id,
			Wire::Add(m) => m.channel_id,
			Wire::Fulfill(m) => m.channel_id,
			Wire::Fail(m) => m.channel_id,
			Wire::FailMalformed(m) => m.channel_id,
			Wire::Fee(m) => m.channel_id,
			Wire::Commit(m) => m.channel_id,
			Wire::Raa(m) => m.channel_id,
			Wire::Reestablish(m) => m.channel_id,
			Wire::Shutdown(m) => m.channel_id,
			Wire::ClosingSigned(m) => m.channel_id,
			Wire::Error(m) => m.channel_id,
			Wire::Warning(m) => m.channel_id,
			Wire::Stfu(m) => m.channel_id,
			Wire::SpliceInit(m) => m.channel_id,
			Wire::SpliceAck(m) => m.channel_id,
			Wire::SpliceLocked(m) => m.channel_id,
			Wire::TxAddInput(m) => m.channel_id,
			Wire::TxAddOutput(m) => m.channel_id,
			Wire::TxRemoveInput(m) => m.channel_id,
			Wire::TxRemoveOutput(m) => m.channel_id,
			Wire::TxComplete(m) => m.channel_id,
			Wire::TxSignatures(m) => m.channel_id,
			Wire::TxInitRbf(m) => m.channel_id,
			Wire::TxAckRbf(m) => m.channel_id,
			Wire::TxAbort(m) => m.channel_id,
			Wire::CommitBatch(v) => v[0].channel_id,
			_ => return None,
		})
	}
}

/// One observation made while executing a step. Oracles consume these.
#[derive(Clone, Debug)]
pub enum Obs {
	/// A message became observable to the peer (left the node's outbound queue).
	Sent { from: usize, to: usize, wire: Wire },
	/// A message was handed to the recipient's handler.
	Delivered { from: usize, to: usize, wire: Wire },
	Event { node: usize, ev: Event },
	Sig(SigEv),
	Persist { node: usize, rec: PersistRec },
	/// `admit` = the chain simulator's verdict per transaction of the package at broadcast time.
	Broadcast { node: usize, b: Broadcast, admit: Vec<Result<u64, crate::chain::Reject>> },
	/// Result of a user API call made by the harness.
	Api { node: usize, what: String, ok: bool, detail: String },
	Disconnected { a: usize, b: usize },
	Reconnected { a: usize, b: usize },
	/// Node restarted from (manager bytes, chosen monitor snapshots). `chosen` = (channel, latest update id
	/// of the monitor snapshot loaded); `lost_delivery` = the message being handled when the crash hit.
	Restarted { node: usize, chosen: Vec<(ChannelId, u64)>, lost_delivery: Option<(usize, Wire)>, lost_earlier: Vec<(usize, Wire)>, mgr_known_ids: Vec<(ChannelId, u64)>, mgr_known_open: Vec<ChannelId>, mgr_pending: Vec<lightning::types::payment::PaymentHash> },
	Completed { node: usize, chan: ChannelId, id: u64 },
	/// An `ErrorAction` other than a wire message (ignore/log).
	ErrorAction { from: usize, to: usize, what: String },
}

#[derive(Clone, Debug, PartialEq, Eq)]
pub enum ClaimPolicy {
	Claim,
	Fail,
	Hold,
}

#[derive(Clone, Debug)]
pub struct PaymentRec {
	pub id: PaymentId,
	pub hash: PaymentHash,
	pub preimage: PaymentPreimage,
	pub secret: PaymentSecret,
	pub from: usize,
	pub to: usize,
	pub amount_msat: u64,
	pub policy: ClaimPolicy,
	pub send_ok: bool,
	pub send_err: String,
	/// recipient called claim_funds
	pub claimed_by_recipient: bool,
	pub failed_by_recipient: bool,
}

pub struct World {
	pub nodes: Vec<McNode>,
	/// links[(from,to)] = FIFO of individual wire messages
	pub links: BTreeMap<(usize, usize), VecDeque<Wire>>,
	pub connected: BTreeMap<(usize, usize), bool>,
	pub chain: ChainSim,
	/// per node: hashes of the blocks it has been told about (index = height)
	pub synced: Vec<Vec<bitcoin::BlockHash>>,
	pub obs: Vec<Obs>,
	pub obs_cursor: usize,
	pub payments: Vec<PaymentRec>,
	pub next_preimage: u8,
	pub eager_manager_persist: bool,
	pub manager_dirty: Vec<bool>,
	pub step_count: usize,
	/// when true, commitment_signed etc. are logged compactly to `trace`
	pub trace: Vec<String>,
	pub funding_txs: Vec<Transaction>,
	pub swept_txs: Vec<(usize, Transaction)>,
	/// when set, a node that intercepts an HTLC forwards it on with this much skimmed off (LSP-style)
	pub intercept_skim_msat: Option<u64>,
	/// forwarder whose outgoing (last) hop is addressed through its intercept scid in payments sent with
	/// `send_payment_ext`; the HTLCIntercepted handler then forwards over the channel the route named
	pub intercept_via: Option<usize>,
	pub intercept_plan: BTreeMap<PaymentHash, (ChannelId, usize)>,
	pub bogus_reestablish: BTreeMap<(usize, usize), u32>,
	/// per node: manager writes suspended (the durable manager lags behind)
	pub manager_write_held: Vec<bool>,
	/// per node: switched off (not told about blocks, events not handled)
	pub offline: Vec<bool>,
	/// transactions of blocks that were disconnected (for `transaction_unconfirmed`-only reorg styles)
	pub stale_blocks: BTreeMap<bitcoin::BlockHash, Vec<Transaction>>,
	/// how nodes are told about the chain (default: whole blocks through `Listen`)
	pub style: SyncStyle,
	/// per node: last update id handed to Persist per channel (live), and as of the last manager write
	pub live_ids: Vec<BTreeMap<ChannelId, u64>>,
	/// batch funding in progress: number of FundingGenerationReady events to collect, and those collected
	pub batch_expected: usize,
	pub batch_collected: Vec<(ChannelId, PublicKey, u64, bitcoin::ScriptBuf)>,
	pub mgr_known_ids: Vec<BTreeMap<ChannelId, u64>>,
	/// payments the last written manager of each node lists as still pending
	pub mgr_known_pending: Vec<Vec<lightning::types::payment::PaymentHash>>,
	/// per node: channels that were open in the manager when it was last written
	pub mgr_known_open: Vec<Vec<ChannelId>>,
	/// deferred-mode nodes: messages handled since the manager was last written (what a crash now would forget)
	pub unsaved: Vec<Vec<(usize, Wire)>>,
	/// the user's event handler of this node fails (`Err(ReplayEvent)`) on terminal payment events (PaymentSent / PaymentFailed)
	pub fail_terminal: Vec<bool>,
	/// ... and has done so: the rest of the node's event queue waits behind the refused event
	pub events_blocked: Vec<bool>,
}

/// Chain notification styles permitted by the `Listen` and `Confirm` contracts (C11).
#[derive(Clone, Copy, Debug, PartialEq, Eq)]
pub enum SyncStyle {
	ListenFull,
	ListenFiltered,
	ListenReplayed,
	ConfirmBestFirst,
	ConfirmTxFirst,
	ConfirmTxFirstDuplicate,
	ConfirmRedundantHistory,
	ConfirmBestFirstSkipping,
	ConfirmTxFirstSkipping,
	ConfirmBestFirstUnconfirmOnly,
	ConfirmTxFirstUnconfirmOnly,
	/// reorgs reported through transaction_unconfirmed only (ancestors first), new blocks reported in
	/// batches: their transactions, then the best block of the last one only
	ConfirmUnconfirmOnlySkipping,
}

impl SyncStyle {
	pub fn all() -> Vec<SyncStyle> {
		vec![
			SyncStyle::ListenFull,
			SyncStyle::ListenFiltered,
			SyncStyle::ListenReplayed,
			SyncStyle::ConfirmBestFirst,
			SyncStyle::ConfirmTxFirst,
			SyncStyle::ConfirmTxFirstDuplicate,
			SyncStyle::ConfirmRedundantHistory,
			SyncStyle::ConfirmBestFirstSkipping,
			SyncStyle::ConfirmTxFirstSkipping,
			SyncStyle::ConfirmBestFirstUnconfirmOnly,
			SyncStyle::ConfirmTxFirstUnconfirmOnly,
			SyncStyle::ConfirmUnconfirmOnlySkipping,
		]
	}
	pub fn batches(&self) -> bool {
		matches!(self, SyncStyle::ConfirmBestFirstSkipping | SyncStyle::ConfirmTxFirstSkipping)
	}
}

pub fn init_msg(features: lightning::types::features::InitFeatures) -> Init {
	Init { features, networks: None, remote_network_address: None }
}

impl World {
	pub fn new(cfgs: Vec<UserConfig>, feerate: u32) -> World {
		Self::new_deferred(cfgs, feerate, &[])
	}

	/// Like `new`; the nodes listed in `deferred` run their ChainMonitor in deferred mode (monitor operations are
	/// queued and only executed by `flush`, which the node's background task calls after writing the manager).
	pub fn new_deferred(cfgs: Vec<UserConfig>, feerate: u32, deferred: &[usize]) -> World {
		crate::base::install_signer_factory();
		let _ = siglog_take();
		let n = cfgs.len();
		let nodes: Vec<McNode> =
			cfgs.into_iter().enumerate().map(|(i, c)| McNode::new(b'A' + i as u8, c, feerate, deferred.contains(&i))).collect();
		let chain = ChainSim::new();
		let g = chain.tip_hash();
		World {
			nodes,
			links: BTreeMap::new(),
			connected: BTreeMap::new(),
			chain,
			synced: vec![vec![g]; n],
			obs: Vec::new(),
			obs_cursor: 0,
			payments: Vec::new(),
			next_preimage: 1,
			eager_manager_persist: true,
			manager_dirty: vec![false; n],
			step_count: 0,
			trace: Vec::new(),
			funding_txs: Vec::new(),
			swept_txs: Vec::new(),
			intercept_skim_msat: None,
			intercept_via: None,
			intercept_plan: BTreeMap::new(),
			bogus_reestablish: BTreeMap::new(),
			manager_write_held: vec![false; n],
			offline: vec![false; n],
			stale_blocks: BTreeMap::new(),
			style: SyncStyle::ListenFull,
			live_ids: vec![BTreeMap::new(); n],
			batch_expected: 0,
			batch_collected: Vec::new(),
			mgr_known_ids: vec![BTreeMap::new(); n],
			mgr_known_pending: vec![Vec::new(); n],
			mgr_known_open: vec![Vec::new(); n],
			unsaved: vec![Vec::new(); n],
			fail_terminal: vec![false; n],
			events_blocked: vec![false; n],
		}
	}

	pub fn idx_of(&self, id: &PublicKey) -> usize {
		self.nodes.iter().position(|n| n.id == *id).expect("unknown node id")
	}

	pub fn is_connected(&self, a: usize, b: usize) -> bool {
		*self.connected.get(&(a.min(b), a.max(b))).unwrap_or(&false)
	}

	pub fn connect(&mut self, a: usize, b: usize) {
		let (ia, ib) = (self.nodes[a].id, self.nodes[b].id);
		let fa = self.nodes[a].cm.init_features();
		let fb = self.nodes[b].cm.init_features();
		self.nodes[a].cm.peer_connected(ib, &init_msg(fb), true).unwrap();
		self.nodes[b].cm.peer_connected(ia, &init_msg(fa), false).unwrap();
		self.connected.insert((a.min(b), a.max(b)), true);
		self.obs.push(Obs::Reconnected { a, b });
		self.pump();
	}

	pub fn disconnect(&mut self, a: usize, b: usize) {
		let (ia, ib) = (self.nodes[a].id, self.nodes[b].id);
		self.nodes[a].cm.peer_disconnected(ib);
		self.nodes[b].cm.peer_disconnected(ia);
		self.connected.insert((a.min(b), a.max(b)), false);
		self.links.remove(&(a, b));
		self.links.remove(&(b, a));
		self.obs.push(Obs::Disconnected { a, b });
		self.trim_unsaved(a, b);
		self.trim_unsaved(b, a);
		self.pump();
	}

	/// BOLT-2: on disconnection a node forgets the peer's updates not yet covered by a commitment_signed - they
	/// are then no longer "handled but unsaved" either
	fn trim_unsaved(&mut self, node: usize, peer: usize) {
		let list = &mut self.unsaved[node];
		let mut done: Vec<ChannelId> = Vec::new();
		let mut i = list.len();
		while i > 0 {
			i -= 1;
			if list[i].0 != peer {
				continue;
			}
			let cid = match list[i].1.channel_id() {
				Some(c) => c,
				None => continue,
			};
			if done.contains(&cid) {
				continue;
			}
			if matches!(list[i].1, Wire::Add(_) | Wire::Fulfill(_) | Wire::Fail(_) | Wire::FailMalformed(_) | Wire::Fee(_)) {
				list.remove(i);
			} else if matches!(list[i].1, Wire::Commit(_) | Wire::Raa(_)) {
				done.push(cid);
			}
		}
	}

	fn push_wire(&mut self, from: usize, to_id: &PublicKey, w: Wire) {
		let to = self.idx_of(to_id);
		if !self.is_connected(from, to) {
			// the PeerManager would drop messages for a disconnected peer
			return;
		}
		self.obs.push(Obs::Sent { from, to, wire: w.clone() });
		self.links.entry((from, to)).or_default().push_back(w);
	}

	/// Drains every node's outbound message events into the FIFO links (splitting `UpdateHTLCs`
	/// bundles into individual messages in PeerManager order), collects signer / persist /
	/// broadcast observations and applies the manager persistence policy.
	pub fn pump(&mut self) {
		// a deferred ChainMonitor's flush may release messages and need further manager writes
		let mut rounds = 0;
		while self.pump_once() {
			rounds += 1;
			assert!(rounds < 50, "harness: deferred flush does not settle");
		}
	}

	/// What the node's background task does when the manager needs persisting (lightning-background-processor):
	/// note how many monitor operations are queued, write the manager, then flush exactly that many.
	/// Returns true if monitor operations were flushed.
	pub fn background_persist(&mut self, i: usize) -> bool {
		let count = if self.nodes[i].deferred { self.nodes[i].mon.pending_operation_count() } else { 0 };
		self.nodes[i].write_manager();
		self.note_manager_written(i);
		if count > 0 {
			crate::runner::witness("deferred-flush");
			if count > 1 {
				crate::runner::witness("deferred-flush-of-several-operations");
			}
			let lg = self.nodes[i].logger.clone();
			self.nodes[i].mon.flush(count, &lg);
			true
		} else {
			false
		}
	}

	fn pump_once(&mut self) -> bool {
		let mut msgs: Vec<(usize, MessageSendEvent)> = Vec::new();
		for i in 0..self.nodes.len() {
			for e in self.nodes[i].cm.get_and_clear_pending_msg_events() {
				msgs.push((i, e));
			}
		}
		// signer / persister / broadcaster records in true chronological order
		let mut recs: Vec<(u64, Obs)> = Vec::new();
		for (q, s) in siglog_take() {
			recs.push((q, Obs::Sig(s)));
		}
		for i in 0..self.nodes.len() {
			for rec in self.nodes[i].persist.take_log() {
				if rec.steps.iter().any(|s| s.name == "ChannelForceClosed" || s.name == "PaymentPreimage") {
					self.nodes[i].mon_dirty.set(true);
				}
				let e = self.live_ids[i].entry(rec.chan).or_insert(0);
				*e = (*e).max(rec.monitor_update_id);
				recs.push((rec.seq, Obs::Persist { node: i, rec }));
			}
			for b in self.nodes[i].bc.take() {
				recs.push((b.seq, Obs::Broadcast { node: i, b, admit: Vec::new() }));
			}
		}
		recs.sort_by_key(|r| r.0);
		for (_, mut o) in recs {
			if let Obs::Broadcast { b, admit, .. } = &mut o {
				*admit = self.chain.admit_package(&b.txs);
			}
			self.obs.push(o);
		}
		// messages become observable to the peer only now
		for (i, e) in msgs {
			self.route_msg_event(i, e);
		}
		let mut flushed = false;
		for i in 0..self.nodes.len() {
			if self.nodes[i].cm.get_and_clear_needs_persistence() {
				if self.eager_manager_persist && !self.manager_write_held[i] {
					flushed |= self.background_persist(i);
				} else {
					self.manager_dirty[i] = true;
					if self.nodes[i].deferred && self.nodes[i].mon.pending_operation_count() > 0 {
						crate::runner::witness("deferred-operations-queued-while-background-task-stalled");
					}
				}
			}
		}
		flushed
	}

	fn route_msg_event(&mut self, from: usize, e: MessageSendEvent) {
		match e {
			MessageSendEvent::SendOpenChannel { node_id, msg } => self.push_wire(from, &node_id, Wire::Open(msg)),
			MessageSendEvent::SendAcceptChannel { node_id, msg } => self.push_wire(from, &node_id, Wire::Accept(msg)),
			MessageSendEvent::SendFundingCreated { node_id, msg } => {
				self.push_wire(from, &node_id, Wire::FundingCreated(msg))
			},
			MessageSendEvent::SendFundingSigned { node_id, msg } => self.push_wire(from, &node_id, Wire::FundingSigned(msg)),
			MessageSendEvent::SendChannelReady { node_id, msg } => self.push_wire(from, &node_id, Wire::ChannelReady(msg)),
			MessageSendEvent::SendAnnouncementSignatures { node_id, msg } => {
				self.push_wire(from, &node_id, Wire::AnnSigs(msg))
			},
			MessageSendEvent::UpdateHTLCs { node_id, channel_id: _, updates } => {
				for m in updates.update_fulfill_htlcs {
					self.push_wire(from, &node_id, Wire::Fulfill(m));
				}
				for m in updates.update_fail_htlcs {
					self.push_wire(from, &node_id, Wire::Fail(m));
				}
				for m in updates.update_fail_malformed_htlcs {
					self.push_wire(from, &node_id, Wire::FailMalformed(m));
				}
				for m in updates.update_add_htlcs {
					self.push_wire(from, &node_id, Wire::Add(m));
				}
				if let Some(m) = updates.update_fee {
					self.push_wire(from, &node_id, Wire::Fee(m));
				}
				if updates.commitment_signed.len() > 1 {
					self.push_wire(from, &node_id, Wire::CommitBatch(updates.commitment_signed));
				} else {
					for m in updates.commitment_signed {
						self.push_wire(from, &node_id, Wire::Commit(m));
					}
				}
			},
			MessageSendEvent::SendStfu { node_id, msg } => self.push_wire(from, &node_id, Wire::Stfu(msg)),
			MessageSendEvent::SendSpliceInit { node_id, msg } => self.push_wire(from, &node_id, Wire::SpliceInit(msg)),
			MessageSendEvent::SendSpliceAck { node_id, msg } => self.push_wire(from, &node_id, Wire::SpliceAck(msg)),
			MessageSendEvent::SendSpliceLocked { node_id, msg } => self.push_wire(from, &node_id, Wire::SpliceLocked(msg)),
			MessageSendEvent::SendTxAddInput { node_id, msg } => self.push_wire(from, &node_id, Wire::TxAddInput(msg)),
			MessageSendEvent::SendTxAddOutput { node_id, msg } => self.push_wire(from, &node_id, Wire::TxAddOutput(msg)),
			MessageSendEvent::SendTxRemoveInput { node_id, msg } => self.push_wire(from, &node_id, Wire::TxRemoveInput(msg)),
			MessageSendEvent::SendTxRemoveOutput { node_id, msg } => self.push_wire(from, &node_id, Wire::TxRemoveOutput(msg)),
			MessageSendEvent::SendTxComplete { node_id, msg } => self.push_wire(from, &node_id, Wire::TxComplete(msg)),
			MessageSendEvent::SendTxSignatures { node_id, msg } => self.push_wire(from, &node_id, Wire::TxSignatures(msg)),
			MessageSendEvent::SendTxInitRbf { node_id, msg } => self.push_wire(from, &node_id, Wire::TxInitRbf(msg)),
			MessageSendEvent::SendTxAckRbf { node_id, msg } => self.push_wire(from, &node_id, Wire::TxAckRbf(msg)),
			MessageSendEvent::SendTxAbort { node_id, msg } => self.push_wire(from, &node_id, Wire::TxAbort(msg)),
			MessageSendEvent::SendRevokeAndACK { node_id, msg } => self.push_wire(from, &node_id, Wire::Raa(msg)),
			MessageSendEvent::SendClosingSigned { node_id, msg } => self.push_wire(from, &node_id, Wire::ClosingSigned(msg)),
			MessageSendEvent::SendShutdown { node_id, msg } => self.push_wire(from, &node_id, Wire::Shutdown(msg)),
			MessageSendEvent::SendChannelReestablish { node_id, msg } => {
				self.push_wire(from, &node_id, Wire::Reestablish(msg))
			},
			MessageSendEvent::SendChannelUpdate { node_id, msg } => self.push_wire(from, &node_id, Wire::ChannelUpdate(msg)),
			MessageSendEvent::HandleError { node_id, action } => {
				let to = self.idx_of(&node_id);
				match action {
					ErrorAction::SendErrorMessage { msg } => self.push_wire(from, &node_id, Wire::Error(msg)),
					ErrorAction::SendWarningMessage { msg, .. } => self.push_wire(from, &node_id, Wire::Warning(msg)),
					ErrorAction::DisconnectPeer { msg } => {
						if let Some(m) = msg {
							self.push_wire(from, &node_id, Wire::Error(m));
						}
						self.push_wire(from, &node_id, Wire::DisconnectMarker);
					},
					ErrorAction::DisconnectPeerWithWarning { msg } => {
						self.push_wire(from, &node_id, Wire::Warning(msg));
						self.push_wire(from, &node_id, Wire::DisconnectMarker);
					},
					other => self.obs.push(Obs::ErrorAction { from, to, what: format!("{:?}", other) }),
				}
			},
			MessageSendEvent::BroadcastChannelAnnouncement { .. }
			| MessageSendEvent::BroadcastChannelUpdate { .. }
			| MessageSendEvent::BroadcastNodeAnnouncement { .. }
			| MessageSendEvent::SendChannelAnnouncement { .. } => {},
			other => {
				self.obs.push(Obs::ErrorAction { from, to: from, what: format!("unrouted message event {:?}", other) });
			},
		}
	}

	/// Delivers the head of link (from → to).
	pub fn deliver(&mut self, from: usize, to: usize) {
		let w = match self.links.get_mut(&(from, to)).and_then(|q| q.pop_front()) {
			Some(w) => w,
			None => return,
		};
		self.deliver_wire(from, to, w);
	}

	pub fn deliver_wire(&mut self, from: usize, to: usize, w: Wire) {
		// Two LDK nodes that have both forgotten a channel answer each other's "bogus"
		// channel_reestablish (all-zero commitment numbers, sent to make lnd force-close) with another
		// bogus channel_reestablish forever. That loop is outside the 20 properties; the harness cuts
		// it after two rounds per link so that executions terminate (recorded as a witness).
		if let Wire::Reestablish(m) = &w {
			if m.next_local_commitment_number == 0 && m.next_remote_commitment_number == 0 && m.your_last_per_commitment_secret == [1u8; 32] {
				let c = self.bogus_reestablish.entry((from, to)).or_insert(0);
				*c += 1;
				if *c > 2 {
					crate::runner::witness("bogus-reestablish-ping-pong-cut");
					return;
				}
			}
		}
		let fid = self.nodes[from].id;
		self.obs.push(Obs::Delivered { from, to, wire: w.clone() });
		if self.nodes[to].deferred {
			self.unsaved[to].push((from, w.clone()));
		}
		{
			let cm = &self.nodes[to].cm;
			match &w {
				Wire::Open(m) => cm.handle_open_channel(fid, m),
				Wire::Accept(m) => cm.handle_accept_channel(fid, m),
				Wire::FundingCreated(m) => cm.handle_funding_created(fid, m),
				Wire::FundingSigned(m) => cm.handle_funding_signed(fid, m),
				Wire::ChannelReady(m) => cm.handle_channel_ready(fid, m),
				Wire::AnnSigs(m) => cm.handle_announcement_signatures(fid, m),
				Wire::Add(m) => cm.handle_update_add_htlc(fid, m),
				Wire::Fulfill(m) => cm.handle_update_fulfill_htlc(fid, m.clone()),
				Wire::Fail(m) => cm.handle_update_fail_htlc(fid, m),
				Wire::FailMalformed(m) => cm.handle_update_fail_malformed_htlc(fid, m),
				Wire::Fee(m) => cm.handle_update_fee(fid, m),
				Wire::Commit(m) => cm.handle_commitment_signed(fid, m),
				Wire::Raa(m) => cm.handle_revoke_and_ack(fid, m),
				Wire::Reestablish(m) => cm.handle_channel_reestablish(fid, m),
				Wire::Shutdown(m) => cm.handle_shutdown(fid, m),
				Wire::ClosingSigned(m) => cm.handle_closing_signed(fid, m),
				Wire::Error(m) => cm.handle_error(fid, m),
				Wire::Warning(_) => {},
				Wire::ChannelUpdate(m) => cm.handle_channel_update(fid, m),
				Wire::Stfu(m) => cm.handle_stfu(fid, m),
				Wire::SpliceInit(m) => cm.handle_splice_init(fid, m),
				Wire::SpliceAck(m) => cm.handle_splice_ack(fid, m),
				Wire::SpliceLocked(m) => cm.handle_splice_locked(fid, m),
				Wire::TxAddInput(m) => cm.handle_tx_add_input(fid, m),
				Wire::TxAddOutput(m) => cm.handle_tx_add_output(fid, m),
				Wire::TxRemoveInput(m) => cm.handle_tx_remove_input(fid, m),
				Wire::TxRemoveOutput(m) => cm.handle_tx_remove_output(fid, m),
				Wire::TxComplete(m) => cm.handle_tx_complete(fid, m),
				Wire::TxSignatures(m) => cm.handle_tx_signatures(fid, m),
				Wire::TxInitRbf(m) => cm.handle_tx_init_rbf(fid, m),
				Wire::TxAckRbf(m) => cm.handle_tx_ack_rbf(fid, m),
				Wire::TxAbort(m) => cm.handle_tx_abort(fid, m),
				Wire::CommitBatch(v) => cm.handle_commitment_signed_batch(fid, v[0].channel_id, v.clone()),
				Wire::DisconnectMarker => {},
			}
		}
		if let Wire::DisconnectMarker = w {
			self.disconnect(from, to);
		} else {
			self.pump();
		}
	}

	/// Hands all pending events of node `n` to the scenario's policy.
	pub fn take_events(&mut self, n: usize) -> Vec<Event> {
		let evs = std::cell::RefCell::new(Vec::new());
		let failing = self.fail_terminal[n];
		let refused = std::cell::Cell::new(false);
		self.nodes[n].cm.process_pending_events(&|e: Event| -> Result<(), ReplayEvent> {
			if failing && matches!(e, Event::PaymentFailed { .. } | Event::PaymentSent { .. }) {
				// the user's handler fails on this event: the library must keep it (and everything behind it)
				refused.set(true);
				return Err(ReplayEvent());
			}
			evs.borrow_mut().push(e);
			Ok(())
		});
		if refused.get() {
			self.events_blocked[n] = true;
			crate::runner::witness("event-handler-refused-a-terminal-payment-event");
		}
		// the chain monitor's own events (SpendableOutputs, BumpTransaction)
		self.nodes[n].mon_dirty.set(false);
		let mon_evs = std::cell::RefCell::new(Vec::new());
		self.nodes[n].mon.process_pending_events(&|e: Event| -> Result<(), ReplayEvent> {
			mon_evs.borrow_mut().push(e);
			Ok(())
		});
		let mut v = evs.into_inner();
		v.extend(mon_evs.into_inner());
		v
	}

	/// Default event handling shared by all scenarios: funding, channel acceptance, payment
	/// claim policy; everything is recorded as an observation.
	pub fn handle_events(&mut self, n: usize) {
		let evs = self.take_events(n);
		for ev in evs {
			self.obs.push(Obs::Event { node: n, ev: ev.clone() });
			match ev {
				Event::FundingGenerationReady {
					temporary_channel_id, counterparty_node_id, channel_value_satoshis, output_script, ..
				} if self.batch_expected > 0 => {
					self.batch_collected.push((temporary_channel_id, counterparty_node_id, channel_value_satoshis, output_script));
					if self.batch_collected.len() == self.batch_expected {
						let parts = std::mem::take(&mut self.batch_collected);
						self.batch_expected = 0;
						let tx = Transaction {
							version: Version(2),
							lock_time: LockTime::ZERO,
							input: Vec::new(),
							output: parts.iter().map(|(_, _, v, s)| TxOut { value: Amount::from_sat(*v), script_pubkey: s.clone() }).collect(),
						};
						let refs: Vec<(&ChannelId, &PublicKey)> = parts.iter().map(|(c, p, _, _)| (c, p)).collect();
						let r = self.nodes[n].cm.batch_funding_transaction_generated(&refs, tx.clone());
						self.obs.push(Obs::Api { node: n, what: "batch_funding_transaction_generated".into(), ok: r.is_ok(), detail: format!("{:?}", r) });
						self.funding_txs.push(tx);
					}
				},
				Event::FundingGenerationReady {
					temporary_channel_id, counterparty_node_id, channel_value_satoshis, output_script, ..
				} => {
					let tx = Transaction {
						version: Version(2),
						lock_time: LockTime::ZERO,
						input: Vec::new(),
						output: vec![TxOut { value: Amount::from_sat(channel_value_satoshis), script_pubkey: output_script }],
					};
					let r = self.nodes[n].cm.funding_transaction_generated(temporary_channel_id, counterparty_node_id, tx.clone());
					self.obs.push(Obs::Api {
						node: n,
						what: "funding_transaction_generated".into(),
						ok: r.is_ok(),
						detail: format!("{:?}", r),
					});
					self.funding_txs.push(tx);
				},
				Event::OpenChannelRequest { temporary_channel_id, counterparty_node_id, .. } => {
					let r = self.nodes[n].cm.accept_inbound_channel(&temporary_channel_id, &counterparty_node_id, 7, None);
					self.obs.push(Obs::Api { node: n, what: "accept_inbound_channel".into(), ok: r.is_ok(), detail: format!("{:?}", r) });
				},
				Event::HTLCIntercepted { intercept_id, expected_outbound_amount_msat, payment_hash, .. } if self.intercept_plan.contains_key(&payment_hash) => {
					let (cid, next) = self.intercept_plan[&payment_hash];
					let next_id = self.nodes[next].id;
					let skim = self.intercept_skim_msat.unwrap_or(0);
					let r = self.nodes[n].cm.forward_intercepted_htlc(intercept_id, &cid, next_id, expected_outbound_amount_msat - skim);
					self.obs.push(Obs::Api { node: n, what: "forward_intercepted_htlc".into(), ok: r.is_ok(), detail: format!("{:?}", r) });
				},
				Event::HTLCIntercepted { intercept_id, expected_outbound_amount_msat, .. } => {
					if let Some(skim) = self.intercept_skim_msat {
						// forward over the channel to the next node in the line
						let next = self.nodes[n + 1].id;
						let cid = self.nodes[n].cm.list_channels().iter().find(|c| c.counterparty.node_id == next).map(|c| c.channel_id);
						if let Some(cid) = cid {
							let r = self.nodes[n].cm.forward_intercepted_htlc(intercept_id, &cid, next, expected_outbound_amount_msat - skim);
							self.obs.push(Obs::Api { node: n, what: "forward_intercepted_htlc".into(), ok: r.is_ok(), detail: format!("{:?}", r) });
						}
					}
				},
				Event::FundingTransactionReadyForSigning { channel_id, counterparty_node_id, unsigned_transaction, .. } => {
					// splice (interactively built) funding transaction: the wallet signs its own inputs
					let r = self.nodes[n].wallet.sign_tx(unsigned_transaction).map_err(|_| ()).and_then(|tx| {
						self.nodes[n].cm.funding_transaction_signed(&channel_id, &counterparty_node_id, tx).map_err(|_| ())
					});
					self.obs.push(Obs::Api { node: n, what: "funding_transaction_signed".into(), ok: r.is_ok(), detail: format!("{:?}", r) });
				},
				Event::PaymentClaimed { payment_hash, .. } => {
					// ground truth: the recipient released the preimage
					if let Some(p) = self.payments.iter_mut().find(|p| p.hash == payment_hash) {
						p.claimed_by_recipient = true;
					}
				},
				Event::BumpTransaction(bev) => {
					self.nodes[n].bumper.handle_event(&bev);
				},
				Event::PaymentClaimable { payment_hash, .. } => {
					let pol = self.payments.iter().find(|p| p.hash == payment_hash).map(|p| (p.policy.clone(), p.preimage));
					match pol {
						Some((ClaimPolicy::Claim, pre)) => {
							self.nodes[n].cm.claim_funds(pre);
							if let Some(p) = self.payments.iter_mut().find(|p| p.hash == payment_hash) {
								p.claimed_by_recipient = true;
							}
						},
						Some((ClaimPolicy::Fail, _)) => {
							self.nodes[n].cm.fail_htlc_backwards(&payment_hash);
							if let Some(p) = self.payments.iter_mut().find(|p| p.hash == payment_hash) {
								p.failed_by_recipient = true;
							}
						},
						_ => {},
					}
				},
				_ => {},
			}
		}
		self.pump();
	}

	pub fn forward(&mut self, n: usize) {
		self.nodes[n].cm.process_pending_htlc_forwards();
		self.pump();
	}

	// -------------------------------------------------------------------------------------
	// chain
	/// Tells node `n` about the simulator's best chain, block by block through `Listen`
	/// (disconnecting first if the node is on a stale fork).
	pub fn sync_node(&mut self, n: usize) {
		let style = self.style;
		self.sync_node_style(n, style);
	}

	/// Tells node `n` about the simulator's best chain using one of the notification styles the
	/// `Listen` / `Confirm` contracts permit (C11). `batch` = the node learns about several blocks at
	/// once (skipping styles only report the last header).
	pub fn sync_node_style(&mut self, n: usize, style: SyncStyle) {
		use lightning::chain::Confirm;
		let mut common = self.synced[n].len().min(self.chain.blocks.len());
		while common > 0 && self.synced[n][common - 1] != self.chain.blocks[common - 1].header.block_hash() {
			common -= 1;
		}
		let node = &self.nodes[n];
		// ---- disconnections ----
		if common < self.synced[n].len() {
			let gone: Vec<bitcoin::BlockHash> = self.synced[n][common..].to_vec();
			let fork_hash = self.synced[n][common - 1];
			let fork_height = (common - 1) as u32;
			match style {
				SyncStyle::ListenFull | SyncStyle::ListenFiltered | SyncStyle::ListenReplayed => {
					if style == SyncStyle::ListenFull {
						// one notification per disconnected block, tip first
						for k in (common..self.synced[n].len()).rev() {
							let loc = lightning::chain::BlockLocator::new(self.synced[n][k - 1], (k - 1) as u32);
							node.mon.blocks_disconnected(loc.clone());
							lightning::chain::Listen::blocks_disconnected(&*node.cm, loc);
						}
					} else {
						// a single notification for the whole fork
						let loc = lightning::chain::BlockLocator::new(fork_hash, fork_height);
						node.mon.blocks_disconnected(loc.clone());
						lightning::chain::Listen::blocks_disconnected(&*node.cm, loc);
					}
				},
				SyncStyle::ConfirmBestFirstUnconfirmOnly | SyncStyle::ConfirmTxFirstUnconfirmOnly | SyncStyle::ConfirmUnconfirmOnlySkipping => {
					// only transaction_unconfirmed for what was in the disconnected blocks; the new best block
					// follows with the connections below
					for h in gone.iter() {
						if let Some(txs) = self.stale_blocks.get(h) {
							for tx in txs.iter() {
								node.mon.transaction_unconfirmed(&tx.compute_txid());
								node.cm.transaction_unconfirmed(&tx.compute_txid());
							}
						}
					}
				},
				_ => {
					// Confirm styles: the new best block is the fork point
					let hdr = self.chain.blocks[common - 1].header;
					node.mon.best_block_updated(&hdr, fork_height);
					node.cm.best_block_updated(&hdr, fork_height);
				},
			}
			self.synced[n].truncate(common);
		}
		// ---- connections ----
		let tip = self.chain.blocks.len();
		if common < tip {
			node.mon_dirty.set(true);
		}
		let relevant = |b: &bitcoin::Block| -> Vec<(usize, bitcoin::Transaction)> {
			let wt = node.chain_src.watched_txn.lock().unwrap();
			let wo = node.chain_src.watched_outputs.lock().unwrap();
			b.txdata
				.iter()
				.enumerate()
				.filter(|(_, tx)| {
					let txid = tx.compute_txid();
					wt.iter().any(|(t, _)| *t == txid)
						|| tx.input.iter().any(|i| wo.iter().any(|(o, _)| o.txid == i.previous_output.txid && o.index as u32 == i.previous_output.vout))
						|| tx.output.iter().any(|o| wt.iter().any(|(_, s)| *s == o.script_pubkey))
				})
				.map(|(i, t)| (i, t.clone()))
				.collect()
		};
		for h in common..tip {
			let b = self.chain.blocks[h].clone();
			let height = h as u32;
			let last = h + 1 == tip;
			let all: Vec<(usize, &bitcoin::Transaction)> = b.txdata.iter().enumerate().collect();
			match style {
				SyncStyle::ListenFull => {
					node.mon.block_connected(&b, height);
					lightning::chain::Listen::block_connected(&*node.cm, &b, height);
				},
				SyncStyle::ListenReplayed => {
					node.mon.filtered_block_connected(&b.header, &[], height);
					lightning::chain::Listen::filtered_block_connected(&*node.cm, &b.header, &[], height);
					node.mon.block_connected(&b, height);
					lightning::chain::Listen::block_connected(&*node.cm, &b, height);
				},
				SyncStyle::ListenFiltered => {
					// Filter semantics: outputs registered while processing must be matched against the same block again
					let mut seen: Vec<bitcoin::Txid> = Vec::new();
					loop {
						let rel = relevant(&b);
						let fresh: Vec<(usize, bitcoin::Transaction)> = rel.into_iter().filter(|(_, t)| !seen.contains(&t.compute_txid())).collect();
						let refs: Vec<(usize, &bitcoin::Transaction)> = fresh.iter().map(|(i, t)| (*i, t)).collect();
						if seen.is_empty() || !refs.is_empty() {
							if seen.is_empty() {
								node.mon.filtered_block_connected(&b.header, &refs, height);
								lightning::chain::Listen::filtered_block_connected(&*node.cm, &b.header, &refs, height);
							} else {
								node.mon.transactions_confirmed(&b.header, &refs, height);
								node.cm.transactions_confirmed(&b.header, &refs, height);
							}
						}
						if fresh.is_empty() {
							break;
						}
						seen.extend(fresh.iter().map(|(_, t)| t.compute_txid()));
					}
				},
				SyncStyle::ConfirmBestFirst | SyncStyle::ConfirmBestFirstUnconfirmOnly => {
					node.mon.best_block_updated(&b.header, height);
					node.mon.transactions_confirmed(&b.header, &all, height);
					node.cm.best_block_updated(&b.header, height);
					node.cm.transactions_confirmed(&b.header, &all, height);
				},
				SyncStyle::ConfirmTxFirst | SyncStyle::ConfirmTxFirstUnconfirmOnly => {
					node.mon.transactions_confirmed(&b.header, &all, height);
					node.mon.best_block_updated(&b.header, height);
					node.cm.transactions_confirmed(&b.header, &all, height);
					node.cm.best_block_updated(&b.header, height);
				},
				SyncStyle::ConfirmTxFirstDuplicate => {
					node.mon.transactions_confirmed(&b.header, &all, height);
					node.mon.transactions_confirmed(&b.header, &all, height);
					node.mon.best_block_updated(&b.header, height);
					node.cm.transactions_confirmed(&b.header, &all, height);
					node.cm.transactions_confirmed(&b.header, &all, height);
					node.cm.best_block_updated(&b.header, height);
				},
				SyncStyle::ConfirmRedundantHistory => {
					// re-confirm every transaction-bearing block of the current chain first
					for hh in 1..h {
						let ob = &self.chain.blocks[hh];
						if !ob.txdata.is_empty() {
							let oa: Vec<(usize, &bitcoin::Transaction)> = ob.txdata.iter().enumerate().collect();
							node.mon.transactions_confirmed(&ob.header, &oa, hh as u32);
							node.cm.transactions_confirmed(&ob.header, &oa, hh as u32);
						}
					}
					node.mon.transactions_confirmed(&b.header, &all, height);
					node.mon.best_block_updated(&b.header, height);
					node.cm.transactions_confirmed(&b.header, &all, height);
					node.cm.best_block_updated(&b.header, height);
				},
				SyncStyle::ConfirmTxFirstSkipping | SyncStyle::ConfirmBestFirstSkipping | SyncStyle::ConfirmUnconfirmOnlySkipping => {
					// intermediate blocks: only their transactions; the best block is reported for the last one only
					if style == SyncStyle::ConfirmBestFirstSkipping && last {
						node.mon.best_block_updated(&b.header, height);
						node.cm.best_block_updated(&b.header, height);
					}
					if !b.txdata.is_empty() {
						node.mon.transactions_confirmed(&b.header, &all, height);
						node.cm.transactions_confirmed(&b.header, &all, height);
					}
					if (style == SyncStyle::ConfirmTxFirstSkipping || style == SyncStyle::ConfirmUnconfirmOnlySkipping) && last {
						node.mon.best_block_updated(&b.header, height);
						node.cm.best_block_updated(&b.header, height);
					}
				},
			}
			self.synced[n].push(b.header.block_hash());
		}
		self.pump();
	}

	/// Mines the currently minable mempool subset into one block and updates the wallets.
	pub fn mine_mempool_block(&mut self) {
		let h = self.chain.mine_mempool();
		let b = self.chain.blocks[h as usize].clone();
		self.update_wallets(&b);
	}

	pub fn sync_all(&mut self) {
		for i in 0..self.nodes.len() {
			if !self.offline[i] {
				self.sync_node(i);
			}
		}
	}

	/// Settling phase: every user handles its events promptly after each block.
	pub fn handle_all_events(&mut self, skip: &[bool]) {
		for _ in 0..4 {
			let mut any = false;
			for i in 0..self.nodes.len() {
				if !skip.get(i).copied().unwrap_or(false) && !self.offline[i] && !self.events_blocked[i] && self.nodes[i].has_events() {
					self.handle_events(i);
					any = true;
				}
			}
			if !any {
				break;
			}
		}
	}

	/// Gives node `n`'s on-chain wallet a confirmed P2WPKH output of `value_sat` (mined at once).
	pub fn give_wallet_utxo(&mut self, n: usize, value_sat: u64) {
		use lightning::util::wallet_utils::WalletSourceSync;
		let script = self.nodes[n].wallet.get_change_script().unwrap();
		let tx = Transaction {
			version: Version(2),
			lock_time: LockTime::from_consensus(self.chain.height() + 1 + 1000 * n as u32),
			input: Vec::new(),
			output: vec![TxOut { value: Amount::from_sat(value_sat), script_pubkey: script }],
		};
		self.chain.mine(vec![tx.clone()], true).unwrap();
		self.nodes[n].wallet.add_utxo(tx, 0);
	}

	/// Script to which node `n` sweeps its spendable outputs (distinct per node, harness-chosen).
	pub fn sweep_script(&self, n: usize) -> bitcoin::ScriptBuf {
		let mut k = [0x66u8; 32];
		k[0] = self.nodes[n].tag;
		let sk = bitcoin::secp256k1::SecretKey::from_slice(&k).unwrap();
		let pk = bitcoin::PublicKey::new(sk.public_key(&bitcoin::secp256k1::Secp256k1::new()));
		bitcoin::ScriptBuf::new_p2wpkh(&pk.wpubkey_hash().unwrap())
	}

	/// Spendable output descriptors node `n` has been given so far and not yet swept.
	pub fn unswept_descriptors(&self, n: usize) -> Vec<lightning::sign::SpendableOutputDescriptor> {
		let mut v = Vec::new();
		for o in self.obs.iter() {
			if let Obs::Event { node, ev: Event::SpendableOutputs { outputs, .. } } = o {
				if *node == n {
					for d in outputs.iter() {
						let op = match d {
							lightning::sign::SpendableOutputDescriptor::StaticOutput { outpoint, .. } => outpoint.into_bitcoin_outpoint(),
							lightning::sign::SpendableOutputDescriptor::DelayedPaymentOutput(x) => x.outpoint.into_bitcoin_outpoint(),
							lightning::sign::SpendableOutputDescriptor::StaticPaymentOutput(x) => x.outpoint.into_bitcoin_outpoint(),
						};
						if self.chain.utxos.contains_key(&op) && !self.chain.mempool.iter().any(|m| m.input.iter().any(|i| i.previous_output == op)) {
							if !v.iter().any(|e| e == d) {
								v.push(d.clone());
							}
						}
					}
				}
			}
		}
		v
	}

	/// Builds the sweep of all unswept descriptors of node `n` with the node's own keys and offers it
	/// to the chain. Ok(None) = nothing to sweep; Ok(Some(verdict)) = the simulator's admission verdict.
	pub fn try_sweep(&mut self, n: usize) -> Result<Option<Result<u64, crate::chain::Reject>>, String> {
		use lightning::sign::OutputSpender;
		let descs = self.unswept_descriptors(n);
		if descs.is_empty() {
			return Ok(None);
		}
		let refs: Vec<&lightning::sign::SpendableOutputDescriptor> = descs.iter().collect();
		let secp = bitcoin::secp256k1::Secp256k1::new();
		let tx = self.nodes[n]
			.keys
			.backing
			.spend_spendable_outputs(&refs, Vec::new(), self.sweep_script(n), 253, None, &secp)
			.map_err(|_| format!("node {}'s keys cannot build a spend of {} spendable output descriptor(s)", n, descs.len()))?;
		let r = self.chain.admit_package(&[tx.clone()]).pop().unwrap();
		self.obs.push(Obs::Api { node: n, what: format!("sweep {} outputs", descs.len()), ok: r.is_ok(), detail: format!("{:?}", r) });
		self.swept_txs.push((n, tx));
		Ok(Some(r))
	}

	/// Two confirmed wallet UTXOs per node (anchor channels need external fee inputs), then sync.
	pub fn fund_wallets(&mut self) {
		for n in 0..self.nodes.len() {
			self.give_wallet_utxo(n, 200_000);
			self.give_wallet_utxo(n, 150_000);
		}
		self.sync_all();
		assert!(self.run_to_quiescence(200));
	}

	/// After a block: spent wallet UTXOs disappear, confirmed change outputs become spendable.
	fn update_wallets(&mut self, block: &bitcoin::Block) {
		use lightning::util::wallet_utils::WalletSourceSync;
		for n in 0..self.nodes.len() {
			let script = self.nodes[n].wallet.get_change_script().unwrap();
			for tx in block.txdata.iter() {
				if tx.input.is_empty() {
					continue;
				}
				for inp in tx.input.iter() {
					self.nodes[n].wallet.remove_utxo(inp.previous_output);
				}
				for (v, o) in tx.output.iter().enumerate() {
					if o.script_pubkey == script {
						self.nodes[n].wallet.add_utxo(tx.clone(), v as u32);
					}
				}
			}
		}
	}

	/// Node `n` initiates a splice on `cid` with `peer`: `delta_sat` > 0 adds value from the node's wallet
	/// (it must own a confirmed UTXO), < 0 withdraws to the node's wallet script. Only the user calls are
	/// made here; quiescence, negotiation and signing run through the ordinary message / event flow.
	pub fn splice(&mut self, n: usize, peer: usize, cid: &ChannelId, delta_sat: i64) -> Result<(), String> {
		use bitcoin::FeeRate;
		use lightning::util::wallet_utils::{WalletSourceSync, WalletSync};
		let pid = self.nodes[peer].id;
		let template = self.nodes[n].cm.splice_channel(cid, &pid).map_err(|e| format!("{:?}", e))?;
		let floor = FeeRate::from_sat_per_kwu(253);
		let feerate = template.min_rbf_feerate().unwrap_or(floor);
		let contribution = if delta_sat >= 0 {
			let wallet = WalletSync::new(self.nodes[n].wallet.clone(), self.nodes[n].logger.clone());
			template.splice_in_sync(Amount::from_sat(delta_sat as u64), feerate, FeeRate::MAX, &wallet).map_err(|e| format!("{:?}", e))?
		} else {
			let script = self.nodes[n].wallet.get_change_script().unwrap();
			template
				.splice_out(vec![TxOut { value: Amount::from_sat((-delta_sat) as u64), script_pubkey: script }], feerate, FeeRate::MAX)
				.map_err(|e| format!("{:?}", e))?
		};
		let r = self.nodes[n].cm.funding_contributed(cid, &pid, contribution, None).map_err(|e| format!("{:?}", e));
		self.obs.push(Obs::Api { node: n, what: "funding_contributed".into(), ok: r.is_ok(), detail: format!("{:?}", r) });
		self.pump();
		r
	}

	pub fn mine_empty(&mut self, k: u32) {
		for _ in 0..k {
			self.chain.mine(Vec::new(), true).unwrap();
		}
	}

	// -------------------------------------------------------------------------------------
	// set-up helpers (deterministic prelude, not explored)
	/// Runs default processing (events, forwards, deliveries in link order) until nothing is left.
	pub fn run_to_quiescence(&mut self, max_steps: usize) -> bool {
		for _ in 0..max_steps {
			let mut did = false;
			for i in 0..self.nodes.len() {
				if self.nodes[i].has_events() {
					self.handle_events(i);
					did = true;
				}
			}
			for i in 0..self.nodes.len() {
				if self.nodes[i].cm.needs_pending_htlc_processing() {
					self.forward(i);
					did = true;
				}
			}
			let keys: Vec<(usize, usize)> = self.links.iter().filter(|(_, q)| !q.is_empty()).map(|(k, _)| *k).collect();
			if let Some((f, t)) = keys.first() {
				self.deliver(*f, *t);
				did = true;
			}
			if !did {
				// asynchronous persistence during set-up: complete the oldest outstanding update
				for i in 0..self.nodes.len() {
					if let Some((cid, id)) = self.nodes[i].persist.outstanding().first().cloned() {
						self.nodes[i].persist.mark_completed(cid, id);
						let _ = self.nodes[i].mon.channel_monitor_updated(cid, id);
						self.obs.push(Obs::Completed { node: i, chan: cid, id });
						self.pump();
						did = true;
						break;
					}
				}
			}
			if !did {
				return true;
			}
		}
		false
	}

	/// Opens and confirms a channel a→b, returns its channel id.
	pub fn open_channel(&mut self, a: usize, b: usize, value_sat: u64, push_msat: u64) -> ChannelId {
		if !self.is_connected(a, b) {
			self.connect(a, b);
		}
		let bid = self.nodes[b].id;
		let before: Vec<ChannelId> = self.nodes[a].cm.list_channels().iter().map(|c| c.channel_id).collect();
		self.nodes[a].cm.create_channel(bid, value_sat, push_msat, 42, None, None).expect("create_channel");
		self.pump();
		assert!(self.run_to_quiescence(200), "channel open did not quiesce");
		// confirm the funding transaction
		let ftx = self.funding_txs.last().expect("no funding tx").clone();
		self.chain.mine(vec![ftx], true).unwrap();
		self.mine_empty(5);
		self.sync_all();
		assert!(self.run_to_quiescence(200), "channel ready did not quiesce");
		let after = self.nodes[a].cm.list_channels();
		let ch = after.iter().find(|c| !before.contains(&c.channel_id)).expect("new channel");
		assert!(ch.is_usable, "channel not usable after open: {:?}", ch);
		ch.channel_id
	}

	pub fn chan(&self, n: usize, cid: &ChannelId) -> Option<ChannelDetails> {
		self.nodes[n].cm.list_channels().into_iter().find(|c| c.channel_id == *cid)
	}

	/// Registers an inbound payment at `to` and sends it from `from` over the given hops
	/// (list of (node index, channel id used to reach it)). Returns payment index.
	pub fn send_payment(&mut self, from: usize, hops: &[(usize, ChannelId)], amount_msat: u64, policy: ClaimPolicy) -> usize {
		self.send_payment_ext(from, hops, amount_msat, policy, 0, 1000)
	}

	pub fn send_payment_ext(
		&mut self, from: usize, hops: &[(usize, ChannelId)], amount_msat: u64, policy: ClaimPolicy, final_cltv_extra: u32,
		hop_fee_msat: u64,
	) -> usize {
		let to = hops.last().unwrap().0;
		let pre = {
			let mut p = [0u8; 32];
			p[0] = self.next_preimage;
			p[1] = 0x77;
			self.next_preimage += 1;
			PaymentPreimage(p)
		};
		let hash = PaymentHash(bitcoin::hashes::sha256::Hash::hash(&pre.0).to_byte_array());
		let secret = self.nodes[to]
			.cm
			.create_inbound_payment_for_hash(hash, None, 7200, None, None)
			.expect("create_inbound_payment_for_hash")
			.0;
		let mut route_hops = Vec::new();
		let mut prev = from;
		// a channel of the route may be gone (closed after a restart): the user has no route, nothing is sent
		{
			let mut pv = from;
			for (node, cid) in hops.iter() {
				if self.chan(pv, cid).and_then(|c| c.short_channel_id).is_none() {
					self.obs.push(Obs::Api { node: from, what: format!("send_payment {}", amount_msat), ok: false, detail: "no route: channel closed".into() });
					self.payments.push(PaymentRec {
						id: PaymentId(hash.0),
						hash,
						preimage: pre,
						secret,
						from,
						to,
						amount_msat,
						policy,
						send_ok: false,
						send_err: "no route: channel closed".into(),
						claimed_by_recipient: false,
						failed_by_recipient: false,
					});
					return self.payments.len() - 1;
				}
				pv = *node;
			}
		}
		for (i, (node, cid)) in hops.iter().enumerate() {
			let ch = self.chan(prev, cid).expect("route channel");
			let last = i + 1 == hops.len();
			let mut scid = ch.short_channel_id.expect("scid");
			if last && i > 0 && self.intercept_via == Some(prev) {
				scid = self.nodes[prev].cm.get_intercept_scid();
				self.intercept_plan.insert(hash, (*cid, *node));
			}
			route_hops.push(RouteHop {
				pubkey: self.nodes[*node].id,
				node_features: self.nodes[*node].cm.node_features(),
				short_channel_id: scid,
				channel_features: self.nodes[*node].cm.channel_features(),
				fee_msat: if last { amount_msat } else { hop_fee_msat },
				cltv_expiry_delta: if last { 100 + final_cltv_extra } else { 100 },
				maybe_announced_channel: true,
			});
			prev = *node;
		}
		let route = Route {
			paths: vec![Path { hops: route_hops, blinded_tail: None }],
			route_params: RouteParameters::from_payment_params_and_value(
				PaymentParameters::from_node_id(self.nodes[to].id, 100),
				amount_msat,
			),
		};
		let id = PaymentId(hash.0);
		let r = self.nodes[from].cm.send_payment_with_route(
			route,
			hash,
			RecipientOnionFields::secret_only(secret, amount_msat),
			id,
		);
		self.obs.push(Obs::Api { node: from, what: format!("send_payment {}", amount_msat), ok: r.is_ok(), detail: format!("{:?}", r) });
		self.payments.push(PaymentRec {
			id,
			hash,
			preimage: pre,
			secret,
			from,
			to,
			amount_msat,
			policy,
			send_ok: r.is_ok(),
			send_err: format!("{:?}", r),
			claimed_by_recipient: false,
			failed_by_recipient: false,
		});
		self.pump();
		self.payments.len() - 1
	}

	/// Fully explicit send: the caller chooses hash, onion fields (secret, declared total), the HTLC
	/// amount, the final CLTV delta and the payment id. Returns whether the API accepted it.
	pub fn send_raw(
		&mut self, from: usize, hops: &[(usize, ChannelId)], htlc_amount_msat: u64, hash: PaymentHash,
		onion: RecipientOnionFields, id: PaymentId, final_cltv_delta: u32,
	) -> bool {
		let to = hops.last().unwrap().0;
		let mut route_hops = Vec::new();
		let mut prev = from;
		for (i, (node, cid)) in hops.iter().enumerate() {
			let ch = self.chan(prev, cid).expect("route channel");
			let last = i + 1 == hops.len();
			route_hops.push(RouteHop {
				pubkey: self.nodes[*node].id,
				node_features: self.nodes[*node].cm.node_features(),
				short_channel_id: ch.short_channel_id.expect("scid"),
				channel_features: self.nodes[*node].cm.channel_features(),
				fee_msat: if last { htlc_amount_msat } else { 1000 },
				cltv_expiry_delta: if last { final_cltv_delta } else { 100 },
				maybe_announced_channel: true,
			});
			prev = *node;
		}
		let route = Route {
			paths: vec![Path { hops: route_hops, blinded_tail: None }],
			route_params: RouteParameters::from_payment_params_and_value(
				PaymentParameters::from_node_id(self.nodes[to].id, final_cltv_delta),
				htlc_amount_msat,
			),
		};
		let r = self.nodes[from].cm.send_payment_with_route(route, hash, onion, id);
		self.obs.push(Obs::Api { node: from, what: format!("send_raw {}", htlc_amount_msat), ok: r.is_ok(), detail: format!("{:?}", r) });
		self.pump();
		r.is_ok()
	}

	/// Multi-path, multi-hop send: one payment whose parts travel over the given paths
	/// (each a list of (node, channel used to reach it)). Registers the payment at the payee. Returns payment index.
	pub fn send_multipath(&mut self, from: usize, paths_in: &[(Vec<(usize, ChannelId)>, u64)], policy: ClaimPolicy) -> usize {
		let to = paths_in[0].0.last().unwrap().0;
		let total: u64 = paths_in.iter().map(|p| p.1).sum();
		let pre = {
			let mut p = [0u8; 32];
			p[0] = self.next_preimage;
			p[1] = 0x77;
			self.next_preimage += 1;
			PaymentPreimage(p)
		};
		let hash = PaymentHash(bitcoin::hashes::sha256::Hash::hash(&pre.0).to_byte_array());
		let secret = self.nodes[to].cm.create_inbound_payment_for_hash(hash, None, 7200, None, None).expect("create_inbound_payment_for_hash").0;
		let mut paths = Vec::new();
		for (hops, amt) in paths_in {
			let mut prev = from;
			let mut rh = Vec::new();
			for (i, (node, cid)) in hops.iter().enumerate() {
				let ch = self.chan(prev, cid).expect("route channel");
				let last = i + 1 == hops.len();
				rh.push(RouteHop {
					pubkey: self.nodes[*node].id,
					node_features: self.nodes[*node].cm.node_features(),
					short_channel_id: ch.short_channel_id.expect("scid"),
					channel_features: self.nodes[*node].cm.channel_features(),
					fee_msat: if last { *amt } else { 1000 },
					cltv_expiry_delta: 100,
					maybe_announced_channel: true,
				});
				prev = *node;
			}
			paths.push(Path { hops: rh, blinded_tail: None });
		}
		let route = Route { paths, route_params: RouteParameters::from_payment_params_and_value(PaymentParameters::from_node_id(self.nodes[to].id, 100), total) };
		let id = PaymentId(hash.0);
		let r = self.nodes[from].cm.send_payment_with_route(route, hash, RecipientOnionFields::secret_only(secret, total), id);
		self.obs.push(Obs::Api { node: from, what: format!("send_multipath {}", total), ok: r.is_ok(), detail: format!("{:?}", r) });
		self.payments.push(PaymentRec {
			id,
			hash,
			preimage: pre,
			secret,
			from,
			to,
			amount_msat: total,
			policy,
			send_ok: r.is_ok(),
			send_err: format!("{:?}", r),
			claimed_by_recipient: false,
			failed_by_recipient: false,
		});
		self.pump();
		self.payments.len() - 1
	}

	/// Multi-part send over several direct paths in one `send_payment_with_route` call.
	pub fn send_mpp(
		&mut self, from: usize, to: usize, parts: &[(ChannelId, u64)], hash: PaymentHash, onion: RecipientOnionFields,
		id: PaymentId, final_cltv_delta: u32,
	) -> bool {
		let mut paths = Vec::new();
		let mut total = 0;
		for (cid, amt) in parts {
			let ch = self.chan(from, cid).expect("route channel");
			total += amt;
			paths.push(Path {
				hops: vec![RouteHop {
					pubkey: self.nodes[to].id,
					node_features: self.nodes[to].cm.node_features(),
					short_channel_id: ch.short_channel_id.expect("scid"),
					channel_features: self.nodes[to].cm.channel_features(),
					fee_msat: *amt,
					cltv_expiry_delta: final_cltv_delta,
					maybe_announced_channel: true,
				}],
				blinded_tail: None,
			});
		}
		let route = Route {
			paths,
			route_params: RouteParameters::from_payment_params_and_value(
				PaymentParameters::from_node_id(self.nodes[to].id, final_cltv_delta),
				total,
			),
		};
		let r = self.nodes[from].cm.send_payment_with_route(route, hash, onion, id);
		self.obs.push(Obs::Api { node: from, what: format!("send_mpp {:?}", parts.iter().map(|p| p.1).collect::<Vec<_>>()), ok: r.is_ok(), detail: format!("{:?}", r) });
		self.pump();
		r.is_ok()
	}

	/// Records what the manager just written for node `i` knows (used to judge restarts from it).
	pub fn note_manager_written(&mut self, i: usize) {
		use lightning::ln::channelmanager::RecentPaymentDetails;
		self.mgr_known_ids[i] = self.live_ids[i].clone();
		self.unsaved[i].clear();
		if self.nodes[i].deferred {
			// the manager also knows the operations its ChainMonitor has queued but not yet flushed
			for (cid, id) in self.nodes[i].mon.verif_pending_ops() {
				let e = self.mgr_known_ids[i].entry(cid).or_insert(0);
				*e = (*e).max(id);
			}
		}
		self.mgr_known_open[i] = self.nodes[i].cm.list_channels().iter().map(|c| c.channel_id).collect();
		self.mgr_known_pending[i] = self.nodes[i]
			.cm
			.list_recent_payments()
			.into_iter()
			.filter_map(|p| match p {
				RecentPaymentDetails::Pending { payment_hash, .. } => Some(payment_hash),
				_ => None,
			})
			.collect();
	}

	// -------------------------------------------------------------------------------------
	// crash / restart
	pub fn restart_node(
		&mut self, n: usize, chosen: &BTreeMap<ChannelId, Snapshot>, manager: Vec<u8>, lost_delivery: Option<(usize, Wire)>,
	) -> Result<(), String> {
		for rec in self.nodes[n].persist.take_log() {
			self.obs.push(Obs::Persist { node: n, rec });
		}
		let _ = siglog_take();
		self.events_blocked[n] = false;
		let mut lost_earlier = std::mem::take(&mut self.unsaved[n]);
		if let (Some((f, w)), Some((lf, lw))) = (lost_delivery.as_ref(), lost_earlier.last()) {
			if f == lf && w.kind() == lw.kind() {
				lost_earlier.pop();
			}
		}
		if !lost_earlier.is_empty() {
			crate::runner::witness("restart-forgets-messages-handled-since-the-last-manager-write");
		}
		self.obs.push(Obs::Restarted {
			node: n,
			chosen: chosen.iter().map(|(c, s)| (*c, s.monitor_update_id)).collect(),
			lost_delivery,
			lost_earlier,
			mgr_known_ids: self.mgr_known_ids[n].iter().map(|(c, i)| (*c, *i)).collect(),
			mgr_known_open: self.mgr_known_open[n].clone(),
			mgr_pending: self.mgr_known_pending[n].clone(),
		});
		// connections drop
		for o in 0..self.nodes.len() {
			if o != n && self.is_connected(n, o) {
				let nid = self.nodes[n].id;
				self.nodes[o].cm.peer_disconnected(nid);
				self.trim_unsaved(o, n);
				self.connected.insert((n.min(o), n.max(o)), false);
				self.links.remove(&(n, o));
				self.links.remove(&(o, n));
				self.obs.push(Obs::Disconnected { a: n, b: o });
			}
		}
		// whatever the dead process had queued is gone; writes that reached the store stay observed
		let _ = self.nodes[n].bc.take();
		let blocks = self.chain.blocks.clone();
		self.nodes[n].restart(chosen, &manager, None, &blocks)?;
		self.synced[n] = blocks.iter().map(|b| b.header.block_hash()).collect();
		self.live_ids[n] = chosen.iter().map(|(c, s)| (*c, s.monitor_update_id)).collect();
		self.pump();
		Ok(())
	}

	pub fn new_obs(&mut self) -> Vec<Obs> {
		let v = self.obs[self.obs_cursor..].to_vec();
		self.obs_cursor = self.obs.len();
		v
	}

	pub fn closed_reasons(&self) -> Vec<(usize, ClosureReason)> {
		self.obs
			.iter()
			.filter_map(|o| match o {
				Obs::Event { node, ev: Event::ChannelClosed { reason, .. } } => Some((*node, reason.clone())),
				_ => None,
			})
			.collect()
	}
}

pub fn obs_summary(o: &Obs) -> String {
	let head = |s: String| s.split(|c| c == ' ' || c == '{' || c == '(').next().unwrap_or("").to_string();
	match o {
		Obs::Sent { from, to, wire } => format!("S {}>{} {}", from, to, wire.kind()),
		Obs::Delivered { from, to, wire } => format!("D {}>{} {}", from, to, wire.kind()),
		Obs::Event { node, ev } => format!("E {} {}", node, head(format!("{:?}", ev))),
		Obs::Sig(s) => {
			let d = format!("{:?}", s);
			let num = match s {
				SigEv::SignCounterpartyCommitment { node, info, .. } => format!("n{} #{}", (*node - b'A'), crate::model::INITIAL_COMMITMENT_NUMBER - info.number),
				SigEv::ReleaseSecret { node, idx, .. } => format!("n{} #{}", (*node - b'A'), crate::model::INITIAL_COMMITMENT_NUMBER - idx),
				SigEv::SignHolderCommitment { node, number, .. } => format!("n{} #{}", (*node - b'A'), crate::model::INITIAL_COMMITMENT_NUMBER - number),
				_ => String::new(),
			};
			format!("SIG {} {}", head(d), num)
		},
		Obs::Persist { node, rec } => format!(
			"P {} chan={} id={:?}/{} inprog={} steps={:?} holder={:?}",
			node,
			&format!("{}", rec.chan)[..6],
			rec.update_id,
			rec.monitor_update_id,
			rec.in_progress,
			rec.steps.iter().map(|s| (s.name, s.number.map(|n| crate::model::INITIAL_COMMITMENT_NUMBER - n))).collect::<Vec<_>>(),
			rec.holder_commits.iter().map(|h| crate::model::INITIAL_COMMITMENT_NUMBER - h.number).collect::<Vec<_>>()
		),
		Obs::Broadcast { node, b, admit } => format!(
			"B {} {:?} {:?} {:?}",
			node,
			b.kinds,
			b.txs.iter().map(|t| t.compute_txid().to_string()[..8].to_string()).collect::<Vec<_>>(),
			admit.iter().map(|a| match a { Ok(f) => format!("ok fee {}", f), Err(e) => format!("{:?}", e) }).collect::<Vec<_>>()
		),
		Obs::Api { node, what, ok, detail } => format!("API {} {} ok={} {}", node, what, ok, if *ok { "" } else { detail }),
		o => format!("{:?}", o),
	}
}
