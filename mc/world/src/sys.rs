//! `explore::System` over the closed world: action alphabet, default schedule, oracle plumbing.
use crate::world::{ClaimPolicy, Obs, World};
use lightning::ln::types::ChannelId;
use mc_common::explore::{Failure, System};

#[derive(Clone, Debug, PartialEq, Eq)]
pub enum Action {
	Events(usize),
	Forward(usize),
	Deliver(usize, usize),
	/// Issue the next scripted user operation.
	Op(usize),
	Disconnect(usize, usize),
	Reconnect(usize, usize),
	Tick(usize),
	AsyncOn(usize),
	/// The node's store answers k more Persist calls synchronously and InProgress from then on (the switch the
	/// Persist contract always allows, here in the middle of one deferred flush)
	AsyncAfter(usize, u32),
	/// The node's (remote / asynchronous) signer stops answering get_per_commitment_point until released
	SignerOff(usize),
	/// ... and answers again: the user calls ChannelManager::signer_unblocked
	SignerOn(usize),
	/// channel_monitor_updated(node, index of channel in sorted outstanding list, update id)
	Complete(usize, usize, u64),
	WriteManager(usize),
	/// Crash node with the given choice index into the cartesian product of candidate snapshots.
	Crash(usize, u32),
	/// Crash inside the next handler call on node at its k-th persist call (after=true: the write landed).
	CrashInside(usize, u32, bool),
	/// Node stops handling its events until released (a single deviation expresses an arbitrarily
	/// long delay of event processing).
	HoldEvents(usize),
	ReleaseEvents(usize),
	/// Deliveries on link from→to are paused until released.
	HoldLink(usize, usize),
	ReleaseLink(usize, usize),
	/// The node's ChannelManager is not written any more until released ("however far the manager lags").
	HoldManager(usize),
	/// the node's disk becomes slow: no monitor-update write completes from now on (until a restart)
	HoldCompletions(usize),
	ReleaseManager(usize),
	Mine,
	/// Mine k empty blocks and tell every node.
	MineEmpty(u32),
	/// The miner leaves the mempool unconfirmed for k more blocks (confirmation delay).
	Stall(u32),
	/// Node sweeps its spendable outputs (settling phase).
	Sweep(usize),
	/// Deliver a corrupted copy of the revoke_and_ack at the head of link from→to
	/// (variant 0: one bit of the secret flipped; 1: the previous secret replayed).
	TamperRaa(usize, usize, u8),
	/// Deliver a corrupted copy of the commitment_signed at the head of link from→to: variant 0 replaces the
	/// commitment signature by another valid-looking one, variant 1+i replaces HTLC signature i by a
	/// neighbouring (valid for another transaction) signature.
	TamperCommit(usize, usize, u8),
	Finish,
}

fn fixed_signature() -> bitcoin::secp256k1::ecdsa::Signature {
	use bitcoin::secp256k1::{Message, Secp256k1, SecretKey};
	let secp = Secp256k1::new();
	secp.sign_ecdsa(&Message::from_digest([0x42; 32]), &SecretKey::from_slice(&[0x17; 32]).unwrap())
}

pub fn encode_action(a: &Action) -> String {
	match a {
		Action::Events(n) => format!("ev:{}", n),
		Action::Forward(n) => format!("fw:{}", n),
		Action::Deliver(f, t) => format!("dl:{}>{}", f, t),
		Action::Op(i) => format!("op:{}", i),
		Action::Disconnect(a, b) => format!("disc:{}-{}", a, b),
		Action::Reconnect(a, b) => format!("conn:{}-{}", a, b),
		Action::Tick(n) => format!("tick:{}", n),
		Action::AsyncOn(n) => format!("async:{}", n),
		Action::AsyncAfter(n, k) => format!("asyncafter:{}:{}", n, k),
		Action::SignerOff(n) => format!("signeroff:{}", n),
		Action::SignerOn(n) => format!("signeron:{}", n),
		Action::Complete(n, c, id) => format!("done:{}:{}:{}", n, c, id),
		Action::WriteManager(n) => format!("wm:{}", n),
		Action::Crash(n, c) => format!("crash:{}:{}", n, c),
		Action::CrashInside(n, k, a) => format!("crashin:{}:{}:{}", n, k, if *a { 1 } else { 0 }),
		Action::HoldEvents(n) => format!("holdev:{}", n),
		Action::ReleaseEvents(n) => format!("relev:{}", n),
		Action::HoldLink(f, t) => format!("holdlk:{}>{}", f, t),
		Action::ReleaseLink(f, t) => format!("rellk:{}>{}", f, t),
		Action::HoldManager(n) => format!("holdmgr:{}", n),
		Action::HoldCompletions(n) => format!("holddone:{}", n),
		Action::ReleaseManager(n) => format!("relmgr:{}", n),
		Action::Mine => "mine".to_string(),
		Action::MineEmpty(k) => format!("mineempty:{}", k),
		Action::Sweep(n) => format!("sweep:{}", n),
		Action::Stall(k) => format!("stall:{}", k),
		Action::TamperRaa(f, t, v) => format!("tamper:{}:{}:{}", f, t, v),
		Action::TamperCommit(f, t, v) => format!("tampercs:{}:{}:{}", f, t, v),
		Action::Finish => "fin".to_string(),
	}
}

pub fn decode_action(s: &str) -> Option<Action> {
	let (k, rest) = s.split_once(':').unwrap_or((s, ""));
	let nums = |sep: char| -> Vec<u64> { rest.split(sep).filter_map(|x| x.parse().ok()).collect() };
	Some(match k {
		"ev" => Action::Events(rest.parse().ok()?),
		"fw" => Action::Forward(rest.parse().ok()?),
		"dl" => {
			let v = nums('>');
			Action::Deliver(*v.get(0)? as usize, *v.get(1)? as usize)
		},
		"op" => Action::Op(rest.parse().ok()?),
		"disc" => {
			let v = nums('-');
			Action::Disconnect(*v.get(0)? as usize, *v.get(1)? as usize)
		},
		"conn" => {
			let v = nums('-');
			Action::Reconnect(*v.get(0)? as usize, *v.get(1)? as usize)
		},
		"tick" => Action::Tick(rest.parse().ok()?),
		"async" => Action::AsyncOn(rest.parse().ok()?),
		"signeroff" => Action::SignerOff(rest.parse().ok()?),
		"signeron" => Action::SignerOn(rest.parse().ok()?),
		"asyncafter" => {
			let v = nums(':');
			Action::AsyncAfter(*v.get(0)? as usize, *v.get(1)? as u32)
		},
		"done" => {
			let v = nums(':');
			Action::Complete(*v.get(0)? as usize, *v.get(1)? as usize, *v.get(2)?)
		},
		"wm" => Action::WriteManager(rest.parse().ok()?),
		"crash" => {
			let v = nums(':');
			Action::Crash(*v.get(0)? as usize, *v.get(1)? as u32)
		},
		"crashin" => {
			let v = nums(':');
			Action::CrashInside(*v.get(0)? as usize, *v.get(1)? as u32, *v.get(2)? == 1)
		},
		"holdev" => Action::HoldEvents(rest.parse().ok()?),
		"relev" => Action::ReleaseEvents(rest.parse().ok()?),
		"holdlk" => {
			let v = nums('>');
			Action::HoldLink(*v.get(0)? as usize, *v.get(1)? as usize)
		},
		"rellk" => {
			let v = nums('>');
			Action::ReleaseLink(*v.get(0)? as usize, *v.get(1)? as usize)
		},
		"holdmgr" => Action::HoldManager(rest.parse().ok()?),
		"holddone" => Action::HoldCompletions(rest.parse().ok()?),
		"relmgr" => Action::ReleaseManager(rest.parse().ok()?),
		"mine" => Action::Mine,
		"mineempty" => Action::MineEmpty(rest.parse().ok()?),
		"sweep" => Action::Sweep(rest.parse().ok()?),
		"stall" => Action::Stall(rest.parse().ok()?),
		"tamper" => {
			let v = nums(':');
			Action::TamperRaa(*v.get(0)? as usize, *v.get(1)? as usize, *v.get(2)? as u8)
		},
		"tampercs" => {
			let v = nums(':');
			Action::TamperCommit(*v.get(0)? as usize, *v.get(1)? as usize, *v.get(2)? as u8)
		},
		"fin" => Action::Finish,
		_ => return None,
	})
}

/// A scripted user operation.
#[derive(Clone, Debug)]
pub enum Op {
	/// Send `amount_msat` from node `from` along `hops` (node, channel index into `World` channel list).
	Send { from: usize, hops: Vec<(usize, usize)>, amount_msat: u64, policy: ClaimPolicy },
	SetFee { node: usize, rate: u32 },
	/// Every node's fee estimator changes (no message is triggered by this alone).
	SetFeeAll { rate: u32 },
	Shutdown { node: usize, chan: usize },
	ForceClose { node: usize, chan: usize },
	/// Limit probe (C01): read the channel's reported send limits on `node` and send an HTLC at /
	/// just outside them to the channel peer.
	Probe { node: usize, chan: usize, kind: ProbeKind },
	ClaimHeld { pay: usize },
	FailHeld { pay: usize },
	/// Send payment number `pay` again with the same payment id over `hops`, if the sender still lists it as pending.
	Resend { pay: usize, hops: Vec<(usize, usize)> },
	/// `from` opens a channel to `to` (the opening flow itself is then explored like any other)
	Open { from: usize, to: usize },
	/// The chain confirms the funding transaction (6 blocks) - if the funder has broadcast it by now
	ConfirmFunding,
	/// One payment split over several multi-hop paths: (hops as (node, channel index), amount of that part)
	SendMultiPath { from: usize, paths: Vec<(Vec<(usize, usize)>, u64)>, policy: ClaimPolicy },
	/// `n` timer ticks at `node`
	Ticks { node: usize, n: u32 },
	/// `node`'s monitor writes become asynchronous from now on
	SetAsync { node: usize },
	/// the connection between `a` and `b` drops
	DropLink { a: usize, b: usize },
	/// `from` opens one channel to each node of `to`, funded by a single (batch) transaction
	OpenBatch { from: usize, to: Vec<usize> },
	/// A forged `channel_ready` for the channel between `to` and `from`, announcing point number `variant`,
	/// is handed to `to` as if `from` had sent it
	ForgeChannelReady { to: usize, from: usize, variant: u8 },
	/// The miner confirms what is minable in the mempool, then `n - 1` empty blocks; every node is told
	MineBlocks { n: u32 },
}

#[derive(Clone, Copy, Debug, PartialEq, Eq)]
pub enum ProbeKind {
	AtLimit,
	AboveLimit,
	AtMin,
	BelowMin,
}

pub trait Oracle {
	fn name(&self) -> &'static str;
	/// Called after every step with the observations made during it.
	fn observe(&mut self, w: &World, obs: &[Obs]) -> Result<(), Failure>;
	/// Called once the execution is quiescent.
	fn at_end(&mut self, _w: &mut World) -> Result<String, Failure> {
		Ok(String::new())
	}
}

/// Which deviation kinds the scenario offers, with their cost.
#[derive(Clone, Debug)]
pub struct Deviations {
	/// deliver a link other than the first non-empty one / delay events or forwards
	pub reorder: Option<u32>,
	pub disconnect: Option<u32>,
	pub tick: Option<u32>,
	pub async_persist: Option<u32>,
	/// a deferred-mode node with several queued operations: its store turns asynchronous part-way through the next flush
	pub async_after: Option<u32>,
	/// the node's signer becomes unavailable (get_per_commitment_point) at any point, sticky until released
	pub signer_block: Option<u32>,
	/// issue the next operation before the protocol has quiesced
	pub early_op: Option<u32>,
	pub crash: Option<u32>,
	pub crash_inside: Option<u32>,
	/// cost of completing a monitor update out of default order (default: oldest first, immediately)
	pub complete_reorder: Option<u32>,
	pub tamper_raa: Option<u32>,
	pub tamper_commit: Option<u32>,
	/// sticky delays: hold a node's event processing / a link's deliveries until released
	pub hold_events: Option<u32>,
	pub hold_link: Option<u32>,
	pub hold_manager: Option<u32>,
	pub hold_completions: Option<u32>,
	/// offer HoldLink only when the next message on that link is a commitment_signed or revoke_and_ack
	pub hold_link_before_commit_msgs_only: bool,
	/// offer Crash only once the scenario's operations are done (on-chain settling phase)
	pub crash_after_finish_only: bool,
	/// how many of the admissible durable states a crash may restart from (oldest first); default 8
	pub crash_choices_max: Option<u32>,
	/// restrict HoldLink to this directed link / crash-inside to block connections of the settling phase
	pub hold_link_only: Option<(usize, usize)>,
	pub crash_inside_settle_only: bool,
	/// cost of releasing a hold earlier than the default (last possible) moment; None = never early
	pub early_release: Option<u32>,
}

impl Default for Deviations {
	fn default() -> Self {
		Deviations {
			reorder: Some(1),
			disconnect: None,
			tick: None,
			async_persist: None,
			async_after: None,
			signer_block: None,
			early_op: Some(1),
			crash: None,
			crash_inside: None,
			complete_reorder: Some(1),
			tamper_raa: None,
			tamper_commit: None,
			hold_events: None,
			hold_link: None,
			hold_manager: None,
			hold_completions: None,
			hold_link_before_commit_msgs_only: false,
			crash_after_finish_only: false,
			crash_choices_max: None,
			hold_link_only: None,
			crash_inside_settle_only: false,
			early_release: Some(0),
		}
	}
}

pub struct WorldSys {
	pub w: World,
	pub chans: Vec<ChannelId>,
	pub ops: Vec<Op>,
	pub next_op: usize,
	/// true: operations are issued before message processing in the default schedule
	pub ops_first: bool,
	pub dev: Deviations,
	pub oracles: Vec<Box<dyn Oracle>>,
	pub finished: bool,
	pub disconnects_done: u32,
	pub max_disconnects: u32,
	pub crashes_done: u32,
	pub max_crashes: u32,
	pub ticks_done: u32,
	pub async_on: Vec<bool>,
	/// node whose next handler call should crash inside (armed by CrashInside)
	pub pending_failure: Option<Failure>,
	pub lazy_manager: bool,
	pub mines_done: u32,
	pub jumped: bool,
	pub needs_bury: bool,
	pub jump_left: u32,
	pub sweep_at_end: bool,
	pub sweep_tries: u32,
	pub extra_rounds: u32,
	/// confirmation delay: blocks the miner lets pass before confirming what is in the mempool
	pub miner_delay: u32,
	pub stalled: bool,
	/// fee-estimator trajectory: after the first block of a confirmation stall all estimators drop to this
	pub fee_after_first_stall_block: Option<u32>,
	pub sweep_failures: Vec<String>,
	pub tampered: bool,
	pub last_raa: std::collections::BTreeMap<(usize, usize), lightning::ln::msgs::RevokeAndACK>,
	pub held_events: Vec<bool>,
	pub held_links: std::collections::BTreeSet<(usize, usize)>,
	pub holds_done: u32,
	pub max_holds: u32,
	pub held_manager: Vec<bool>,
	pub held_completions: Vec<bool>,
	pub signer_off: Vec<bool>,
	pub signer_blocks_done: u32,
	pub completion_holds_done: u32,
	/// scenario option: nodes listed in `held_events` at start keep their events unhandled until the
	/// on-chain settling is over (the user is slow to call process_pending_events)
	pub events_held_through_settle: bool,
	pub link_holds_done: u32,
	pub mgr_holds_done: u32,
	pub crash_nodes: Vec<usize>,
	/// mine to resolution in the settling phase when a channel was closed on chain
	pub settle_on_chain: bool,
	/// (payment index, kind, limit read, minimum read)
	pub probes: Vec<(usize, ProbeKind, u64, u64)>,
	/// false: at-limit probes are only a way to send "exactly the limit"; whether they go through is not
	/// judged (scenarios in which the peer changes the channel concurrently, so the limit read is stale)
	pub judge_probes: bool,
	/// probes (payment index) issued while the prober's own update_fee was in flight
	pub probes_with_fee_in_flight: Vec<usize>,
	/// probes (payment index) issued by the channel funder while its fee estimate had moved above the channel's
	/// committed feerate and no update_fee for it was on the wire yet (the update waits in the holding cell)
	pub probes_with_fee_queued: Vec<usize>,
}

impl WorldSys {
	pub fn new(w: World, chans: Vec<ChannelId>, ops: Vec<Op>) -> Self {
		let n = w.nodes.len();
		WorldSys {
			w,
			chans,
			ops,
			next_op: 0,
			ops_first: false,
			dev: Deviations::default(),
			oracles: Vec::new(),
			finished: false,
			disconnects_done: 0,
			max_disconnects: 1,
			crashes_done: 0,
			max_crashes: 1,
			ticks_done: 0,
			async_on: vec![false; n],
			pending_failure: None,
			lazy_manager: false,
			mines_done: 0,
			jumped: false,
			needs_bury: false,
			jump_left: u32::MAX,
			sweep_at_end: false,
			sweep_tries: 0,
			extra_rounds: 0,
			miner_delay: 0,
			stalled: false,
			fee_after_first_stall_block: None,
			sweep_failures: Vec::new(),
			tampered: false,
			last_raa: Default::default(),
			settle_on_chain: false,
			held_events: vec![false; n],
			held_links: Default::default(),
			holds_done: 0,
			max_holds: 1,
			held_manager: vec![false; n],
			held_completions: vec![false; n],
			signer_off: vec![false; n],
			signer_blocks_done: 0,
			completion_holds_done: 0,
			events_held_through_settle: false,
			link_holds_done: 0,
			mgr_holds_done: 0,
			crash_nodes: Vec::new(),
			probes: Vec::new(),
			judge_probes: true,
			probes_with_fee_in_flight: Vec::new(),
			probes_with_fee_queued: Vec::new(),
		}
	}

	fn default_actions(&mut self) -> Vec<Action> {
		let mut v = Vec::new();
		let n = self.w.nodes.len();
		let next_is_ticks = matches!(self.ops.get(self.next_op), Some(Op::Ticks { .. }));
		if self.ops_first && !next_is_ticks && !self.finished && self.next_op < self.ops.len() {
			v.push(Action::Op(self.next_op));
		}
		// reconnect comes first in the default schedule: a dropped link is re-established at once
		for a in 0..n {
			for b in (a + 1)..n {
				if self.w.connected.contains_key(&(a, b)) && !self.w.is_connected(a, b) {
					v.push(Action::Reconnect(a, b));
				}
			}
		}
		for i in 0..n {
			if !self.held_events[i] && !self.w.events_blocked[i] && self.w.nodes[i].has_events() {
				v.push(Action::Events(i));
			}
		}
		for i in 0..n {
			if self.w.nodes[i].cm.needs_pending_htlc_processing() {
				v.push(Action::Forward(i));
			}
		}
		for ((f, t), q) in self.w.links.iter() {
			if !q.is_empty() && !self.held_links.contains(&(*f, *t)) {
				v.push(Action::Deliver(*f, *t));
			}
		}
		// monitor update completions, oldest first per node
		for i in 0..n {
			if self.held_completions[i] {
				continue;
			}
			let outs = self.w.nodes[i].persist.outstanding();
			for (ci, (cid, id)) in outs.iter().enumerate() {
				let _ = cid;
				v.push(Action::Complete(i, ci, *id));
			}
		}
		if (!self.ops_first || next_is_ticks) && !self.finished && self.next_op < self.ops.len() {
			v.push(Action::Op(self.next_op));
		}
		// releases come last in the default order (maximal delay); earlier release is a zero-cost alternative
		for i in 0..n {
			if self.held_events[i] && !self.events_held_through_settle {
				v.push(Action::ReleaseEvents(i));
			}
		}
		for (f, t) in self.held_links.iter() {
			v.push(Action::ReleaseLink(*f, *t));
		}
		for i in 0..n {
			if self.signer_off[i] {
				v.push(Action::SignerOn(i));
			}
		}
		// a stalled background task of a deferred-mode node may resume at any point
		if !self.finished {
			for i in 0..n {
				if self.held_manager[i] && self.w.nodes[i].deferred {
					v.push(Action::ReleaseManager(i));
				}
			}
		}

		if v.is_empty() && self.finished && self.settle_on_chain {
			// on-chain settling: confirm whatever is in the mempool, bury it by the anti-reorg depth, let
			// every timelock expire once, and repeat until nothing is left to confirm
			if !self.w.chain.minable(&|_| 0).is_empty() && self.mines_done < 40 {
				if self.miner_delay > 0 && !self.stalled {
					v.push(Action::Stall(self.miner_delay));
				} else {
					v.push(Action::Mine);
				}
			} else if self.needs_bury {
				v.push(Action::MineEmpty(7));
			} else if self.sweep_at_end && self.sweep_tries < 40 && (0..n).any(|i| !self.w.unswept_descriptors(i).is_empty()) {
				let i = (0..n).find(|i| !self.w.unswept_descriptors(*i).is_empty()).unwrap();
				v.push(Action::Sweep(i));
			} else if self.jumped && self.sweep_at_end && self.extra_rounds < 25 && self.any_claimable() {
				// CSV-delayed outputs still maturing: let time pass
				self.extra_rounds += 1;
				v.push(Action::MineEmpty(20));
			} else if !self.jumped {
				// past every HTLC expiry: 100 blocks of CLTV delta per hop in the harness routes
				let hops = self.ops.iter().map(|o| if let Op::Send { hops, .. } = o { hops.len() } else { 1 }).max().unwrap_or(1) as u32;
				if self.jump_left == u32::MAX {
					self.jump_left = 100 * hops + 60;
				}
				v.push(Action::MineEmpty(self.jump_left.max(101)));
			}
		}
		// a slow disk that never crashed finally catches up when nothing else is left to do
		if v.is_empty() && self.finished {
			for i in 0..n {
				if self.held_completions[i] && !self.w.nodes[i].persist.outstanding().is_empty() {
					self.held_completions[i] = false;
					let outs = self.w.nodes[i].persist.outstanding();
					for (ci, (_cid, id)) in outs.iter().enumerate() {
						v.push(Action::Complete(i, ci, *id));
					}
					break;
				}
			}
		}
		// a held manager stays held through the on-chain settling phase (the lag is arbitrary); it is
		// written only when nothing else is left to do
		// a failing event handler recovers when nothing else is left to do
		if v.is_empty() && self.finished {
			for i in 0..n {
				if self.w.fail_terminal[i] {
					self.w.fail_terminal[i] = false;
					self.w.events_blocked[i] = false;
					if self.w.nodes[i].has_events() {
						v.push(Action::Events(i));
					}
					break;
				}
			}
		}
		if v.is_empty() && self.finished && self.events_held_through_settle {
			for i in 0..n {
				if self.held_events[i] {
					v.push(Action::ReleaseEvents(i));
					break;
				}
			}
		}
		if v.is_empty() && self.finished {
			for i in 0..n {
				if self.held_manager[i] {
					v.push(Action::ReleaseManager(i));
					break;
				}
			}
		}
		v
	}

	fn cost_of(&self, pos: usize, a: &Action) -> u32 {
		if pos == 0 {
			return 0;
		}
		match a {
			// timer ticks stand for minutes: they are only taken when nothing else is left to do
			Action::Op(i) if matches!(self.ops.get(*i), Some(Op::Ticks { .. })) => u32::MAX,
			Action::Op(_) => self.dev.early_op.unwrap_or(u32::MAX),
			Action::ReleaseEvents(_) | Action::ReleaseLink(..) | Action::ReleaseManager(_) | Action::SignerOn(_) => self.dev.early_release.unwrap_or(u32::MAX),
			Action::Complete(..) => self.dev.complete_reorder.unwrap_or(u32::MAX),
			_ => self.dev.reorder.unwrap_or(u32::MAX),
		}
	}

	fn do_op(&mut self, i: usize) {
		let op = self.ops[i].clone();
		match op {
			Op::Send { from, hops, amount_msat, policy } => {
				// channels opened by an explored `Open` become known once they exist
				if self.chans.is_empty() {
					for c in self.w.nodes[0].cm.list_channels() {
						if c.is_usable && !self.chans.contains(&c.channel_id) {
							self.chans.push(c.channel_id);
						}
					}
				}
				if hops.iter().any(|(_, c)| *c >= self.chans.len()) {
					self.w.obs.push(Obs::Api { node: from, what: "send-skipped".into(), ok: true, detail: "channel not open".into() });
				} else {
					let hops: Vec<(usize, ChannelId)> = hops.iter().map(|(n, c)| (*n, self.chans[*c])).collect();
					self.w.send_payment(from, &hops, amount_msat, policy);
				}
			},
			Op::SetFee { node, rate } => {
				*self.w.nodes[node].fee.sat_per_kw.lock().unwrap() = rate;
				self.w.nodes[node].cm.timer_tick_occurred();
				self.w.obs.push(Obs::Api { node, what: format!("set_fee {}", rate), ok: true, detail: String::new() });
				self.w.pump();
			},
			Op::SetFeeAll { rate } => {
				for n in 0..self.w.nodes.len() {
					*self.w.nodes[n].fee.sat_per_kw.lock().unwrap() = rate;
				}
				self.w.obs.push(Obs::Api { node: 0, what: format!("set_fee_all {}", rate), ok: true, detail: String::new() });
			},
			Op::Shutdown { node, chan } => {
				let cid = self.chans[chan];
				let peer = self.w.chan(node, &cid).map(|c| c.counterparty.node_id);
				if let Some(peer) = peer {
					let r = self.w.nodes[node].cm.close_channel(&cid, &peer);
					self.w.obs.push(Obs::Api { node, what: "close_channel".into(), ok: r.is_ok(), detail: format!("{:?}", r) });
				}
				self.w.pump();
			},
			Op::ForceClose { node, chan } => {
				let cid = self.chans[chan];
				let peer = self.w.chan(node, &cid).map(|c| c.counterparty.node_id);
				if let Some(peer) = peer {
					let r = self.w.nodes[node].cm.force_close_broadcasting_latest_txn(&cid, &peer, "harness".to_string());
					self.w.obs.push(Obs::Api { node, what: "force_close".into(), ok: r.is_ok(), detail: format!("{:?}", r) });
				}
				self.w.pump();
			},
			Op::Probe { node, chan, kind } => {
				let cid = self.chans[chan];
				if let Some(cd) = self.w.chan(node, &cid) {
					let peer = self.w.idx_of(&cd.counterparty.node_id);
					let (lim, min) = (cd.next_outbound_htlc_limit_msat, cd.next_outbound_htlc_minimum_msat);
					let amt = match kind {
						ProbeKind::AtLimit => Some(lim),
						ProbeKind::AboveLimit => Some(lim + 1),
						ProbeKind::AtMin => Some(min),
						ProbeKind::BelowMin => min.checked_sub(1),
					};
					let applicable = cd.is_usable
						&& match kind {
							ProbeKind::AtLimit | ProbeKind::AtMin => lim >= min && amt.unwrap() > 0,
							ProbeKind::AboveLimit => true,
							ProbeKind::BelowMin => min > 1,
						};
					self.w.obs.push(Obs::Api {
						node,
						what: format!("probe {:?} limit={} min={} applicable={}", kind, lim, min, applicable),
						ok: applicable,
						detail: String::new(),
					});
					if applicable {
						// does the prober have an update_fee of its own in flight (sent, the peer's revoke_and_ack for
						// the commitment carrying it not yet received)?
						let mut fee_in_flight = false;
						for o in self.w.obs.iter() {
							match o {
								Obs::Sent { from, wire: crate::world::Wire::Fee(m), .. } if *from == node && m.channel_id == cid => fee_in_flight = true,
								Obs::Delivered { to, wire: crate::world::Wire::Raa(m), .. } if *to == node && m.channel_id == cid => fee_in_flight = false,
								_ => {},
							}
						}
						self.w.send_payment_ext(node, &[(peer, cid)], amt.unwrap(), ClaimPolicy::Claim, 0, 0);
						let last = self.w.payments.len() - 1;
						self.probes.push((last, kind, lim, min));
						if fee_in_flight {
							self.probes_with_fee_in_flight.push(last);
						} else if cd.is_outbound && cd.feerate_sat_per_1000_weight.map(|f| *self.w.nodes[node].fee.sat_per_kw.lock().unwrap() > f).unwrap_or(false) {
							self.probes_with_fee_queued.push(last);
						}
					}
				}
			},
			Op::ClaimHeld { pay } => {
				let (to, pre, hash) = (self.w.payments[pay].to, self.w.payments[pay].preimage, self.w.payments[pay].hash);
				// the recipient can only release the preimage of a payment it was shown as claimable
				let shown = self.w.obs.iter().any(|o| {
					matches!(o, Obs::Event { node, ev: lightning::events::Event::PaymentClaimable { payment_hash, .. } } if *node == to && *payment_hash == hash)
				});
				self.w.nodes[to].cm.claim_funds(pre);
				if shown {
					self.w.payments[pay].claimed_by_recipient = true;
				}
				self.w.pump();
			},
			Op::Resend { pay, hops } => {
				use lightning::ln::channelmanager::RecentPaymentDetails;
				if pay >= self.w.payments.len() {
					self.w.obs.push(Obs::Api { node: 0, what: "resend-skipped".into(), ok: true, detail: "not sent yet".into() });
				} else {
					let p = self.w.payments[pay].clone();
					let listed_pending = self.w.nodes[p.from].cm.list_recent_payments().iter().any(|r| matches!(r, RecentPaymentDetails::Pending { payment_id, .. } if *payment_id == p.id));
					if !listed_pending {
						self.w.obs.push(Obs::Api { node: p.from, what: "resend-skipped".into(), ok: true, detail: "not listed as pending".into() });
					} else {
						let hops: Vec<(usize, ChannelId)> = hops.iter().map(|(n, c)| (*n, self.chans[*c])).collect();
						let ok = self.w.send_raw(
							p.from,
							&hops,
							p.amount_msat,
							p.hash,
							lightning::ln::outbound_payment::RecipientOnionFields::secret_only(p.secret, p.amount_msat),
							p.id,
							100,
						);
						self.w.obs.push(Obs::Api { node: p.from, what: "resend-while-pending".into(), ok, detail: String::new() });
						crate::runner::witness("c03-resend-while-pending-tried");
					}
				}
			},
			Op::Open { from, to } => {
				let tid = self.w.nodes[to].id;
				let r = self.w.nodes[from].cm.create_channel(tid, 1_000_000, 400_000_000, 42, None, None);
				self.w.obs.push(Obs::Api { node: from, what: "create_channel".into(), ok: r.is_ok(), detail: format!("{:?}", r.map(|_| ())) });
				self.w.pump();
			},
			Op::SendMultiPath { from, paths, policy } => {
				let ps: Vec<(Vec<(usize, ChannelId)>, u64)> = paths.iter().map(|(h, a)| (h.iter().map(|(n, c)| (*n, self.chans[*c])).collect(), *a)).collect();
				if ps.iter().all(|(h, _)| { let mut pv = from; h.iter().all(|(n, c)| { let ok = self.w.chan(pv, c).is_some(); pv = *n; ok }) }) {
					self.w.send_multipath(from, &ps, policy);
				} else {
					self.w.obs.push(Obs::Api { node: from, what: "send-skipped".into(), ok: true, detail: "channel closed".into() });
				}
			},
			Op::SetAsync { node } => {
				self.async_on[node] = true;
				self.w.nodes[node].persist.set_async_all(true);
			},
			Op::DropLink { a, b } => {
				if self.w.is_connected(a, b) {
					self.w.disconnect(a, b);
				}
			},
			Op::Ticks { node, n } => {
				for _ in 0..n {
					self.w.nodes[node].cm.timer_tick_occurred();
					self.w.pump();
				}
				self.w.obs.push(Obs::Api { node, what: format!("ticks {}", n), ok: true, detail: String::new() });
			},
			Op::OpenBatch { from, to } => {
				self.w.batch_expected = to.len();
				for t in to.iter() {
					let tid = self.w.nodes[*t].id;
					let r = self.w.nodes[from].cm.create_channel(tid, 1_000_000, 400_000_000, 42, None, None);
					self.w.obs.push(Obs::Api { node: from, what: "create_channel".into(), ok: r.is_ok(), detail: format!("{:?}", r.map(|_| ())) });
				}
				self.w.pump();
			},
			Op::ForgeChannelReady { to, from, variant } => {
				use bitcoin::secp256k1::{PublicKey, Secp256k1, SecretKey};
				let fid = self.w.nodes[from].id;
				let cid = self.w.nodes[to].cm.list_channels().iter().find(|c| c.counterparty.node_id == fid).map(|c| c.channel_id);
				match cid {
					Some(cid) => {
						let point = PublicKey::from_secret_key(&Secp256k1::new(), &SecretKey::from_slice(&[0x40 + variant; 32]).unwrap());
						let msg = lightning::ln::msgs::ChannelReady { channel_id: cid, next_per_commitment_point: point, short_channel_id_alias: None };
						use lightning::ln::msgs::ChannelMessageHandler;
						self.w.nodes[to].cm.handle_channel_ready(fid, &msg);
						self.w.obs.push(Obs::Api { node: to, what: format!("forged-channel-ready:{}:{}", from, variant), ok: true, detail: format!("{}", cid) });
						crate::runner::witness("c05-forged-channel-ready-delivered");
					},
					None => {
						self.w.obs.push(Obs::Api { node: to, what: "forged-channel-ready-skipped".into(), ok: true, detail: "no channel".into() });
					},
				}
				self.w.pump();
			},
			Op::ConfirmFunding => {
				let broadcast = self.w.obs.iter().any(|o| matches!(o, Obs::Broadcast { b, .. } if b.kinds.iter().any(|k| k == "Funding")));
				match (broadcast, self.w.funding_txs.last().cloned()) {
					(true, Some(ftx)) if !self.w.chain.confirmed.contains_key(&ftx.compute_txid()) => {
						self.w.chain.mine(vec![ftx], true).map_err(|e| format!("{:?}", e)).expect("funding tx");
						self.w.mine_empty(5);
						self.w.sync_all();
						self.w.pump();
						crate::runner::witness("open-funding-confirmed");
					},
					_ => {
						self.w.obs.push(Obs::Api { node: 0, what: "confirm-funding-skipped".into(), ok: true, detail: String::new() });
					},
				}
			},
			Op::MineBlocks { n } => {
				self.w.mine_mempool_block();
				if n > 1 {
					self.w.mine_empty(n - 1);
				}
				self.w.sync_all();
				self.w.pump();
				self.w.obs.push(Obs::Api { node: 0, what: format!("mine_blocks {}", n), ok: true, detail: String::new() });
			},
			Op::FailHeld { pay } => {
				let (to, hash) = (self.w.payments[pay].to, self.w.payments[pay].hash);
				self.w.nodes[to].cm.fail_htlc_backwards(&hash);
				self.w.payments[pay].failed_by_recipient = true;
				self.w.pump();
			},
		}
	}

	/// Switches `get_per_commitment_point` of every channel signer of node `n` off / on (the signers share their
	/// state per channel keys id, like a remote signer would).
	fn set_signer(&mut self, n: usize, on: bool) {
		use lightning::util::test_channel_signer::SignerOp;
		let tag = b'A' + n as u8;
		let mut ids: Vec<[u8; 32]> = Vec::new();
		for o in self.w.obs.iter() {
			if let Obs::Sig(crate::base::SigEv::SignCounterpartyCommitment { node, keys_id, .. }) = o {
				if *node == tag && !ids.contains(keys_id) {
					ids.push(*keys_id);
				}
			}
		}
		for id in ids {
			let sg = self.w.nodes[n].keys.derive_channel_keys(&id);
			if on {
				sg.enable_op(SignerOp::GetPerCommitmentPoint);
			} else {
				sg.disable_op(SignerOp::GetPerCommitmentPoint);
			}
		}
	}

	fn any_claimable(&self) -> bool {
		self.w.nodes.iter().any(|n| n.mon.get_claimable_balances(&[]).iter().any(|b| b.claimable_amount_satoshis() > 0))
	}

	fn do_crash(&mut self, n: usize, choice: u32, lost: Option<(usize, crate::world::Wire)>) -> Result<(), Failure> {
		self.crashes_done += 1;
		let cands = self.w.nodes[n].persist.crash_candidates();
		let mut chosen = std::collections::BTreeMap::new();
		let mut c = choice;
		let mut stale = false;
		for (cid, v) in cands.iter() {
			let idx = (c % v.len() as u32) as usize;
			c /= v.len() as u32;
			if idx + 1 != v.len() {
				stale = true;
			}
			chosen.insert(*cid, v[idx].clone());
		}
		if stale {
			crate::runner::witness("crash-with-older-monitor-candidate");
		}
		crate::runner::witness("crash-restart");
		let mgr = self.w.nodes[n].durable_manager.clone();
		self.async_on[n] = false;
		self.held_completions[n] = false;
		self.w.restart_node(n, &chosen, mgr, lost).map_err(|e| Failure::new("restart-deserialization", e))
	}

	fn step_inner(&mut self, a: &Action) -> Result<(), Failure> {
		match a {
			Action::Events(n) => self.w.handle_events(*n),
			Action::Forward(n) => self.w.forward(*n),
			Action::Deliver(f, t) => {
				if let Some(crate::world::Wire::Raa(m)) = self.w.links.get(&(*f, *t)).and_then(|q| q.front()) {
					self.last_raa.insert((*f, *t), m.clone());
				}
				self.w.deliver(*f, *t)
			},
			Action::TamperRaa(f, t, variant) => {
				self.tampered = true;
				if let Some(crate::world::Wire::Raa(m)) = self.w.links.get_mut(&(*f, *t)).and_then(|q| q.pop_front()) {
					let mut bad = m.clone();
					match variant {
						0 => bad.per_commitment_secret[7] ^= 0x10,
						_ => {
							if let Some(prev) = self.last_raa.get(&(*f, *t)) {
								bad.per_commitment_secret = prev.per_commitment_secret;
							}
						},
					}
					self.w.obs.push(Obs::Api { node: *t, what: "tamper-raa".into(), ok: true, detail: format!("variant {}", variant) });
					self.w.deliver_wire(*f, *t, crate::world::Wire::Raa(bad));
				}
			},
			Action::TamperCommit(f, t, variant) => {
				self.tampered = true;
				if let Some(crate::world::Wire::Commit(m)) = self.w.links.get_mut(&(*f, *t)).and_then(|q| q.pop_front()) {
					let mut bad = m.clone();
					let n = bad.htlc_signatures.len();
					if *variant == 0 {
						// some other valid-format signature: an HTLC signature if there is one, else a fixed signature
						bad.signature = if n > 0 { bad.htlc_signatures[0] } else { fixed_signature() };
					} else {
						let i = (*variant - 1) as usize;
						bad.htlc_signatures[i] = if n > 1 { m.htlc_signatures[(i + 1) % n] } else { m.signature };
					}
					self.w.obs.push(Obs::Api { node: *t, what: "tamper-cs".into(), ok: true, detail: format!("variant {} of {} htlc signatures", variant, n) });
					self.w.deliver_wire(*f, *t, crate::world::Wire::Commit(bad));
				}
			},
			Action::Op(i) => {
				self.do_op(*i);
				self.next_op = *i + 1;
			},
			Action::Disconnect(a, b) => {
				self.disconnects_done += 1;
				self.w.disconnect(*a, *b);
			},
			Action::Reconnect(a, b) => self.w.connect(*a, *b),
			Action::Tick(n) => {
				self.ticks_done += 1;
				self.w.nodes[*n].cm.timer_tick_occurred();
				self.w.pump();
			},
			Action::AsyncOn(n) => {
				self.async_on[*n] = true;
				self.w.nodes[*n].persist.set_async_all(true);
			},
			Action::SignerOff(n) => {
				self.signer_blocks_done += 1;
				self.signer_off[*n] = true;
				self.set_signer(*n, false);
				crate::runner::witness("signer-unavailable");
			},
			Action::SignerOn(n) => {
				self.signer_off[*n] = false;
				self.set_signer(*n, true);
				self.w.nodes[*n].cm.signer_unblocked(None);
				self.w.pump();
			},
			Action::AsyncAfter(n, k) => {
				self.async_on[*n] = true;
				self.w.nodes[*n].persist.set_async_after(*k);
				crate::runner::witness("store-turns-async-inside-a-deferred-flush");
			},
			Action::Complete(n, _ci, id) => {
				let outs = self.w.nodes[*n].persist.outstanding();
				if let Some((cid, _)) = outs.iter().find(|(_, i)| i == id) {
					let cid = *cid;
					self.w.nodes[*n].persist.mark_completed(cid, *id);
					let r = self.w.nodes[*n].mon.channel_monitor_updated(cid, *id);
					self.w.obs.push(Obs::Completed { node: *n, chan: cid, id: *id });
					if r.is_err() {
						return Err(Failure::new("harness", format!("channel_monitor_updated failed: {:?}", r)));
					}
					self.w.pump();
				}
			},
			Action::WriteManager(n) => {
				if self.w.background_persist(*n) {
					self.w.pump();
				}
				self.w.manager_dirty[*n] = false;
			},
			Action::Finish => {
				self.finished = true;
			},
			Action::HoldEvents(n) => {
				self.holds_done += 1;
				self.held_events[*n] = true;
			},
			Action::ReleaseEvents(n) => {
				self.held_events[*n] = false;
			},
			Action::HoldLink(f, t) => {
				self.link_holds_done += 1;
				self.held_links.insert((*f, *t));
			},
			Action::HoldManager(n) => {
				self.mgr_holds_done += 1;
				self.held_manager[*n] = true;
				self.w.manager_write_held[*n] = true;
			},
			Action::HoldCompletions(n) => {
				self.completion_holds_done += 1;
				self.held_completions[*n] = true;
				crate::runner::witness("completions-held");
			},
			Action::ReleaseManager(n) => {
				self.held_manager[*n] = false;
				self.w.manager_write_held[*n] = false;
				if self.w.background_persist(*n) {
					self.w.pump();
				}
			},
			Action::ReleaseLink(f, t) => {
				self.held_links.remove(&(*f, *t));
			},
			Action::Mine => {
				self.mines_done += 1;
				self.stalled = false;
				self.needs_bury = true;
				if std::env::var("MC_TRACE").is_ok() {
					for t in self.w.chain.mempool.iter() {
						eprintln!("    mempool tx {} inputs {:?} outs {:?}", t.compute_txid(), t.input.iter().map(|i| format!("{}:{}", &i.previous_output.txid.to_string()[..8], i.previous_output.vout)).collect::<Vec<_>>(), t.output.iter().map(|o| o.value.to_sat()).collect::<Vec<_>>());
					}
				}
				self.w.mine_mempool_block();
				self.w.sync_all();
			},
			Action::Stall(k) => {
				self.stalled = true;
				for j in 0..*k {
					if let Some(r) = self.fee_after_first_stall_block {
						if j == 1 {
							for n in 0..self.w.nodes.len() {
								*self.w.nodes[n].fee.sat_per_kw.lock().unwrap() = r;
							}
						}
					}
					self.w.mine_empty(1);
					self.w.sync_all();
					let held = self.held_events.clone();
					self.w.handle_all_events(&held);
				}
			},
			Action::Sweep(n) => {
				self.sweep_tries += 1;
				match self.w.try_sweep(*n) {
					Ok(Some(Err(crate::chain::Reject::NonFinal(_)))) => {
						// a CSV-delayed output is not mature yet: let a few blocks pass and retry
						self.w.mine_empty(12);
						self.w.sync_all();
					},
					Ok(Some(Err(e))) => {
						return Err(Failure::new(
							"spendable-outputs-spendable",
							format!("the spend of node {}'s SpendableOutputs built by its own keys is not valid: {:?}", n, e),
						));
					},
					Ok(_) => {
						crate::runner::witness("spendable-outputs-swept");
					},
					Err(e) => return Err(Failure::new("spendable-outputs-spendable", e)),
				}
			},
			Action::MineEmpty(k) => {
				// empty blocks one at a time; stop as soon as somebody has something to confirm so that
				// transactions confirm promptly (the miner is not starving anybody)
				let mut done = 0;
				while done < *k {
					self.w.mine_empty(1);
					self.w.sync_all();
					let held = self.held_events.clone();
					self.w.handle_all_events(&held);
					done += 1;
					if !self.w.chain.minable(&|_| 0).is_empty() {
						break;
					}
				}
				if *k > 100 {
					self.jump_left = self.jump_left.saturating_sub(done);
					if self.jump_left == 0 {
						self.jumped = true;
					}
					self.mines_done = 0;
				} else if done == *k {
					self.needs_bury = false;
				}
			},
			Action::Crash(n, choice) => {
				self.do_crash(*n, *choice, None)?;
			},
			Action::CrashInside(n, k, after) => {
				// run the default next action with a crash armed at the k-th Persist call of node n
				let default = match self.default_actions().into_iter().next() {
					Some(d) => d,
					None => return Ok(()),
				};
				let lost = match &default {
					Action::Deliver(f, t) => self.w.links.get(&(*f, *t)).and_then(|q| q.front().cloned()).map(|w| (*f, w)),
					_ => None,
				};
				self.w.nodes[*n].persist.inner.lock().unwrap().crash_inside = Some((*k, *after));
				let manager_before = self.w.nodes[*n].durable_manager.clone();
				let res = std::panic::catch_unwind(std::panic::AssertUnwindSafe(|| self.step_inner(&default)));
				match res {
					Ok(r) => {
						// the handler made fewer Persist calls: nothing happened
						self.w.nodes[*n].persist.inner.lock().map(|mut g| g.crash_inside = None).ok();
						crate::runner::witness("crash-inside-not-reached");
						r?;
					},
					Err(payload) => {
						if payload.is::<crate::persist::CrashNow>() {
							crate::runner::witness(if *after { "crash-inside-after-write" } else { "crash-inside-before-write" });
							// deferred mode: the monitor writes happen in the background task's flush, after it wrote the
							// manager - the durable manager has then already processed the message of this step
							let lost = if self.w.nodes[*n].deferred && self.w.nodes[*n].durable_manager != manager_before {
								crate::runner::witness("crash-between-manager-write-and-deferred-monitor-write");
								None
							} else {
								lost
							};
							self.do_crash(*n, 0, lost)?;
						} else {
							std::panic::resume_unwind(payload);
						}
					},
				}
			},
		}
		Ok(())
	}

	fn run_oracles(&mut self) -> Result<(), Failure> {
		let obs = self.w.new_obs();
		if std::env::var("MC_TRACE").is_ok() {
			for o in obs.iter() {
				eprintln!("    {}", crate::world::obs_summary(o));
			}
		}
		for o in self.oracles.iter_mut() {
			o.observe(&self.w, &obs)?;
		}
		Ok(())
	}
}

impl System for WorldSys {
	type Action = Action;

	fn enabled(&mut self) -> Vec<(Action, u32)> {
		let defaults = self.default_actions();
		let mut out: Vec<(Action, u32)> = Vec::new();
		if defaults.is_empty() {
			if self.finished {
				return out;
			}
			out.push((Action::Finish, 0));
		} else {
			for (i, a) in defaults.iter().enumerate() {
				let c = self.cost_of(i, a);
				if c != u32::MAX {
					out.push((a.clone(), c));
				}
			}
		}
		if self.finished {
			// settling phase: defaults only, except that a node may still crash inside a block connection
			out.truncate(1);
			if let (Some(c), true) = (self.dev.crash_inside, self.crashes_done < self.max_crashes) {
				if let Some((Action::Mine, _)) | Some((Action::MineEmpty(_), _)) = out.first() {
					let kmax = if matches!(out.first(), Some((Action::MineEmpty(_), _))) { 8 } else { 2 };
					for &t in self.crash_nodes.iter() {
						for k in 0..kmax {
							out.push((Action::CrashInside(t, k, true), c));
						}
					}
				}
			}
			if let (Some(c), true, true) = (self.dev.crash, self.dev.crash_after_finish_only, self.crashes_done < self.max_crashes) {
				// between any two steps of the on-chain resolution, from any admissible durable state
				for &i in self.crash_nodes.iter() {
					let cands = self.w.nodes[i].persist.crash_candidates();
					let product: u32 = cands.values().map(|v| v.len() as u32).product::<u32>().max(1);
					for choice in 0..product.min(self.dev.crash_choices_max.unwrap_or(8)) {
						out.push((Action::Crash(i, choice), c));
					}
				}
			}
			return out;
		}
		let n = self.w.nodes.len();
		if let Some(c) = self.dev.disconnect {
			if self.disconnects_done < self.max_disconnects {
				for a in 0..n {
					for b in (a + 1)..n {
						if self.w.is_connected(a, b) {
							out.push((Action::Disconnect(a, b), c));
						}
					}
				}
			}
		}
		if let Some(c) = self.dev.tick {
			if self.ticks_done < 2 {
				for i in 0..n {
					out.push((Action::Tick(i), c));
				}
			}
		}
		{
			if let (Some(c), true) = (self.dev.hold_events, self.holds_done < self.max_holds) {
				for i in 0..n {
					if !self.held_events[i] {
						out.push((Action::HoldEvents(i), c));
					}
				}
			}
			if let (Some(c), true) = (self.dev.hold_manager, self.mgr_holds_done < 1) {
				for &i in self.crash_nodes.iter() {
					if !self.held_manager[i] {
						out.push((Action::HoldManager(i), c));
					}
				}
			}
			if let (Some(c), true) = (self.dev.hold_completions, self.completion_holds_done < 1) {
				for &i in self.crash_nodes.iter() {
					// meaningful only for a node whose writes are asynchronous and all caught up at this point
					if self.async_on[i] && !self.held_completions[i] && self.w.nodes[i].persist.outstanding().is_empty() && !self.finished {
						out.push((Action::HoldCompletions(i), c));
					}
				}
			}
			if let (Some(c), true) = (self.dev.hold_link, self.link_holds_done < 1) {
				for a in 0..n {
					for b in 0..n {
						if a != b
							&& self.w.is_connected(a, b)
							&& !self.held_links.contains(&(a, b))
							&& self.dev.hold_link_only.map(|l| l == (a, b)).unwrap_or(true)
							&& (!self.dev.hold_link_before_commit_msgs_only
								|| matches!(self.w.links.get(&(a, b)).and_then(|q| q.front()), Some(crate::world::Wire::Commit(_)) | Some(crate::world::Wire::Raa(_))))
						{
							out.push((Action::HoldLink(a, b), c));
						}
					}
				}
			}
		}
		if let Some(c) = self.dev.tamper_commit {
			if !self.tampered {
				for ((f, t), q) in self.w.links.iter() {
					if let Some(crate::world::Wire::Commit(m)) = q.front() {
						for v in 0..=(m.htlc_signatures.len() as u8) {
							out.push((Action::TamperCommit(*f, *t, v), c));
						}
					}
				}
			}
		}
		if let Some(c) = self.dev.tamper_raa {
			if !self.tampered {
				for ((f, t), q) in self.w.links.iter() {
					if let Some(crate::world::Wire::Raa(_)) = q.front() {
						out.push((Action::TamperRaa(*f, *t, 0), c));
						if self.last_raa.contains_key(&(*f, *t)) {
							out.push((Action::TamperRaa(*f, *t, 1), c));
						}
					}
				}
			}
		}
		if self.crashes_done < self.max_crashes {
			if let (Some(c), true) = (self.dev.crash, !self.dev.crash_after_finish_only || self.finished) {
				for &i in self.crash_nodes.iter() {
					let cands = self.w.nodes[i].persist.crash_candidates();
					let product: u32 = cands.values().map(|v| v.len() as u32).product::<u32>().max(1);
					for choice in 0..product.min(self.dev.crash_choices_max.unwrap_or(8)) {
						out.push((Action::Crash(i, choice), c));
					}
				}
			}
			if let (Some(c), false) = (self.dev.crash_inside, self.dev.crash_inside_settle_only) {
				let target = match out.first().map(|x| &x.0) {
					Some(Action::Deliver(_, t)) => Some(*t),
					Some(Action::Events(t)) | Some(Action::Forward(t)) | Some(Action::Complete(t, _, _)) => Some(*t),
					_ => None,
				};
				if let Some(t) = target {
					if self.crash_nodes.contains(&t) {
						for k in 0..3u32 {
							for after in [false, true] {
								out.push((Action::CrashInside(t, k, after), c));
							}
						}
					}
				}
			}
		}
		if let Some(c) = self.dev.async_persist {
			for i in 0..n {
				if !self.async_on[i] {
					out.push((Action::AsyncOn(i), c));
				}
			}
		}
		if let (Some(c), true) = (self.dev.signer_block, self.signer_blocks_done < 1) {
			for i in 0..n {
				if !self.signer_off[i] {
					out.push((Action::SignerOff(i), c));
				}
			}
		}
		if let Some(c) = self.dev.async_after {
			for i in 0..n {
				if self.w.nodes[i].deferred && !self.async_on[i] {
					let queued = self.w.nodes[i].mon.pending_operation_count() as u32;
					for k in 1..queued {
						out.push((Action::AsyncAfter(i, k), c));
					}
				}
			}
		}
		out
	}

	fn step(&mut self, a: &Action) -> Result<(), Failure> {
		self.w.step_count += 1;
		if std::env::var("MC_TRACE").is_ok() {
			eprintln!("STEP {}", encode_action(a));
		}
		self.step_inner(a)?;
		self.run_oracles()
	}

	fn finish(&mut self) -> Result<String, Failure> {
		let mut label = String::new();
		for (pi, kind, lim, min) in self.probes.clone() {
			use lightning::events::Event;
			let p = self.w.payments[pi].clone();
			let add_sent = self.w.obs.iter().any(|o| matches!(o, Obs::Sent { wire: crate::world::Wire::Add(m), .. } if m.payment_hash == p.hash));
			let sent = self.w.obs.iter().any(|o| matches!(o, Obs::Event { ev: Event::PaymentSent { payment_hash, .. }, .. } if *payment_hash == p.hash));
			let failed = self.w.obs.iter().any(|o| matches!(o, Obs::Event { ev: Event::PaymentFailed { payment_hash: Some(h), .. }, .. } if *h == p.hash));
			if !self.judge_probes {
				label.push_str(&format!("{:?}:{}:{}{};", kind, lim, if sent { "S" } else { "" }, if failed { "F" } else { "" }));
				continue;
			}
			match kind {
				ProbeKind::AtLimit | ProbeKind::AtMin => {
					crate::runner::witness(if kind == ProbeKind::AtLimit { "probe-at-limit" } else { "probe-at-minimum" });
					if kind == ProbeKind::AtLimit && self.probes_with_fee_in_flight.contains(&pi) && p.send_ok && !add_sent && !sent && failed {
						// root cause named: the limit was read while the sender's own feerate increase was in flight
						return Err(Failure::new(
							"send-limits-exact",
							format!(
								"fields=[limit-reported-while-own-update_fee-in-flight-ignores-the-new-feerate]: HTLC of {} msat, exactly the reported next_outbound_htlc_limit_msat, was queued behind the sender's own uncommitted update_fee and refused locally when released (PaymentFailed, nothing sent, channel unharmed)",
								p.amount_msat
							),
						));
					}
					if kind == ProbeKind::AtLimit && self.probes_with_fee_queued.contains(&pi) && p.send_ok && add_sent && !sent && failed {
						// same root cause, other manifestation: the funder's feerate increase was still waiting in the holding
						// cell at the probe; add + update_fee went out together and the peer failed the HTLC back
						return Err(Failure::new(
							"send-limits-exact",
							format!(
								"fields=[limit-reported-while-own-feerate-increase-queued-ignores-the-new-feerate]: HTLC of {} msat, exactly the reported next_outbound_htlc_limit_msat, was sent together with the funder's queued update_fee and failed back by the peer (PaymentFailed, channel unharmed)",
								p.amount_msat
							),
						));
					}
					if !p.send_ok || !add_sent || !sent {
						return Err(Failure::new(
							"send-limits-exact",
							format!(
								"HTLC of {} msat inside the reported limits (limit {} min {}) was not carried through: send_ok={} add_sent={} PaymentSent={} PaymentFailed={} ({})",
								p.amount_msat, lim, min, p.send_ok, add_sent, sent, failed, p.send_err
							),
						));
					}
				},
				ProbeKind::AboveLimit | ProbeKind::BelowMin => {
					crate::runner::witness(if kind == ProbeKind::AboveLimit { "probe-above-limit" } else { "probe-below-minimum" });
					if add_sent || sent {
						return Err(Failure::new(
							"send-limits-exact",
							format!(
								"HTLC of {} msat outside the reported limits (limit {} min {}) was not refused locally: add_sent={} PaymentSent={}",
								p.amount_msat, lim, min, add_sent, sent
							),
						));
					}
					if p.send_ok && !failed {
						return Err(Failure::new("send-limits-exact", "refused HTLC produced no PaymentFailed".to_string()));
					}
				},
			}
			label.push_str(&format!("{:?}:{};", kind, lim));
		}
		let mut oracles = std::mem::take(&mut self.oracles);
		let mut res = Ok(());
		for o in oracles.iter_mut() {
			match o.at_end(&mut self.w) {
				Ok(s) => {
					if !s.is_empty() {
						if !label.is_empty() {
							label.push('|');
						}
						label.push_str(&s);
					}
				},
				Err(e) => {
					res = Err(e);
					break;
				},
			}
		}
		self.oracles = oracles;
		res.map(|_| label)
	}

	fn encode(a: &Action) -> String {
		encode_action(a)
	}
	fn decode(s: &str) -> Option<Action> {
		decode_action(s)
	}
}
