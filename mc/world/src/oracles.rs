//! Generic oracles shared by the world checks.
use crate::base::{CommitInfo, SigEv};
use crate::model::{expected_tx, ChanParams, ChanType, Item, Upd, WireModel, INITIAL_COMMITMENT_NUMBER};
use crate::sys::Oracle;
use crate::world::{Obs, Wire, World};
use lightning::events::{ClosureReason, Event};
use lightning::ln::types::ChannelId;
use mc_common::explore::Failure;
use std::collections::BTreeMap;

/// Channel parameters derived from the open/accept messages observed during set-up.
#[derive(Clone, Debug)]
pub struct ChanInfo {
	pub cid: ChannelId,
	/// node indices; nodes[0] < nodes[1]; side i of the model = nodes[i]
	pub nodes: [usize; 2],
	pub params: ChanParams,
	pub reserve_sat: [u64; 2],
	pub htlc_minimum_msat: [u64; 2],
	pub funding: Option<(bitcoin::Txid, u16)>,
}

pub fn chan_infos(w: &World, chans: &[ChannelId]) -> Vec<ChanInfo> {
	let mut opens = Vec::new();
	let mut accepts = Vec::new();
	for o in w.obs.iter() {
		match o {
			Obs::Delivered { from, to, wire: Wire::Open(m) } => opens.push((*from, *to, m.clone())),
			Obs::Delivered { from, to, wire: Wire::Accept(m) } => accepts.push((*from, *to, m.clone())),
			_ => {},
		}
	}
	assert_eq!(opens.len(), chans.len());
	assert_eq!(accepts.len(), chans.len());
	let mut out = Vec::new();
	for (i, cid) in chans.iter().enumerate() {
		let (opener, acceptor, open) = &opens[i];
		let (_, _, accept) = &accepts[i];
		let nodes = [*opener.min(acceptor), *opener.max(acceptor)];
		let side_of = |n: usize| if n == nodes[0] { 0 } else { 1 };
		let ct = accept.common_fields.channel_type.clone().expect("channel_type");
		let chan_type = if ct.supports_anchor_zero_fee_commitments() {
			ChanType::ZeroFeeCommitments
		} else if ct.supports_anchors_zero_fee_htlc_tx() {
			ChanType::AnchorsZeroFeeHtlc
		} else {
			ChanType::StaticRemoteKey
		};
		let mut dust = [0u64; 2];
		dust[side_of(*opener)] = open.common_fields.dust_limit_satoshis;
		dust[side_of(*acceptor)] = accept.common_fields.dust_limit_satoshis;
		let mut reserve = [0u64; 2];
		// open.channel_reserve_satoshis is the reserve the *acceptor* must keep, and vice versa
		reserve[side_of(*acceptor)] = open.channel_reserve_satoshis;
		reserve[side_of(*opener)] = accept.channel_reserve_satoshis;
		let mut hmin = [0u64; 2];
		// htlc_minimum_msat announced by X = minimum X accepts *inbound*
		hmin[side_of(*opener)] = open.common_fields.htlc_minimum_msat;
		hmin[side_of(*acceptor)] = accept.common_fields.htlc_minimum_msat;
		out.push(ChanInfo {
			cid: *cid,
			nodes,
			params: ChanParams {
				funder: side_of(*opener),
				value_sat: open.common_fields.funding_satoshis,
				push_msat: open.push_msat,
				dust_limit_sat: dust,
				chan_type,
				initial_feerate: open.common_fields.commitment_feerate_sat_per_1000_weight,
			},
			reserve_sat: reserve,
			htlc_minimum_msat: hmin,
			funding: None,
		});
	}
	out
}

// -------------------------------------------------------------------------------------------------
/// Honest operation never ends in a protocol error, warning, disconnect request or force-closure.
pub struct NoErrorOracle {
	/// closure by a *requested* cooperative shutdown is fine
	pub allow_coop: bool,
	pub allow_force_by_user: bool,
}

impl Oracle for NoErrorOracle {
	fn name(&self) -> &'static str {
		"no-protocol-error"
	}
	fn observe(&mut self, _w: &World, obs: &[Obs]) -> Result<(), Failure> {
		for o in obs {
			match o {
				Obs::Sent { from, to, wire: Wire::Error(m) } => {
					if !self.allow_force_by_user {
						return Err(Failure::new("no-protocol-error", format!("node {} sent error to {}: {}", from, to, m.data)));
					}
				},
				Obs::Sent { from, to, wire: Wire::Warning(m) } => {
					return Err(Failure::new("no-protocol-error", format!("node {} sent warning to {}: {}", from, to, m.data)));
				},
				Obs::Sent { from, to, wire: Wire::DisconnectMarker } => {
					return Err(Failure::new("no-protocol-error", format!("node {} asked to disconnect {}", from, to)));
				},
				Obs::Event { node, ev: Event::ChannelClosed { reason, .. } } => {
					let ok = match reason {
						ClosureReason::LegacyCooperativeClosure
						| ClosureReason::CounterpartyInitiatedCooperativeClosure
						| ClosureReason::LocallyInitiatedCooperativeClosure => self.allow_coop,
						ClosureReason::HolderForceClosed { .. } => self.allow_force_by_user,
						ClosureReason::CounterpartyForceClosed { .. } => self.allow_force_by_user,
						ClosureReason::CommitmentTxConfirmed => self.allow_force_by_user,
						_ => false,
					};
					if !ok {
						return Err(Failure::new("no-protocol-error", format!("node {} closed channel: {:?}", node, reason)));
					}
				},
				Obs::ErrorAction { from, what, .. } if what.starts_with("unrouted") => {
					return Err(Failure::new("harness", format!("node {}: {}", from, what)));
				},
				_ => {},
			}
		}
		Ok(())
	}
}

// -------------------------------------------------------------------------------------------------
/// C01 core: every commitment a node accepts equals what the BOLT-2 wire model + BOLT-3 arithmetic
/// say it must be; every commitment a node signs is structurally sound and spends the funding
/// output; the signer's and the acceptor's transaction for the same number are identical.
pub struct CommitmentOracle {
	pub chans: Vec<ChanInfo>,
	pub models: Vec<WireModel>,
	/// per (chan, owner side): expected commitments not yet matched with an accepted holder commitment
	pending: BTreeMap<(usize, usize), Vec<crate::model::ModelCommitment>>,
	/// txid of the latest counterparty commitment signed per (chan, signer side, number)
	signed: BTreeMap<(usize, usize, u64), bitcoin::Txid>,
	pub checked: u64,
	pub max_pending_htlcs: usize,
	pub saw_trimmed: bool,
	pub saw_both_directions_pending: bool,
	pub closed: Vec<bool>,
}

impl CommitmentOracle {
	pub fn new(chans: Vec<ChanInfo>) -> Self {
		let models = chans.iter().map(|c| WireModel::new(c.params.clone())).collect();
		let closed = vec![false; chans.len()];
		CommitmentOracle {
			chans,
			models,
			pending: BTreeMap::new(),
			signed: BTreeMap::new(),
			checked: 0,
			max_pending_htlcs: 0,
			saw_trimmed: false,
			saw_both_directions_pending: false,
			closed,
		}
	}
	fn chan_idx(&self, cid: &ChannelId) -> Option<usize> {
		self.chans.iter().position(|c| c.cid == *cid)
	}
	fn side(&self, ci: usize, node: usize) -> Option<usize> {
		self.chans[ci].nodes.iter().position(|n| *n == node)
	}

	fn structural(&self, ci: usize, info: &CommitInfo, who: &str) -> Result<(), Failure> {
		let p = &self.chans[ci].params;
		let f = |d: String| Failure::new("commitment-conservation", format!("{} commitment {}: {}", who, INITIAL_COMMITMENT_NUMBER - info.number, d));
		if info.tx.input.len() != 1 {
			return Err(f(format!("{} inputs", info.tx.input.len())));
		}
		if let Some((txid, idx)) = info.funding_outpoint {
			let op = info.tx.input[0].previous_output;
			if op.txid != txid || op.vout != idx as u32 {
				return Err(f("does not spend the funding outpoint".into()));
			}
		}
		let sum: u64 = info.tx.output.iter().map(|o| o.value.to_sat()).sum();
		if sum > p.value_sat {
			return Err(f(format!("outputs {} exceed channel value {}", sum, p.value_sat)));
		}
		let base_fee = info.feerate_per_kw as u64 * crate::model::commit_weight(p.chan_type, info.htlcs.len()) / 1000;
		if p.chan_type != ChanType::ZeroFeeCommitments && p.value_sat - sum < base_fee {
			return Err(f(format!("implied fee {} below BOLT-3 fee {}", p.value_sat - sum, base_fee)));
		}
		Ok(())
	}

	fn compare(&mut self, ci: usize, owner: usize, exp: &crate::model::ModelCommitment, got: &CommitInfo) -> Result<(), Failure> {
		let p = self.chans[ci].params.clone();
		let fail = |d: String| {
			Failure::new(
				"commitment-agreement",
				format!("chan {} side {} commitment #{}: {}", ci, owner, INITIAL_COMMITMENT_NUMBER - got.number, d),
			)
		};
		if exp.number != got.number {
			return Err(fail(format!("number: model {} code {}", exp.number, got.number)));
		}
		if p.chan_type == ChanType::ZeroFeeCommitments {
			// only conservation for this type (no merged BOLT-3 text to transcribe)
			let sum: u64 = got.tx.output.iter().map(|o| o.value.to_sat()).sum();
			if sum > p.value_sat {
				return Err(fail("outputs exceed channel value".into()));
			}
		} else {
			if exp.feerate != got.feerate_per_kw {
				return Err(fail(format!("feerate: model {} code {}", exp.feerate, got.feerate_per_kw)));
			}
			let e = expected_tx(&p, exp).map_err(|s| fail(format!("model cannot build: {}", s)))?;
			let mut outs: Vec<u64> = got.tx.output.iter().map(|o| o.value.to_sat()).collect();
			outs.sort();
			if outs != e.outputs {
				return Err(fail(format!(
					"outputs differ: model {:?} (balances {:?} msat, htlcs {:?}, fee {}) code {:?}",
					e.outputs,
					exp.balance_msat,
					exp.htlcs.iter().map(|h| (h.offerer, h.amount_msat)).collect::<Vec<_>>(),
					e.fee_sat,
					outs
				)));
			}
			let mut got_h: Vec<(bool, u64, [u8; 32])> = got.htlcs.iter().map(|h| (h.0, h.1, h.3)).collect();
			got_h.sort();
			if got_h != e.untrimmed {
				return Err(fail(format!("untrimmed HTLC set differs: model {:?} code {:?}", e.untrimmed.len(), got_h.len())));
			}
			let total: u64 = outs.iter().sum::<u64>() + e.fee_sat;
			let dust_and_rounding = p.value_sat - total;
			// everything not in an output or the BOLT-3 fee is trimmed HTLC value, trimmed balances or msat rounding
			let max_slack = (e.trimmed_sum_msat + 999) / 1000
				+ if e.to_local_sat < p.dust_limit_sat[owner] { e.to_local_sat } else { 0 }
				+ if e.to_remote_sat < p.dust_limit_sat[owner] { e.to_remote_sat } else { 0 }
				+ exp.htlcs.len() as u64 + 2 + 660;
			if dust_and_rounding > max_slack {
				return Err(fail(format!("{} sat unaccounted (max slack {})", dust_and_rounding, max_slack)));
			}
			if e.trimmed_sum_msat > 0 {
				self.saw_trimmed = true;
			}
		}
		self.max_pending_htlcs = self.max_pending_htlcs.max(exp.htlcs.len());
		if exp.htlcs.iter().any(|h| h.offerer == 0) && exp.htlcs.iter().any(|h| h.offerer == 1) {
			self.saw_both_directions_pending = true;
		}
		self.checked += 1;
		Ok(())
	}
}

fn hash_of(h: &lightning::types::payment::PaymentHash) -> [u8; 32] {
	h.0
}

impl Oracle for CommitmentOracle {
	fn name(&self) -> &'static str {
		"commitment"
	}
	fn observe(&mut self, _w: &World, obs: &[Obs]) -> Result<(), Failure> {
		for o in obs {
			match o {
				Obs::Delivered { to, wire, .. } => {
					let cid = match wire.channel_id() {
						Some(c) => c,
						None => continue,
					};
					let ci = match self.chan_idx(&cid) {
						Some(c) => c,
						None => continue,
					};
					let side = match self.side(ci, *to) {
						Some(s) => s,
						None => continue,
					};
					let item = match wire {
						Wire::Add(m) => Item::Upd(Upd::Add {
							id: m.htlc_id,
							amount_msat: m.amount_msat,
							hash: hash_of(&m.payment_hash),
							cltv: m.cltv_expiry,
						}),
						Wire::Fulfill(m) => Item::Upd(Upd::Fulfill { id: m.htlc_id }),
						Wire::Fail(m) => Item::Upd(Upd::Fail { id: m.htlc_id }),
						Wire::FailMalformed(m) => Item::Upd(Upd::Fail { id: m.htlc_id }),
						Wire::Fee(m) => Item::Upd(Upd::Fee { rate: m.feerate_per_kw }),
						Wire::Commit(_) => Item::Commit,
						Wire::Raa(_) => Item::Raa,
						Wire::Error(_) => {
							self.closed[ci] = true;
							continue;
						},
						_ => continue,
					};
					let is_commit = item == Item::Commit;
					self.models[ci].on_recv(side, item);
					if is_commit {
						let exp = self.models[ci]
							.commitment_of(side)
							.map_err(|e| Failure::new("commitment-agreement", format!("wire model: {}", e)))?;
						self.pending.entry((ci, side)).or_default().push(exp);
					}
				},
				Obs::Disconnected { a, b } => {
					for ci in 0..self.chans.len() {
						if self.chans[ci].nodes == [*a.min(b), *a.max(b)] {
							self.models[ci].on_disconnect();
						}
					}
				},
				Obs::Persist { node, rec } => {
					if rec.holder_commits.is_empty() {
						continue;
					}
					let ci = match self.chan_idx(&rec.chan) {
						Some(c) => c,
						None => continue,
					};
					let side = match self.side(ci, *node) {
						Some(s) => s,
						None => continue,
					};
					for hc in rec.holder_commits.iter() {
						let q = self.pending.entry((ci, side)).or_default();
						let pos = q.iter().position(|e| e.number == hc.number);
						let exp = match pos {
							Some(p) => q.remove(p),
							None => {
								return Err(Failure::new(
									"commitment-agreement",
									format!(
										"node {} accepted holder commitment #{} that no delivered commitment_signed accounts for",
										node,
										INITIAL_COMMITMENT_NUMBER - hc.number
									),
								))
							},
						};
						self.structural(ci, hc, "accepted holder")?;
						self.compare(ci, side, &exp, hc)?;
						// the signer built the same transaction
						if let Some(txid) = self.signed.get(&(ci, 1 - side, hc.number)) {
							if *txid != hc.txid {
								return Err(Failure::new(
									"commitment-agreement",
									format!("signer and acceptor disagree on commitment #{}", INITIAL_COMMITMENT_NUMBER - hc.number),
								));
							}
						}
					}
				},
				Obs::Sig(SigEv::SignCounterpartyCommitment { node, info, .. }) => {
					let node = &((*node - b'A') as usize);
					// find the channel by funding outpoint / by node membership
					for ci in 0..self.chans.len() {
						if let Some(side) = self.side(ci, *node) {
							let matches = match (info.funding_outpoint, self.chans[ci].funding) {
								(Some(a), Some(b)) => a == b,
								_ => self.chans.iter().filter(|c| c.nodes.contains(node)).count() == 1 || info.channel_value_sat == self.chans[ci].params.value_sat,
							};
							if matches {
								if info.number != INITIAL_COMMITMENT_NUMBER {
									self.structural(ci, info, "signed counterparty")?;
								}
								self.signed.insert((ci, side, info.number), info.txid);
								break;
							}
						}
					}
				},
				Obs::Event { ev: Event::ChannelClosed { channel_id, .. }, .. } => {
					if let Some(ci) = self.chan_idx(channel_id) {
						self.closed[ci] = true;
					}
				},
				_ => {},
			}
		}
		Ok(())
	}

	fn at_end(&mut self, w: &mut World) -> Result<String, Failure> {
		// every delivered commitment_signed must have produced an accepted holder commitment
		for ((ci, side), q) in self.pending.iter() {
			if !q.is_empty() && !self.closed[*ci] {
				return Err(Failure::new(
					"commitment-agreement",
					format!("chan {} side {}: {} delivered commitment_signed never accepted", ci, side, q.len()),
				));
			}
		}
		// ledger: final model balances = opening ± settled payments
		let mut label = String::new();
		for ci in 0..self.chans.len() {
			if self.closed[ci] {
				label.push_str("closed;");
				continue;
			}
			let c = &self.chans[ci];
			let mut exp: [i128; 2] = [0, 0];
			exp[c.params.funder] = c.params.value_sat as i128 * 1000 - c.params.push_msat as i128;
			exp[1 - c.params.funder] = c.params.push_msat as i128;
			let mut unresolved = 0;
			if self.chans.len() == 1 {
				for p in w.payments.iter() {
					if !p.send_ok {
						continue;
					}
					let sent = w.obs.iter().any(|o| matches!(o, Obs::Event { ev: Event::PaymentSent { payment_hash, .. }, .. } if *payment_hash == p.hash));
					let failed = w.obs.iter().any(|o| matches!(o, Obs::Event { ev: Event::PaymentFailed { payment_hash: Some(h), .. }, .. } if *h == p.hash));
					let fs = self.side(ci, p.from).unwrap();
					let ts = self.side(ci, p.to).unwrap();
					if sent {
						exp[fs] -= p.amount_msat as i128;
						exp[ts] += p.amount_msat as i128;
					} else if !failed {
						unresolved += 1;
					}
				}
				if unresolved == 0 {
					for side in 0..2 {
						if self.models[ci].commits_received[side] == 0 {
							continue;
						}
						let m = self.models[ci]
							.commitment_of(side)
							.map_err(|e| Failure::new("commitment-agreement", format!("wire model at end: {}", e)))?;
						if !m.htlcs.is_empty() {
							return Err(Failure::new(
								"balance-ledger",
								format!("chan {}: {} HTLCs still pending in side {}'s commitment although every payment is resolved", ci, m.htlcs.len(), side),
							));
						}
						if m.balance_msat[0] as i128 != exp[0] || m.balance_msat[1] as i128 != exp[1] {
							return Err(Failure::new(
								"balance-ledger",
								format!("chan {}: final balances {:?} != opening ± settled {:?}", ci, m.balance_msat, exp),
							));
						}
					}
				}
			}
			label.push_str(&format!("u{}", unresolved));
		}
		Ok(label)
	}
}
